#!/bin/bash
# tools/seeded.sh <worktree> <property> <variant A|B> <name>
# 1. confirms the seeded change in the scratch worktree: applies, builds, full
#    test suite passes, demo fails with it and passes without it;
# 2. applies it to /repo, runs the property's quick check (and all checks with
#    `all`), reverts /repo;
# 3. stores patch, demo and meta under /verif/seeded/<name>/.
set -u
DEMO_TEST="${DEMO_TEST:-}"
export GOFLAGS=-mod=mod GOPROXY=off GOSUMDB=off GOTOOLCHAIN=local; unset GOWORK
WT="$1"; PROP="$2"; VAR="$3"; NAME="$4"
S="$WT/SEEDED/$VAR"
[ -f "$S/patch.diff" ] || { echo "no patch at $S/patch.diff"; exit 2; }
cd "$WT" || exit 2
git checkout -q -- . 
DEMO=$(ls "$S"/demo/*.sh 2>/dev/null | head -1)
echo "== confirm in scratch worktree $WT"
git apply --check "$S/patch.diff" || { echo "PATCH-DOES-NOT-APPLY"; exit 3; }
git apply "$S/patch.diff"
BUILD=ok; go build ./... >/dev/null 2>&1 || BUILD=FAIL
# demo test files that must be copied
for t in "$S"/demo/*_test.go; do [ -f "$t" ] && echo "   (test file demo: $t — see README)"; done
TESTS=$(go test -count=1 ./... 2>&1 | grep -v "no test files" | grep -v "^ok" | head -5)
[ -z "$TESTS" ] && TESTS=pass
WITH=na; WITHOUT=na
# DEMO_TEST="<file under demo/>:<package dir>:<test name>": a Go test file that is copied into the package for the run
rundemo() {
  if [ -n "${DEMO_TEST:-}" ]; then
    IFS=: read -r tf pkg tn <<<"$DEMO_TEST"
    cp "$S/demo/$tf" "$WT/$pkg/zz_seeded_demo_test.go"
    (cd "$WT" && go test -count=1 -run "$tn" "./$pkg") ; rc=$?
    rm -f "$WT/$pkg/zz_seeded_demo_test.go"; return $rc
  fi
  bash "$DEMO"
}
if [ -n "$DEMO$DEMO_TEST" ]; then rundemo >/tmp/demo-with.txt 2>&1; WITH=$?; fi
git checkout -q -- .
if [ -n "$DEMO$DEMO_TEST" ]; then rundemo >/tmp/demo-without.txt 2>&1; WITHOUT=$?; fi
echo "   build=$BUILD tests=$TESTS demo_with_change_rc=$WITH demo_without_change_rc=$WITHOUT"
echo "== run /verif checks against it"
cd /repo && git apply "$S/patch.diff" || { echo "does not apply to /repo"; exit 3; }
cd /verif
OUT=$(./check "$PROP" quick 2>&1); RC=$?
git -C /repo checkout -q -- .
echo "$OUT" | grep "VIOLATED\|UNDECIDED\|FLOOR\|VIOLATION" | cut -c1-400 | head -8
echo "   check $PROP rc=$RC"
mkdir -p "/verif/seeded/$NAME"
cp "$S/patch.diff" "/verif/seeded/$NAME/patch.diff"
rm -rf "/verif/seeded/$NAME/demo"; cp -r "$S/demo" "/verif/seeded/$NAME/demo"
python3 - "$S/meta.json" "/verif/seeded/$NAME/meta.json" "$PROP" "$BUILD" "$TESTS" "$WITH" "$WITHOUT" "$RC" <<'PY'
import json,sys
src,dst,prop,build,tests,w,wo,rc=sys.argv[1:9]
try: m=json.load(open(src))
except Exception: m={}
m["property"]=prop
m["confirmed_by_verif_author"]={"build_with_change":build,"test_suite_with_change":tests,"demo_rc_with_change":w,"demo_rc_without_change":wo,
  "ran":"tools/seeded.sh: git apply in a scratch worktree, go build ./..., go test -count=1 ./..., demo script with and without the change"}
m["detected_by_quick_check"]=(rc=="1")
json.dump(m,open(dst,"w"),indent=1)
PY
echo "   stored in /verif/seeded/$NAME"
