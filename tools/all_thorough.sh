#!/bin/bash
# runs the thorough tier of every claimed property and summarises the mutant results
cd /verif
for id in $(python3 -c "import json;print(' '.join(c['property_id'] for c in json.load(open('MANIFEST.json'))['checks']))"); do
  ./check $id thorough > /tmp/thorough-$id.log 2>&1; echo "$id rc=$? $(grep -c 'mutant .*: caught' /tmp/thorough-$id.log) caught, $(grep -c ': missed' /tmp/thorough-$id.log) missed, $(grep -c ': stale\|does-not-compile' /tmp/thorough-$id.log) stale"
  grep ": missed\|: stale\|does-not-compile\|configuration.*VIOL" /tmp/thorough-$id.log | cut -c1-200
done
