#!/bin/bash
# Re-runs the quick check of every stored seeded change against /repo with the
# change applied (git apply; reverted straight afterwards) and rewrites
# seeded/STATUS.json: which rule reports each change today.
cd /verif
git -C /repo diff --quiet || { echo "/repo is not clean"; exit 2; }
echo "{" > /tmp/seed-status.json; first=1
for d in seeded/*/; do
  name=$(basename $d); prop=${name%%-*}
  [ -f $d/patch.diff ] || continue
  if ! git -C /repo apply --check /verif/$d/patch.diff 2>/dev/null; then st='"does-not-apply"'; rules='[]'
  else
    git -C /repo apply /verif/$d/patch.diff
    out=$(./check $prop quick 2>&1); rc=$?
    git -C /repo checkout -q -- . ; git -C /repo clean -fdq
    rules=$(echo "$out" | grep -o "VIOLATED rule=[A-Za-z0-9-]*\|UNDECIDED rule=[A-Za-z0-9-]*" | sed 's/.*rule=//' | sort -u | python3 -c "import sys,json;print(json.dumps([l.strip() for l in sys.stdin]))")
    [ $rc = 1 ] && st='"detected"' || st='"missed"'
  fi
  [ $first = 1 ] || echo "," >> /tmp/seed-status.json; first=0
  printf ' "%s": {"property": "%s", "status": %s, "rules": %s}' $name $prop "$st" "$rules" >> /tmp/seed-status.json
  echo "$name $st $rules"
done
echo; echo "}" >> /tmp/seed-status.json
python3 -c "import json;d=json.load(open('/tmp/seed-status.json'));json.dump(d,open('/verif/seeded/STATUS.json','w'),indent=1)"
rm -f /tmp/seed-status.json
