#!/bin/bash
# tools/try_refactor.sh <name> [props]   — apply refactors/<name>.diff to /repo, analyse, revert
cd /verif
git -C /repo apply /verif/refactors/$1.diff || exit 2
bin/knutlint -prop ${2:-all} -repo /repo -verif /verif -no-evidence 2>&1 | grep -E "VIOLATED|UNDECIDED|FLOOR|ANCHOR|knutlint:" | cut -c1-${3:-300}
git -C /repo checkout -q -- .; git -C /repo clean -fdq
