#!/bin/bash
# tools/refactors.sh <worktree> <area-letter>
# Stores the behaviour-preserving refactorings written by a sub-agent under
# /verif/refactors/ and runs every claimed property against each of them
# (git apply in /repo, analyse, revert). A report on one of them is a false
# alarm of the machinery (or the refactoring is not behaviour-preserving: read it).
WT="$1"; A="$2"
cd /verif; mkdir -p refactors
git -C /repo diff --quiet || { echo "/repo is not clean"; exit 2; }
for d in "$WT"/REFACTOR/r*.diff; do
  n=$(basename "$d" .diff); name="$A-$n"
  cp "$d" refactors/$name.diff; cp "${d%.diff}.txt" refactors/$name.txt 2>/dev/null
  if ! git -C /repo apply --check "$d" 2>/dev/null; then echo "$name: does not apply"; continue; fi
  git -C /repo apply "$d"
  out=$(bin/knutlint -prop all -repo /repo -verif /verif -no-evidence 2>&1); rc=$?
  git -C /repo checkout -q -- .; git -C /repo clean -fdq
  bad=$(echo "$out" | grep -E "VIOLATED|UNDECIDED|FLOOR|ANCHOR|knutlint:" | cut -c1-260)
  if [ -z "$bad" ] && [ $rc = 0 ]; then echo "$name: silent"; else echo "$name: REPORTED (rc=$rc)"; echo "$bad" | sed 's/^/    /' | head -12; fi
done
