#!/bin/bash
# Re-runs all claimed properties against every stored behaviour-preserving
# refactoring (refactors/*.diff): git apply in /repo, analyse, revert. Any
# report is a false alarm of the machinery. Writes refactors/STATUS.json.
cd /verif
git -C /repo diff --quiet || { echo "/repo is not clean"; exit 2; }
echo "{" > /tmp/refac-status.json; first=1
for d in refactors/*.diff; do
  name=$(basename $d .diff)
  if ! git -C /repo apply --check /verif/$d 2>/dev/null; then st="does-not-apply"; bad=""
  else
    git -C /repo apply /verif/$d
    out=$(bin/knutlint -prop all -repo /repo -verif /verif -no-evidence 2>&1); rc=$?
    git -C /repo checkout -q -- .; git -C /repo clean -fdq
    bad=$(echo "$out" | grep -E "VIOLATED|UNDECIDED|FLOOR|ANCHOR|knutlint:" | sed 's/^C[0-9]*: //' | grep -o "rule=[A-Za-z0-9-]*\|FLOOR rule [A-Za-z0-9-]*" | sed 's/rule=//; s/FLOOR rule //' | sort -u | tr '\n' ' ')
    if [ -z "$bad" ] && [ $rc = 0 ]; then st="silent"; else st="reported"; fi
  fi
  [ $first = 1 ] || echo "," >> /tmp/refac-status.json; first=0
  printf ' "%s": {"status": "%s", "rules": "%s"}' $name $st "$bad" >> /tmp/refac-status.json
  echo "$name: $st $bad"
done
echo; echo "}" >> /tmp/refac-status.json
python3 -c "import json;d=json.load(open('/tmp/refac-status.json'));json.dump(d,open('/verif/refactors/STATUS.json','w'),indent=1)"
rm -f /tmp/refac-status.json
