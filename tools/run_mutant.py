#!/usr/bin/env python3
"""run one stored mutant against one property and print the analyser's non-discharged lines"""
import json, os, subprocess, sys, tempfile
m = json.load(open(sys.argv[1])); prop = sys.argv[2]; repo = os.environ.get("KNUT_REPO", "/repo")
overlay = {}
for e in m["edits"]:
    p = os.path.join(repo, e["file"]); src = overlay.get(p) or open(p).read()
    assert src.count(e["find"]) == 1, (e["file"], src.count(e["find"]))
    overlay[p] = src.replace(e["find"], e["replace"])
tf = tempfile.NamedTemporaryFile("w", suffix=".json", delete=False); json.dump(overlay, tf); tf.close()
r = subprocess.run([os.environ.get("KNUTLINT","/verif/bin/knutlint"), "-prop", prop, "-repo", repo, "-verif", "/verif", "-no-evidence", "-overlay", tf.name] + sys.argv[3:], stdout=subprocess.PIPE, stderr=subprocess.STDOUT, text=True)
os.unlink(tf.name)
for l in r.stdout.splitlines():
    if "-dump" in sys.argv or any(k in l for k in ("VIOLATED", "UNDECIDED", "FLOOR", "knutlint:", "VIOLATION", "KNOWN")): print(l[:400])
print("rc", r.returncode)
