#!/usr/bin/env python3
"""Thorough tier of one property check.

  1. the quick analysis on the default build configuration (this decides the
     verdict and writes the evidence file);
  2. the same analysis under GOOS=windows, GOOS=darwin and GOARCH=386, so that
     build-tagged files are covered (a violation there is a violation);
  3. checker self-validation: every stored mutant of this property
     (mutants/*.json, textual replacements applied as an in-memory overlay,
     never written to /repo and never executed) is analysed in its own process;
     the expected rule must report it. A missed mutant is a weakness of the
     checker, not a violation of the property in /repo: it is recorded in the
     evidence file and printed, and does not change the exit status.
"""
import concurrent.futures
import glob
import json
import os
import subprocess
import sys
import tempfile
import time


def main():
    prop, repo, verif = sys.argv[1], sys.argv[2], sys.argv[3]
    knutlint = os.path.join(verif, "bin", "knutlint")
    t0 = time.time()
    env = dict(os.environ)
    # 1. verdict on the default configuration
    r = subprocess.run([knutlint, "-prop", prop, "-tier", "thorough", "-repo", repo, "-verif", verif],
                       stdout=subprocess.PIPE, stderr=subprocess.STDOUT, text=True, env=env)
    sys.stdout.write(r.stdout)
    exit_code = r.returncode
    # 2. other build configurations
    configs = []
    for cfg in ["GOOS=windows", "GOOS=darwin", "GOARCH=386"]:
        rr = subprocess.run([knutlint, "-prop", prop, "-repo", repo, "-verif", verif, "-no-evidence", "-env", cfg],
                            stdout=subprocess.PIPE, stderr=subprocess.STDOUT, text=True, env=env)
        ok = rr.returncode == 0
        configs.append({"config": cfg, "ok": ok})
        print(f"{prop}: build configuration {cfg}: {'ok' if ok else 'VIOLATION'}")
        if not ok:
            lines = [l for l in rr.stdout.splitlines() if "VIOLATED" in l or "UNDECIDED" in l or "FLOOR" in l or "knutlint:" in l]
            for l in lines[:20]:
                print("   ", l)
            if exit_code == 0:
                exit_code = 1
                rep = os.path.join(verif, "reports", f"{prop}-{cfg.replace('=', '-')}.txt")
                os.makedirs(os.path.dirname(rep), exist_ok=True)
                with open(rep, "w") as f:
                    f.write(rr.stdout)
                print(f"VIOLATION property={prop} replay={rep}")
    # 3. mutants
    mutants = []
    for path in sorted(glob.glob(os.path.join(verif, "mutants", "*.json"))):
        with open(path) as f:
            m = json.load(f)
        if prop in m.get("properties", []):
            m["_path"] = path
            mutants.append(m)

    def run_mutant(m):
        overlay = {}
        for e in m["edits"]:
            p = os.path.join(repo, e["file"])
            try:
                src = overlay.get(p) or open(p).read()
            except OSError:
                return m, "stale", "file missing: " + e["file"]
            if src.count(e["find"]) != 1:
                return m, "stale", f"text to replace occurs {src.count(e['find'])} times in {e['file']}"
            overlay[p] = src.replace(e["find"], e["replace"])
        with tempfile.NamedTemporaryFile("w", suffix=".json", delete=False) as tf:
            json.dump(overlay, tf)
            name = tf.name
        try:
            rr = subprocess.run([knutlint, "-prop", prop, "-repo", repo, "-verif", verif, "-no-evidence", "-overlay", name],
                                stdout=subprocess.PIPE, stderr=subprocess.STDOUT, text=True, env=env)
        finally:
            os.unlink(name)
        out = rr.stdout
        if "type-check errors" in out or "knutlint: load" in out:
            return m, "does-not-compile", out.strip().splitlines()[-1][:300]
        if m.get("expect") == "silent":
            if rr.returncode == 0:
                return m, "silent-as-expected", ""
            others = [l.strip()[:200] for l in out.splitlines() if "VIOLATED" in l or "UNDECIDED" in l or "FLOOR" in l]
            return m, "false-alarm", (others[0] if others else "exit 1")
        hits = []
        for l in out.splitlines():
            if ("VIOLATED" in l or "UNDECIDED" in l or "FLOOR" in l) and "rule=" in l:
                for rule in m["rules"]:
                    if f"rule={rule} " in l:
                        hits.append(l.strip()[:300])
        if rr.returncode != 0 and hits:
            return m, "caught", hits[0]
        if rr.returncode != 0:
            others = [l.strip()[:200] for l in out.splitlines() if "VIOLATED" in l or "UNDECIDED" in l or "FLOOR" in l]
            return m, "caught-by-other-rule", (others[0] if others else "exit 1")
        return m, "missed", ""

    results = []
    if mutants:
        with concurrent.futures.ThreadPoolExecutor(max_workers=4) as ex:
            for m, status, detail in ex.map(run_mutant, mutants):
                results.append({"mutant": m["id"], "what": m["what"], "expected_rules": m["rules"], "status": status, "detail": detail})
                print(f"{prop}: mutant {m['id']} ({m['what']}): {status} {detail[:160]}")
    missed = [r for r in results if r["status"] in ("missed", "false-alarm")]
    if missed:
        print(f"{prop}: SELFTEST: {len(missed)} mutant(s) not detected: " + ", ".join(r["mutant"] for r in missed))
    # 4. extend the evidence file written by step 1
    ev_path = os.path.join(verif, "evidence", f"{prop}.json")
    try:
        with open(ev_path) as f:
            ev = json.load(f)
        ev["tier"] = "thorough"
        ev["wall_s"] = time.time() - t0
        ev["coverage"]["build_configurations"] = [{"config": "default", "ok": r.returncode == 0}] + configs
        ev["coverage"]["self_validation"] = {
            "what": "mutants of /repo applied as in-memory overlays and analysed (never executed); the expected rule must fire",
            "mutants": len(results),
            "caught": len([r for r in results if r["status"] in ("caught",)]),
            "caught_by_other_rule": len([r for r in results if r["status"] == "caught-by-other-rule"]),
            "missed": len(missed),
            "stale_or_not_compiling": len([r for r in results if r["status"] in ("stale", "does-not-compile")]),
            "results": results,
        }
        with open(ev_path, "w") as f:
            json.dump(ev, f, indent=1)
            f.write("\n")
    except OSError:
        pass
    sys.exit(exit_code)


if __name__ == "__main__":
    main()
