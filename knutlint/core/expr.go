package core

import (
	"go/token"
	"go/types"

	"golang.org/x/tools/go/ssa"
)

// Pure reports whether fn has no observable side effect: no stores except to
// its own locals, no map updates, no sends, no calls except to other pure
// functions (depth-limited), no panics other than implicit ones.
func (p *Prog) Pure(fn *ssa.Function, depth int) bool {
	if fn == nil || fn.Blocks == nil {
		return knownPure[fn.String()]
	}
	if depth < 0 {
		return false
	}
	pure := true
	EachInstr(fn, func(ins ssa.Instruction) {
		if !pure {
			return
		}
		switch x := ins.(type) {
		case *ssa.Store:
			if _, ok := x.Addr.(*ssa.Alloc); !ok {
				// stores into fields of a local alloc are fine too
				if fa, ok := x.Addr.(*ssa.FieldAddr); ok {
					if _, ok := fa.X.(*ssa.Alloc); ok {
						return
					}
				}
				if ia, ok := x.Addr.(*ssa.IndexAddr); ok {
					if _, ok := ia.X.(*ssa.Alloc); ok {
						return
					}
				}
				pure = false
			}
		case *ssa.MapUpdate, *ssa.Send, *ssa.Go, *ssa.Defer, *ssa.Panic:
			pure = false
		case ssa.CallInstruction:
			c := x.Common()
			if b, ok := c.Value.(*ssa.Builtin); ok {
				switch b.Name() {
				case "len", "cap", "min", "max", "real", "imag", "complex":
					return
				}
				pure = false
				return
			}
			callee := c.StaticCallee()
			if callee == nil || !p.Pure(callee, depth-1) {
				pure = false
			}
		}
	})
	return pure
}

var knownPure = map[string]bool{
	"(github.com/shopspring/decimal.Decimal).IsZero":     true,
	"(github.com/shopspring/decimal.Decimal).IsNegative": true,
	"(github.com/shopspring/decimal.Decimal).IsPositive": true,
	"(github.com/shopspring/decimal.Decimal).Sign":       true,
	"(time.Time).IsZero":                                 true,
	"(time.Time).Before":                                 true,
	"(time.Time).After":                                  true,
	"(time.Time).Equal":                                  true,
	"strings.HasPrefix":                                  true,
	"strings.TrimSpace":                                  true,
}

// SameExpr reports whether a and b denote the same value: the same SSA value,
// equal constants, or the same pure operation over equal operands. Loads are
// equal only if they load the same address and the address is a field or
// element of the same base (no store analysis; callers accept that for
// guard/use pairs in the same function with no visible store in between).
func (p *Prog) SameExpr(a, b ssa.Value) bool {
	return p.sameExpr(a, b, 6)
}

func (p *Prog) sameExpr(a, b ssa.Value, depth int) bool {
	if a == b {
		return true
	}
	if depth == 0 || a == nil || b == nil {
		return false
	}
	switch x := a.(type) {
	case *ssa.Const:
		y, ok := b.(*ssa.Const)
		if !ok {
			return false
		}
		if x.Value == nil || y.Value == nil {
			return x.Value == nil && y.Value == nil && types.Identical(x.Type(), y.Type())
		}
		return x.Value.ExactString() == y.Value.ExactString() && types.Identical(x.Type(), y.Type())
	case *ssa.ChangeType:
		y, ok := b.(*ssa.ChangeType)
		return ok && types.Identical(x.Type(), y.Type()) && p.sameExpr(x.X, y.X, depth-1)
	case *ssa.Convert:
		y, ok := b.(*ssa.Convert)
		return ok && types.Identical(x.Type(), y.Type()) && p.sameExpr(x.X, y.X, depth-1)
	case *ssa.Field:
		y, ok := b.(*ssa.Field)
		return ok && x.Field == y.Field && p.sameExpr(x.X, y.X, depth-1)
	case *ssa.FieldAddr:
		y, ok := b.(*ssa.FieldAddr)
		return ok && x.Field == y.Field && p.sameExpr(x.X, y.X, depth-1)
	case *ssa.IndexAddr:
		y, ok := b.(*ssa.IndexAddr)
		return ok && p.sameExpr(x.X, y.X, depth-1) && p.sameExpr(x.Index, y.Index, depth-1)
	case *ssa.UnOp:
		y, ok := b.(*ssa.UnOp)
		if !ok || x.Op != y.Op {
			return false
		}
		if x.Op == token.MUL {
			// loads: same address expression; only through field/index
			// addresses or free variables / allocs that are the same value
			return p.sameExpr(x.X, y.X, depth-1)
		}
		return p.sameExpr(x.X, y.X, depth-1)
	case *ssa.BinOp:
		y, ok := b.(*ssa.BinOp)
		return ok && x.Op == y.Op && p.sameExpr(x.X, y.X, depth-1) && p.sameExpr(x.Y, y.Y, depth-1)
	case *ssa.Call:
		y, ok := b.(*ssa.Call)
		if !ok {
			return false
		}
		cx, cy := x.Call.StaticCallee(), y.Call.StaticCallee()
		if bx, ok := x.Call.Value.(*ssa.Builtin); ok {
			by, ok2 := y.Call.Value.(*ssa.Builtin)
			if !ok2 || bx.Name() != by.Name() || (bx.Name() != "len" && bx.Name() != "cap") {
				return false
			}
		} else {
			if cx == nil || cx != cy || !p.Pure(cx, 3) {
				return false
			}
		}
		if len(x.Call.Args) != len(y.Call.Args) {
			return false
		}
		for i := range x.Call.Args {
			if !p.sameExpr(x.Call.Args[i], y.Call.Args[i], depth-1) {
				return false
			}
		}
		return true
	}
	return false
}

// EdgeDominates reports whether taking the edge from -> to is necessary to
// reach block b: `to` has `from` as its only predecessor and dominates b.
func EdgeDominates(from, to, b *ssa.BasicBlock) bool {
	if len(to.Preds) != 1 || to.Preds[0] != from {
		return false
	}
	return to == b || to.Dominates(b)
}

// CondFact is what an If condition tells about a value on its two branches.
type CondFact struct {
	If *ssa.If
	// X is the tested expression.
	X ssa.Value
	// Kind: "zero" (X is a number/decimal compared with zero), "nil"
	Kind string
	// TrueMeans: on the true branch X is (zero|nil) when TrueIs is true; when
	// TrueIs is false, X is (zero|nil)-or-worse on the false branch.
	ZeroOnTrue bool
}

// DecodeCond decodes conditions of the forms the repository uses:
//
//	X.IsZero(), !X.IsZero(), X == 0, X != 0, X <= 0, X < 1, X > 0, X >= 1,
//	len(X) == 0 ..., X == nil, X != nil.
//
// For numeric tests "zero" stands for "not strictly positive" on the side
// where the test admits zero.
func DecodeCond(iff *ssa.If) (facts []CondFact) {
	return decodeCond(iff, iff.Cond, true)
}

func decodeCond(iff *ssa.If, cond ssa.Value, positive bool) []CondFact {
	switch c := cond.(type) {
	case *ssa.UnOp:
		if c.Op == token.NOT {
			return decodeCond(iff, c.X, !positive)
		}
	case *ssa.Call:
		if callee := c.Call.StaticCallee(); callee != nil {
			if callee.Name() == "IsZero" && len(c.Call.Args) == 1 {
				return []CondFact{{If: iff, X: c.Call.Args[0], Kind: "zero", ZeroOnTrue: positive}}
			}
		}
	case *ssa.BinOp:
		x, y := c.X, c.Y
		op := c.Op
		if _, ok := x.(*ssa.Const); ok {
			// const OP y  ->  y OP' const
			x, y = y, x
			switch op {
			case token.LSS:
				op = token.GTR
			case token.LEQ:
				op = token.GEQ
			case token.GTR:
				op = token.LSS
			case token.GEQ:
				op = token.LEQ
			}
		}
		k, isConst := y.(*ssa.Const)
		if !isConst {
			return nil
		}
		if k.Value == nil {
			switch op {
			case token.EQL:
				return []CondFact{{If: iff, X: x, Kind: "nil", ZeroOnTrue: positive}}
			case token.NEQ:
				return []CondFact{{If: iff, X: x, Kind: "nil", ZeroOnTrue: !positive}}
			}
			return nil
		}
		n, ok := ConstInt(k)
		if !ok {
			return nil
		}
		zeroOnTrue, decided := false, false
		switch {
		case op == token.EQL && n == 0, op == token.LEQ && n == 0, op == token.LSS && n == 1:
			zeroOnTrue, decided = true, true
		case op == token.NEQ && n == 0, op == token.GTR && n == 0, op == token.GEQ && n == 1:
			zeroOnTrue, decided = false, true
		}
		if decided {
			if !positive {
				zeroOnTrue = !zeroOnTrue
			}
			return []CondFact{{If: iff, X: x, Kind: "zero", ZeroOnTrue: zeroOnTrue}}
		}
	}
	return nil
}

// GuardedNonZero reports whether at instruction `at` the value v is known to
// be non-zero (Kind "zero") or non-nil (Kind "nil") because of a dominating
// test on an equal expression. core maps v to the expression the test may be
// about (e.g. strips NewFromInt(int64(X)) to X).
func (p *Prog) Guarded(at ssa.Instruction, v ssa.Value, kind string) (bool, *ssa.If) {
	fn := at.Parent()
	for _, b := range fn.Blocks {
		iff, ok := b.Instrs[len(b.Instrs)-1].(*ssa.If)
		if !ok {
			continue
		}
		for _, f := range DecodeCond(iff) {
			if f.Kind != kind || !p.SameExpr(f.X, v) {
				continue
			}
			safe := b.Succs[1]
			if !f.ZeroOnTrue {
				safe = b.Succs[0]
			}
			if EdgeDominates(b, safe, at.Block()) {
				return true, iff
			}
		}
	}
	return false, nil
}
