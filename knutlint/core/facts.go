package core

import (
	"go/constant"
	"go/token"
	"go/types"
	"sort"
	"strings"

	"golang.org/x/tools/go/ssa"
)

// ---------------------------------------------------------------------------
// Instructions

// EachInstr calls f for every instruction of fn.
func EachInstr(fn *ssa.Function, f func(ssa.Instruction)) {
	for _, b := range fn.Blocks {
		for _, ins := range b.Instrs {
			f(ins)
		}
	}
}

// InstrIndex is the index of ins in its block.
func InstrIndex(ins ssa.Instruction) int {
	for i, x := range ins.Block().Instrs {
		if x == ins {
			return i
		}
	}
	return -1
}

// Dominates reports whether instruction a dominates instruction b (same
// function).
func Dominates(a, b ssa.Instruction) bool {
	if a.Block() == b.Block() {
		return InstrIndex(a) < InstrIndex(b)
	}
	return a.Block().Dominates(b.Block())
}

// BlockReaches reports whether there is a CFG path of length >= 0 from a to b
// that does not pass through any block in avoid (a itself is not tested).
func BlockReaches(a, b *ssa.BasicBlock, avoid map[*ssa.BasicBlock]bool) bool {
	seen := map[*ssa.BasicBlock]bool{}
	var walk func(x *ssa.BasicBlock) bool
	walk = func(x *ssa.BasicBlock) bool {
		if x == b {
			return true
		}
		if seen[x] {
			return false
		}
		seen[x] = true
		for _, s := range x.Succs {
			if avoid[s] && s != b {
				continue
			}
			if walk(s) {
				return true
			}
		}
		return false
	}
	return walk(a)
}

// ReachableBlocks returns all blocks reachable from the successors of start
// (start itself only if it lies on a cycle), not entering blocks in avoid.
func ReachableBlocks(start *ssa.BasicBlock, avoid map[*ssa.BasicBlock]bool) map[*ssa.BasicBlock]bool {
	seen := map[*ssa.BasicBlock]bool{}
	var walk func(x *ssa.BasicBlock)
	walk = func(x *ssa.BasicBlock) {
		for _, s := range x.Succs {
			if seen[s] || avoid[s] {
				continue
			}
			seen[s] = true
			walk(s)
		}
	}
	walk(start)
	return seen
}

// ---------------------------------------------------------------------------
// Fields

// FieldOf resolves the struct field a FieldAddr or Field instruction names.
func FieldOf(v ssa.Value) *types.Var {
	switch x := v.(type) {
	case *ssa.FieldAddr:
		t := x.X.Type().Underlying()
		if pt, ok := t.(*types.Pointer); ok {
			if st, ok := pt.Elem().Underlying().(*types.Struct); ok {
				return st.Field(x.Field)
			}
		}
	case *ssa.Field:
		if st, ok := x.X.Type().Underlying().(*types.Struct); ok {
			return st.Field(x.Field)
		}
	}
	return nil
}

// FieldIs reports whether fv is field `name` of the named struct type
// pkgPath.typ. Fields of generic instantiations are matched by name and
// origin type.
func FieldIs(fv *types.Var, owner *types.Named, name string) bool {
	if fv == nil || owner == nil || fv.Name() != name {
		return false
	}
	st, ok := owner.Underlying().(*types.Struct)
	if !ok {
		return false
	}
	for i := 0; i < st.NumFields(); i++ {
		if st.Field(i) == fv {
			return true
		}
	}
	// instantiated generic: compare by origin
	if fv.Origin() != fv {
		return FieldIs(fv.Origin(), owner.Origin(), name)
	}
	return false
}

// StructOwner finds the named struct type that declares field fv among the
// module's packages (nil if it is an anonymous struct).
func (p *Prog) StructOwner(fv *types.Var) *types.Named {
	if fv == nil || fv.Pkg() == nil {
		return nil
	}
	fv = fv.Origin()
	sc := fv.Pkg().Scope()
	for _, n := range sc.Names() {
		tn, ok := sc.Lookup(n).(*types.TypeName)
		if !ok || tn.IsAlias() {
			continue
		}
		st, ok := tn.Type().Underlying().(*types.Struct)
		if !ok {
			continue
		}
		for i := 0; i < st.NumFields(); i++ {
			if st.Field(i) == fv {
				return tn.Type().(*types.Named)
			}
		}
	}
	return nil
}

// FieldRef renders Type.Field for a field var.
func (p *Prog) FieldRef(fv *types.Var) string {
	if o := p.StructOwner(fv); o != nil {
		return o.Obj().Name() + "." + fv.Name()
	}
	return "?." + fv.Name()
}

// ---------------------------------------------------------------------------
// Values

// ConstString returns the string value of a constant SSA value.
func ConstString(v ssa.Value) (string, bool) {
	c, ok := v.(*ssa.Const)
	if !ok || c.Value == nil || c.Value.Kind() != constant.String {
		return "", false
	}
	return constant.StringVal(c.Value), true
}

// ConstInt returns the integer value of a constant SSA value.
func ConstInt(v ssa.Value) (int64, bool) {
	c, ok := v.(*ssa.Const)
	if !ok || c.Value == nil || c.Value.Kind() != constant.Int {
		return 0, false
	}
	i, exact := constant.Int64Val(c.Value)
	return i, exact
}

// IsNilConst reports whether v is the nil constant.
func IsNilConst(v ssa.Value) bool {
	c, ok := v.(*ssa.Const)
	return ok && c.Value == nil
}

// Strip removes value-preserving wrappers (ChangeType, Convert between
// identical underlying types, MakeInterface, ChangeInterface).
func Strip(v ssa.Value) ssa.Value {
	for {
		switch x := v.(type) {
		case *ssa.ChangeType:
			v = x.X
		case *ssa.MakeInterface:
			v = x.X
		case *ssa.ChangeInterface:
			v = x.X
		default:
			return v
		}
	}
}

// StoresTo returns the Store instructions whose address is exactly addr
// (an Alloc, FieldAddr, IndexAddr, Global or FreeVar value).
func StoresTo(addr ssa.Value) []*ssa.Store {
	var res []*ssa.Store
	if addr.Referrers() == nil {
		return nil
	}
	for _, r := range *addr.Referrers() {
		if s, ok := r.(*ssa.Store); ok && s.Addr == addr {
			res = append(res, s)
		}
	}
	return res
}

// Walker performs a backward slice ("origin") over SSA values.
type Walker struct {
	P *Prog
	// Visit is called once per value; return false to stop descending there.
	Visit func(v ssa.Value) bool
	// CallDepth: how many levels of callee return values to follow.
	CallDepth int
	seen      map[ssa.Value]bool
}

// Origin walks backwards from v.
func (w *Walker) Origin(v ssa.Value) {
	if w.seen == nil {
		w.seen = map[ssa.Value]bool{}
	}
	w.walk(v, w.CallDepth)
}

func (w *Walker) walk(v ssa.Value, depth int) {
	if v == nil || w.seen[v] {
		return
	}
	w.seen[v] = true
	if w.Visit != nil && !w.Visit(v) {
		return
	}
	switch x := v.(type) {
	case *ssa.Phi:
		for _, e := range x.Edges {
			w.walk(e, depth)
		}
	case *ssa.ChangeType:
		w.walk(x.X, depth)
	case *ssa.Convert:
		w.walk(x.X, depth)
	case *ssa.MakeInterface:
		w.walk(x.X, depth)
	case *ssa.ChangeInterface:
		w.walk(x.X, depth)
	case *ssa.TypeAssert:
		w.walk(x.X, depth)
	case *ssa.Extract:
		w.walk(x.Tuple, depth)
	case *ssa.Slice:
		w.walk(x.X, depth)
	case *ssa.Field:
		w.walk(x.X, depth)
	case *ssa.FieldAddr:
		w.walk(x.X, depth)
	case *ssa.IndexAddr:
		w.walk(x.X, depth)
	case *ssa.Index:
		w.walk(x.X, depth)
	case *ssa.Lookup:
		w.walk(x.X, depth)
	case *ssa.BinOp:
		w.walk(x.X, depth)
		w.walk(x.Y, depth)
	case *ssa.UnOp:
		if x.Op == token.MUL {
			// load: follow the address, and for local cells the stored values
			w.walk(x.X, depth)
			switch a := x.X.(type) {
			case *ssa.Alloc:
				for _, s := range StoresTo(a) {
					w.walk(s.Val, depth)
				}
				// stores through field/index addresses of the alloc
				if a.Referrers() != nil {
					for _, r := range *a.Referrers() {
						switch fa := r.(type) {
						case *ssa.FieldAddr:
							_ = fa
						}
					}
				}
			case *ssa.FreeVar:
				w.freeVar(a, depth)
			}
		} else {
			w.walk(x.X, depth)
		}
	case *ssa.FreeVar:
		w.freeVar(x, depth)
	case *ssa.Alloc:
		// composite literal / variadic argument array: the values stored
		// into it, its elements and (nested) fields
		w.storesUnder(x, depth, 0)
	case *ssa.MakeClosure:
		for _, b := range x.Bindings {
			w.walk(b, depth)
		}
	case *ssa.Call:
		for _, a := range x.Call.Args {
			w.walk(a, depth)
		}
		if x.Call.IsInvoke() {
			w.walk(x.Call.Value, depth)
		}
		if depth > 0 && w.P != nil {
			for _, callee := range w.P.Callees(x) {
				if callee.Blocks == nil {
					continue
				}
				EachInstr(callee, func(ins ssa.Instruction) {
					if r, ok := ins.(*ssa.Return); ok {
						for _, res := range r.Results {
							w.walk(res, depth-1)
						}
					}
				})
			}
		}
	}
}

func (w *Walker) storesUnder(addr ssa.Value, depth, nest int) {
	for _, s := range StoresTo(addr) {
		w.walk(s.Val, depth)
	}
	if nest > 4 || addr.Referrers() == nil {
		return
	}
	for _, r := range *addr.Referrers() {
		switch a := r.(type) {
		case *ssa.IndexAddr:
			if a.X == addr {
				w.storesUnder(a, depth, nest+1)
			}
		case *ssa.FieldAddr:
			if a.X == addr {
				w.storesUnder(a, depth, nest+1)
			}
		}
	}
}

func (w *Walker) freeVar(fv *ssa.FreeVar, depth int) {
	fn := fv.Parent()
	idx := -1
	for i, f := range fn.FreeVars {
		if f == fv {
			idx = i
		}
	}
	parent := fn.Parent()
	if idx < 0 || parent == nil {
		return
	}
	EachInstr(parent, func(ins ssa.Instruction) {
		if mc, ok := ins.(*ssa.MakeClosure); ok && mc.Fn == fn && idx < len(mc.Bindings) {
			b := mc.Bindings[idx]
			w.walk(b, depth)
			// the binding is the address of the captured variable: follow
			// what is stored there anywhere in the enclosing functions.
			if a, ok := b.(*ssa.Alloc); ok {
				for _, s := range AllStoresToCell(a) {
					w.walk(s.Val, depth)
				}
			}
		}
	})
}

// AllStoresToCell returns the stores into a local cell (Alloc), including the
// ones performed inside closures that captured it.
func AllStoresToCell(a *ssa.Alloc) []*ssa.Store {
	res := StoresTo(a)
	if a.Referrers() == nil {
		return res
	}
	for _, r := range *a.Referrers() {
		mc, ok := r.(*ssa.MakeClosure)
		if !ok {
			continue
		}
		fn := mc.Fn.(*ssa.Function)
		for i, b := range mc.Bindings {
			if b == a && i < len(fn.FreeVars) {
				res = append(res, storesToFreeVar(fn, fn.FreeVars[i])...)
			}
		}
	}
	return res
}

func storesToFreeVar(fn *ssa.Function, fv *ssa.FreeVar) []*ssa.Store {
	res := StoresTo(fv)
	if fv.Referrers() == nil {
		return res
	}
	for _, r := range *fv.Referrers() {
		mc, ok := r.(*ssa.MakeClosure)
		if !ok {
			continue
		}
		inner := mc.Fn.(*ssa.Function)
		for i, b := range mc.Bindings {
			if b == fv && i < len(inner.FreeVars) {
				res = append(res, storesToFreeVar(inner, inner.FreeVars[i])...)
			}
		}
	}
	return res
}

// ---------------------------------------------------------------------------
// Error checks

// ErrSuccessBlock: for an error value e that is tested by `if e != nil`
// (or `e == nil`), return the block entered when e is nil, provided that block
// has the testing block as its only predecessor. Several tests may exist;
// all success blocks are returned.
func ErrSuccessBlocks(e ssa.Value) []*ssa.BasicBlock {
	var res []*ssa.BasicBlock
	if e.Referrers() == nil {
		return nil
	}
	for _, r := range *e.Referrers() {
		bo, ok := r.(*ssa.BinOp)
		if !ok || (bo.Op != token.NEQ && bo.Op != token.EQL) {
			continue
		}
		if !(IsNilConst(bo.X) || IsNilConst(bo.Y)) {
			continue
		}
		if bo.Referrers() == nil {
			continue
		}
		for _, rr := range *bo.Referrers() {
			iff, ok := rr.(*ssa.If)
			if !ok {
				continue
			}
			b := iff.Block()
			var succ *ssa.BasicBlock
			if bo.Op == token.NEQ {
				succ = b.Succs[1]
			} else {
				succ = b.Succs[0]
			}
			if len(succ.Preds) == 1 {
				res = append(res, succ)
			}
		}
	}
	return res
}

// IsErrorType reports whether t is the predeclared error type.
func IsErrorType(t types.Type) bool {
	return types.Identical(t, types.Universe.Lookup("error").Type())
}

// ---------------------------------------------------------------------------
// Commands

// Command is a cobra command found in the module.
type Command struct {
	Use   string
	Ctor  *ssa.Function // the function containing the cobra.Command literal
	Run   *ssa.Function // function stored into Run / RunE
	Field string        // "Run" or "RunE"
}

// Commands finds every cobra.Command literal in the module with its Use
// string and the function value stored into Run/RunE (resolved by value, not
// by name).
func Commands(c *Ctx) []*Command {
	return Memo(c, "commands", func() []*Command {
		var res []*Command
		for _, fn := range c.P.SrcFuncs() {
			type lit struct {
				use, field string
				run        *ssa.Function
			}
			lits := map[ssa.Value]*lit{}
			EachInstr(fn, func(ins ssa.Instruction) {
				st, ok := ins.(*ssa.Store)
				if !ok {
					return
				}
				fa, ok := st.Addr.(*ssa.FieldAddr)
				if !ok {
					return
				}
				fv := FieldOf(fa)
				if fv == nil || fv.Pkg() == nil || fv.Pkg().Path() != "github.com/spf13/cobra" {
					return
				}
				l := lits[fa.X]
				if l == nil {
					l = &lit{}
					lits[fa.X] = l
				}
				switch fv.Name() {
				case "Use":
					if s, ok := ConstString(st.Val); ok {
						l.use = s
					}
				case "Run", "RunE":
					l.field = fv.Name()
					l.run = FuncValue(st.Val)
				}
			})
			for _, l := range lits {
				if l.use != "" {
					res = append(res, &Command{Use: l.use, Ctor: fn, Run: l.run, Field: l.field})
				}
			}
		}
		sort.Slice(res, func(i, j int) bool { return res[i].Use < res[j].Use })
		return res
	})
}

// FuncValue resolves an SSA value of function type to the function it
// denotes: a function, a closure, or a bound method (resolved to the method).
func FuncValue(v ssa.Value) *ssa.Function {
	switch x := Strip(v).(type) {
	case *ssa.Function:
		// a method expression (T.m) is a synthetic thunk around the method
		if strings.HasSuffix(x.Name(), "$thunk") && x.Synthetic != "" {
			var target *ssa.Function
			EachInstr(x, func(ins ssa.Instruction) {
				if call, ok := ins.(ssa.CallInstruction); ok {
					if c := call.Common().StaticCallee(); c != nil {
						target = c
					}
				}
			})
			if target != nil {
				return target
			}
		}
		return x
	case *ssa.MakeClosure:
		fn := x.Fn.(*ssa.Function)
		if strings.HasSuffix(fn.Name(), "$bound") && fn.Synthetic != "" {
			// bound method wrapper: find the single static call inside
			var target *ssa.Function
			EachInstr(fn, func(ins ssa.Instruction) {
				if call, ok := ins.(ssa.CallInstruction); ok {
					if c := call.Common().StaticCallee(); c != nil {
						target = c
					}
				}
			})
			if target != nil {
				return target
			}
		}
		return fn
	}
	return nil
}

// FuncValueDeep resolves v like FuncValue and, in addition, looks through one
// call of a function that returns a function literal or a bound method
// (`f(x)` where f is `func f(x T) func(...) { return func(...) {...} }`).
func FuncValueDeep(v ssa.Value) *ssa.Function {
	if f := FuncValue(v); f != nil {
		return f
	}
	call, ok := Strip(v).(*ssa.Call)
	if !ok {
		return nil
	}
	callee := call.Call.StaticCallee()
	if callee == nil || callee.Blocks == nil {
		return nil
	}
	var res *ssa.Function
	many := false
	EachInstr(callee, func(ins ssa.Instruction) {
		ret, ok := ins.(*ssa.Return)
		if !ok || len(ret.Results) != 1 {
			return
		}
		f := FuncValue(ret.Results[0])
		if f == nil || (res != nil && res != f) {
			many = true
			return
		}
		res = f
	})
	if many {
		return nil
	}
	return res
}

// CommandEntries returns the Run functions of the commands whose Use string
// satisfies sel.
func CommandEntries(c *Ctx, sel func(use string) bool) []*ssa.Function {
	var res []*ssa.Function
	for _, cmd := range Commands(c) {
		if cmd.Run != nil && sel(cmd.Use) {
			res = append(res, cmd.Run)
		}
	}
	return res
}

// JournalCommandUses are the journal-processing commands of C14/C06.
var JournalCommandUses = map[string]bool{
	"balance": true, "print": true, "check": true, "format": true, "infer": true,
	"transcode": true, "returns": true, "weights": true,
}

// IsImporterUse reports whether a command Use string belongs to an importer
// (they are registered from cmd/importer/*).
func IsImporterCmd(cmd *Command) bool {
	return strings.Contains(PkgPathOf(cmd.Ctor), "/cmd/importer/")
}

// NearPos returns the position of ins, or of the closest later instruction in
// its block that has one (loads and field addresses carry no position).
func NearPos(ins ssa.Instruction) token.Pos {
	if ins.Pos().IsValid() {
		return ins.Pos()
	}
	b := ins.Block()
	i := InstrIndex(ins)
	for j := i + 1; j < len(b.Instrs); j++ {
		if b.Instrs[j].Pos().IsValid() {
			return b.Instrs[j].Pos()
		}
	}
	for j := i - 1; j >= 0; j-- {
		if b.Instrs[j].Pos().IsValid() {
			return b.Instrs[j].Pos()
		}
	}
	return ins.Parent().Pos()
}

// Controls reports whether the If ending block b decides whether target is
// reached: exactly one of its successors can reach target without coming back
// through b. Returns (controls, index of the successor that reaches it).
func Controls(b *ssa.BasicBlock, target *ssa.BasicBlock) (bool, int) {
	if len(b.Succs) != 2 {
		return false, -1
	}
	// "in the same iteration": a path may not re-enter, through its back edge,
	// the header of a loop that contains target
	avoid := map[*ssa.BasicBlock]bool{b: true}
	headers := map[*ssa.BasicBlock]bool{}
	for _, h := range b.Parent().Blocks {
		if h == target || !h.Dominates(target) {
			continue
		}
		isHeader := false
		for _, p := range h.Preds {
			if h.Dominates(p) {
				isHeader = true
			}
		}
		if isHeader && BlockReaches(target, h, nil) {
			headers[h] = true
		}
	}
	reaches := func(a *ssa.BasicBlock) bool {
		seen := map[*ssa.BasicBlock]bool{}
		var walk func(x *ssa.BasicBlock) bool
		walk = func(x *ssa.BasicBlock) bool {
			if x == target {
				return true
			}
			if seen[x] {
				return false
			}
			seen[x] = true
			for _, s := range x.Succs {
				if avoid[s] && s != target {
					continue
				}
				if headers[s] && s.Dominates(x) {
					continue // back edge of a loop around target
				}
				if walk(s) {
					return true
				}
			}
			return false
		}
		return walk(a)
	}
	first := func(s *ssa.BasicBlock) bool {
		if headers[s] && s.Dominates(b) && s != target {
			return false
		}
		return reaches(s)
	}
	r0 := first(b.Succs[0])
	r1 := first(b.Succs[1])
	if r0 == r1 {
		return false, -1
	}
	if r0 {
		return true, 0
	}
	return true, 1
}

// IsLoopExitTest reports whether block b is the header of a loop that does
// not contain target: its If merely decides when the loop is left.
func IsLoopExitTest(b *ssa.BasicBlock, target *ssa.BasicBlock) bool {
	isHeader := false
	for _, p := range b.Preds {
		if b.Dominates(p) {
			isHeader = true
		}
	}
	if !isHeader {
		return false
	}
	// target inside the loop? (can target reach b again)
	return !BlockReaches(target, b, nil) || target == b
}

// PkgPathOfVar returns the import path of the package that declares v.
func PkgPathOfVar(v *types.Var) string {
	if v == nil || v.Pkg() == nil {
		return ""
	}
	return v.Pkg().Path()
}
