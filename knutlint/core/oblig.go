package core

import (
	"encoding/json"
	"fmt"
	"go/token"
	"os"
	"sort"
	"strings"
)

// Verdict of one obligation.
type Verdict string

const (
	Discharged Verdict = "discharged"
	Violated   Verdict = "violated"
	Undecided  Verdict = "undecided" // fails closed
	Info       Verdict = "info"      // not an obligation; reported only
)

// Obligation is one rule instance: rule + construct. Key never contains a
// line number, so that known-findings entries survive unrelated edits.
type Obligation struct {
	Rule    string   `json:"rule"`
	Key     string   `json:"key"`
	Where   string   `json:"where"` // file:line (display only)
	Func    string   `json:"func,omitempty"`
	Verdict Verdict  `json:"verdict"`
	Detail  string   `json:"detail,omitempty"`
	Path    []string `json:"path,omitempty"`
}

// Ctx is what a rule sees.
type Ctx struct {
	P     *Prog
	Obs   []*Obligation
	Notes []string
	// Floors: rule -> minimal number of obligations (anchors) the rule must
	// have produced; fewer means the rule matched vacuously and the check fails.
	Floors map[string]int
	cache  map[string]any
}

func NewCtx(p *Prog) *Ctx {
	return &Ctx{P: p, Floors: map[string]int{}, cache: map[string]any{}}
}

// Memo caches a shared fact by name.
func Memo[T any](c *Ctx, name string, f func() T) T {
	if v, ok := c.cache[name]; ok {
		return v.(T)
	}
	v := f()
	c.cache[name] = v
	return v
}

// Ob records an obligation.
func (c *Ctx) Ob(rule, key string, pos token.Pos, fn string, v Verdict, detail string, path ...string) *Obligation {
	o := &Obligation{Rule: rule, Key: rule + ":" + key, Where: c.P.Pos(pos), Func: fn, Verdict: v, Detail: detail, Path: path}
	c.Obs = append(c.Obs, o)
	return o
}

// Anchor records an unresolved anchor (a named construct the rule needs and
// cannot find): fails closed, distinct text.
func (c *Ctx) Anchor(rule, what string) {
	c.Obs = append(c.Obs, &Obligation{Rule: rule, Key: rule + ":ANCHOR-UNRESOLVED:" + what, Where: "-", Verdict: Undecided,
		Detail: "ANCHOR-UNRESOLVED: " + what + " (renamed or removed; the rule cannot locate the construct it decides)"})
}

// Floor sets the minimal instance count of a rule.
func (c *Ctx) Floor(rule string, n int) { c.Floors[rule] = n }

func (c *Ctx) Note(format string, args ...any) {
	c.Notes = append(c.Notes, fmt.Sprintf(format, args...))
}

// Finding is an entry of known_findings.json.
type Finding struct {
	Status   string `json:"status"` // "known" | "fixed"
	Property string `json:"property"`
	Key      string `json:"key"`
	Commit   string `json:"commit,omitempty"`
	What     string `json:"what"`
}

func LoadFindings(path string) ([]Finding, error) {
	b, err := os.ReadFile(path)
	if err != nil {
		if os.IsNotExist(err) {
			return nil, nil
		}
		return nil, err
	}
	var fs []Finding
	if err := json.Unmarshal(b, &fs); err != nil {
		return nil, fmt.Errorf("%s: %w", path, err)
	}
	return fs, nil
}

// Result of a property check.
type Result struct {
	Property    string
	Obligations []*Obligation
	Violations  []*Obligation // violated or undecided, not covered by a known finding
	Known       []*Obligation
	KnownText   map[string]string
	FloorFails  []string
}

// Evaluate applies floors and known findings.
func Evaluate(prop string, c *Ctx, findings []Finding) *Result {
	r := &Result{Property: prop, KnownText: map[string]string{}}
	known := map[string]Finding{}
	for _, f := range findings {
		if f.Status == "known" && f.Property == prop {
			known[f.Key] = f
		}
	}
	counts := map[string]int{}
	// de-duplicate by key (generic instantiations give one obligation per
	// instance; keep the worst verdict).
	byKey := map[string]*Obligation{}
	var order []string
	rank := map[Verdict]int{Info: 0, Discharged: 1, Undecided: 2, Violated: 3}
	for _, o := range c.Obs {
		if prev, ok := byKey[o.Key]; ok {
			if rank[o.Verdict] > rank[prev.Verdict] {
				byKey[o.Key] = o
			}
			continue
		}
		byKey[o.Key] = o
		order = append(order, o.Key)
	}
	sort.Strings(order)
	for _, k := range order {
		o := byKey[k]
		r.Obligations = append(r.Obligations, o)
		if o.Verdict != Info {
			counts[o.Rule]++
		}
		if o.Verdict == Violated || o.Verdict == Undecided {
			if f, ok := known[o.Key]; ok && o.Verdict == Violated {
				r.Known = append(r.Known, o)
				r.KnownText[o.Key] = f.What
			} else {
				r.Violations = append(r.Violations, o)
			}
		}
	}
	var rules []string
	for rule := range c.Floors {
		rules = append(rules, rule)
	}
	sort.Strings(rules)
	for _, rule := range rules {
		if counts[rule] < c.Floors[rule] {
			r.FloorFails = append(r.FloorFails, fmt.Sprintf("rule %s produced %d obligations, floor is %d (the rule no longer finds its anchors)", rule, counts[rule], c.Floors[rule]))
		}
	}
	return r
}

// Failed reports whether the check must exit 1.
func (r *Result) Failed() bool { return len(r.Violations) > 0 || len(r.FloorFails) > 0 }

// ReportText renders the replay file.
func (r *Result) ReportText() string {
	var b strings.Builder
	fmt.Fprintf(&b, "property %s: %d violation(s), %d floor failure(s)\n\n", r.Property, len(r.Violations), len(r.FloorFails))
	for _, f := range r.FloorFails {
		fmt.Fprintf(&b, "FLOOR  %s\n", f)
	}
	for _, o := range r.Violations {
		fmt.Fprintf(&b, "%s  rule=%s\n  key=%s\n  at=%s  func=%s\n  %s\n", strings.ToUpper(string(o.Verdict)), o.Rule, o.Key, o.Where, o.Func, o.Detail)
		for _, p := range o.Path {
			fmt.Fprintf(&b, "    path: %s\n", p)
		}
		b.WriteString("\n")
	}
	return b.String()
}
