// Package core loads the repository under analysis (type-checked syntax, SSA
// form with instantiated generics, VTA call graph) and offers the shared
// queries the rules are built from.
package core

import (
	"fmt"
	"go/ast"
	"go/token"
	"go/types"
	"os"
	"path/filepath"
	"sort"
	"strings"
	"time"

	"golang.org/x/tools/go/callgraph"
	"golang.org/x/tools/go/callgraph/cha"
	"golang.org/x/tools/go/callgraph/vta"
	"golang.org/x/tools/go/packages"
	"golang.org/x/tools/go/ssa"
	"golang.org/x/tools/go/ssa/ssautil"
)

// Module is the import path prefix of the repository under analysis.
const Module = "github.com/sboehler/knut"

// Prog is the loaded program.
type Prog struct {
	Dir      string
	Fset     *token.FileSet
	Pkgs     []*packages.Package          // module packages (roots)
	AllPkgs  map[string]*packages.Package // every package in the import closure
	SSA      *ssa.Program
	SSAPkgs  map[string]*ssa.Package
	AllFuncs map[*ssa.Function]bool
	CG       *callgraph.Graph
	Config   string // GOOS/GOARCH description
	Timings  map[string]float64

	srcFuncs   []*ssa.Function // functions (incl. closures, instantiations) whose source is in the module
	byObj      map[types.Object][]*ssa.Function
	enclosing  map[*ssa.Function]*ssa.Function
	fileOfPos  map[string]*ast.File
	pkgOfFile  map[*ast.File]*packages.Package
	calleeMemo map[ssa.CallInstruction][]*ssa.Function
}

// LoadOptions configure Load.
type LoadOptions struct {
	Dir     string
	Env     []string          // extra environment, e.g. GOOS=windows
	Overlay map[string][]byte // absolute path -> replacement contents
	NoCG    bool
}

// Load loads ./... of the repository at opts.Dir. Any type error, or a package
// count below the floor, is an error (fail closed).
func Load(opts LoadOptions) (*Prog, error) {
	t0 := time.Now()
	env := append(os.Environ(), "GOFLAGS=-mod=mod", "GOPROXY=off", "GOSUMDB=off", "GOTOOLCHAIN=local", "GOWORK=off")
	env = append(env, opts.Env...)
	cfg := &packages.Config{
		Mode:    packages.LoadAllSyntax,
		Dir:     opts.Dir,
		Env:     env,
		Tests:   false,
		Overlay: opts.Overlay,
	}
	roots, err := packages.Load(cfg, "./...")
	if err != nil {
		return nil, fmt.Errorf("load: %w", err)
	}
	p := &Prog{
		Dir:        opts.Dir,
		AllPkgs:    map[string]*packages.Package{},
		SSAPkgs:    map[string]*ssa.Package{},
		Timings:    map[string]float64{},
		byObj:      map[types.Object][]*ssa.Function{},
		enclosing:  map[*ssa.Function]*ssa.Function{},
		fileOfPos:  map[string]*ast.File{},
		pkgOfFile:  map[*ast.File]*packages.Package{},
		calleeMemo: map[ssa.CallInstruction][]*ssa.Function{},
		Config:     strings.Join(opts.Env, " "),
	}
	var errs []string
	packages.Visit(roots, nil, func(pk *packages.Package) {
		p.AllPkgs[pk.PkgPath] = pk
		for _, e := range pk.Errors {
			errs = append(errs, e.Error())
		}
	})
	if len(errs) > 0 {
		sort.Strings(errs)
		if len(errs) > 10 {
			errs = errs[:10]
		}
		return nil, fmt.Errorf("type-check errors (fail closed): %s", strings.Join(errs, "; "))
	}
	for _, pk := range roots {
		if strings.HasPrefix(pk.PkgPath, Module) {
			p.Pkgs = append(p.Pkgs, pk)
		}
	}
	sort.Slice(p.Pkgs, func(i, j int) bool { return p.Pkgs[i].PkgPath < p.Pkgs[j].PkgPath })
	if len(p.Pkgs) < 40 {
		return nil, fmt.Errorf("only %d module packages loaded, expected >= 40 (fail closed)", len(p.Pkgs))
	}
	if len(roots) > 0 {
		p.Fset = roots[0].Fset
	}
	for _, pk := range p.AllPkgs {
		for _, f := range pk.Syntax {
			p.pkgOfFile[f] = pk
			p.fileOfPos[p.Fset.Position(f.Pos()).Filename] = f
		}
	}
	p.Timings["load_s"] = time.Since(t0).Seconds()

	t1 := time.Now()
	prog, spkgs := ssautil.AllPackages(roots, ssa.InstantiateGenerics)
	_ = spkgs
	prog.Build()
	p.SSA = prog
	for _, sp := range prog.AllPackages() {
		p.SSAPkgs[sp.Pkg.Path()] = sp
	}
	p.AllFuncs = ssautil.AllFunctions(prog)
	for fn := range p.AllFuncs {
		if fn.Object() != nil {
			obj := fn.Object()
			if o := fn.Origin(); o != nil && o.Object() != nil {
				obj = o.Object()
			}
			p.byObj[obj] = append(p.byObj[obj], fn)
		}
		if p.InModule(fn) && fn.Blocks != nil {
			p.srcFuncs = append(p.srcFuncs, fn)
		}
	}
	sort.Slice(p.srcFuncs, func(i, j int) bool {
		a, b := p.srcFuncs[i], p.srcFuncs[j]
		if a.Pos() != b.Pos() {
			return a.Pos() < b.Pos()
		}
		return a.String() < b.String()
	})
	p.Timings["ssa_s"] = time.Since(t1).Seconds()

	if !opts.NoCG {
		t2 := time.Now()
		p.CG = vta.CallGraph(p.AllFuncs, cha.CallGraph(prog))
		p.Timings["callgraph_s"] = time.Since(t2).Seconds()
	}
	return p, nil
}

// InModule reports whether fn's source lies in the module under analysis
// (closures and generic instantiations included).
func (p *Prog) InModule(fn *ssa.Function) bool {
	for f := fn; f != nil; f = f.Parent() {
		if f.Pkg != nil {
			return strings.HasPrefix(f.Pkg.Pkg.Path(), Module)
		}
		if o := f.Origin(); o != nil && o.Pkg != nil {
			return strings.HasPrefix(o.Pkg.Pkg.Path(), Module)
		}
	}
	return false
}

// PkgPathOf returns the package path a function's source belongs to.
func PkgPathOf(fn *ssa.Function) string {
	for f := fn; f != nil; f = f.Parent() {
		if f.Pkg != nil {
			return f.Pkg.Pkg.Path()
		}
		if o := f.Origin(); o != nil && o.Pkg != nil {
			return o.Pkg.Pkg.Path()
		}
	}
	return ""
}

// SrcFuncs returns all functions with bodies whose source is in the module,
// in source order. Generic functions appear once per instantiation; the
// uninstantiated origin (which has no callers) is included too.
func (p *Prog) SrcFuncs() []*ssa.Function { return p.srcFuncs }

// Pos renders a position relative to the repository root.
func (p *Prog) Pos(pos token.Pos) string {
	if !pos.IsValid() {
		return "-"
	}
	ps := p.Fset.Position(pos)
	rel, err := filepath.Rel(p.Dir, ps.Filename)
	if err != nil || strings.HasPrefix(rel, "..") {
		// dependency: shorten the module cache prefix
		if i := strings.Index(ps.Filename, "/pkg/mod/"); i >= 0 {
			rel = ps.Filename[i+len("/pkg/mod/"):]
		} else {
			rel = ps.Filename
		}
	}
	return fmt.Sprintf("%s:%d", rel, ps.Line)
}

// Package returns the types.Package with the given path.
func (p *Prog) Package(path string) *types.Package {
	if pk, ok := p.AllPkgs[path]; ok {
		return pk.Types
	}
	return nil
}

// Lookup resolves "pkgpath.Name" or "pkgpath.Type.Member" (method or field)
// to a types.Object; nil if unresolved.
func (p *Prog) Lookup(pkgPath, name string) types.Object {
	tp := p.Package(pkgPath)
	if tp == nil {
		return nil
	}
	parts := strings.Split(name, ".")
	obj := tp.Scope().Lookup(parts[0])
	if obj == nil || len(parts) == 1 {
		return obj
	}
	tn, ok := obj.(*types.TypeName)
	if !ok {
		return nil
	}
	o, _, _ := types.LookupFieldOrMethod(tn.Type(), true, tp, parts[1])
	return o
}

// Func resolves a function or method object to its SSA function (origin for
// generics).
func (p *Prog) Func(pkgPath, name string) *ssa.Function {
	obj, _ := p.Lookup(pkgPath, name).(*types.Func)
	if obj == nil {
		return nil
	}
	return p.SSA.FuncValue(obj)
}

// Instances returns the SSA functions for an object: the function itself or
// every instantiation of a generic (plus its origin).
func (p *Prog) Instances(obj types.Object) []*ssa.Function {
	fs := append([]*ssa.Function(nil), p.byObj[obj]...)
	sort.Slice(fs, func(i, j int) bool { return fs[i].String() < fs[j].String() })
	return fs
}

// NamedType resolves a named type.
func (p *Prog) NamedType(pkgPath, name string) *types.Named {
	obj := p.Lookup(pkgPath, name)
	if obj == nil {
		return nil
	}
	n, _ := types.Unalias(obj.Type()).(*types.Named)
	return n
}

// Field resolves a struct field object.
func (p *Prog) Field(pkgPath, typ, field string) *types.Var {
	v, _ := p.Lookup(pkgPath, typ+"."+field).(*types.Var)
	return v
}

// WithAnon returns fn and all closures nested in it, in source order.
func WithAnon(fn *ssa.Function) []*ssa.Function {
	res := []*ssa.Function{fn}
	for _, a := range fn.AnonFuncs {
		res = append(res, WithAnon(a)...)
	}
	return res
}

// Outermost returns the top-level function a closure is nested in.
func Outermost(fn *ssa.Function) *ssa.Function {
	for fn.Parent() != nil {
		fn = fn.Parent()
	}
	return fn
}

// FuncName gives a stable, readable name for reports: package-qualified,
// closures as parent$n.
func FuncName(fn *ssa.Function) string {
	if fn == nil {
		return "<nil>"
	}
	s := fn.String()
	s = strings.ReplaceAll(s, Module+"/", "")
	return s
}

// Callees returns the resolved callees of a call instruction: the static
// callee if there is one, otherwise every target the VTA call graph has for
// that site.
func (p *Prog) Callees(call ssa.CallInstruction) []*ssa.Function {
	if fs, ok := p.calleeMemo[call]; ok {
		return fs
	}
	var res []*ssa.Function
	if c := call.Common().StaticCallee(); c != nil {
		res = []*ssa.Function{c}
	} else if p.CG != nil {
		if n := p.CG.Nodes[call.Parent()]; n != nil {
			seen := map[*ssa.Function]bool{}
			for _, e := range n.Out {
				if e.Site == call && !seen[e.Callee.Func] {
					seen[e.Callee.Func] = true
					res = append(res, e.Callee.Func)
				}
			}
		}
		sort.Slice(res, func(i, j int) bool { return res[i].String() < res[j].String() })
	}
	p.calleeMemo[call] = res
	return res
}

// CalleeObj returns the types.Func a call statically names (function, method,
// or interface method), resolving generic instantiations to their origin.
func CalleeObj(call ssa.CallInstruction) *types.Func {
	c := call.Common()
	if c.IsInvoke() {
		return c.Method
	}
	if f := c.StaticCallee(); f != nil {
		if o := f.Origin(); o != nil {
			f = o
		}
		if obj, ok := f.Object().(*types.Func); ok {
			return obj
		}
		// wrappers / bound methods
		if f.Synthetic != "" && f.Object() == nil {
			return nil
		}
	}
	return nil
}

// IsCallTo reports whether call statically names pkgPath.name (name may be
// "Type.Method").
func IsCallTo(call ssa.CallInstruction, pkgPath, name string) bool {
	obj := CalleeObj(call)
	return ObjIs(obj, pkgPath, name)
}

// ObjIs reports whether obj is the function/method pkgPath.name.
func ObjIs(obj *types.Func, pkgPath, name string) bool {
	if obj == nil || obj.Pkg() == nil || obj.Pkg().Path() != pkgPath {
		return false
	}
	return ObjName(obj) == name
}

// ObjName renders "Func" or "Type.Method" for a function object.
func ObjName(obj *types.Func) string {
	sig, _ := obj.Type().(*types.Signature)
	if sig != nil && sig.Recv() != nil {
		t := sig.Recv().Type()
		if pt, ok := t.(*types.Pointer); ok {
			t = pt.Elem()
		}
		switch n := types.Unalias(t).(type) {
		case *types.Named:
			return n.Obj().Name() + "." + obj.Name()
		case *types.Interface:
			return "interface." + obj.Name()
		}
		return "?." + obj.Name()
	}
	return obj.Name()
}

// QualifiedName renders pkgpath.Name for a function object.
func QualifiedName(obj *types.Func) string {
	if obj == nil {
		return "<nil>"
	}
	if obj.Pkg() == nil {
		return ObjName(obj)
	}
	return strings.TrimPrefix(obj.Pkg().Path(), Module+"/") + "." + ObjName(obj)
}

// Reach returns the set of functions reachable from the entries in the call
// graph (closures created in a reachable function are included, since VTA has
// edges only where they are called).
func (p *Prog) Reach(entries ...*ssa.Function) map[*ssa.Function]bool {
	seen := map[*ssa.Function]bool{}
	var work []*ssa.Function
	push := func(f *ssa.Function) {
		if f != nil && !seen[f] {
			seen[f] = true
			work = append(work, f)
		}
	}
	for _, e := range entries {
		push(e)
	}
	for len(work) > 0 {
		f := work[len(work)-1]
		work = work[:len(work)-1]
		if n := p.CG.Nodes[f]; n != nil {
			for _, e := range n.Out {
				push(e.Callee.Func)
			}
		}
		// closures made here, and functions whose value is taken here, may be
		// called through values VTA resolves elsewhere; VTA edges cover the
		// calls, but a closure stored in a struct and invoked by a library
		// (cobra's Run) must be followed from its creation site.
		for _, b := range f.Blocks {
			for _, ins := range b.Instrs {
				if mc, ok := ins.(*ssa.MakeClosure); ok {
					push(mc.Fn.(*ssa.Function))
				}
			}
		}
	}
	return seen
}

// CallPath returns one shortest call path from any entry to target, as names.
func (p *Prog) CallPath(entries []*ssa.Function, target *ssa.Function) []string {
	prev := map[*ssa.Function]*ssa.Function{}
	seen := map[*ssa.Function]bool{}
	var q []*ssa.Function
	for _, e := range entries {
		if e != nil && !seen[e] {
			seen[e] = true
			q = append(q, e)
		}
	}
	for len(q) > 0 {
		f := q[0]
		q = q[1:]
		if f == target {
			var path []string
			for x := f; x != nil; x = prev[x] {
				path = append([]string{FuncName(x)}, path...)
			}
			return path
		}
		var next []*ssa.Function
		if n := p.CG.Nodes[f]; n != nil {
			for _, e := range n.Out {
				next = append(next, e.Callee.Func)
			}
		}
		for _, b := range f.Blocks {
			for _, ins := range b.Instrs {
				if mc, ok := ins.(*ssa.MakeClosure); ok {
					next = append(next, mc.Fn.(*ssa.Function))
				}
			}
		}
		for _, c := range next {
			if !seen[c] {
				seen[c] = true
				prev[c] = f
				q = append(q, c)
			}
		}
	}
	return nil
}

// FileOf returns the syntax file that contains pos.
func (p *Prog) FileOf(pos token.Pos) *ast.File {
	if !pos.IsValid() {
		return nil
	}
	return p.fileOfPos[p.Fset.Position(pos).Filename]
}

// TypesInfoOf returns the types.Info for the file containing pos.
func (p *Prog) TypesInfoOf(pos token.Pos) *types.Info {
	f := p.FileOf(pos)
	if f == nil {
		return nil
	}
	if pk := p.pkgOfFile[f]; pk != nil {
		return pk.TypesInfo
	}
	return nil
}

// PkgOf returns the loaded package with the given import path.
func (p *Prog) PkgOf(path string) *packages.Package { return p.AllPkgs[path] }

// FuncDecl returns the syntax of a source function (FuncDecl or FuncLit).
func (p *Prog) FuncSyntax(fn *ssa.Function) ast.Node {
	if fn.Syntax() != nil {
		return fn.Syntax()
	}
	if o := fn.Origin(); o != nil {
		return o.Syntax()
	}
	return nil
}

// ReachLexical is Reach restricted against the imprecision of shared
// higher-order helpers (errgroup.Go, pool.Go ...): a closure is entered through
// a dynamic call only if the function that creates it is already reachable.
func (p *Prog) ReachLexical(entries ...*ssa.Function) map[*ssa.Function]bool {
	seen := map[*ssa.Function]bool{}
	for _, e := range entries {
		if e != nil {
			seen[e] = true
		}
	}
	for changed := true; changed; {
		changed = false
		for f := range seen {
			var cands []*ssa.Function
			if n := p.CG.Nodes[f]; n != nil {
				for _, e := range n.Out {
					cands = append(cands, e.Callee.Func)
				}
			}
			for _, b := range f.Blocks {
				for _, ins := range b.Instrs {
					if mc, ok := ins.(*ssa.MakeClosure); ok {
						cands = append(cands, mc.Fn.(*ssa.Function))
					}
				}
			}
			for _, c := range cands {
				if seen[c] {
					continue
				}
				if par := c.Parent(); par != nil && !seen[par] {
					continue
				}
				seen[c] = true
				changed = true
			}
		}
	}
	return seen
}

// ReachLexicalAvoiding is ReachLexical with some call sites removed: a call
// edge whose site is in skip is not followed.
func (p *Prog) ReachLexicalAvoiding(skip map[ssa.Instruction]bool, entries ...*ssa.Function) map[*ssa.Function]bool {
	seen := map[*ssa.Function]bool{}
	for _, e := range entries {
		if e != nil {
			seen[e] = true
		}
	}
	for changed := true; changed; {
		changed = false
		for f := range seen {
			var cands []*ssa.Function
			if n := p.CG.Nodes[f]; n != nil {
				for _, e := range n.Out {
					if e.Site != nil && skip[e.Site] {
						continue
					}
					cands = append(cands, e.Callee.Func)
				}
			}
			for _, b := range f.Blocks {
				for _, ins := range b.Instrs {
					if mc, ok := ins.(*ssa.MakeClosure); ok {
						cands = append(cands, mc.Fn.(*ssa.Function))
					}
				}
			}
			for _, c := range cands {
				if seen[c] {
					continue
				}
				if par := c.Parent(); par != nil && !seen[par] {
					continue
				}
				seen[c] = true
				changed = true
			}
		}
	}
	return seen
}

// OriginOf returns the generic origin of an instantiated function, or fn.
func OriginOf(fn *ssa.Function) *ssa.Function {
	if fn == nil {
		return nil
	}
	if o := fn.Origin(); o != nil {
		return o
	}
	return fn
}

// BaseName is the declared name of a function or method (type arguments of
// instantiations stripped).
func BaseName(fn *ssa.Function) string {
	if fn == nil {
		return ""
	}
	return OriginOf(fn).Name()
}
