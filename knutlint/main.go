// knutlint decides structural clauses of the properties in
// /verif/properties.jsonl from the source of sboehler/knut, without running it.
package main

import (
	"encoding/json"
	"flag"
	"fmt"
	"os"
	"path/filepath"
	"sort"
	"strconv"
	"strings"
	"time"

	"knutlint/core"
	"knutlint/rules"
)

type sample struct {
	Rule    string   `json:"rule"`
	Key     string   `json:"construct"`
	Where   string   `json:"where"`
	Func    string   `json:"func,omitempty"`
	Verdict string   `json:"verdict"`
	Detail  string   `json:"detail,omitempty"`
	Path    []string `json:"path,omitempty"`
}

func main() {
	prop := flag.String("prop", "", "property id (C01..C20), comma list, or 'all'")
	tier := flag.String("tier", "quick", "quick|thorough")
	repo := flag.String("repo", "/repo", "repository root")
	verif := flag.String("verif", "/verif", "verification directory")
	overlay := flag.String("overlay", "", "JSON file {abs path: contents} applied as overlay (mutant analysis)")
	noEvidence := flag.Bool("no-evidence", false, "do not write evidence/report files (mutant analysis)")
	dump := flag.Bool("dump", false, "print every obligation")
	env := flag.String("env", "", "extra environment for the load, e.g. GOOS=windows")
	ruleNames := flag.String("rules", "", "development: run only these rules (comma list, or 'all') as pseudo-property DEV")
	manifest := flag.Bool("manifest", false, "print MANIFEST.json for the claimed properties and exit")
	flag.Parse()
	if *manifest {
		printManifest()
		return
	}

	if *ruleNames != "" {
		dev := &rules.Property{ID: "DEV"}
		var names []string
		if *ruleNames == "all" {
			for n := range rules.ByName {
				names = append(names, n)
			}
			sort.Strings(names)
		} else {
			names = strings.Split(*ruleNames, ",")
		}
		for _, n := range names {
			r, ok := rules.ByName[n]
			if !ok {
				fmt.Fprintf(os.Stderr, "unknown rule %s\n", n)
				os.Exit(2)
			}
			dev.Rules = append(dev.Rules, r)
		}
		rules.Properties["DEV"] = dev
		*prop = "DEV"
		*noEvidence = true
	}
	if *prop == "" {
		fmt.Fprintln(os.Stderr, "usage: knutlint -prop Cxx [-tier quick|thorough]")
		os.Exit(2)
	}
	var props []string
	if *prop == "all" {
		for id := range rules.Properties {
			if id != "DEV" {
				props = append(props, id)
			}
		}
		sort.Strings(props)
	} else {
		props = strings.Split(*prop, ",")
	}
	for _, id := range props {
		if _, ok := rules.Properties[id]; !ok {
			fmt.Fprintf(os.Stderr, "unknown or unclaimed property %s\n", id)
			os.Exit(2)
		}
	}

	seed := 0
	if s := os.Getenv("VERIF_SEED"); s != "" {
		if n, err := strconv.Atoi(s); err == nil {
			seed = n
		}
	}

	t0 := time.Now()
	opts := core.LoadOptions{Dir: *repo}
	if *env != "" {
		opts.Env = strings.Fields(*env)
	}
	if *overlay != "" {
		b, err := os.ReadFile(*overlay)
		if err != nil {
			fatal(props, *verif, *noEvidence, "reading overlay: %v", err)
		}
		var m map[string]string
		if err := json.Unmarshal(b, &m); err != nil {
			fatal(props, *verif, *noEvidence, "parsing overlay: %v", err)
		}
		opts.Overlay = map[string][]byte{}
		for k, v := range m {
			opts.Overlay[k] = []byte(v)
		}
	}
	p, err := core.Load(opts)
	if err != nil {
		fatal(props, *verif, *noEvidence, "%v", err)
	}
	loadS := time.Since(t0).Seconds()

	findings, err := core.LoadFindings(filepath.Join(*verif, "known_findings.json"))
	if err != nil {
		fatal(props, *verif, *noEvidence, "%v", err)
	}

	exit := 0
	for _, id := range props {
		t1 := time.Now()
		pr := rules.Properties[id]
		ctx := core.NewCtx(p)
		func() {
			defer func() {
				if r := recover(); r != nil {
					ctx.Obs = append(ctx.Obs, &core.Obligation{Rule: "analyser", Key: "analyser:panic", Where: "-", Verdict: core.Undecided,
						Detail: fmt.Sprintf("analyser panic (fails closed): %v", r)})
					if os.Getenv("KNUTLINT_DEBUG") != "" {
						panic(r)
					}
				}
			}()
			for _, r := range pr.Rules {
				r(ctx)
			}
		}()
		res := core.Evaluate(id, ctx, findings)
		wall := time.Since(t1).Seconds() + loadS

		// console
		nDis, nViol, nUnd, nInfo := 0, 0, 0, 0
		perRule := map[string]int{}
		for _, o := range res.Obligations {
			switch o.Verdict {
			case core.Discharged:
				nDis++
			case core.Violated:
				nViol++
			case core.Undecided:
				nUnd++
			case core.Info:
				nInfo++
			}
			if o.Verdict != core.Info {
				perRule[o.Rule]++
			}
			if *dump {
				fmt.Printf("  %-10s %-14s %s  [%s] %s\n", o.Verdict, o.Rule, o.Key, o.Where, o.Detail)
			}
		}
		fmt.Printf("%s: packages=%d functions=%d cg_nodes=%d obligations=%d discharged=%d violated=%d undecided=%d info=%d known=%d\n",
			id, len(p.Pkgs), len(p.SrcFuncs()), cgNodes(p), nDis+nViol+nUnd, nDis, nViol, nUnd, nInfo, len(res.Known))
		var rs []string
		for r, n := range perRule {
			rs = append(rs, fmt.Sprintf("%s=%d", r, n))
		}
		sort.Strings(rs)
		fmt.Printf("%s: rule instances: %s\n", id, strings.Join(rs, " "))
		for _, o := range res.Known {
			fmt.Printf("KNOWN-FINDING: property=%s %s [%s at %s]\n", id, res.KnownText[o.Key], o.Key, o.Where)
		}
		for _, f := range res.FloorFails {
			fmt.Printf("%s: FLOOR %s\n", id, f)
		}
		for _, o := range res.Violations {
			fmt.Printf("%s: %s rule=%s at=%s func=%s key=%s\n    %s\n", id, strings.ToUpper(string(o.Verdict)), o.Rule, o.Where, o.Func, o.Key, o.Detail)
		}

		if !*noEvidence {
			writeEvidence(*verif, id, *tier, seed, pr, p, res, perRule, wall)
		}
		if res.Failed() {
			exit = 1
			replay := filepath.Join(*verif, "reports", id+".txt")
			if !*noEvidence {
				os.MkdirAll(filepath.Dir(replay), 0o755)
				os.WriteFile(replay, []byte(res.ReportText()), 0o644)
			}
			fmt.Printf("VIOLATION property=%s replay=%s\n", id, replay)
		}
	}
	os.Exit(exit)
}

func cgNodes(p *core.Prog) int {
	if p.CG == nil {
		return 0
	}
	return len(p.CG.Nodes)
}

func fatal(props []string, verif string, noEvidence bool, format string, args ...any) {
	msg := fmt.Sprintf(format, args...)
	fmt.Fprintln(os.Stderr, "knutlint: "+msg)
	for _, id := range props {
		replay := filepath.Join(verif, "reports", id+".txt")
		if !noEvidence {
			os.MkdirAll(filepath.Dir(replay), 0o755)
			os.WriteFile(replay, []byte("analysis could not run (fails closed): "+msg+"\n"), 0o644)
		}
		fmt.Printf("VIOLATION property=%s replay=%s\n", id, replay)
	}
	os.Exit(1)
}

func writeEvidence(verif, id, tier string, seed int, pr *rules.Property, p *core.Prog, res *core.Result, perRule map[string]int, wall float64) {
	nOb, nDis, nUnd, nViol := 0, 0, 0, 0
	constructs := map[string]bool{}
	var samples []sample
	perRuleSample := map[string]int{}
	for _, o := range res.Obligations {
		if o.Verdict == core.Info {
			continue
		}
		nOb++
		switch o.Verdict {
		case core.Discharged:
			nDis++
		case core.Undecided:
			nUnd++
		case core.Violated:
			nViol++
		}
		constructs[o.Func+"|"+o.Where] = true
		if perRuleSample[o.Rule] < 2 || o.Verdict != core.Discharged {
			perRuleSample[o.Rule]++
			samples = append(samples, sample{Rule: o.Rule, Key: o.Key, Where: o.Where, Func: o.Func, Verdict: string(o.Verdict), Detail: o.Detail, Path: o.Path})
		}
	}
	var infos []string
	for _, o := range res.Obligations {
		if o.Verdict == core.Info {
			infos = append(infos, o.Key+" @ "+o.Where+": "+o.Detail)
		}
	}
	var known []string
	for _, o := range res.Known {
		known = append(known, o.Key+": "+res.KnownText[o.Key])
	}
	assumptions := pr.Assumptions
	if assumptions == nil {
		assumptions = []string{}
	}
	if known == nil {
		known = []string{}
	}
	if infos == nil {
		infos = []string{}
	}
	if samples == nil {
		samples = []sample{}
	}
	floors := res.FloorFails
	if floors == nil {
		floors = []string{}
	}
	ev := map[string]any{
		"property_id": id,
		"tier":        tier,
		"seed":        seed,
		"level":       "other",
		"wall_s":      wall,
		"violations":  len(res.Violations) + len(res.FloorFails),
		"assumptions": assumptions,
		"coverage": map[string]any{
			"explanation":         pr.Explanation,
			"decides":             pr.Decides,
			"does_not_decide":     pr.NotDecided,
			"evaluations":         nOb,
			"distinct_nontrivial": len(constructs),
			"rule":                "every instance of each rule's construct in the type-checked program is enumerated (call sites, loops, stores, literals, functions); an obligation is non-trivial when it names a concrete construct in /repo; distinct = distinct (function, source position) pairs carrying at least one obligation",
			"obligations":         nOb,
			"discharged":          nDis,
			"undecided":           nUnd,
			"violated":            nViol,
			"known_findings":      known,
			"rule_instances":      perRule,
			"floor_failures":      floors,
			"samples":             samples,
			"info":                infos,
			"exhaustive":          true,
			"analysed": map[string]any{
				"module_packages":  len(p.Pkgs),
				"all_packages":     len(p.AllPkgs),
				"source_functions": len(p.SrcFuncs()),
				"callgraph_nodes":  cgNodes(p),
				"build_config":     "default " + p.Config,
				"timings_s":        p.Timings,
			},
			"checker_cmd":  "bin/knutlint -prop " + id + " -tier " + tier,
			"trusted_base": []string{"go/types type checker", "golang.org/x/tools v0.29.0 go/ssa + VTA call graph", "shopspring/decimal exact arithmetic"},
		},
	}
	b, _ := json.MarshalIndent(ev, "", " ")
	os.MkdirAll(filepath.Join(verif, "evidence"), 0o755)
	os.WriteFile(filepath.Join(verif, "evidence", id+".json"), append(b, '\n'), 0o644)
}

func printManifest() {
	var ids []string
	for id := range rules.Properties {
		ids = append(ids, id)
	}
	sort.Strings(ids)
	var checks []any
	for _, id := range ids {
		pr := rules.Properties[id]
		checks = append(checks, map[string]any{
			"property_id":         id,
			"quick_cmd":           "./check " + id + " quick",
			"thorough_cmd":        "./check " + id + " thorough",
			"evidence_file":       "/verif/evidence/" + id + ".json",
			"replay_cmd_template": "./check " + id + " --replay {path}",
			"engine":              "knutlint",
			"technique":           pr.Technique,
			"level_claimed": map[string]any{
				"category":   "other",
				"text":       pr.LevelText,
				"design_ref": "DESIGN.md section 4, " + id,
			},
			"level_note": pr.LevelNote,
		})
	}
	var na []any
	var naIDs []string
	for id := range rules.NotApplicable {
		naIDs = append(naIDs, id)
	}
	sort.Strings(naIDs)
	for _, id := range naIDs {
		na = append(na, map[string]any{"property_id": id, "reason": rules.NotApplicable[id]})
	}
	if na == nil {
		na = []any{}
	}
	m := map[string]any{
		"version":   1,
		"setup_cmd": "./check build",
		"hooks": map[string]any{
			"guard":            "verif",
			"enable":           "none: nothing in /repo is instrumented; the analyser reads the source",
			"baseline_off_cmd": "cd /repo && go test -vet=off -count=1 ./...",
			"source_commits":   []string{},
			"add_only":         true,
		},
		"engines": []any{map[string]any{
			"name":              "knutlint",
			"path":              "/verif/knutlint",
			"serves_properties": ids,
			"kind_free_text":    "repository-specific static analyser: go/packages (type-checked syntax of all 56 packages plus dependencies) -> go/ssa with instantiated generics -> VTA call graph; rules are dataflow / dominance / who-may-write / table-agreement queries over that program; nothing in /repo is executed",
		}},
		"checks":         checks,
		"not_applicable": na,
		"notes":          rules.ManifestNotes,
	}
	b, _ := json.MarshalIndent(m, "", " ")
	fmt.Println(string(b))
}
