package rules

import (
	"fmt"
	"go/token"
	"go/types"
	"sort"
	"strings"

	"golang.org/x/tools/go/ssa"

	"knutlint/core"
)

// stageFieldUse: which of the tracked per-day / per-posting fields a stage's
// callbacks read and write (callees followed two levels).
type fieldUse struct {
	reads, writes map[string]bool
}

var trackedStageFields = map[string]bool{"Day.Normalized": true, "Day.Performance": true, "Posting.Value": true}

func stageFieldUse(p *core.Prog, st *stage) fieldUse {
	fu := fieldUse{reads: map[string]bool{}, writes: map[string]bool{}}
	seen := map[*ssa.Function]bool{}
	var visit func(fn *ssa.Function, depth int)
	visit = func(fn *ssa.Function, depth int) {
		if fn == nil || seen[fn] || fn.Blocks == nil || !p.InModule(fn) {
			return
		}
		seen[fn] = true
		core.EachInstr(fn, func(ins ssa.Instruction) {
			switch x := ins.(type) {
			case *ssa.FieldAddr:
				ref := p.FieldRef(core.FieldOf(x))
				if !trackedStageFields[ref] || x.Referrers() == nil {
					return
				}
				for _, r := range *x.Referrers() {
					switch y := r.(type) {
					case *ssa.Store:
						if y.Addr == ssa.Value(x) {
							fu.writes[ref] = true
						}
					case *ssa.UnOp:
						fu.reads[ref] = true
					case *ssa.FieldAddr:
						// d.Performance.V1 = ... : a write through the field counts as a read of the pointer
						fu.reads[ref] = true
					}
				}
			case *ssa.Field:
				if ref := p.FieldRef(core.FieldOf(x)); trackedStageFields[ref] {
					fu.reads[ref] = true
				}
			case ssa.CallInstruction:
				if depth > 0 {
					for _, callee := range p.Callees(x) {
						visit(callee, depth-1)
					}
				}
			case *ssa.MakeClosure:
				visit(x.Fn.(*ssa.Function), depth)
			}
		})
	}
	for _, cb := range st.callbacks {
		visit(cb, 2)
	}
	return fu
}

// RuleG1 — pipeline def-before-use: in every Journal.Process call, a stage
// that reads Day.Normalized, Posting.Value or Day.Performance is preceded by
// (or is itself) a stage that writes it.
func RuleG1(c *core.Ctx) {
	const rule = "G1"
	p := c.P
	n := 0
	for _, pl := range pipelines(c) {
		fname := core.FuncName(pl.fn)
		if !pl.resolved {
			c.Ob(rule, fname+":Process call", pl.call.Pos(), fname, core.Undecided, "processor list could not be resolved: "+pl.why)
			continue
		}
		written := map[string]string{}
		for i, st := range pl.stages {
			fu := stageFieldUse(p, st)
			var reads []string
			for f := range fu.reads {
				reads = append(reads, f)
			}
			sort.Strings(reads)
			for _, f := range reads {
				n++
				key := fmt.Sprintf("%s:stage %d %s reads %s", fname, i+1, st.name(), f)
				if w, ok := written[f]; ok {
					c.Ob(rule, key, st.pos, fname, core.Discharged, f+" is written by the earlier stage "+w)
				} else if fu.writes[f] {
					c.Ob(rule, key, st.pos, fname, core.Discharged, f+" is written by this stage itself")
				} else if f == "Posting.Value" && valueReadIsGuarded(p, st) {
					c.Ob(rule, key, st.pos, fname, core.Discharged, "Posting.Value is read only under `Valuation != nil`, and no valuation stage is required when there is no valuation")
				} else {
					c.Ob(rule, key, st.pos, fname, core.Violated, "stage "+st.name()+" reads "+f+", which no earlier stage of this Process call writes: it sees zero values (stages are applied to each day in the order of the argument list)")
				}
			}
			for f := range fu.writes {
				if _, ok := written[f]; !ok {
					written[f] = st.name()
				}
			}
		}
	}
	c.Floor(rule, 8)
}

// valueReadIsGuarded: placeholder for stages that read Posting.Value only
// under a valuation test; conservative: false.
func valueReadIsGuarded(p *core.Prog, st *stage) bool { return false }

// RuleG2 — the balance command applies its stages in the order the property
// states: check, prices, valuate, filter(window), close, query.
func RuleG2(c *core.Ctx) {
	const rule = "G2"
	want := []string{"lib/journal/check.Check", "lib/journal.ComputePrices", "lib/journal.Valuate", "lib/journal.Filter", "lib/journal.CloseAccounts", "(lib/journal.Query).Into"}
	entries := core.CommandEntries(c, func(use string) bool { return use == "balance" })
	if len(entries) != 1 {
		c.Anchor(rule, "the balance command")
		return
	}
	reach := c.P.ReachLexical(entries[0])
	found := false
	for _, pl := range pipelines(c) {
		if !reach[pl.fn] || core.PkgPathOf(pl.fn) != pkgCommands {
			continue
		}
		found = true
		fname := core.FuncName(pl.fn)
		var got []string
		for _, st := range pl.stages {
			got = append(got, st.name())
		}
		key := fname + ":stage order"
		if strings.Join(got, " -> ") == strings.Join(want, " -> ") {
			c.Ob(rule, key, pl.call.Pos(), fname, core.Discharged, strings.Join(got, " -> "))
		} else {
			c.Ob(rule, key, pl.call.Pos(), fname, core.Violated, "the balance pipeline is "+strings.Join(got, " -> ")+"; the report semantics (valuation at booking-day prices, window filter before closing, closing before the query) require "+strings.Join(want, " -> "))
		}
	}
	if !found {
		c.Anchor(rule, "the Journal.Process call of the balance command")
	}
	c.Floor(rule, 1)
}

// RuleKPriceMiss — a missing price is an error and the error is not dropped.
func RuleKPriceMiss(c *core.Ctx) {
	const rule = "K-price-miss"
	p := c.P
	npT := p.NamedType(pkgPrice, "NormalizedPrices")
	if npT == nil {
		c.Anchor(rule, "price.NormalizedPrices")
		return
	}
	accessors := map[*ssa.Function]bool{}
	for _, n := range []string{"NormalizedPrices.Price", "NormalizedPrices.Valuate"} {
		f := p.Func(pkgPrice, n)
		if f == nil {
			c.Anchor(rule, "price."+n)
			return
		}
		accessors[f] = true
		// inside: comma-ok lookup, and the absent branch returns a non-nil error
		okLookup, errOnAbsent := false, false
		core.EachInstr(f, func(ins ssa.Instruction) {
			lk, ok := ins.(*ssa.Lookup)
			if !ok || !isNamed(lk.X.Type(), npT) {
				return
			}
			if !lk.CommaOk {
				return
			}
			okLookup = true
			if lk.Referrers() == nil {
				return
			}
			for _, r := range *lk.Referrers() {
				ex, isEx := r.(*ssa.Extract)
				if !isEx || ex.Index != 1 || ex.Referrers() == nil {
					continue
				}
				for _, rr := range *ex.Referrers() {
					var iff *ssa.If
					absentIdx := 1
					switch y := rr.(type) {
					case *ssa.If:
						iff = y
					case *ssa.UnOp:
						if y.Op == token.NOT && y.Referrers() != nil {
							for _, r3 := range *y.Referrers() {
								if i3, ok := r3.(*ssa.If); ok {
									iff, absentIdx = i3, 0
								}
							}
						}
					}
					if iff == nil {
						continue
					}
					absent := iff.Block().Succs[absentIdx]
					if ret, ok := absent.Instrs[len(absent.Instrs)-1].(*ssa.Return); ok {
						for _, rv := range ret.Results {
							if core.IsErrorType(rv.Type()) && !core.IsNilConst(rv) {
								errOnAbsent = true
							}
						}
					}
				}
			}
		})
		key := "price." + n + ":absent price is an error"
		// or: no lookup of its own — it delegates to a sibling accessor on the same
		// receiver and returns that accessor's error
		if !okLookup {
			delegated := false
			core.EachInstr(f, func(ins ssa.Instruction) {
				call, ok := ins.(*ssa.Call)
				if !ok || call.Call.StaticCallee() == nil || call.Call.StaticCallee() == f {
					return
				}
				callee := call.Call.StaticCallee()
				if core.PkgPathOf(callee) != pkgPrice || (callee.Name() != "Price" && callee.Name() != "Valuate") {
					return
				}
				if len(call.Call.Args) == 0 || len(f.Params) == 0 || call.Call.Args[0] != ssa.Value(f.Params[0]) || call.Referrers() == nil {
					return
				}
				for _, r := range *call.Referrers() {
					ex, ok := r.(*ssa.Extract)
					if !ok || ex.Index != 1 || ex.Referrers() == nil {
						continue
					}
					returned := false
					for _, rr := range *ex.Referrers() {
						if _, ok := rr.(*ssa.Return); ok {
							returned = true
						}
					}
					if returned && len(core.ErrSuccessBlocks(ex)) > 0 {
						delegated = true
					}
				}
			})
			if delegated {
				c.Ob(rule, key, f.Pos(), core.FuncName(f), core.Discharged, "delegates to a sibling accessor on the same price table and returns its error")
				continue
			}
		}
		if okLookup && errOnAbsent {
			c.Ob(rule, key, f.Pos(), core.FuncName(f), core.Discharged, "comma-ok lookup; the absent branch returns a non-nil error")
		} else {
			c.Ob(rule, key, f.Pos(), core.FuncName(f), core.Violated, "the accessor does not turn an absent price into an error: a commodity without a price would be valued at zero")
		}
	}
	for _, fn := range p.SrcFuncs() {
		if core.PkgPathOf(fn) == pkgPrice {
			continue
		}
		core.EachInstr(fn, func(ins ssa.Instruction) {
			switch x := ins.(type) {
			case *ssa.Lookup:
				if !isNamed(x.X.Type(), npT) && !isNamed(core.Strip(x.X).Type(), npT) {
					return
				}
				key := core.FuncName(fn) + ":direct read of NormalizedPrices"
				if x.CommaOk {
					c.Ob(rule, key, x.Pos(), core.FuncName(fn), core.Discharged, "comma-ok read")
				} else {
					c.Ob(rule, key, x.Pos(), core.FuncName(fn), core.Violated, "a price is read with the defaulting index expression: a missing price silently becomes zero instead of an error")
				}
			case *ssa.Call:
				callee := x.Call.StaticCallee()
				if callee == nil || !accessors[callee] {
					return
				}
				key := fmt.Sprintf("%s:error of %s(%s)", core.FuncName(fn), callee.Name(), describeValue(p, x.Call.Args[0]))
				var errV ssa.Value
				if x.Referrers() != nil {
					for _, r := range *x.Referrers() {
						if ex, ok := r.(*ssa.Extract); ok && ex.Index == 1 {
							errV = ex
						}
					}
				}
				if errV == nil {
					c.Ob(rule, key, x.Pos(), core.FuncName(fn), core.Violated, "the error of the price lookup is discarded: with a missing price the value is zero and the command prints a number")
					return
				}
				returned := false
				if errV.Referrers() != nil {
					for _, r := range *errV.Referrers() {
						if ret, ok := r.(*ssa.Return); ok {
							_ = ret
							returned = true
						}
					}
				}
				if returned && len(core.ErrSuccessBlocks(errV)) > 0 {
					c.Ob(rule, key, x.Pos(), core.FuncName(fn), core.Discharged, "the error is tested and returned")
				} else {
					c.Ob(rule, key, x.Pos(), core.FuncName(fn), core.Violated, "the error of the price lookup is not tested and returned")
				}
			}
		})
	}
	c.Floor(rule, 5)
}

// cellOf: the captured cell (Alloc in the enclosing function) that a free
// variable of a closure is bound to.
func cellOf(fv *ssa.FreeVar) ssa.Value {
	fn := fv.Parent()
	for i, f := range fn.FreeVars {
		if f != fv || fn.Parent() == nil {
			continue
		}
		var res ssa.Value
		core.EachInstr(fn.Parent(), func(ins ssa.Instruction) {
			if mc, ok := ins.(*ssa.MakeClosure); ok && mc.Fn == fn && i < len(mc.Bindings) {
				res = mc.Bindings[i]
			}
		})
		return res
	}
	return nil
}

// stateLoc identifies a piece of state shared by the callbacks of one stage: a
// variable of the stage constructor captured by its closures (the captured
// cell), or a field of the object whose methods the callbacks are (the field).
// nil: the address is neither.
func stateLoc(addr ssa.Value) any {
	switch a := addr.(type) {
	case *ssa.FreeVar:
		if c := cellOf(a); c != nil {
			return c
		}
	case *ssa.FieldAddr:
		if prm, ok := a.X.(*ssa.Parameter); ok && prm.Parent().Signature.Recv() != nil && len(prm.Parent().Params) > 0 && prm == prm.Parent().Params[0] {
			return core.FieldOf(a)
		}
		// the object is itself captured: field of *captured
		if ld, ok := a.X.(*ssa.UnOp); ok {
			if _, isFree := ld.X.(*ssa.FreeVar); isFree {
				return core.FieldOf(a)
			}
		}
	}
	return nil
}

// RuleDStateAllPaths — per-day state is refreshed on every path: the price
// stage stores Day.Normalized on every path of its DayEnd; the valuation
// stage stores the previous prices on every path of its DayEnd and takes the
// day's prices before their first use in DayStart.
func RuleDStateAllPaths(c *core.Ctx) {
	const rule = "D-state-all-paths"
	p := c.P
	normalized := p.Field(pkgJournal, "Day", "Normalized")
	cp := p.Func(pkgJournal, "ComputePrices")
	val := p.Func(pkgJournal, "Valuate")
	if normalized == nil || cp == nil || val == nil {
		c.Anchor(rule, "journal.Day.Normalized / ComputePrices / Valuate")
		return
	}
	stageOf := func(ctor *ssa.Function) *stage {
		var lit ssa.Value
		core.EachInstr(ctor, func(ins ssa.Instruction) {
			if ret, ok := ins.(*ssa.Return); ok && len(ret.Results) == 1 && !core.IsNilConst(ret.Results[0]) {
				lit = ret.Results[0]
			}
		})
		if lit == nil {
			return nil
		}
		return &stage{ctor: ctor, callbacks: processorLiteral(p, lit)}
	}
	// (1) ComputePrices.DayEnd
	if st := stageOf(cp); st == nil || st.callbacks["DayEnd"] == nil {
		c.Anchor(rule, "the DayEnd callback of journal.ComputePrices")
	} else {
		fn := st.callbacks["DayEnd"]
		esc, n := mustPass(p, fn, func(ins ssa.Instruction) bool {
			s, ok := ins.(*ssa.Store)
			if !ok {
				return false
			}
			fa, ok := s.Addr.(*ssa.FieldAddr)
			return ok && core.FieldOf(fa) == normalized
		})
		key := core.FuncName(fn) + ":Day.Normalized stored on every path"
		switch {
		case n == 0:
			c.Ob(rule, key, fn.Pos(), core.FuncName(fn), core.Violated, "the price stage never stores Day.Normalized")
		case esc != "":
			c.Ob(rule, key, fn.Pos(), core.FuncName(fn), core.Violated, "Day.Normalized is not stored on every path ("+esc+"): days without price directives carry no prices, so the latest known price is not used")
		default:
			c.Ob(rule, key, fn.Pos(), core.FuncName(fn), core.Discharged, "every day receives the normalized prices (carried forward on days without price directives)")
		}
		// the refresh: the call to Prices.Normalize is control-dependent only on `len(d.Prices) > 0`
		prices := p.Field(pkgJournal, "Day", "Prices")
		core.EachInstr(fn, func(ins ssa.Instruction) {
			call, ok := ins.(*ssa.Call)
			if !ok || call.Call.StaticCallee() == nil || originName(call.Call.StaticCallee()) != "(lib/model/price.Prices).Normalize" {
				return
			}
			k3 := core.FuncName(fn) + ":prices re-normalized on every day with price directives"
			bad := ""
			lenTest := false
			for _, b := range fn.Blocks {
				iff, isIf := b.Instrs[len(b.Instrs)-1].(*ssa.If)
				if !isIf {
					continue
				}
				if ctl, _ := core.Controls(b, call.Block()); !ctl {
					continue
				}
				isLen := false
				if bo, ok := iff.Cond.(*ssa.BinOp); ok {
					for _, side := range []ssa.Value{bo.X, bo.Y} {
						if lc, ok := side.(*ssa.Call); ok {
							if bi, ok := lc.Call.Value.(*ssa.Builtin); ok && bi.Name() == "len" {
								for v := range originSet(p, lc.Call.Args[0], 0) {
									if fa, ok := v.(*ssa.FieldAddr); ok && core.FieldOf(fa) == prices {
										isLen = true
									}
								}
							}
						}
					}
				}
				if isLen {
					lenTest = true
				} else {
					bad = describeValue(p, iff.Cond) + " at " + p.Pos(core.NearPos(iff))
				}
			}
			if bad != "" {
				c.Ob(rule, k3, call.Pos(), core.FuncName(fn), core.Violated, "the re-normalization of the prices depends on a condition other than `the day has price directives` ("+bad+"): a day's new price may not take effect")
			} else if lenTest {
				c.Ob(rule, k3, call.Pos(), core.FuncName(fn), core.Discharged, "Normalize runs exactly when the day has price directives")
			} else {
				c.Ob(rule, k3, call.Pos(), core.FuncName(fn), core.Discharged, "Normalize runs on every day")
			}
		})
		// the stored value: the captured `previous`, which is refreshed from Normalize
		stored := false
		core.EachInstr(fn, func(ins ssa.Instruction) {
			s, ok := ins.(*ssa.Store)
			if !ok {
				return
			}
			if fa, ok := s.Addr.(*ssa.FieldAddr); ok && core.FieldOf(fa) == normalized {
				if ld, ok := s.Val.(*ssa.UnOp); ok && stateLoc(ld.X) != nil {
					stored = true
				}
			}
		})
		k2 := core.FuncName(fn) + ":Day.Normalized is the carried-forward state"
		if stored {
			c.Ob(rule, k2, fn.Pos(), core.FuncName(fn), core.Discharged, "the stored prices are the stage's captured state, refreshed on days with price directives")
		} else {
			c.Ob(rule, k2, fn.Pos(), core.FuncName(fn), core.Violated, "the value stored into Day.Normalized is not the stage's carried-forward state")
		}
	}
	// (2),(3) Valuate
	st := stageOf(val)
	if st == nil || st.callbacks["DayEnd"] == nil || st.callbacks["DayStart"] == nil {
		c.Anchor(rule, "the DayStart/DayEnd callbacks of journal.Valuate")
		return
	}
	dayEnd, dayStart := st.callbacks["DayEnd"], st.callbacks["DayStart"]
	// cells captured by both
	storesFromNormalized := func(fn *ssa.Function) map[any]*ssa.Store {
		res := map[any]*ssa.Store{}
		core.EachInstr(fn, func(ins ssa.Instruction) {
			s, ok := ins.(*ssa.Store)
			if !ok {
				return
			}
			loc := stateLoc(s.Addr)
			if loc == nil {
				return
			}
			fromN := false
			for v := range originSet(p, s.Val, 0) {
				if fa, ok := v.(*ssa.FieldAddr); ok && core.FieldOf(fa) == normalized {
					fromN = true
				}
			}
			if fromN {
				res[loc] = s
			}
		})
		return res
	}
	endStores := storesFromNormalized(dayEnd)
	startStores := storesFromNormalized(dayStart)
	key := core.FuncName(dayEnd) + ":previous prices stored on every path"
	if len(endStores) != 1 {
		c.Ob(rule, key, dayEnd.Pos(), core.FuncName(dayEnd), core.Violated, fmt.Sprintf("the valuation stage's DayEnd is expected to keep the day's prices as the next day's previous prices in exactly one captured variable, found %d", len(endStores)))
	} else {
		var cell any
		for k := range endStores {
			cell = k
		}
		esc, _ := mustPass(p, dayEnd, func(ins ssa.Instruction) bool {
			s, ok := ins.(*ssa.Store)
			if !ok {
				return false
			}
			return stateLoc(s.Addr) == cell
		})
		if esc != "" {
			c.Ob(rule, key, dayEnd.Pos(), core.FuncName(dayEnd), core.Violated, "the previous prices are not refreshed on every path ("+esc+"): the daily revaluation would use a stale base price")
		} else {
			c.Ob(rule, key, dayEnd.Pos(), core.FuncName(dayEnd), core.Discharged, "the day's prices become the previous prices on every path")
		}
		// DayStart must read that cell as the previous price and a different one as the current
		if _, clash := startStores[cell]; clash {
			c.Ob(rule, core.FuncName(dayStart)+":previous and current prices are distinct", dayStart.Pos(), core.FuncName(dayStart), core.Violated, "DayStart overwrites the previous prices with the current day's before using them")
		}
	}
	key = core.FuncName(dayStart) + ":current prices taken before use"
	if len(startStores) != 1 {
		c.Ob(rule, key, dayStart.Pos(), core.FuncName(dayStart), core.Violated, fmt.Sprintf("the valuation stage's DayStart is expected to take the day's prices into exactly one captured variable, found %d", len(startStores)))
		return
	}
	for cell, s := range startStores {
		bad := ""
		core.EachInstr(dayStart, func(ins ssa.Instruction) {
			ld, ok := ins.(*ssa.UnOp)
			if !ok || ld.Op != token.MUL {
				return
			}
			if stateLoc(ld.X) != cell {
				return
			}
			if !core.Dominates(s, ld) {
				bad = "a read at " + p.Pos(core.NearPos(ld)) + " is not dominated by the store"
			}
		})
		if bad != "" {
			c.Ob(rule, key, s.Pos(), core.FuncName(dayStart), core.Violated, "the day's prices are used before they are taken from Day.Normalized: "+bad)
		} else {
			c.Ob(rule, key, s.Pos(), core.FuncName(dayStart), core.Discharged, "the store from Day.Normalized dominates every use of the current prices in DayStart")
		}
	}
	c.Floor(rule, 4)
}

// RuleKReval — the daily revaluation: for every open position it books
// (current price - previous price) x quantity, debiting the position's own
// account and crediting the mirrored valuation account, in the position's
// commodity; positions are skipped only for the reviewed reasons, and the
// loop does not modify the positions.
func RuleKReval(c *core.Ctx) {
	const rule = "K-reval"
	p := c.P
	val := p.Func(pkgJournal, "Valuate")
	if val == nil {
		c.Anchor(rule, "journal.Valuate")
		return
	}
	var dayStart *ssa.Function
	core.EachInstr(val, func(ins ssa.Instruction) {
		if ret, ok := ins.(*ssa.Return); ok && len(ret.Results) == 1 && !core.IsNilConst(ret.Results[0]) {
			if f := processorLiteral(p, ret.Results[0])["DayStart"]; f != nil && len(mapRanges(p, f)) > 0 {
				dayStart = f
			}
		}
	})
	if dayStart == nil {
		c.Anchor(rule, "the DayStart callback of journal.Valuate (the one that ranges over the positions)")
		return
	}
	it := mapRanges(p, dayStart)[0]
	fname := core.FuncName(dayStart)
	// the builder literal
	pbT := p.NamedType(pkgPosting, "Builder")
	var lit *ssa.Alloc
	findLit := func(fn *ssa.Function) *ssa.Alloc {
		var res *ssa.Alloc
		core.EachInstr(fn, func(ins ssa.Instruction) {
			if a, ok := ins.(*ssa.Alloc); ok {
				if pt, ok := a.Type().Underlying().(*types.Pointer); ok && isNamed(pt.Elem(), pbT) {
					res = a
				}
			}
		})
		return res
	}
	lit = findLit(dayStart)
	// or in a helper that dayStart calls for every position: its parameters stand
	// for the arguments of that call
	var helperCall *ssa.Call
	var helperFn *ssa.Function
	if lit == nil {
		core.EachInstr(dayStart, func(ins ssa.Instruction) {
			call, ok := ins.(*ssa.Call)
			if !ok || lit != nil {
				return
			}
			callee := call.Call.StaticCallee()
			if callee == nil {
				callee = core.FuncValue(call.Call.Value)
			}
			if callee == nil {
				callee = capturedFunc(call.Call.Value)
			}
			if callee == nil || callee.Blocks == nil || !p.InModule(callee) || core.PkgPathOf(callee) != pkgJournal {
				return
			}
			if l := findLit(callee); l != nil {
				lit, helperCall, helperFn = l, call, callee
			}
		})
	}
	// resolve: a value of the helper that is one of its parameters is the caller's argument
	resolve := func(v ssa.Value) ssa.Value {
		if helperCall == nil || v == nil {
			return v
		}
		callee := helperFn
		if prm, ok := core.Strip(v).(*ssa.Parameter); ok && prm.Parent() == callee {
			for i, q := range callee.Params {
				if q == prm && i < len(helperCall.Call.Args) {
					return helperCall.Call.Args[i]
				}
			}
		}
		return v
	}
	if lit == nil {
		c.Ob(rule, fname+":posting builder literal", dayStart.Pos(), fname, core.Violated, "the revaluation does not build its postings with posting.Builder")
		return
	}
	fieldVal := func(name string) ssa.Value {
		var v ssa.Value
		if lit.Referrers() != nil {
			for _, r := range *lit.Referrers() {
				if fa, ok := r.(*ssa.FieldAddr); ok && core.FieldOf(fa).Name() == name {
					for _, s := range core.StoresTo(fa) {
						v = s.Val
					}
				}
			}
		}
		return resolve(v)
	}
	// the iteration key (position) fields
	keyAccount := p.Field(pkgAmounts, "Key", "Account")
	keyCommodity := p.Field(pkgAmounts, "Key", "Commodity")
	hasField := func(v ssa.Value, f *types.Var, depth int) bool {
		if v == nil {
			return false
		}
		for x := range originSet(p, v, depth) {
			switch y := x.(type) {
			case *ssa.FieldAddr:
				if core.FieldOf(y) == f {
					return true
				}
			case *ssa.Field:
				if core.FieldOf(y) == f {
					return true
				}
			}
		}
		return false
	}
	// when the literal sits in a helper, a field of one of its struct parameters
	// is the position's only if the caller passes the iteration key for it
	baseHasField := hasField
	hasField = func(v ssa.Value, f *types.Var, depth int) bool {
		if !baseHasField(v, f, depth) {
			return false
		}
		if helperCall == nil {
			return true
		}
		callee := helperFn
		for x := range originSet(p, v, depth) {
			prm, ok := x.(*ssa.Parameter)
			if !ok || prm.Parent() != callee {
				continue
			}
			arg := resolve(prm)
			fromKey := false
			for y := range originSet(p, arg, 0) {
				for _, e := range it.elems {
					if y == e {
						fromKey = true
					}
				}
			}
			if !fromKey {
				return false
			}
		}
		return true
	}
	var problems []string
	debit, credit, com, value, qty := fieldVal("Debit"), fieldVal("Credit"), fieldVal("Commodity"), fieldVal("Value"), fieldVal("Quantity")
	if debit == nil || !hasField(debit, keyAccount, 0) {
		problems = append(problems, "Debit is not the position's account")
	} else if _, isCall := core.Strip(debit).(*ssa.Call); isCall {
		problems = append(problems, "Debit is not the position's own account but derived from it")
	}
	if credit == nil {
		problems = append(problems, "Credit is not set")
	} else {
		cl, ok := core.Strip(credit).(*ssa.Call)
		if !ok || cl.Call.StaticCallee() == nil || originName(cl.Call.StaticCallee()) != "(*lib/model/account.Registry).ValuationAccountFor" || !hasField(cl.Call.Args[1], keyAccount, 0) {
			problems = append(problems, "Credit is not ValuationAccountFor(the position's account)")
		}
	}
	if com == nil || !hasField(com, keyCommodity, 0) {
		problems = append(problems, "Commodity is not the position's commodity")
	}
	if qty != nil {
		problems = append(problems, "the revaluation posting carries a Quantity (it must only adjust the value)")
	}
	// value = Multiply(current - previous, qty)
	if value == nil {
		problems = append(problems, "Value is not set")
	} else {
		okVal := false
		if cl, ok := core.Strip(value).(*ssa.Call); ok && cl.Call.StaticCallee() != nil && originName(cl.Call.StaticCallee()) == "lib/model/price.Multiply" {
			var delta *ssa.Call
			var other ssa.Value
			for i, a := range cl.Call.Args {
				if sc, ok := core.Strip(a).(*ssa.Call); ok && sc.Call.StaticCallee() != nil && core.PkgPathOf(sc.Call.StaticCallee()) == pkgDecimal && sc.Call.StaticCallee().Name() == "Sub" {
					delta = sc
					other = cl.Call.Args[1-i]
				}
			}
			if delta != nil {
				cur, prev := priceCell(p, delta.Call.Args[0]), priceCell(p, delta.Call.Args[1])
				isQty := false
				other = resolve(other)
				for _, e := range it.elems {
					if ex, ok := e.(*ssa.Extract); ok && ex.Index == 2 && originSet(p, other, 0)[ex] {
						isQty = true
					}
				}
				switch {
				case cur == nil || prev == nil:
					problems = append(problems, "the price difference is not taken between two NormalizedPrices.Price lookups")
				case cur == prev:
					problems = append(problems, "current and previous price are read from the same price table")
				case !isQty:
					problems = append(problems, "the price difference is not multiplied by the position's quantity")
				default:
					// which is current: the one stored from Day.Normalized in this closure
					normalized := p.Field(pkgJournal, "Day", "Normalized")
					curIsToday := false
					core.EachInstr(dayStart, func(ins ssa.Instruction) {
						s, ok := ins.(*ssa.Store)
						if !ok {
							return
						}
						if stateLoc(s.Addr) == cur {
							for v := range originSet(p, s.Val, 0) {
								if fa, ok := v.(*ssa.FieldAddr); ok && core.FieldOf(fa) == normalized {
									curIsToday = true
								}
							}
						}
					})
					if curIsToday {
						okVal = true
					} else {
						problems = append(problems, "the minuend of the price difference is not the current day's price table (sign of the gain inverted, or stale prices)")
					}
				}
			}
		}
		if !okVal && len(problems) == 0 {
			problems = append(problems, "Value is not price.Multiply(current price - previous price, quantity)")
		}
	}
	key := fname + ":revaluation posting"
	if len(problems) == 0 {
		c.Ob(rule, key, lit.Pos(), fname, core.Discharged, "debit position account, credit its valuation account, position commodity, value = Multiply(today's price - previous price, quantity)")
	} else {
		c.Ob(rule, key, lit.Pos(), fname, core.Violated, strings.Join(problems, "; "))
	}
	// skip conditions
	reg := it.region()
	allowed := 0
	for b := range reg.blocks {
		iff, ok := b.Instrs[len(b.Instrs)-1].(*ssa.If)
		if !ok {
			continue
		}
		// does one branch skip the rest (jump straight to the header)?
		skips := false
		for _, s := range b.Succs {
			if s == it.header {
				skips = true
			}
		}
		if !skips {
			continue
		}
		desc := revalSkipKind(p, iff.Cond, it)
		// conditions over signs of decimals, commodity identity and IsAL — also
		// combined in a boolean helper — are decided on their atoms: a position may
		// be skipped only when a decimal is zero, never for one sign and not the other
		if desc != "error test" {
			ci := newCondInterp(p)
			if tbl, ok := ci.table(iff.Cond, b); ok {
				skipOnTrue := b.Succs[0] == it.header
				skip := map[string]bool{}
				for k, v := range tbl {
					skip[k] = v == skipOnTrue
				}
				if why := ci.skipOnlyForZero(skip); why != "" {
					desc = "unreviewed sign test (" + why + ")"
				} else {
					var kinds []string
					for _, a := range ci.order {
						kinds = append(kinds, ci.desc[a])
					}
					sort.Strings(kinds)
					desc = "decided on its atoms: " + strings.Join(uniq(kinds), ", ")
				}
			} else if strings.HasPrefix(desc, "unreviewed") {
				desc = "unreviewed (" + ci.unknown + ")"
			}
		}
		k2 := fname + ":skip condition " + desc
		if strings.HasPrefix(desc, "unreviewed") {
			c.Ob(rule, k2, core.NearPos(iff), fname, core.Violated, "a position is skipped by the daily revaluation for a reason outside the reviewed set (valuation commodity itself, not an asset/liability account, zero quantity, unchanged price): "+describeValue(p, iff.Cond)+" — that position is never marked to market")
		} else {
			allowed++
			c.Ob(rule, k2, core.NearPos(iff), fname, core.Discharged, "reviewed skip condition")
		}
	}
	// … and in the helper that builds the adjustment for one position: a branch
	// that returns nothing (nil, nil) skips the position
	if helperFn != nil {
		nothing := func(b *ssa.BasicBlock) bool {
			ret, ok := b.Instrs[len(b.Instrs)-1].(*ssa.Return)
			if !ok || len(b.Instrs) > 2 {
				return false
			}
			for _, rv := range ret.Results {
				if !core.IsNilConst(rv) {
					return false
				}
			}
			return len(ret.Results) > 0
		}
		for _, b := range helperFn.Blocks {
			iff, ok := b.Instrs[len(b.Instrs)-1].(*ssa.If)
			if !ok || !(nothing(b.Succs[0]) || nothing(b.Succs[1])) {
				continue
			}
			ci := newCondInterp(p)
			desc := ""
			if tbl, ok := ci.table(iff.Cond, b); ok {
				skipOnTrue := nothing(b.Succs[0])
				skip := map[string]bool{}
				for k, v := range tbl {
					skip[k] = v == skipOnTrue
				}
				if why := ci.skipOnlyForZero(skip); why != "" {
					desc = "unreviewed sign test (" + why + ")"
				} else {
					var kinds []string
					for _, a := range ci.order {
						kinds = append(kinds, ci.desc[a])
					}
					sort.Strings(kinds)
					desc = "decided on its atoms: " + strings.Join(uniq(kinds), ", ")
				}
			} else {
				desc = "unreviewed (" + ci.unknown + ")"
			}
			k2 := fname + ":skip condition " + desc
			if strings.HasPrefix(desc, "unreviewed") {
				c.Ob(rule, k2, core.NearPos(iff), fname, core.Violated, "a position is skipped by the daily revaluation for a reason outside the reviewed set: "+describeValue(p, iff.Cond)+" — that position is never marked to market")
			} else {
				allowed++
				c.Ob(rule, k2, core.NearPos(iff), fname, core.Discharged, "reviewed skip condition")
			}
		}
	}
	// no writes to the positions inside the loop
	wrote := ""
	for b := range reg.blocks {
		for _, ins := range b.Instrs {
			switch x := ins.(type) {
			case *ssa.MapUpdate:
				if p.SameExpr(x.Map, it.source) {
					wrote = "map update at " + p.Pos(x.Pos())
				}
			case *ssa.Call:
				if bi, ok := x.Call.Value.(*ssa.Builtin); ok && bi.Name() == "delete" && p.SameExpr(x.Call.Args[0], it.source) {
					wrote = "delete at " + p.Pos(x.Pos())
				}
			}
		}
	}
	k3 := fname + ":positions not modified by the revaluation"
	if wrote == "" {
		c.Ob(rule, k3, it.pos, fname, core.Discharged, "the loop only reads the positions")
	} else {
		c.Ob(rule, k3, it.pos, fname, core.Violated, "the revaluation loop modifies the positions it iterates over ("+wrote+"): quantities booked later are tracked against a wrong base")
	}
	c.Floor(rule, 4)
}

// priceCell: v is the price result of NormalizedPrices.Price called on a
// captured price table; returns that table's cell.
func priceCell(p *core.Prog, v ssa.Value) any {
	ex, ok := core.Strip(v).(*ssa.Extract)
	if !ok {
		return nil
	}
	cl, ok := ex.Tuple.(*ssa.Call)
	if !ok || cl.Call.StaticCallee() == nil || originName(cl.Call.StaticCallee()) != "(lib/model/price.NormalizedPrices).Price" {
		return nil
	}
	ld, ok := cl.Call.Args[0].(*ssa.UnOp)
	if !ok {
		return nil
	}
	return stateLoc(ld.X)
}

func revalSkipKind(p *core.Prog, cond ssa.Value, it *iteration) string {
	if u, ok := cond.(*ssa.UnOp); ok && u.Op == token.NOT {
		cond = u.X
	}
	switch x := cond.(type) {
	case *ssa.Call:
		callee := x.Call.StaticCallee()
		if callee == nil {
			return "unreviewed call"
		}
		switch {
		case core.PkgPathOf(callee) == pkgAccount && callee.Name() == "IsAL":
			return "not an asset/liability account"
		case core.PkgPathOf(callee) == pkgDecimal && callee.Name() == "IsZero":
			return "zero quantity or unchanged price"
		}
		return "unreviewed " + callee.Name()
	case *ssa.BinOp:
		if x.Op == token.EQL || x.Op == token.NEQ {
			if isPtrToNamed(x.X.Type(), "Commodity") && isPtrToNamed(x.Y.Type(), "Commodity") {
				return "the valuation commodity itself"
			}
			if isComparisonResult(x.X) || isComparisonResult(x.Y) {
				return "unreviewed comparison"
			}
			// err != nil
			if core.IsNilConst(x.X) || core.IsNilConst(x.Y) {
				return "error test"
			}
		}
		return "unreviewed " + x.Op.String() + " comparison"
	}
	return "unreviewed condition"
}

// signSkip evaluates a condition that tests the sign of one decimal value for
// the signs -1 and +1 and reports for which of them the branch that leads
// straight back to the loop header (the skip) is taken.
func signSkip(iff *ssa.If, header *ssa.BasicBlock) (skipNeg, skipPos, ok bool) {
	skipOnTrue := iff.Block().Succs[0] == header
	var subject ssa.Value
	var eval func(v ssa.Value, s int64) (bool, bool)
	signOf := func(call *ssa.Call, s int64) (int64, bool) {
		callee := call.Call.StaticCallee()
		if callee == nil || core.PkgPathOf(callee) != pkgDecimal || len(call.Call.Args) == 0 {
			return 0, false
		}
		switch callee.Name() {
		case "Sign":
		case "Cmp":
			if len(call.Call.Args) != 2 || !isDecimalZero(call.Call.Args[1]) {
				return 0, false
			}
		default:
			return 0, false
		}
		if subject == nil {
			subject = call.Call.Args[0]
		}
		return s, true
	}
	eval = func(v ssa.Value, s int64) (bool, bool) {
		switch x := v.(type) {
		case *ssa.UnOp:
			if x.Op == token.NOT {
				r, ok := eval(x.X, s)
				return !r, ok
			}
		case *ssa.Call:
			callee := x.Call.StaticCallee()
			if callee == nil || core.PkgPathOf(callee) != pkgDecimal || len(x.Call.Args) == 0 {
				return false, false
			}
			zeroArg := len(x.Call.Args) == 2 && isDecimalZero(x.Call.Args[1])
			switch callee.Name() {
			case "IsZero":
				return s == 0, true
			case "IsPositive":
				return s > 0, true
			case "IsNegative":
				return s < 0, true
			case "LessThan":
				return s < 0, zeroArg
			case "LessThanOrEqual":
				return s <= 0, zeroArg
			case "GreaterThan":
				return s > 0, zeroArg
			case "GreaterThanOrEqual":
				return s >= 0, zeroArg
			case "Equal", "Equals":
				return s == 0, zeroArg
			}
		case *ssa.BinOp:
			var a, b int64
			var okA, okB bool
			get := func(o ssa.Value) (int64, bool) {
				if k, ok := core.ConstInt(o); ok {
					return k, true
				}
				if call, ok := o.(*ssa.Call); ok {
					return signOf(call, s)
				}
				return 0, false
			}
			a, okA = get(x.X)
			b, okB = get(x.Y)
			if !okA || !okB {
				return false, false
			}
			switch x.Op {
			case token.EQL:
				return a == b, true
			case token.NEQ:
				return a != b, true
			case token.LSS:
				return a < b, true
			case token.LEQ:
				return a <= b, true
			case token.GTR:
				return a > b, true
			case token.GEQ:
				return a >= b, true
			}
		}
		return false, false
	}
	n, ok1 := eval(iff.Cond, -1)
	ps, ok2 := eval(iff.Cond, 1)
	if !ok1 || !ok2 {
		return false, false, false
	}
	return n == skipOnTrue, ps == skipOnTrue, true
}

func isPtrToNamed(t types.Type, name string) bool {
	pt, ok := t.Underlying().(*types.Pointer)
	if !ok {
		return false
	}
	n, ok := types.Unalias(pt.Elem()).(*types.Named)
	return ok && n.Obj().Name() == name
}

// RuleKBothDirections — inserting a price stores it in both directions on
// every success path: two addPrice calls with permuted commodities, the second
// price being the reciprocal of the first, after the zero test.
func RuleKBothDirections(c *core.Ctx) {
	const rule = "K-both-directions"
	p := c.P
	insert := p.Func(pkgPrice, "Prices.Insert")
	add := p.Func(pkgPrice, "Prices.addPrice")
	if insert == nil || add == nil {
		c.Anchor(rule, "price.Prices.Insert / addPrice")
		return
	}
	var calls []*ssa.Call
	core.EachInstr(insert, func(ins ssa.Instruction) {
		if cl, ok := ins.(*ssa.Call); ok && cl.Call.StaticCallee() == add {
			calls = append(calls, cl)
		}
	})
	key := "price.Prices.Insert:both directions"
	if len(calls) != 2 {
		c.Ob(rule, key, insert.Pos(), core.FuncName(insert), core.Violated, fmt.Sprintf("a price insertion is expected to store the price and its reciprocal (two addPrice calls), found %d", len(calls)))
		return
	}
	var problems []string
	a, b := calls[0], calls[1]
	// args: recv, target, commodity, price
	if !(p.SameExpr(a.Call.Args[1], b.Call.Args[2]) && p.SameExpr(a.Call.Args[2], b.Call.Args[1])) {
		problems = append(problems, "the two addPrice calls do not swap target and commodity")
	}
	if p.SameExpr(a.Call.Args[1], a.Call.Args[2]) {
		problems = append(problems, "target and commodity of one call are the same value")
	}
	// one price is a parameter, the other derives from a Div with that parameter as divisor
	recip := func(v ssa.Value, price ssa.Value) bool {
		for x := range originSet(p, v, 0) {
			if cl, ok := x.(*ssa.Call); ok && cl.Call.StaticCallee() != nil && core.PkgPathOf(cl.Call.StaticCallee()) == pkgDecimal && cl.Call.StaticCallee().Name() == "Div" {
				if p.SameExpr(cl.Call.Args[1], price) {
					return true
				}
			}
		}
		return false
	}
	if !(recip(b.Call.Args[3], a.Call.Args[3]) || recip(a.Call.Args[3], b.Call.Args[3])) {
		problems = append(problems, "neither stored price is the reciprocal (1/price) of the other")
	}
	for _, cl := range calls {
		esc, _ := mustPass(p, insert, func(ins ssa.Instruction) bool { return ins == ssa.Instruction(cl) })
		if esc != "" {
			problems = append(problems, "the addPrice call at "+p.Pos(cl.Pos())+" is not on every success path ("+esc+")")
		}
	}
	if len(problems) == 0 {
		c.Ob(rule, key, a.Pos(), core.FuncName(insert), core.Discharged, "price and reciprocal are stored under permuted commodities on every success path")
	} else {
		c.Ob(rule, key, a.Pos(), core.FuncName(insert), core.Violated, strings.Join(problems, "; ")+": valuation through the inverse (or a chain through it) would use no or a stale price")
	}
	// addPrice overwrites unconditionally
	var mu *ssa.MapUpdate
	core.EachInstr(add, func(ins ssa.Instruction) {
		if m, ok := ins.(*ssa.MapUpdate); ok {
			mu = m
		}
	})
	k2 := "price.Prices.addPrice:later declarations overwrite"
	if mu == nil {
		c.Ob(rule, k2, add.Pos(), core.FuncName(add), core.Violated, "addPrice does not store the price")
	} else if esc, _ := mustPass(p, add, func(ins ssa.Instruction) bool { return ins == ssa.Instruction(mu) }); esc != "" || len(successReturns(add)) == 0 && !allPathsPass(add, mu) {
		c.Ob(rule, k2, mu.Pos(), core.FuncName(add), core.Violated, "the price is not stored on every path: a redeclaration would not replace the earlier price")
	} else {
		c.Ob(rule, k2, mu.Pos(), core.FuncName(add), core.Discharged, "the price of the pair is overwritten unconditionally (most recent declaration wins)")
	}
	c.Floor(rule, 2)
}

// allPathsPass: every path from entry to any return passes instruction x.
func allPathsPass(fn *ssa.Function, x ssa.Instruction) bool {
	avoid := map[*ssa.BasicBlock]bool{x.Block(): true}
	if x.Block() == fn.Blocks[0] {
		return true
	}
	reach := core.ReachableBlocks(fn.Blocks[0], avoid)
	reach[fn.Blocks[0]] = true
	for b := range reach {
		if _, ok := b.Instrs[len(b.Instrs)-1].(*ssa.Return); ok {
			return false
		}
	}
	return true
}

// RuleKWhereBeforeSelect — report filters are applied to the booked position
// (the key built from the posting), the mapping only to what is inserted:
// the argument of query.Where does not derive from query.Select.
func RuleKWhereBeforeSelect(c *core.Ctx) {
	const rule = "K-where-select"
	p := c.P
	into := p.Func(pkgJournal, "Query.Into")
	whereF := p.Field(pkgJournal, "Query", "Where")
	selectF := p.Field(pkgJournal, "Query", "Select")
	if into == nil || whereF == nil || selectF == nil {
		c.Anchor(rule, "journal.Query.Into / Query.Where / Query.Select")
		return
	}
	isCallOfField := func(call *ssa.Call, f *types.Var) bool {
		if call.Call.IsInvoke() || call.Call.StaticCallee() != nil {
			return false
		}
		for v := range originSet(p, call.Call.Value, 0) {
			if fa, ok := v.(*ssa.FieldAddr); ok && core.FieldOf(fa) == f {
				return true
			}
			if fl, ok := v.(*ssa.Field); ok && core.FieldOf(fl) == f {
				return true
			}
		}
		return false
	}
	n := 0
	for _, fn := range core.WithAnon(into) {
		core.EachInstr(fn, func(ins ssa.Instruction) {
			call, ok := ins.(*ssa.Call)
			if !ok || !isCallOfField(call, whereF) {
				return
			}
			n++
			key := core.FuncName(fn) + ":argument of Where"
			mapped := false
			for v := range originSet(p, call.Call.Args[0], 0) {
				if cl, ok := v.(*ssa.Call); ok && isCallOfField(cl, selectF) {
					mapped = true
				}
			}
			// the insertion must be control-dependent on the Where result and insert Select(key)
			if mapped {
				c.Ob(rule, key, call.Pos(), core.FuncName(fn), core.Violated, "the filter predicate is evaluated on the mapped key (after Select): --account/--commodity filters then match the collapsed or remapped account instead of the booked one")
			} else {
				c.Ob(rule, key, call.Pos(), core.FuncName(fn), core.Discharged, "the filter sees the key built from the posting; the mapping is applied only to what is inserted")
			}
			// Insert under Where
			inserted := false
			core.EachInstr(fn, func(i2 ssa.Instruction) {
				cl, ok := i2.(*ssa.Call)
				if !ok || !cl.Call.IsInvoke() || cl.Call.Method.Name() != "Insert" {
					return
				}
				iffBlock := call.Block()
				if iff, ok := iffBlock.Instrs[len(iffBlock.Instrs)-1].(*ssa.If); ok && iff.Cond == ssa.Value(call) && core.EdgeDominates(iffBlock, iffBlock.Succs[0], cl.Block()) {
					sel := false
					for v := range originSet(p, cl.Call.Args[0], 0) {
						if c2, ok := v.(*ssa.Call); ok && isCallOfField(c2, selectF) {
							sel = true
						}
					}
					inserted = sel
				}
			})
			k2 := core.FuncName(fn) + ":Insert(Select(key)) under Where(key)"
			if inserted {
				c.Ob(rule, k2, call.Pos(), core.FuncName(fn), core.Discharged, "the collection receives the mapped key exactly when the filter accepts the booked key")
			} else {
				c.Ob(rule, k2, call.Pos(), core.FuncName(fn), core.Violated, "the insertion is not `if Where(key) { Insert(Select(key), amount) }`")
			}
		})
	}
	if n == 0 {
		c.Ob(rule, "journal.Query.Into:argument of Where", into.Pos(), core.FuncName(into), core.Violated, "the query never applies its Where predicate")
	}
	c.Floor(rule, 2)
}

// RuleKPartitionWhole — the start/end dates of a partition are consumed
// whole: no reslice and no constant index on a value obtained from
// Partition.StartDates/EndDates (dropping a period boundary silently changes
// closing and column semantics).
func RuleKPartitionWhole(c *core.Ctx) {
	const rule = "K-partition-whole"
	p := c.P
	n := 0
	for _, fn := range p.SrcFuncs() {
		if core.PkgPathOf(fn) == pkgDate {
			continue
		}
		core.EachInstr(fn, func(ins ssa.Instruction) {
			call, ok := ins.(*ssa.Call)
			if !ok {
				return
			}
			callee := call.Call.StaticCallee()
			if callee == nil || core.PkgPathOf(callee) != pkgDate || (callee.Name() != "StartDates" && callee.Name() != "EndDates") {
				return
			}
			n++
			key := fmt.Sprintf("%s:%s used whole", core.FuncName(fn), callee.Name())
			bad := partialUse(p, call, map[ssa.Value]bool{})
			if bad == "" {
				c.Ob(rule, key, call.Pos(), core.FuncName(fn), core.Discharged, "all periods' dates are consumed")
			} else {
				c.Ob(rule, key, call.Pos(), core.FuncName(fn), core.Violated, "only part of the partition's "+callee.Name()+" is used ("+bad+"): a period boundary is dropped")
			}
		})
	}
	c.Floor(rule, 4)
}

func partialUse(p *core.Prog, v ssa.Value, seen map[ssa.Value]bool) string {
	if seen[v] || v.Referrers() == nil {
		return ""
	}
	seen[v] = true
	for _, r := range *v.Referrers() {
		switch x := r.(type) {
		case *ssa.Slice:
			if x.Low != nil || x.High != nil {
				return "resliced at " + p.Pos(core.NearPos(x))
			}
		case *ssa.IndexAddr:
			if _, isConst := x.Index.(*ssa.Const); isConst {
				return "constant index at " + p.Pos(core.NearPos(x))
			}
		case *ssa.Phi:
			if s := partialUse(p, x, seen); s != "" {
				return s
			}
		case *ssa.Store:
			if a, ok := x.Addr.(*ssa.Alloc); ok && x.Val == v && a.Referrers() != nil {
				for _, ar := range *a.Referrers() {
					if ld, ok := ar.(*ssa.UnOp); ok {
						if s := partialUse(p, ld, seen); s != "" {
							return s
						}
					}
				}
			}
		}
	}
	return ""
}

// RuleKBfs — the price graph is traversed breadth-first from the valuation
// commodity, so that a directly declared price takes precedence over a
// derived one: the function that fills the normalized prices is not recursive
// and takes the next commodity from the front of the slice it appends to.
func RuleKBfs(c *core.Ctx) {
	const rule = "K-bfs"
	p := c.P
	npT := p.NamedType(pkgPrice, "NormalizedPrices")
	normalize := p.Func(pkgPrice, "Prices.Normalize")
	if npT == nil || normalize == nil {
		c.Anchor(rule, "price.Prices.Normalize / NormalizedPrices")
		return
	}
	// functions (reachable from Normalize within the package) that store into a NormalizedPrices map
	var writers []*ssa.Function
	seen := map[*ssa.Function]bool{}
	var visit func(fn *ssa.Function)
	visit = func(fn *ssa.Function) {
		if seen[fn] || fn.Blocks == nil || core.PkgPathOf(fn) != pkgPrice {
			return
		}
		seen[fn] = true
		writes := false
		core.EachInstr(fn, func(ins ssa.Instruction) {
			switch x := ins.(type) {
			case *ssa.MapUpdate:
				if isNamed(x.Map.Type(), npT) {
					writes = true
				}
			case ssa.CallInstruction:
				if callee := x.Common().StaticCallee(); callee != nil {
					visit(callee)
				}
			}
		})
		if writes {
			writers = append(writers, fn)
		}
	}
	visit(normalize)
	for _, w := range writers {
		key := core.FuncName(w) + ":traversal is not recursive"
		// can w reach itself?
		rec := false
		r := map[*ssa.Function]bool{}
		var walk func(f *ssa.Function)
		walk = func(f *ssa.Function) {
			core.EachInstr(f, func(ins ssa.Instruction) {
				if call, ok := ins.(ssa.CallInstruction); ok {
					if callee := call.Common().StaticCallee(); callee != nil && core.PkgPathOf(callee) == pkgPrice && !r[callee] {
						r[callee] = true
						walk(callee)
					}
				}
			})
		}
		walk(w)
		rec = r[w]
		if rec {
			c.Ob(rule, key, w.Pos(), core.FuncName(w), core.Violated, "the price graph is traversed recursively (depth-first): a commodity can receive a price derived through a chain although a price against the valuation commodity is declared directly")
			continue
		}
		c.Ob(rule, key, w.Pos(), core.FuncName(w), core.Discharged, "iterative traversal")
	}
	// assigned once: inside the traversal a normalized price is stored only for a
	// commodity that has none yet (the absent edge of a comma-ok lookup of the
	// same map and key): the first, i.e. shortest, derivation is kept
	for _, w := range writers {
		loops := loopsOf(w)
		core.EachInstr(w, func(ins ssa.Instruction) {
			mu, ok := ins.(*ssa.MapUpdate)
			if !ok || !isNamed(mu.Map.Type(), npT) {
				return
			}
			inLoop := false
			for _, body := range loops {
				if body[mu.Block()] {
					inLoop = true
				}
			}
			if !inLoop {
				return // the seed entry {valuation commodity: 1}
			}
			key := core.FuncName(w) + ":a price is assigned only to a commodity that has none yet"
			guarded := false
			for _, b := range w.Blocks {
				iff, ok := b.Instrs[len(b.Instrs)-1].(*ssa.If)
				if !ok {
					continue
				}
				cond := iff.Cond
				neg := false
				if u, ok := cond.(*ssa.UnOp); ok && u.Op == token.NOT {
					cond, neg = u.X, true
				}
				ex, ok := cond.(*ssa.Extract)
				if !ok || ex.Index != 1 {
					continue
				}
				lk, ok := ex.Tuple.(*ssa.Lookup)
				if !ok || !lk.CommaOk || !p.SameExpr(lk.X, mu.Map) || !p.SameExpr(lk.Index, mu.Key) {
					continue
				}
				absent := b.Succs[1]
				if neg {
					absent = b.Succs[0]
				}
				if core.EdgeDominates(b, absent, mu.Block()) {
					guarded = true
				}
			}
			if guarded {
				c.Ob(rule, key, mu.Pos(), core.FuncName(w), core.Discharged, "the store is taken on the absent edge of a lookup of the same commodity in the same map")
			} else {
				c.Ob(rule, key, mu.Pos(), core.FuncName(w), core.Violated, "a normalized price can be overwritten after it was assigned: a commodity priced directly against the valuation commodity receives a price derived through a longer chain")
			}
		})
	}
	// FIFO: the frontier is consumed in the order in which commodities were
	// reached. Two shapes are known: (F1) next = queue[0]; queue = queue[1:];
	// queue = append(queue, …) and (F2) an index that walks a growing list from
	// 0 in steps of one up to len(list), the list being appended to (here or in
	// a helper that returns append(its parameter, …)).
	fifoIn := ""
	var seenList []*ssa.Function
	for fn := range seen {
		seenList = append(seenList, fn)
	}
	sort.Slice(seenList, func(i, j int) bool { return seenList[i].String() < seenList[j].String() })
	appendsToParam := func(fn *ssa.Function, idx int) bool {
		// every return of fn hands back its parameter idx, possibly extended by appends
		if fn == nil || fn.Blocks == nil || idx >= len(fn.Params) {
			return false
		}
		ok, any := true, false
		core.EachInstr(fn, func(ins ssa.Instruction) {
			ret, isRet := ins.(*ssa.Return)
			if !isRet || len(ret.Results) != 1 {
				return
			}
			any = true
			seenV := map[ssa.Value]bool{}
			var from func(v ssa.Value) bool
			from = func(v ssa.Value) bool {
				if seenV[v] {
					return true
				}
				seenV[v] = true
				switch x := v.(type) {
				case *ssa.Parameter:
					return x == fn.Params[idx]
				case *ssa.Phi:
					for _, e := range x.Edges {
						if !from(e) {
							return false
						}
					}
					return true
				case *ssa.Call:
					if b, isB := x.Call.Value.(*ssa.Builtin); isB && b.Name() == "append" {
						return from(x.Call.Args[0])
					}
				}
				return false
			}
			if !from(ret.Results[0]) {
				ok = false
			}
		})
		return ok && any
	}
	for _, w := range seenList {
		// F1
		front, resliced, appended := false, false, false
		core.EachInstr(w, func(ins ssa.Instruction) {
			switch x := ins.(type) {
			case *ssa.IndexAddr:
				if k, ok := core.ConstInt(x.Index); ok && k == 0 {
					if _, isPhi := x.X.(*ssa.Phi); isPhi {
						front = true
					}
				}
			case *ssa.Slice:
				if k, ok := core.ConstInt(x.Low); ok && k == 1 && x.High == nil {
					resliced = true
				}
			case *ssa.Call:
				if b, ok := x.Call.Value.(*ssa.Builtin); ok && b.Name() == "append" {
					appended = true
				}
			}
		})
		if front && resliced && appended {
			fifoIn = core.FuncName(w) + " (next = queue[0]; queue = queue[1:]; newly priced commodities are appended)"
		}
		// F2
		for h, body := range loopsOf(w) {
			iff, ok := h.Instrs[len(h.Instrs)-1].(*ssa.If)
			if !ok {
				continue
			}
			cmp, ok := iff.Cond.(*ssa.BinOp)
			if !ok || cmp.Op != token.LSS {
				continue
			}
			idx, ok := cmp.X.(*ssa.Phi)
			if !ok || idx.Block() != h {
				continue
			}
			ln, ok := cmp.Y.(*ssa.Call)
			if !ok {
				continue
			}
			if b, isB := ln.Call.Value.(*ssa.Builtin); !isB || b.Name() != "len" {
				continue
			}
			list, ok := ln.Call.Args[0].(*ssa.Phi)
			if !ok || list.Block() != h {
				continue
			}
			// index: 0, +1
			idxOK := true
			for i, e := range idx.Edges {
				if body[h.Preds[i]] {
					bo, ok := e.(*ssa.BinOp)
					if !ok || bo.Op != token.ADD || bo.X != ssa.Value(idx) || !constInt(bo.Y, 1) {
						idxOK = false
					}
				} else if !constInt(e, 0) {
					idxOK = false
				}
			}
			// list grows by appends (direct, or through a helper that returns its parameter extended)
			growOK := true
			for i, e := range list.Edges {
				if !body[h.Preds[i]] {
					continue
				}
				switch x := e.(type) {
				case *ssa.Call:
					if b, isB := x.Call.Value.(*ssa.Builtin); isB && b.Name() == "append" && x.Call.Args[0] == ssa.Value(list) {
						continue
					}
					good := false
					if callee := x.Call.StaticCallee(); callee != nil {
						for k, a := range x.Call.Args {
							if a == ssa.Value(list) && appendsToParam(callee, k) {
								good = true
							}
						}
					}
					if !good {
						growOK = false
					}
				case *ssa.Phi:
					if x != list {
						growOK = false
					}
				default:
					growOK = false
				}
			}
			// the element taken is list[idx]
			elemOK := false
			for b := range body {
				for _, ins := range b.Instrs {
					if ia, ok := ins.(*ssa.IndexAddr); ok && ia.X == ssa.Value(list) && ia.Index == ssa.Value(idx) {
						elemOK = true
					}
				}
			}
			if idxOK && growOK && elemOK {
				fifoIn = core.FuncName(w) + " (an index walks the growing list of reached commodities from 0 to its end)"
			}
		}
	}
	{
		k2 := core.FuncName(normalize) + ":frontier is a FIFO queue"
		if fifoIn != "" {
			c.Ob(rule, k2, normalize.Pos(), core.FuncName(normalize), core.Discharged, "in "+fifoIn)
		} else {
			c.Ob(rule, k2, normalize.Pos(), core.FuncName(normalize), core.Violated, "the frontier of the traversal is not consumed first-in-first-out: prices are not assigned in order of distance from the valuation commodity")
		}
	}
	if len(writers) == 0 {
		c.Ob(rule, "price.Prices.Normalize:writer", normalize.Pos(), core.FuncName(normalize), core.Undecided, "no function reachable from Normalize stores into a NormalizedPrices map")
	}
	c.Floor(rule, 1)
}

// RuleKPricesOrder — the prices of a day are applied in the order in which
// they stand in Day.Prices, and a later price for the same pair replaces an
// earlier one (Prices.Insert overwrites): that order carries meaning. No
// code reorders or rewrites the slice: its only writer is the append in
// Builder.Add, and the slice is handed to no function (an in-place sort is a
// call that receives it); it is only ranged over, indexed and measured.
func RuleKPricesOrder(c *core.Ctx) {
	const rule = "K-prices-order"
	p := c.P
	fv := p.Field(pkgJournal, "Day", "Prices")
	add := p.Func(pkgJournal, "Builder.Add")
	if fv == nil || add == nil {
		c.Anchor(rule, "journal.Day.Prices / journal.Builder.Add")
		return
	}
	n := 0
	for _, fn := range p.SrcFuncs() {
		if !p.InModule(fn) {
			continue
		}
		core.EachInstr(fn, func(ins ssa.Instruction) {
			switch x := ins.(type) {
			case *ssa.Store:
				fa, ok := x.Addr.(*ssa.FieldAddr)
				if !ok || core.FieldOf(fa) != fv {
					return
				}
				n++
				key := core.FuncName(fn) + ":store to Day.Prices"
				call, isCall := x.Val.(*ssa.Call)
				if b, _ := callBuiltin(call); isCall && b != nil && fn == add {
					if ld, ok := call.Call.Args[0].(*ssa.UnOp); ok {
						if fa0, ok := ld.X.(*ssa.FieldAddr); ok && core.FieldOf(fa0) == fv {
							c.Ob(rule, key, x.Pos(), core.FuncName(fn), core.Discharged, "append of the added directive at the end, in Builder.Add")
							return
						}
					}
				}
				c.Ob(rule, key, x.Pos(), core.FuncName(fn), core.Violated, "Day.Prices is rewritten outside the builder's append: the order of same-day prices (later replaces earlier) is not preserved")
			case *ssa.UnOp:
				fa, ok := x.X.(*ssa.FieldAddr)
				if !ok || x.Op != token.MUL || core.FieldOf(fa) != fv || x.Referrers() == nil {
					return
				}
				for _, r := range *x.Referrers() {
					call, ok := r.(ssa.CallInstruction)
					if !ok {
						if st, ok := r.(*ssa.Store); ok && st.Val == ssa.Value(x) {
							// stored into a variable that is passed on: follow one level
							if al, ok := st.Addr.(*ssa.Alloc); ok && al.Referrers() != nil {
								_ = al
							}
						}
						continue
					}
					if b, ok := call.Common().Value.(*ssa.Builtin); ok {
						switch b.Name() {
						case "len", "cap":
							continue
						case "append":
							if len(call.Common().Args) > 0 && call.Common().Args[0] == ssa.Value(x) {
								continue // judged at the store
							}
						}
					}
					n++
					name := "a dynamic callee"
					if callee := call.Common().StaticCallee(); callee != nil {
						name = core.FuncName(callee)
						// a module function that only reads its slice parameter
						ro := true
						for i, a := range call.Common().Args {
							if a == ssa.Value(x) && !readOnlySliceParam(p, callee, i, 0) {
								ro = false
							}
						}
						if ro && p.InModule(callee) {
							c.Ob(rule, fmt.Sprintf("%s:Day.Prices handed to %s", core.FuncName(fn), originName(callee)), r.Pos(), core.FuncName(fn), core.Discharged, "the callee only ranges over, indexes and measures the slice")
							continue
						}
					}
					key := fmt.Sprintf("%s:Day.Prices handed to %s", core.FuncName(fn), name)
					c.Ob(rule, key, r.Pos(), core.FuncName(fn), core.Violated, "the day's price slice is handed to "+name+", which can reorder it in place (a sort does): of two prices for one pair on one day the later one must win, before and after printing")
				}
			}
		})
	}
	c.Floor(rule, 1)
}

// readOnlySliceParam: parameter i of fn (a slice) is only ranged over,
// indexed for reading, measured, or handed to module functions that do the
// same (depth-limited). Stores through it, appends to it, sorts and external
// callees make it not read-only.
func readOnlySliceParam(p *core.Prog, fn *ssa.Function, i int, depth int) bool {
	if fn == nil || fn.Blocks == nil || !p.InModule(fn) || i >= len(fn.Params) || depth > 3 {
		return false
	}
	var ok func(v ssa.Value) bool
	seen := map[ssa.Value]bool{}
	ok = func(v ssa.Value) bool {
		if seen[v] || v.Referrers() == nil {
			return true
		}
		seen[v] = true
		for _, r := range *v.Referrers() {
			switch x := r.(type) {
			case *ssa.DebugRef, *ssa.Range:
			case *ssa.Index:
			case *ssa.IndexAddr:
				// reading an element is fine, storing through it is not
				for _, rr := range *x.Referrers() {
					if st, isStore := rr.(*ssa.Store); isStore && st.Addr == ssa.Value(x) {
						return false
					}
				}
			case *ssa.Phi:
				if !ok(x) {
					return false
				}
			case *ssa.Slice:
				if !ok(x) {
					return false
				}
			case ssa.CallInstruction:
				if b, isB := x.Common().Value.(*ssa.Builtin); isB {
					if b.Name() == "len" || b.Name() == "cap" {
						continue
					}
					return false
				}
				callee := x.Common().StaticCallee()
				if callee == nil {
					return false
				}
				for j, a := range x.Common().Args {
					if a == v && !readOnlySliceParam(p, callee, j, depth+1) {
						return false
					}
				}
			default:
				return false
			}
		}
		return true
	}
	return ok(fn.Params[i])
}

// RuleKDecimalConfig — the arithmetic of prices and values is written against
// the decimal library's defaults: `one.Div(p).Truncate(8)` truncates only if
// Div yields more than eight digits (decimal.DivisionPrecision = 16). No
// function of the module writes a package-level variable of
// github.com/shopspring/decimal or lets its address escape; every use of such
// a variable is a plain load (decimal.Zero).
func RuleKDecimalConfig(c *core.Ctx) {
	const rule = "K-decimal-config"
	p := c.P
	loads := 0
	for _, fn := range p.SrcFuncs() {
		if !p.InModule(fn) {
			continue
		}
		core.EachInstr(fn, func(ins ssa.Instruction) {
			for _, op := range ins.Operands(nil) {
				if op == nil || *op == nil {
					continue
				}
				g, ok := (*op).(*ssa.Global)
				if !ok || g.Pkg == nil || g.Pkg.Pkg.Path() != "github.com/shopspring/decimal" {
					continue
				}
				if ld, ok := ins.(*ssa.UnOp); ok && ld.Op == token.MUL {
					loads++
					continue
				}
				c.Ob(rule, fmt.Sprintf("%s:decimal.%s only read", core.FuncName(fn), g.Name()), ins.Pos(), core.FuncName(fn), core.Violated,
					"decimal."+g.Name()+" is written (or its address taken) here: the library's process-wide configuration changes under every computation of the module — prices.Insert's reciprocal `one.Div(p).Truncate(8)` truncates only while Div yields more than eight digits")
			}
		})
	}
	c.Ob(rule, "module:package variables of shopspring/decimal are only read", 0, "", core.Discharged, fmt.Sprintf("%d uses examined, all plain loads", loads))
	if loads == 0 {
		c.Ob(rule, "module:uses of shopspring/decimal variables seen", 0, "", core.Undecided, "no load of a decimal package variable (decimal.Zero) was found: the rule does not see the module's arithmetic")
	}
	c.Floor(rule, 1)
}
