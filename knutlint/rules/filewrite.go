package rules

import (
	"fmt"
	"go/types"
	"strings"

	"golang.org/x/tools/go/ssa"

	"knutlint/core"
)

// fileMutators: os / io/ioutil functions that create, truncate, rename or
// remove files.
var fileMutators = map[string]bool{
	"os.Create": true, "os.WriteFile": true, "os.OpenFile": true, "os.Rename": true, "os.Truncate": true,
	"os.Remove": true, "os.RemoveAll": true, "os.Mkdir": true, "os.MkdirAll": true, "os.CreateTemp": true,
	"io/ioutil.WriteFile": true, "io/ioutil.TempFile": true, "os.Chmod": true, "os.Symlink": true, "os.Link": true,
}

// RuleCFileWrite — journal files are written only by atomic.WriteFile: no
// other file-creating, truncating or renaming call anywhere in the module,
// except os.Create of the --cpuprofile path.
func RuleCFileWrite(c *core.Ctx) {
	const rule = "C-filewrite"
	p := c.P
	nAtomic := 0
	atomicFns := map[*ssa.Function]bool{}
	for _, fn := range p.SrcFuncs() {
		pkg := core.PkgPathOf(fn)
		if strings.HasPrefix(pkg, core.Module+"/scripts") || strings.Contains(pkg, "/cmdtest") {
			continue
		}
		core.EachInstr(fn, func(ins ssa.Instruction) {
			call, ok := ins.(ssa.CallInstruction)
			if !ok {
				return
			}
			callee := call.Common().StaticCallee()
			if callee == nil || callee.Pkg == nil {
				return
			}
			name := callee.Pkg.Pkg.Path() + "." + callee.Name()
			if name == pkgAtomic+".WriteFile" {
				nAtomic++
				atomicFns[fn] = true
				return
			}
			if !fileMutators[name] {
				return
			}
			key := fmt.Sprintf("%s:%s", core.FuncName(fn), name)
			if name == "os.OpenFile" {
				if flag, ok := core.ConstInt(call.Common().Args[1]); ok && flag&(1|2|64|512|1024) == 0 {
					c.Ob(rule, key, ins.Pos(), core.FuncName(fn), core.Discharged, "opened read-only")
					return
				}
			}
			// the profile exception
			if name == "os.Create" {
				isProfile := false
				// what is written to the file is a CPU profile: the created file is
				// handed to runtime/pprof.StartCPUProfile (and to nothing else that writes)
				if val, ok := ins.(ssa.Value); ok && val.Referrers() != nil {
					for _, r := range *val.Referrers() {
						ex, ok := r.(*ssa.Extract)
						if !ok || ex.Index != 0 || ex.Referrers() == nil {
							continue
						}
						for _, u := range *ex.Referrers() {
							mi, ok := u.(*ssa.MakeInterface)
							if !ok || mi.Referrers() == nil {
								continue
							}
							for _, uu := range *mi.Referrers() {
								if cl, ok := uu.(ssa.CallInstruction); ok {
									if callee := cl.Common().StaticCallee(); callee != nil && callee.Pkg != nil && callee.Pkg.Pkg.Path() == "runtime/pprof" && callee.Name() == "StartCPUProfile" {
										isProfile = true
									}
								}
							}
						}
					}
				}
				if isProfile {
					c.Ob(rule, key+"(cpuprofile)", ins.Pos(), core.FuncName(fn), core.Discharged, "the created file receives a CPU profile (runtime/pprof.StartCPUProfile), not a journal")
					return
				}
			}
			c.Ob(rule, key, ins.Pos(), core.FuncName(fn), core.Violated,
				name+" creates, truncates or replaces a file in place: a failure (or crash) part-way leaves a truncated or mixed file; journal files must be replaced through atomic.WriteFile only")
		})
	}
	// the three commands that rewrite files in place reach an atomic.WriteFile
	// site (their own, or a helper they share)
	var missing []string
	for _, cmd := range core.Commands(c) {
		switch cmd.Use {
		case "format", "infer", "fetch":
		default:
			continue
		}
		if cmd.Run == nil {
			continue
		}
		reaches := false
		for fn := range p.ReachLexical(cmd.Run) {
			if atomicFns[fn] {
				reaches = true
			}
		}
		if !reaches {
			missing = append(missing, cmd.Use)
		}
	}
	if nAtomic == 0 || len(missing) > 0 {
		c.Ob(rule, "atomic.WriteFile sites", 0, "", core.Violated, fmt.Sprintf("the in-place writers (format, infer --inplace, fetch) must replace files through atomic.WriteFile; %d call sites found, not reached from: %s", nAtomic, strings.Join(missing, ", ")))
	} else {
		c.Ob(rule, "atomic.WriteFile sites", 0, "", core.Discharged, fmt.Sprintf("%d call sites of atomic.WriteFile, reached from format, infer and fetch", nAtomic))
	}
	c.Floor(rule, 2)
}

// RuleDAtomic — caller side: the reader handed to atomic.WriteFile is a local
// bytes.Buffer; every call that fills the buffer has succeeded, and if the
// function (or a callee it hands the path to) parses the target, that has
// succeeded too, before the file is replaced. Library side: in
// natefinch/atomic.WriteFile the target name is used mutably only by
// ReplaceFile(tmp, target), which is dominated by the success edges of
// io.Copy, Sync and Close on a temp file created in the target's directory.
func RuleDAtomic(c *core.Ctx) {
	const rule = "D-atomic"
	p := c.P
	var write *ssa.Function
	if sp := p.SSAPkgs[pkgAtomic]; sp != nil {
		write = sp.Func("WriteFile")
	}
	if write == nil {
		c.Anchor(rule, "github.com/natefinch/atomic.WriteFile")
		return
	}
	bufT := (*types.Named)(nil)
	if bp := p.Package("bytes"); bp != nil {
		bufT, _ = bp.Scope().Lookup("Buffer").Type().(*types.Named)
	}
	n := 0
	for _, fn := range p.SrcFuncs() {
		core.EachInstr(fn, func(ins ssa.Instruction) {
			call, ok := ins.(*ssa.Call)
			if !ok || call.Call.StaticCallee() != write {
				return
			}
			n++
			key := core.FuncName(fn) + ":atomic.WriteFile"
			path, rd := call.Call.Args[0], core.Strip(call.Call.Args[1])
			// the data comes out of a helper of the module that is given the same path and
			// returns (buffer, error): the file is replaced only after the helper succeeded
			// (what the helper does with the errors of the parser is the subject of K-errors)
			if ex, ok := rd.(*ssa.Extract); ok {
				if hc, ok := ex.Tuple.(*ssa.Call); ok {
					h := hc.Call.StaticCallee()
					takesPath := false
					for _, a := range hc.Call.Args {
						if p.SameExpr(a, path) || sameDeref(p, a, path) {
							takesPath = true
						}
					}
					succeeded := false
					for _, e := range errValues(hc) {
						for _, sb := range core.ErrSuccessBlocks(e) {
							if sb == call.Block() || sb.Dominates(call.Block()) {
								succeeded = true
							}
						}
					}
					if h != nil && p.InModule(h) && takesPath && succeeded {
						c.Ob(rule, key, call.Pos(), core.FuncName(fn), core.Discharged, "the data is the result of "+core.FuncName(h)+"(path), and the file is replaced only on the success of that call")
						return
					}
				}
			}
			buf, isAlloc := rd.(*ssa.Alloc)
			if !isAlloc || bufT == nil || !isNamed(buf.Type().Underlying().(*types.Pointer).Elem(), bufT) {
				c.Ob(rule, key, call.Pos(), core.FuncName(fn), core.Violated, "the data handed to atomic.WriteFile is not a local bytes.Buffer that was filled before: rendering can fail after the file has been replaced")
				return
			}
			var problems []string
			fills := 0
			if buf.Referrers() != nil {
				for _, r := range *buf.Referrers() {
					var user *ssa.Call
					switch x := r.(type) {
					case *ssa.Call:
						user = x
					case *ssa.MakeInterface:
						if x.Referrers() != nil {
							for _, rr := range *x.Referrers() {
								if cl, ok := rr.(*ssa.Call); ok && cl != call {
									user = cl
								}
							}
						}
					}
					if user == nil || user == call {
						continue
					}
					fills++
					errs := errValues(user)
					okFill := false
					for _, e := range errs {
						for _, sb := range core.ErrSuccessBlocks(e) {
							if sb == call.Block() || sb.Dominates(call.Block()) {
								okFill = true
							}
						}
					}
					if len(errs) == 0 {
						okFill = core.Dominates(user, call)
					}
					if !okFill {
						problems = append(problems, "the file is replaced although "+calleeText(user)+" (which fills the buffer) may have failed or not run")
					}
				}
			}
			if fills == 0 {
				problems = append(problems, "nothing is rendered into the buffer before the file is replaced")
			}
			// parse of the same path
			core.EachInstr(fn, func(i2 ssa.Instruction) {
				pc, ok := i2.(*ssa.Call)
				if !ok || pc == call {
					return
				}
				callee := pc.Call.StaticCallee()
				if callee == nil || !p.InModule(callee) {
					return
				}
				takesPath := false
				for _, a := range pc.Call.Args {
					if p.SameExpr(a, path) || sameDeref(p, a, path) {
						takesPath = true
					}
				}
				if !takesPath {
					return
				}
				errs := errValues(pc)
				if len(errs) == 0 {
					return
				}
				okParse := false
				for _, e := range errs {
					for _, sb := range core.ErrSuccessBlocks(e) {
						if sb == call.Block() || sb.Dominates(call.Block()) {
							okParse = true
						}
					}
				}
				if !okParse {
					problems = append(problems, "the file is replaced although "+calleeText(pc)+" (which reads the same path) may have failed: a file that does not parse would be overwritten")
				}
			})
			// the path is a parameter of a helper: the parse happens in the callers, whose
			// call of the helper must be dominated by the success of every call that
			// reads the same path
			if prm := paramRoot(path); prm != nil && prm.Parent() == fn {
				idx := paramIndex(prm)
				for _, caller := range p.SrcFuncs() {
					if !p.InModule(caller) {
						continue
					}
					core.EachInstr(caller, func(i2 ssa.Instruction) {
						hc, ok := i2.(*ssa.Call)
						if !ok || hc.Call.StaticCallee() != fn || idx >= len(hc.Call.Args) {
							return
						}
						cpath := hc.Call.Args[idx]
						core.EachInstr(caller, func(i3 ssa.Instruction) {
							pc, ok := i3.(*ssa.Call)
							if !ok || pc == hc {
								return
							}
							callee := pc.Call.StaticCallee()
							if callee == nil || !p.InModule(callee) {
								return
							}
							takesPath := false
							for _, a := range pc.Call.Args {
								if p.SameExpr(a, cpath) || sameDeref(p, a, cpath) {
									takesPath = true
								}
							}
							errs := errValues(pc)
							if !takesPath || len(errs) == 0 {
								return
							}
							okParse := false
							for _, e := range errs {
								for _, sb := range core.ErrSuccessBlocks(e) {
									if sb == hc.Block() || sb.Dominates(hc.Block()) {
										okParse = true
									}
								}
							}
							if !okParse {
								problems = append(problems, "in "+core.FuncName(caller)+" the file is replaced although "+calleeText(pc)+" (which reads the same path) may have failed: a file that does not parse would be overwritten")
							}
						})
					})
				}
			}
			if len(problems) == 0 {
				c.Ob(rule, key, call.Pos(), core.FuncName(fn), core.Discharged, "buffer fully rendered and target parsed successfully on every path to the replacement")
			} else {
				c.Ob(rule, key, call.Pos(), core.FuncName(fn), core.Violated, strings.Join(uniq(problems), "; "))
			}
		})
	}
	// library side
	key := "natefinch/atomic.WriteFile:rename after copy, sync, close"
	var rename *ssa.Call
	var copyC, syncC, closeC, tempC *ssa.Call
	core.EachInstr(write, func(ins ssa.Instruction) {
		call, ok := ins.(*ssa.Call)
		if !ok {
			return
		}
		callee := call.Call.StaticCallee()
		if callee == nil {
			return
		}
		switch callee.String() {
		case pkgAtomic + ".ReplaceFile":
			rename = call
		case "io.Copy":
			copyC = call
		case "(*os.File).Sync":
			syncC = call
		case "(*os.File).Close":
			closeC = call
		case "io/ioutil.TempFile", "os.CreateTemp":
			tempC = call
		}
	})
	var problems []string
	if rename == nil || copyC == nil || syncC == nil || closeC == nil || tempC == nil {
		problems = append(problems, "the expected sequence TempFile, io.Copy, Sync, Close, ReplaceFile was not found")
	} else {
		for name, cl := range map[string]*ssa.Call{"io.Copy": copyC, "Sync": syncC, "Close": closeC} {
			ok := false
			for _, e := range errValues(cl) {
				for _, sb := range core.ErrSuccessBlocks(e) {
					if sb == rename.Block() || sb.Dominates(rename.Block()) {
						ok = true
					}
				}
			}
			if !ok {
				problems = append(problems, "the rename is not dominated by the success of "+name)
			}
		}
		// the temp file lives in the target's directory
		dirOK := false
		for v := range originSet(p, tempC.Call.Args[0], 0) {
			if cl, ok := v.(*ssa.Call); ok && cl.Call.StaticCallee() != nil && cl.Call.StaticCallee().String() == "path/filepath.Split" {
				if prm, ok := cl.Call.Args[0].(*ssa.Parameter); ok && prm == write.Params[0] {
					dirOK = true
				}
			}
		}
		if !dirOK {
			problems = append(problems, "the temp file is not created in the directory of the target (rename would not be atomic across file systems)")
		}
		// the target name: passed to ReplaceFile as destination, otherwise only to os.Stat / filepath.Split / fmt
		core.EachInstr(write, func(ins ssa.Instruction) {
			call, ok := ins.(*ssa.Call)
			if !ok {
				return
			}
			callee := call.Call.StaticCallee()
			if callee == nil || callee.Pkg == nil {
				return
			}
			for i, a := range call.Call.Args {
				if a != ssa.Value(write.Params[0]) {
					continue
				}
				name := callee.Pkg.Pkg.Path() + "." + callee.Name()
				switch name {
				case "path/filepath.Split", "os.Stat":
				case pkgAtomic + ".ReplaceFile":
					if i != 1 {
						problems = append(problems, "the target is not the destination of ReplaceFile")
					}
				default:
					problems = append(problems, "the target path is also handed to "+name)
				}
			}
		})
		// ReplaceFile is os.Rename on this platform
		if rf := p.SSAPkgs[pkgAtomic].Func("ReplaceFile"); rf != nil && rf.Blocks != nil {
			isRename := false
			core.EachInstr(rf, func(ins ssa.Instruction) {
				if cl, ok := ins.(*ssa.Call); ok && cl.Call.StaticCallee() != nil {
					switch cl.Call.StaticCallee().String() {
					case "os.Rename":
						isRename = true
					}
					if strings.Contains(cl.Call.StaticCallee().String(), "MoveFileEx") || strings.Contains(cl.Call.StaticCallee().String(), "moveFileEx") {
						isRename = true
					}
				}
			})
			if !isRename {
				problems = append(problems, "ReplaceFile is not a rename")
			}
		}
	}
	if len(problems) == 0 {
		c.Ob(rule, key, write.Pos(), core.FuncName(write), core.Discharged, "new bytes go to a sibling temp file; the target is touched only by a rename that is dominated by successful copy, sync and close")
	} else {
		c.Ob(rule, key, write.Pos(), core.FuncName(write), core.Violated, strings.Join(uniq(problems), "; "))
	}
	c.Floor(rule, 3)
}

// sameDeref: a is `*x` and b is `*x` for equal x (format passes *target).
func sameDeref(p *core.Prog, a, b ssa.Value) bool {
	return p.SameExpr(core.Strip(a), core.Strip(b))
}

// RuleDEachFile — format applies formatFile to every argument independently
// (iter.Map, no sequential loop that stops at the first error) and combines
// all errors.
func RuleDEachFile(c *core.Ctx) {
	const rule = "D-each-file"
	p := c.P
	entries := core.CommandEntries(c, func(use string) bool { return use == "format" })
	if len(entries) != 1 {
		c.Anchor(rule, "the format command")
		return
	}
	var write *ssa.Function
	if sp := p.SSAPkgs[pkgAtomic]; sp != nil {
		write = sp.Func("WriteFile")
	}
	// the per-file function: the one that calls atomic.WriteFile, reachable from format
	reach := p.ReachLexical(entries[0])
	var perFile *ssa.Function
	perFiles := map[*ssa.Function]bool{} // the writer and the functions that call it (the per-file chain)
	for fn := range reach {
		if !p.InModule(fn) {
			continue
		}
		core.EachInstr(fn, func(ins ssa.Instruction) {
			if call, ok := ins.(*ssa.Call); ok && call.Call.StaticCallee() == write {
				perFile = fn
			}
		})
	}
	if perFile != nil {
		for fn := range reach {
			if p.InModule(fn) && fn != entries[0] && core.PkgPathOf(fn) == core.PkgPathOf(perFile) && reachesFunc(p, fn, perFile, 0) {
				perFiles[fn] = true
			}
		}
	}
	if perFile == nil {
		c.Anchor(rule, "the per-file function of format (caller of atomic.WriteFile)")
		return
	}
	// who applies perFile? it must be handed as a function value to iter.Map / ForEach, not called in a loop that returns early
	found := false
	for fn := range reach {
		if !p.InModule(fn) {
			continue
		}
		core.EachInstr(fn, func(ins ssa.Instruction) {
			call, ok := ins.(*ssa.Call)
			if !ok {
				return
			}
			// direct call inside a loop
			if perFiles[call.Call.StaticCallee()] && !perFiles[fn] {
				key := core.FuncName(fn) + ":files formatted independently"
				inLoop := false
				for _, body := range loopsOf(fn) {
					if body[call.Block()] {
						inLoop = true
						// does an error of this call leave the loop?
						for _, e := range errValues(call) {
							if e.Referrers() == nil {
								continue
							}
							for _, r := range *e.Referrers() {
								if _, isRet := r.(*ssa.Return); isRet {
									found = true
									c.Ob(rule, key, call.Pos(), core.FuncName(fn), core.Violated, "the files are formatted in a sequential loop that returns at the first error: a failure on one file prevents the others from being formatted")
									return
								}
							}
						}
					}
				}
				if inLoop && !found {
					found = true
					c.Ob(rule, key, call.Pos(), core.FuncName(fn), core.Discharged, "sequential loop that does not stop at the first error")
				}
				return
			}
			for _, a := range call.Call.Args {
				if perFiles[core.FuncValue(a)] {
					callee := call.Call.StaticCallee()
					key := core.FuncName(fn) + ":files formatted independently"
					found = true
					if callee != nil && strings.HasPrefix(core.PkgPathOf(callee), "github.com/sourcegraph/conc/iter") {
						// and the results are combined, not truncated
						combined := false
						// iter.ForEach / ForEachIdx return nothing: the literal keeps each file's
						// error in its own slot of a slice that is combined afterwards
						if strings.HasPrefix(core.BaseName(callee), "ForEach") {
							if lit := core.FuncValue(a); lit != nil {
								slot := false
								core.EachInstr(lit, func(li ssa.Instruction) {
									st, ok := li.(*ssa.Store)
									if !ok {
										return
									}
									if _, isIdx := st.Addr.(*ssa.IndexAddr); !isIdx {
										return
									}
									if pc, ok := core.Strip(st.Val).(*ssa.Call); ok && perFiles[pc.Call.StaticCallee()] {
										slot = true
									}
								})
								later := false
								core.EachInstr(fn, func(fi ssa.Instruction) {
									if cl, ok := fi.(*ssa.Call); ok && cl.Call.StaticCallee() != nil && strings.Contains(cl.Call.StaticCallee().String(), "multierr.Combine") && core.Dominates(call, cl) {
										later = true
									}
								})
								combined = slot && later
							}
						}
						if call.Referrers() != nil {
							for _, r := range *call.Referrers() {
								if cl, ok := r.(*ssa.Call); ok && cl.Call.StaticCallee() != nil && strings.Contains(cl.Call.StaticCallee().String(), "multierr.Combine") {
									combined = true
								}
							}
						}
						// nothing that looks at the files one by one returns before they are
						// all handed to the per-file function
						early := ""
						for _, body := range loopsOf(fn) {
							for _, b := range fn.Blocks {
								ret, ok := b.Instrs[len(b.Instrs)-1].(*ssa.Return)
								if !ok || call.Block() == b || call.Block().Dominates(b) {
									continue
								}
								// left from inside the loop
								for _, pb := range b.Preds {
									if body[pb] || body[b] {
										early = p.Pos(ret.Pos())
									}
								}
							}
						}
						if combined && early != "" {
							c.Ob(rule, key, call.Pos(), core.FuncName(fn), core.Violated, "a loop in front of the per-file application returns at "+early+": a failure on one argument prevents every file from being formatted")
						} else if combined {
							c.Ob(rule, key, call.Pos(), core.FuncName(fn), core.Discharged, "the per-file function is applied to every argument by iter.Map and all errors are combined")
						} else {
							c.Ob(rule, key, call.Pos(), core.FuncName(fn), core.Violated, "the per-file errors are not all combined into the command's error")
						}
					} else {
						c.Ob(rule, key, call.Pos(), core.FuncName(fn), core.Undecided, "the per-file function is handed to "+calleeText(call)+", whose treatment of errors is not known")
					}
				}
			}
		})
	}
	if !found {
		c.Ob(rule, core.FuncName(perFile)+":applied to every file", perFile.Pos(), core.FuncName(perFile), core.Undecided, "could not find where the per-file function is applied")
	}
	c.Floor(rule, 1)
}
