package rules

import (
	"fmt"
	"go/token"
	"go/types"
	"sort"
	"strings"

	"golang.org/x/tools/go/ssa"

	"knutlint/core"
)

// mayReturnNilNil: module functions with results (pointer, error) that have a
// return statement yielding (nil, nil) — "absent" is a legal, error-free
// answer, so every caller has to cope with nil.
func mayReturnNilNil(c *core.Ctx) map[*ssa.Function]bool {
	return core.Memo(c, "mayReturnNilNil", func() map[*ssa.Function]bool {
		res := map[*ssa.Function]bool{}
		for _, fn := range c.P.SrcFuncs() {
			sig := fn.Signature
			if sig.Results().Len() != 2 || !core.IsErrorType(sig.Results().At(1).Type()) {
				continue
			}
			if _, ok := sig.Results().At(0).Type().Underlying().(*types.Pointer); !ok {
				continue
			}
			core.EachInstr(fn, func(ins ssa.Instruction) {
				if r, ok := ins.(*ssa.Return); ok && len(r.Results) == 2 && core.IsNilConst(r.Results[0]) && core.IsNilConst(r.Results[1]) {
					res[fn] = true
				}
			})
		}
		return res
	})
}

type nilFlow struct {
	c          *core.Ctx
	p          *core.Prog
	rule       string
	reach      map[*ssa.Function]bool
	tainted    map[ssa.Value]string // value -> how it got tainted (one step)
	viaParam   map[ssa.Value]bool   // the chain from the source passes through a parameter
	prev       map[ssa.Value]ssa.Value
	fields     map[*types.Var]ssa.Value
	work       []ssa.Value
	derefs     map[ssa.Instruction]ssa.Value
	fieldLoads map[*types.Var][]ssa.Value
	callers    map[*ssa.Function][]ssa.CallInstruction
}

func (nf *nilFlow) taint(v ssa.Value, from ssa.Value, how string) {
	if v == nil {
		return
	}
	if _, ok := nf.tainted[v]; ok {
		return
	}
	if !isPointerLike(v.Type()) {
		return
	}
	nf.tainted[v] = how
	nf.prev[v] = from
	if _, isParam := v.(*ssa.Parameter); isParam || (from != nil && nf.viaParam[from]) {
		nf.viaParam[v] = true
	}
	nf.work = append(nf.work, v)
}

func isPointerLike(t types.Type) bool {
	switch u := t.Underlying().(type) {
	case *types.Pointer:
		return true
	case *types.Interface:
		return true
	case *types.Tuple:
		return u.Len() > 0
	}
	return false
}

func (nf *nilFlow) guarded(at ssa.Instruction, v ssa.Value) bool {
	ok, _ := nf.p.Guarded(at, v, "nil")
	return ok
}

func (nf *nilFlow) run() {
	p := nf.p
	for len(nf.work) > 0 {
		v := nf.work[len(nf.work)-1]
		nf.work = nf.work[:len(nf.work)-1]
		if v.Referrers() == nil {
			continue
		}
		for _, r := range *v.Referrers() {
			if !p.InModule(r.Parent()) {
				continue
			}
			if nf.guarded(r, v) {
				continue
			}
			switch x := r.(type) {
			case *ssa.Phi:
				nf.taint(x, v, "phi")
			case *ssa.Extract:
				if x.Index == 0 {
					nf.taint(x, v, "result #0")
				}
			case *ssa.MakeInterface:
				// interface holding a nil pointer: method calls on it reach
				// the pointer method; not followed (no such flow on this tree)
			case *ssa.ChangeType:
				nf.taint(x, v, "conversion")
			case *ssa.Store:
				if x.Val != v {
					// *v = ... : dereference
					if x.Addr == v {
						nf.derefs[x] = v
					}
					continue
				}
				switch a := x.Addr.(type) {
				case *ssa.FieldAddr:
					fv := core.FieldOf(a)
					if _, ok := nf.fields[fv]; !ok {
						nf.fields[fv] = v
						for _, ld := range nf.fieldLoads[fv] {
							nf.taint(ld, v, "field "+p.FieldRef(fv))
						}
					}
				case *ssa.Alloc:
					nf.taintCellLoads(a, v)
				case *ssa.FreeVar:
					// store into a captured variable: loads of that free var in this closure
					if a.Referrers() != nil {
						for _, rr := range *a.Referrers() {
							if ld, ok := rr.(*ssa.UnOp); ok && ld.Op == token.MUL {
								nf.taint(ld, v, "captured variable "+a.Name())
							}
						}
					}
				}
			case *ssa.MakeClosure:
				fn := x.Fn.(*ssa.Function)
				for i, b := range x.Bindings {
					if b == v && i < len(fn.FreeVars) {
						nf.taint(fn.FreeVars[i], v, "captured by "+core.FuncName(fn))
					}
				}
			case *ssa.UnOp:
				if x.Op == token.MUL && x.X == v {
					nf.derefs[x] = v
				}
			case *ssa.FieldAddr:
				if x.X == v {
					nf.derefs[x] = v
				}
			case *ssa.Return:
				// Returns are followed only for values that did not enter
				// the function through a parameter: with context-insensitive
				// returns, the generic identity mappers would spread the nil
				// to every caller of every mapper.
				if nf.viaParam[v] {
					continue
				}
				fn := x.Parent()
				for i, res := range x.Results {
					if res != v {
						continue
					}
					for _, site := range nf.callers[fn] {
						val, ok := site.(ssa.Value)
						if !ok {
							continue
						}
						if fn.Signature.Results().Len() == 1 {
							nf.taint(val, v, "returned by "+core.FuncName(fn))
						} else if val.Referrers() != nil {
							for _, rr := range *val.Referrers() {
								if ex, ok := rr.(*ssa.Extract); ok && ex.Index == i {
									nf.taint(ex, v, "returned by "+core.FuncName(fn))
								}
							}
						}
					}
				}
			case ssa.CallInstruction:
				cc := x.Common()
				for i, a := range cc.Args {
					if a != v {
						continue
					}
					for _, callee := range p.Callees(x) {
						if !p.InModule(callee) || callee.Blocks == nil {
							continue
						}
						idx := i
						if cc.IsInvoke() {
							idx = i + 1
						}
						if idx < len(callee.Params) {
							nf.taint(callee.Params[idx], v, "argument of "+core.FuncName(callee))
						}
					}
				}
			}
		}
	}
}

func (nf *nilFlow) taintCellLoads(a *ssa.Alloc, v ssa.Value) {
	if a.Referrers() == nil {
		return
	}
	for _, r := range *a.Referrers() {
		switch x := r.(type) {
		case *ssa.UnOp:
			if x.Op == token.MUL {
				nf.taint(x, v, "local variable")
			}
		case *ssa.MakeClosure:
			fn := x.Fn.(*ssa.Function)
			// the closure is created only after the variable was tested for nil (and
			// it is not assigned afterwards): inside the closure it is not nil
			if nf.cellGuardedAt(a, x) {
				continue
			}
			for i, b := range x.Bindings {
				if b == a && i < len(fn.FreeVars) {
					fv := fn.FreeVars[i]
					if fv.Referrers() != nil {
						for _, rr := range *fv.Referrers() {
							if ld, ok := rr.(*ssa.UnOp); ok && ld.Op == token.MUL {
								nf.taint(ld, v, "captured variable "+fv.Name())
							}
						}
					}
				}
			}
		}
	}
}

// cellGuardedAt: a nil test of a load of the local variable a dominates `at`
// on its non-nil edge, and every store to a dominates that test (the variable
// is not reassigned between the test and `at`, nor later).
func (nf *nilFlow) cellGuardedAt(a *ssa.Alloc, at ssa.Instruction) bool {
	fn := at.Parent()
	if a.Parent() != fn || a.Referrers() == nil {
		return false
	}
	for _, r := range *a.Referrers() {
		ld, ok := r.(*ssa.UnOp)
		if !ok || ld.Op != token.MUL {
			continue
		}
		okG, iff := nf.p.Guarded(at, ld, "nil")
		if !okG || iff == nil {
			continue
		}
		storesBefore := true
		for _, st := range core.StoresTo(a) {
			if !core.Dominates(st, iff) {
				storesBefore = false
			}
		}
		// stores from inside closures (captured by reference) would be invisible here
		captured := 0
		for _, rr := range *a.Referrers() {
			if mc, ok := rr.(*ssa.MakeClosure); ok {
				cf := mc.Fn.(*ssa.Function)
				for i, b := range mc.Bindings {
					if b == ssa.Value(a) && i < len(cf.FreeVars) && len(core.StoresTo(cf.FreeVars[i])) > 0 {
						captured++
					}
				}
			}
		}
		if storesBefore && captured == 0 {
			return true
		}
	}
	return false
}

func (nf *nilFlow) pathTo(v ssa.Value) []string {
	var path []string
	for x := v; x != nil; x = nf.prev[x] {
		where := "-"
		if ins, ok := x.(ssa.Instruction); ok {
			where = nf.p.Pos(ins.Pos())
			if where == "-" && ins.Parent() != nil {
				where = core.FuncName(ins.Parent())
			}
		} else if x.Parent() != nil {
			where = core.FuncName(x.Parent())
		}
		path = append([]string{fmt.Sprintf("%s (%s) at %s", describeValue(nf.p, x), nf.tainted[x], where)}, path...)
		if len(path) > 12 {
			break
		}
	}
	return path
}

// RuleDNilFlag — the result of an accessor that may legally return (nil, nil)
// (flags.CommodityFlag.Value / AccountFlag.Value: "flag absent") is followed
// through assignments, struct fields, closures, calls and returns; every
// dereference it reaches must be dominated by a non-nil test. Scope: call
// sites reachable from the journal-processing commands. DESIGN.md D-nilflag.
func RuleDNilFlag(c *core.Ctx) {
	const rule = "D-nilflag"
	p := c.P
	srcFns := mayReturnNilNil(c)
	if len(srcFns) == 0 {
		c.Anchor(rule, "a function returning (nil, nil) for an absent optional flag")
		return
	}
	entries := core.CommandEntries(c, func(use string) bool { return core.JournalCommandUses[use] })
	if len(entries) < 8 {
		c.Anchor(rule, fmt.Sprintf("journal command entries (found %d of 8)", len(entries)))
		return
	}
	reach := p.Reach(entries...)
	nf := &nilFlow{c: c, p: p, rule: rule, reach: reach, tainted: map[ssa.Value]string{}, viaParam: map[ssa.Value]bool{}, prev: map[ssa.Value]ssa.Value{},
		fields: map[*types.Var]ssa.Value{}, derefs: map[ssa.Instruction]ssa.Value{}, fieldLoads: map[*types.Var][]ssa.Value{},
		callers: map[*ssa.Function][]ssa.CallInstruction{}}
	for _, fn := range p.SrcFuncs() {
		core.EachInstr(fn, func(ins ssa.Instruction) {
			switch x := ins.(type) {
			case *ssa.UnOp:
				if x.Op == token.MUL {
					if fa, ok := x.X.(*ssa.FieldAddr); ok {
						fv := core.FieldOf(fa)
						nf.fieldLoads[fv] = append(nf.fieldLoads[fv], x)
					}
				}
			case *ssa.Field:
				fv := core.FieldOf(x)
				nf.fieldLoads[fv] = append(nf.fieldLoads[fv], x)
			case ssa.CallInstruction:
				for _, callee := range p.Callees(x) {
					if p.InModule(callee) {
						nf.callers[callee] = append(nf.callers[callee], x)
					}
				}
			}
		})
	}
	nsrc := 0
	var srcNames []string
	for fn := range srcFns {
		srcNames = append(srcNames, core.FuncName(fn))
	}
	sort.Strings(srcNames)
	for _, fn := range p.SrcFuncs() {
		if !reach[fn] {
			continue
		}
		core.EachInstr(fn, func(ins ssa.Instruction) {
			call, ok := ins.(*ssa.Call)
			if !ok {
				return
			}
			callee := call.Call.StaticCallee()
			if callee == nil || !srcFns[callee] {
				return
			}
			nsrc++
			nf.tainted[call] = "source: " + core.FuncName(callee) + " may return (nil, nil)"
			nf.work = append(nf.work, call)
		})
	}
	nf.run()

	// verdicts: one obligation per dereference reached
	type dkey struct{ key string }
	var ders []ssa.Instruction
	for ins := range nf.derefs {
		ders = append(ders, ins)
	}
	sort.Slice(ders, func(i, j int) bool { return ders[i].Pos() < ders[j].Pos() })
	nd := 0
	for _, ins := range ders {
		v := nf.derefs[ins]
		fn := ins.Parent()
		key := fmt.Sprintf("%s:deref of %s", core.FuncName(fn), describeValue(p, v))
		nd++
		c.Ob(rule, key, core.NearPos(ins), core.FuncName(fn), core.Violated,
			"a pointer that is nil when an optional flag is absent is dereferenced without a dominating nil test (nil-pointer panic)", nf.pathTo(v)...)
	}
	// discharged: the sources whose flows end without an unguarded dereference
	c.Ob(rule, "sources", token.NoPos, "", verdictIf(nsrc > 0), fmt.Sprintf("%d call sites of %s in reach of the journal commands; %d values and %d struct fields may carry the absent-flag nil; %d unguarded dereferences",
		nsrc, strings.Join(srcNames, ", "), len(nf.tainted), len(nf.fields), nd))
	var fs []string
	for fv := range nf.fields {
		fs = append(fs, p.FieldRef(fv))
	}
	sort.Strings(fs)
	for _, f := range fs {
		c.Ob(rule, "maybe-nil field "+f, token.NoPos, "", core.Discharged, "field may hold the absent-flag nil; all of its dereferencing loads were examined")
	}
	c.Floor(rule, 2)
}

func verdictIf(ok bool) core.Verdict {
	if ok {
		return core.Discharged
	}
	return core.Undecided
}
