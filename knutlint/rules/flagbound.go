package rules

import (
	"fmt"
	"go/token"
	"go/types"
	"sort"
	"strings"

	"golang.org/x/tools/go/ssa"

	"knutlint/core"
)

// RuleDFlagBound — "any flag values": an integer flag that decides how much is
// allocated or printed per cell is bounded before it is used. The integer
// flags of the commands (cells registered with IntVar/Int32Var/… of pflag) are
// followed through the struct fields they are copied into (a field assigned
// from a tainted value is tainted) to the sinks that are linear in them:
// decimal.StringFixed / Round / Truncate places, strings.Repeat counts, make
// sizes. Each flag that reaches a sink must be compared with a constant upper
// bound on a branch that ends the command with an error. `--digits 2000000000`
// otherwise formats two billion decimals per cell: the command hangs until
// memory is exhausted.
func RuleDFlagBound(c *core.Ctx) {
	const rule = "D-flag-bound"
	p := c.P
	// 1. flag cells: fields handed to (*pflag.FlagSet).Int*Var
	flagCells := map[*types.Var]string{} // field -> flag name
	for _, fn := range p.SrcFuncs() {
		if !strings.HasPrefix(core.PkgPathOf(fn), core.Module+"/cmd") {
			continue
		}
		core.EachInstr(fn, func(ins ssa.Instruction) {
			call, ok := ins.(*ssa.Call)
			if !ok {
				return
			}
			callee := call.Call.StaticCallee()
			if callee == nil || core.PkgPathOf(callee) != "github.com/spf13/pflag" || !strings.HasPrefix(callee.Name(), "Int") || !strings.Contains(callee.Name(), "Var") {
				return
			}
			for _, a := range call.Call.Args {
				if fa, ok := a.(*ssa.FieldAddr); ok && core.FieldOf(fa) != nil {
					name := ""
					for _, b := range call.Call.Args {
						if s, ok := core.ConstString(b); ok && name == "" {
							name = s
						}
					}
					flagCells[core.FieldOf(fa)] = name
				}
			}
		})
	}
	if len(flagCells) == 0 {
		c.Anchor(rule, "integer flags registered with pflag")
		return
	}
	// 2. taint through fields
	tainted := map[*types.Var]map[*types.Var]bool{} // field -> originating flag fields
	for f := range flagCells {
		tainted[f] = map[*types.Var]bool{f: true}
	}
	fromTainted := func(v ssa.Value) map[*types.Var]bool {
		res := map[*types.Var]bool{}
		for x := range originSet(p, v, 0) {
			var fv *types.Var
			switch y := x.(type) {
			case *ssa.FieldAddr:
				fv = core.FieldOf(y)
			case *ssa.Field:
				fv = core.FieldOf(y)
			}
			for o := range tainted[fv] {
				res[o] = true
			}
		}
		return res
	}
	for changed := true; changed; {
		changed = false
		for _, fn := range p.SrcFuncs() {
			if !p.InModule(fn) {
				continue
			}
			core.EachInstr(fn, func(ins ssa.Instruction) {
				st, ok := ins.(*ssa.Store)
				if !ok {
					return
				}
				fa, ok := st.Addr.(*ssa.FieldAddr)
				if !ok || core.FieldOf(fa) == nil {
					return
				}
				if b, ok := core.FieldOf(fa).Type().Underlying().(*types.Basic); !ok || b.Info()&types.IsInteger == 0 {
					return
				}
				for o := range fromTainted(st.Val) {
					if tainted[core.FieldOf(fa)] == nil {
						tainted[core.FieldOf(fa)] = map[*types.Var]bool{}
					}
					if !tainted[core.FieldOf(fa)][o] {
						tainted[core.FieldOf(fa)][o] = true
						changed = true
					}
				}
			})
		}
	}
	// 3. sinks
	reaches := map[*types.Var][]string{}
	for _, fn := range p.SrcFuncs() {
		if !p.InModule(fn) {
			continue
		}
		core.EachInstr(fn, func(ins ssa.Instruction) {
			var sized ssa.Value
			what := ""
			switch x := ins.(type) {
			case *ssa.Call:
				callee := x.Call.StaticCallee()
				if callee == nil {
					return
				}
				switch {
				case core.PkgPathOf(callee) == pkgDecimal && (strings.HasPrefix(callee.Name(), "StringFixed") || strings.HasPrefix(callee.Name(), "Round") || callee.Name() == "Truncate") && len(x.Call.Args) == 2:
					sized, what = x.Call.Args[1], "decimal."+callee.Name()
				case core.PkgPathOf(callee) == "strings" && callee.Name() == "Repeat":
					sized, what = x.Call.Args[1], "strings.Repeat"
				}
			case *ssa.MakeSlice:
				sized, what = x.Len, "make"
			}
			if sized == nil {
				return
			}
			for o := range fromTainted(sized) {
				reaches[o] = append(reaches[o], what+" in "+core.FuncName(fn))
			}
		})
	}
	// 4. bounds: `flag > const` (or >=) on a branch that returns an error / exits
	bounded := func(f *types.Var) bool {
		ok := false
		for _, fn := range p.SrcFuncs() {
			if !strings.HasPrefix(core.PkgPathOf(fn), core.Module+"/cmd") {
				continue
			}
			for _, b := range fn.Blocks {
				iff, isIf := b.Instrs[len(b.Instrs)-1].(*ssa.If)
				if !isIf {
					continue
				}
				var visit func(v ssa.Value) bool
				visit = func(v ssa.Value) bool {
					bo, isBo := v.(*ssa.BinOp)
					if !isBo {
						return false
					}
					switch bo.Op {
					case token.GTR, token.GEQ:
						if _, isC := bo.Y.(*ssa.Const); isC {
							for x := range originSet(p, bo.X, 0) {
								if fa, ok := x.(*ssa.FieldAddr); ok && core.FieldOf(fa) == f {
									return true
								}
							}
						}
					case token.LSS, token.LEQ:
						if _, isC := bo.X.(*ssa.Const); isC {
							for x := range originSet(p, bo.Y, 0) {
								if fa, ok := x.(*ssa.FieldAddr); ok && core.FieldOf(fa) == f {
									return true
								}
							}
						}
					}
					return false
				}
				if !visit(iff.Cond) {
					continue
				}
				// the true branch ends in an error return
				for _, tb := range fn.Blocks {
					if tb != b.Succs[0] && !b.Succs[0].Dominates(tb) {
						continue
					}
					if ret, isRet := tb.Instrs[len(tb.Instrs)-1].(*ssa.Return); isRet {
						for _, rv := range ret.Results {
							if core.IsErrorType(rv.Type()) && !core.IsNilConst(rv) {
								ok = true
							}
						}
					}
				}
			}
		}
		if ok {
			return true
		}
		// … or the flag's value is handed to a function of the commands that compares
		// its parameter with a constant and returns an error (flags.CheckDigits(r.digits))
		for _, fn := range p.SrcFuncs() {
			if !strings.HasPrefix(core.PkgPathOf(fn), core.Module+"/cmd") {
				continue
			}
			core.EachInstr(fn, func(ins ssa.Instruction) {
				call, isCall := ins.(*ssa.Call)
				if !isCall || ok {
					return
				}
				callee := call.Call.StaticCallee()
				if callee == nil || callee.Blocks == nil || !strings.HasPrefix(core.PkgPathOf(callee), core.Module+"/cmd") {
					return
				}
				for i, a := range call.Call.Args {
					fromFlag := false
					for x := range originSet(p, a, 0) {
						if fa, isFA := x.(*ssa.FieldAddr); isFA && core.FieldOf(fa) == f {
							fromFlag = true
						}
					}
					if !fromFlag || i >= len(callee.Params) {
						continue
					}
					prm := callee.Params[i]
					for _, cb := range callee.Blocks {
						iff, isIf := cb.Instrs[len(cb.Instrs)-1].(*ssa.If)
						if !isIf {
							continue
						}
						bo, isBo := iff.Cond.(*ssa.BinOp)
						if !isBo {
							continue
						}
						cmpParam := false
						switch bo.Op {
						case token.GTR, token.GEQ:
							_, isC := bo.Y.(*ssa.Const)
							cmpParam = isC && originSet(p, bo.X, 0)[prm]
						case token.LSS, token.LEQ:
							_, isC := bo.X.(*ssa.Const)
							cmpParam = isC && originSet(p, bo.Y, 0)[prm]
						}
						if !cmpParam {
							continue
						}
						for _, tb := range callee.Blocks {
							if tb != cb.Succs[0] && !cb.Succs[0].Dominates(tb) {
								continue
							}
							if ret, isRet := tb.Instrs[len(tb.Instrs)-1].(*ssa.Return); isRet {
								for _, rv := range ret.Results {
									if core.IsErrorType(rv.Type()) && !core.IsNilConst(rv) {
										ok = true
									}
								}
							}
						}
					}
				}
			})
		}
		return ok
	}
	var fields []*types.Var
	for f := range reaches {
		fields = append(fields, f)
	}
	sort.Slice(fields, func(i, j int) bool { return p.FieldRef(fields[i]) < p.FieldRef(fields[j]) })
	for _, f := range fields {
		key := fmt.Sprintf("flag --%s (%s):bounded before it sizes output", flagCells[f], p.FieldRef(f))
		sinks := uniq(reaches[f])
		if bounded(f) {
			c.Ob(rule, key, f.Pos(), "", core.Discharged, "compared with a constant upper bound on a branch that fails the command; reaches "+strings.Join(sinks, ", "))
		} else {
			c.Ob(rule, key, f.Pos(), "", core.Violated, "the value of the flag reaches "+strings.Join(sinks, ", ")+" without an upper bound: a value like 2000000000 makes the command format billions of digits per cell — it hangs until memory is exhausted")
		}
	}
	c.Ob(rule, "commands:integer flags", 0, "", core.Discharged, fmt.Sprintf("%d integer flags, %d of them reach a sink that is linear in the value", len(flagCells), len(fields)))
	c.Floor(rule, 1)
}
