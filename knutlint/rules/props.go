package rules

const commonNote = "Level 'other': structural necessary conditions decided statically on the type-checked program (go/packages + go/ssa + VTA call graph), every instance enumerated, fail-closed on unknown idioms. Trusted: the Go type checker and go/ssa; VTA over-approximates dynamic calls; shopspring/decimal arithmetic is exact; strings.Split returns cap==len. "

func claim(p *Property) {
	if p.Technique == "" {
		p.Technique = "static analysis: repository-specific rules over typed AST, SSA, CFG dominance and VTA call graph"
	}
	p.LevelNote = commonNote + "NOT decided: " + join(p.NotDecided)
	p.LevelText = "Decides, for every instance in the program, these structural clauses: " + join(p.Decides) + " It does not decide the behavioural remainder (see level_note)."
	p.Explanation = p.LevelText + " " + p.LevelNote
	Properties[p.ID] = p
}

func join(ss []string) string {
	out := ""
	for i, s := range ss {
		if i > 0 {
			out += " "
		}
		out += s
	}
	return out
}

func init() {
	claim(&Property{
		ID: "C11",
		Decides: []string{
			"(K-part-chain) how the periods are constructed, not the calendar arithmetic: the periods are produced backwards from the window's end; each appended period ends at the loop variable `end`, whose first value is the window's End and whose next value is AddDate(0,0,-1) of the very Start stored in the period just appended (consecutive, no gap, no overlap by construction); that Start is StartOf(end, interval) for the function's own interval parameter, replaced by the window's Start exactly when it lies before it; the loop is left only when `end` lies before the window's Start or on a limit that depends only on `last` and the number of periods produced; the periods are reversed before they are stored;",
			"(K-part-align) a date is attributed by sort.Search(len(periods), i -> !periods[i].End.Before(d)); the result is periods[index].End when index < len(periods) and the zero time otherwise, and no other condition decides it;",
			"(K-part-dates) StartDates / EndDates append the Start / End of every period, unconditionally and in order;",
			"(K-partition-whole) no consumer reslices or indexes those lists with constants;",
			"(K-utc) every date the module constructs is a UTC value (time.Date with time.UTC, no ParseInLocation with another location), so that window bounds, period ends and journal dates are comparable instants.",
			"(K-week-bounds) the day offsets that StartOf/EndOf derive from the weekday, evaluated for the seven weekday classes, stay inside the date's own week and land on its Monday (start) or Sunday (end);",
			"(K-month-bounds) the dates that StartOf/EndOf build from the month of the date, evaluated for the twelve month classes with year and day symbolic, are the first / last days of the month, quarter or year that contains the date;",
			"(K-part-chain, limit) the loop that builds the periods, executed with the window unbounded and `last` = 1..6, appends exactly `last` periods, and is not left for `last` = 0, -1: --last n keeps exactly n;",
		},
		NotDecided: []string{
			"time.AddDate and the lengths of months (trusted); forms of StartOf/EndOf other than the ones K-week-bounds and K-month-bounds interpret (an offset derived from the weekday, a date built from year, month expression and constant day, AddDate with constants, siblings applied to the date); the correctness of the reversal loop's index arithmetic beyond its shape.",
		},
		Rules: []Rule{RuleKPartChain, RuleKPartAlign, RuleKPartDates, RuleKPartitionWhole, RuleKUTC, RuleKWeekBounds, RuleKMonthBounds},
	})
}

func init() {
	claim(&Property{
		ID: "C06",
		Decides: []string{
			"(A-order) every `range` over a map, and every loop over a slice filled from one without a total sort, reachable from balance, print, check, transcode, infer, format, portfolio weights/returns and the 11 importers has a body whose effects do not depend on the iteration order (exact commutative accumulation, set insertion, element-local writes, running min/max, insert-if-absent of fresh defaults, appends to a bag that is sorted before use); float sums, last-wins overwrites, first-wins selections, early exits with element-derived results and I/O inside such a loop are violations;",
			"(A-sort) every sort that receives unordered data uses a comparator that is a lexicographic chain and reads an identity key of the element type or every field the journal printer prints for it; comparators passed as parameters are resolved through up to 3 caller levels and each alternative is judged separately;",
			"(A-stage) per Journal.Process call, stage by stage: once a stage appends to a per-day slice in map order, every later callback that receives its elements must be order-free until a stage sorts the slice;",
			"(A-arrival) the per-file batches of directives reach the journal builder sequentially from a collection sorted by file path, not from per-file goroutines.",
			"(I-recheck) interning is atomic (membership re-tested under the write lock): one name never gets two objects depending on goroutine scheduling.",
			"(K-compare-prims) the primitive comparators the ordering rules trust are total and agree with the values: dates are compared as instants (no UnixNano, Format …), the generic comparator is cmp.Compare or never used on floats;",
			"(K-path-identity) the path by which the batches of parsed files are ordered is the path each file was read from, not a derived name;",
		},
		NotDecided: []string{
			"which of several concurrent errors is reported on stderr (exit status is 1 either way);",
			"dependence on the wall clock through the default --to;",
			"byte equality itself (no execution); the classification is per loop body, so an order dependence that needs two cooperating loops in different functions with no shared slice, field or map between them is not seen.",
		},
		Rules: []Rule{RuleAOrder, RuleAArrival, RuleIRecheck, RuleKComparePrims, RuleKPathIdentity},
	})
}

func init() {
	claim(&Property{
		ID: "C01",
		Decides: []string{
			"(C-posting, C-postings) postings exist only as builder-made pairs: posting.Posting is allocated only in posting.Builder.Build, and every value stored into a Postings field comes from the pair builder or another Postings field (29 sites incl. all importers);",
			"(J-pair) the pair literal carries {x.Neg(), x} for Quantity and Value, swapped Account/Other and one Commodity inside one expression;",
			"(C-value, J-valuation) no later write breaks the anti-symmetry: Quantity/Account/Other/Commodity are never written after construction, Value only by the valuation callback, where each stored value is an odd-symmetric function of the same posting's Quantity (table over shopspring/decimal, followed through NormalizedPrices.Valuate and price.Multiply) and the store is not control-dependent on the posting's side;",
			"(K-daytx) whole transactions, never single postings, are added to or dropped from a day;",
			"(K-insert, K-report-amounts) the balance report adds each posting with a non-nil mapped account exactly once on every path, keyed by the transaction's date, and nothing but Report.Insert's lazy initialisation ever writes a node's amounts;",
			"(K-delta) the Delta row is Totals()#0 after Plus(Totals()#1), not negated, with no Minus on the flow.",
			"(K-decimal-config) no function of the module writes a package variable of shopspring/decimal (DivisionPrecision …): reciprocals and products are truncated, not rounded by the library;",
			"(K-totals-all) the totals take the amounts of every node of the report tree, and an accumulation into a total always stores the new sum;",
		},
		NotDecided: []string{
			"that shopspring/decimal is exact (trusted);",
			"anything about filters and mappings (the property excludes them);",
			"a wrong-but-symmetric value (that is C03).",
		},
		Rules: []Rule{RuleCPosting, RuleCPostings, RuleJPair, RuleCValue, RuleJValuation, RuleKDayTx, RuleKInsert, RuleKReportAmounts, RuleKDelta, RuleKDecimalConfig, RuleKTotalsAll},
	})
}

func init() {
	claim(&Property{
		ID: "C04",
		Decides: []string{
			"(D-process-order) in the day processor no path leads from a later kind's loop to an earlier kind's (prices, opens, transactions, assertions, closes); DayStart runs before and DayEnd after all of them;",
			"(K-sorted-days, K-fifo) Journal.Days is only assigned a slice sorted by a comparator that reads Day.Date, and no stage of cpr.Seq spawns goroutines per item, so days are evaluated in ascending order;",
			"(K-proc-literal, D-open-close) the checker's processor binds Open, Posting, Balance and Close; open adds to and close removes from the set of open accounts on every success path, and all four callbacks consult that set before succeeding (sibling agreement);",
			"(D-check-first) every command that loads a journal runs the checker in its first Process call, before any stage that looks at openings, transactions, assertions or closings;",
			"(D-reject) every error return of the checker callbacks is control-dependent only on the reviewed conditions (account open?, same account?, quantity IsZero/Equal, NoCheck);",
			"(C-sparse) no branch depends on the presence bit of a sparse Amounts entry (absent means zero).",
			"(I-recheck) interning is atomic: a new account or commodity is inserted only after a membership test under the same exclusive lock, so one name has one object and positions keyed by it do not split;",
			"(K-day-key) the key under which the builder files a day is an injective function of the date (the time itself, a mixed-radix integer of its components, or a full-date format): directives of one date form one day, of two dates two;",
			"(J-pair) every booking yields its two postings on every path of the pair builder, so the checker sees (and tests the accounts of) every booking, also one of zero;",
			"(K-builders-all) every booking gets its pair of postings, so the checker sees every booking;",
			"(K-compare-prims) the primitive comparators the ordering rules trust are total and agree with the values: dates are compared as instants (no UnixNano, Format …), the generic comparator is cmp.Compare or never used on floats;",
		},
		NotDecided: []string{
			"the iff itself: the comparison of quantities in assertions, the zero test on close, the text of diagnostics;",
			"assertions on non asset/liability accounts (the checker tracks quantities only for A/L accounts).",
		},
		Rules: []Rule{RuleDProcessOrder, RuleKSortedDays, RuleKFifo, RuleDOpenClose, RuleDReject, RuleDCheckFirst, RuleCSparse, RuleIRecheck, RuleKDayKey, RuleJPair, RuleKBuildersAll, RuleKComparePrims},
	})
}

func init() {
	claim(&Property{
		ID: "C05",
		Decides: []string{
			"(D-process-order, K-sorted-days) the evaluation skeleton that makes arrival order irrelevant: fixed intra-day kind order, days sorted by date;",
			"(A-arrival, A-order, A-stage) no arrival order reaches stdout: the per-file batches reach the builder in path order, and every unordered iteration on the way to the output is order-free or sorted;",
			"(D-include-path) include paths are Join(Dir(file being parsed), include text);",
			"(D-push-once) each parsed file is pushed exactly once on every success path, and each cpr.Seq stage forwards each day exactly once.",
			"(K-add-commutes) the journal builder accumulates directives order-free: Builder.Add only appends to bags, get-or-creates days and keeps a running minimum/maximum; no error return depends on earlier directives and nothing is deleted from the builder's maps; (K-nested-limit) the include loader has no concurrency limit that a deep include tree could exhaust;",
			"(D-loader-reject) the loader constructs no error of its own except under the ancestor (include-cycle) test;",
			"(K-day-key) the key under which the builder files a day is an injective function of the date;",
			"(K-compare-prims) the primitive comparators the ordering rules trust are total and agree with the values: dates are compared as instants (no UnixNano, Format …), the generic comparator is cmp.Compare or never used on floats;",
			"(K-path-identity) the path by which the batches of parsed files are ordered is the path each file was read from, not a derived name;",
			"(K-slice-alias) no loop keeps results of append on one unclipped loop-invariant base, and none keeps the address of an element of a slice it appends to: one file's / one element's data does not show up in another's;",
		},
		NotDecided: []string{
			"byte equality of reports under permutation of the directives (no execution);",
			"commutativity of the checker callbacks within one kind on one day (two opens, or two assertions, of one day are evaluated in arrival order; the verdict does not depend on it for journals the property admits, argued informally only).",
		},
		Rules: []Rule{RuleDProcessOrder, RuleKSortedDays, RuleAArrival, RuleAOrder, RuleKAddCommutes, RuleDIncludePath, RuleDLoaderReject, RuleDPushOnce, RuleKNestedLimit, RuleKDayKey, RuleKComparePrims, RuleKPathIdentity, RuleKSliceAlias},
	})
}

func init() {
	claim(&Property{
		ID: "C02",
		Decides: []string{
			"(B1) collapsing and remapping never touch other accounts: no append through a reslice of an interned account's segments or of any storage the function does not own;",
			"(G1, G2) the balance pipeline is check -> prices -> valuate -> filter -> close -> query, and every stage's inputs are written by an earlier stage;",
			"(K-where-select) filters see the booked key, the mapping is applied only to what is inserted: `if Where(key) { Insert(Select(key), amount) }`;",
			"(K-partition-whole) period start and end dates are consumed whole (closing days, columns);",
			"(K-insert) every posting with a non-nil mapped account is added exactly once, keyed by the transaction's date.",
			"(K-name-anchored) no unanchored substring replacement is applied to an account name or its segments (remapping edits the type root only);",
			"(K-part-align) the column a booking lands in is the end of the first period that does not end before its date (binary search on the period ends), under no other condition;",
			"(K-utc) the window bounds given on the command line are UTC midnights like every journal date: no time.Date / ParseInLocation in another location;",
			"(D-days-before-build) the days that closing needs are registered with the builder before the journal is built;",
			"(K-part-chain) the partition the window filter and the reports share: periods chained from the window end, its span is the window itself, --last keeps exactly n;",
			"(K-totals-all) the totals take the amounts of every node of the report tree, and an accumulation into a total always stores the new sum;",
		},
		NotDecided: []string{
			"any cell value: window, --last, --diff and closing arithmetic, running sums, row selection (arithmetic over runtime dates and amounts; no rule in reach bounds them);",
			"the alignment of dates to period ends (C11).",
		},
		Rules: []Rule{RuleB1, RuleKNameAnchored, RuleG1, RuleG2, RuleKWhereBeforeSelect, RuleKPartitionWhole, RuleKPartAlign, RuleKInsert, RuleKReportAmounts, RuleKUTC, RuleDDaysBeforeBuild, RuleKPartChain, RuleKTotalsAll},
	})
	claim(&Property{
		ID: "C03",
		Decides: []string{
			"(K-price-miss) a missing price is an error and the error is returned: NormalizedPrices is read only through comma-ok accessors whose absent branch fails, and every Price/Valuate error is tested and returned;",
			"(D-state-all-paths) prices are carried forward to every day, the previous prices are refreshed on every path, and the day's prices are taken before use;",
			"(K-reval) the daily revaluation debits the position's own account, credits ValuationAccountFor(that account), in the position's commodity, with value Multiply(today's price - previous price, quantity); positions are skipped only for reviewed reasons and not modified by the loop;",
			"(J-valuation) each posting is valued by an odd-symmetric function of its own quantity (shared with C01);",
			"(K-both-directions) every price declaration also refreshes the reciprocal, so valuation through an inverted price uses the latest declaration;",
			"(G1) prices are computed before valuation in every pipeline; (B1) the mirror account is computed from immutable segments.",
			"(A-order) the loops of the valuation stage over the open positions are complete and order-free: no early success exit after effects, no order-dependent overwrite;",
			"(G2, K-bfs) the valuation runs before the window filter (positions opened before the window are revalued inside it); the normalized price of a commodity is assigned once, breadth-first from the valuation commodity, so a directly declared price is not replaced by a derived one;",
			"(K-decimal-config) no function of the module writes a package variable of shopspring/decimal (DivisionPrecision …): reciprocals and products are truncated, not rounded by the library;",
			"(D-days-before-build) the days that closing needs are registered with the builder before the journal is built;",
			"(K-part-chain) the partition the window filter and the reports share: periods chained from the window end, its span is the window itself, --last keeps exactly n;",
			"(K-utc) window bounds and journal dates share one location;",
		},
		NotDecided: []string{
			"the values themselves: which day's price is the latest on or before a date, truncation results, chained prices (C12 decides the price function's determinism, not its value);",
			"that the accumulated gain equals the sum of daily adjustments (arithmetic).",
		},
		Rules: []Rule{RuleKPriceMiss, RuleDStateAllPaths, RuleKReval, RuleKBothDirections, RuleKBfs, RuleJValuation, RuleG1, RuleG2, RuleB1, RuleAOrder, RuleKDecimalConfig, RuleDDaysBeforeBuild, RuleKPartChain, RuleKUTC},
	})
	claim(&Property{
		ID: "C12",
		Decides: []string{
			"(A-order on Normalize) the price of a commodity is a function of the declarations: the traversal of the price graph does not depend on map iteration order (no first-wins over a map range);",
			"(K-bfs) the traversal is iterative with a FIFO frontier (breadth-first), so a directly declared price wins over a derived one;",
			"(K-both-directions) every insertion stores the price and its reciprocal under permuted commodities on every success path, and a later declaration overwrites unconditionally;",
			"(D-state-all-paths) the table is re-normalized exactly on days with price directives and carried forward otherwise;",
			"(D-div) a zero price is rejected before the division;",
			"(K-price-miss) an unconnected commodity has no price and valuing it is an error.",
			"(K-prices-order) the order of a day's prices (a later one replaces an earlier one) is never changed: Day.Prices is written only by the builder's append and handed to no function;",
			"(K-decimal-config) no function of the module writes a package variable of shopspring/decimal (DivisionPrecision …): reciprocals and products are truncated, not rounded by the library;",
			"(I-recheck) a commodity is interned once: the price graph is keyed by the interned pointers, two pointers for one name disconnect it;",
		},
		NotDecided: []string{
			"which path's product is used among several chains (breadth-first from V, neighbours in name order, by reading), the 8-digit truncation values, and that the most recent declaration per pair is the one in the table on a given day (that is the price stage's carry-forward, C03).",
		},
		Rules: []Rule{RuleAOrder, RuleKBfs, RuleKBothDirections, RuleKPricesOrder, RuleDDiv, RuleKPriceMiss, RuleDStateAllPaths, RuleKDecimalConfig, RuleIRecheck},
	})
}

func init() {
	claim(&Property{
		ID: "C07",
		Decides: []string{
			"(E-loops, E-nonempty) termination: each of the 20 loops in scanner, parser and directives is bounded (range / counted) or consumes at least one rune on every cyclic path and is left at end of input; decided by a path-sensitive progress analysis with function summaries (Adv / AdvOrEOF / None) computed as a least fixed point; the parser and scanner are not recursive; the literals handed to ReadString/ReadAlternative are non-empty;",
			"(C-panic-parser) no panic, Must*, log.Fatal or os.Exit is reachable from ParseFile, Advance, Error.Error, Range.Location/Context/Extract;",
			"(C-offset) the scanner position is written only by Advance (offset += currentLen) and Backtrack (to the start of the caller's own scope), each followed on every path by a re-decode of the current rune from text[offset:];",
			"(C-range) range bounds are written only by Scope.Range, Advance (error positions), Range.Extend and the synthetic account of infer ([0, len(text)));",
			"(C-index) every slice and index of the input text has bounds of the reviewed forms (scanner position, a range's own Start/End, line boundaries from bounded scans) or is dominated by a comparison with the text's length;",
			"(K-text-identity) the text handed to parser.New reaches Scanner.text unchanged, so ranges index the caller's input.",
			"(K-scope-first) the scope that yields a parse function's node range is opened before the function consumes anything and is never re-assigned to a later scope;",
			"(C-const-index) no constant index or constant slice bound on a slice or string of unknown length in parser, scanner and directives without a dominating length test (today: none at all);",
		},
		NotDecided: []string{
			"that the tree is the right tree for the text, that children lie within parents and directives are disjoint and increasing (follows from scopes being opened and closed in a nested fashion; K-range-last of the design was not built);",
			"implicit panics other than the text accesses above (nil maps, type assertions) in the parser.",
		},
		Rules: []Rule{RuleELoops, RuleCPanicParser, RuleCOffset, RuleCRange, RuleCIndex, RuleCConstIndex, RuleKTextIdentity, RuleKScopeFirst},
	})
}

func init() {
	claim(&Property{
		ID: "C10",
		Decides: []string{
			"(C-posting, C-postings, J-pair) every generated transaction balances: its postings come from the pair builder;",
			"(F-acct-types) every leg of the original is re-booked: for each of the five account types the re-booking loop reaches a builder call;",
			"(D-div) the amount is divided by a size that a dominating test shows to be non-zero;",
			"(K-remainder) divisor and parts come from the same partition value (Size() / EndDates()), and the remainder is added in exactly the iteration with index 0;",
			"(K-accrual-dates) kept legs carry the transaction's date, split legs the partition's end dates.",
			"(K-acct-predicates) IsIE (the legs that are split) is true exactly for INCOME and EXPENSES and IsAL exactly for ASSETS and LIABILITIES, by evaluating the two method bodies for the five values of the type enumeration;",
			"(K-week-bounds) weekly accrual periods: the day offsets derived from the weekday land on the Monday / Sunday of the date's own week;",
			"(K-month-bounds) monthly, quarterly and yearly accrual periods: StartOf/EndOf return the first / last day of the date's own period for every month class;",
			"(K-interval-names) the interval keyword of an @accrue annotation is read as the interval that prints under that name: parse(c.String()) = c for every constant of the interval type (both tables evaluated on constants);",
		},
		NotDecided: []string{
			"QuoRem's arithmetic (trusted library contract q*n + r = x);",
			"the calendar partition beyond what K-week-bounds and K-month-bounds decide about StartOf/EndOf (see C11);",
			"that the accrual account nets to zero numerically (follows from the above by arithmetic, not checked).",
		},
		Rules: []Rule{RuleCPosting, RuleCPostings, RuleJPair, RuleFAcctTypes, RuleKAcctPredicates, RuleDDiv, RuleKRemainder, RuleKAccrualDates, RuleKWeekBounds, RuleKMonthBounds, RuleKIntervalNames},
	})
}

func init() {
	claim(&Property{
		ID: "C15",
		Decides: []string{
			"(C-infer) write set: the only stores into the parsed tree reachable from the infer command are Booking.Credit / Booking.Debit, each taken only on the true edge of `<text of that same field> == placeholder`;",
			"(C-infer-fresh) the other account handed to the candidate search is the booking's current other side: no value read from Credit/Debit before its replacement is used after it;",
			"(K-zero-flow) no account built from the empty default is stored unless the search reported success;",
			"(A-order, A-sort) the choice is deterministic: candidates and tokens are visited in sorted order, and training over concurrently parsed files is order-free;",
			"(D-atomic, C-filewrite) --inplace writes through the atomic writer only after a successful parse and render.",
			"(C-filewrite, D-atomic) with --inplace the result is written only through atomic.WriteFile, after the target was parsed and rendered successfully (no truncating or in-place open of the journal);",
			"(K-range-text) outside lib/syntax/directives the field Range.Text (the whole file) is only sliced, indexed, measured or copied: the other account of a booking is compared through its extracted text;",
			"(K-infer-all) the command hands every transaction of the target to Model.Infer: the loop over the directives ends only with its range and the call depends only on the type test;",
		},
		NotDecided: []string{
			"that the chosen account maximises the Bayes score; that the formatter preserves everything else (C08);",
			"that the stored account occurs in the training journal (it is a key of the training counts by construction of the candidate loop; not machine-checked).",
		},
		Rules: []Rule{RuleCInfer, RuleCInferFresh, RuleKZeroFlow, RuleAOrder, RuleCFileWrite, RuleDAtomic, RuleKRangeText, RuleKInferAll},
	})
	claim(&Property{
		ID: "C20",
		Decides: []string{
			"(D-days-before-build) period-end days are registered with the builder before Build() snapshots the days, for both portfolio commands;",
			"(G1) values are computed before flows, returns and weights; prices before valuation;",
			"(B1) the universe's classification slices are never written through a reslice;",
			"(K-partition-whole) the partition's end dates are consumed whole;",
			"(A-order, A-stage) float sums and row order do not depend on map iteration or arrival order;",
			"(K-weights-sum) every update of a weights node adds to the entry it replaces (leaves and groups), the node's map is replaced only by lazy initialisation, and Report.Add receives V1[com] divided by the sum of V1 over the same commodities;",
			"(K-transfer-fresh) the per-transaction flow maps handed to the additive transfer (performance.split) start empty at every invocation of the callback, so no flow is transferred twice.",
			"(K-day-reset) a stage of the performance calculator that accumulates a figure within a day and reads it at the end of the day assigns it in DayStart on every path;",
			"(K-utc) the window bounds given on the command line are UTC midnights like every journal date (a time.Time in another location is a different key of the builder's day map);",
			"(K-slice-alias) no loop keeps results of append on one unclipped loop-invariant base, and none keeps the address of an element of a slice it appends to: one file's / one element's data does not show up in another's;",
		},
		NotDecided: []string{
			"agreement of the weights with `balance -v` (arithmetic over runtime values), the return formula itself, the classification of a posting as external or internal flow.",
		},
		Rules: []Rule{RuleDDaysBeforeBuild, RuleG1, RuleB1, RuleKPartitionWhole, RuleAOrder, RuleKWeightsSum, RuleKTransferFresh, RuleKDayReset, RuleKUTC, RuleKSliceAlias},
	})
}

func init() {
	claim(&Property{
		ID: "C18",
		Decides: []string{
			"(C-filewrite) no code in the module creates, truncates, renames or removes a file except through atomic.WriteFile (and os.Create of the --cpuprofile path);",
			"(D-atomic, caller side) at each of the three atomic.WriteFile sites the data is a local bytes.Buffer, and the replacement is dominated by the success edges of every call that fills the buffer and of every call that reads the same path (the parse);",
			"(D-atomic, library side) in natefinch/atomic v1.0.1 (analysed from the module cache, all three GOOS in the thorough tier) new bytes go to a temp file created in the target's directory, and the target is named mutably only as the destination of ReplaceFile, which is dominated by successful io.Copy, Sync and Close;",
			"(D-each-file) format applies the per-file function to every argument through iter.Map and combines all errors.",
			"(K-errors) no error of the parser is dropped on the way to the command: an unparseable journal is reported, not rewritten;",
		},
		NotDecided: []string{
			"atomicity of rename(2)/MoveFileEx itself and durability of the directory entry (trusted OS contract);",
			"that a failing write leaves no temp file behind.",
		},
		Rules: []Rule{RuleCFileWrite, RuleDAtomic, RuleDEachFile, RuleKErrors},
	})
}

func init() {
	claim(&Property{
		ID: "C08",
		Decides: []string{
			"(F-gap) text between directives is copied byte for byte: data from File.Text reaches the output only as []byte(text[lo:hi]) into Write, with bounds 0 / Directive.End and Directive.Start, and the tail is written before every success return;",
			"(F-fields) every content field of every directive type is read by the syntax printer's function for that type;",
			"(F-presence) an annotation is printed exactly when its range is not empty;",
			"(F-keywords) the keywords the printer writes for a directive type are keywords after which the parser builds that type;",
			"(F-directive-types) parser, model and syntax printer agree on the set of directive types;",
			"(D-atomic, C-filewrite) a file that does not parse or render is not written.",
			"(K-range-text) outside lib/syntax/directives the field Range.Text (the whole file) is only sliced, indexed, measured or copied;",
			"(K-errors) no error of the parser is dropped on the way to the command;",
		},
		NotDecided: []string{
			"idempotence and equality of the re-parsed tree (no execution); column alignment arithmetic; that fields are printed in the order they are parsed.",
		},
		Rules: []Rule{RuleFGap, RuleFFields, RuleFPresence, RuleFKeywords, RuleFDirectiveTypes, RuleDAtomic, RuleCFileWrite, RuleKRangeText, RuleKErrors},
	})
	claim(&Property{
		ID: "C09",
		Decides: []string{
			"(F-keywords, F-fields) the journal printer writes, for every model directive type, keywords the parser reads back as that type, and reads every content field (Src and Posting.Value are listed as non-content);",
			"(F-multiline) a directive whose printed form spans lines ends with a line break, so that an empty line separates it from the next directive (the parser's continuation loops stop at an empty line);",
			"(C-round) amounts reach the printed text through decimal.String only: no rounding, scaling or float conversion in the journal printer;",
			"(F-model-only, H-quotes) the printer reads model content only (no Src, no Value), and the description is printed verbatim except for the double quote;",
			"(A-sort, A-order) the normal-form order is total for what is printed (transaction.Compare reads every printed field; days sorted by date);",
			"(F-directive-types) ParseDirective, Builder.Add and the journal printer agree on the directive types;",
			"(D-check-first) print runs the checker before printing.",
			"(K-prices-order) no stage (the normal-form sort included) reorders a day's prices, whose order decides which of two same-day prices wins;",
			"(K-swap-sign) the condition under which the pair builder exchanges credit and debit, evaluated on the nine sign states of (quantity, value), never holds for a state and for its negation: an exchanged booking is not exchanged again when it is read back;",
			"(K-builders-all) every booking of a transaction gets its pair of postings (no booking is skipped when the model is built), so no transaction is printed without bookings;",
		},
		NotDecided: []string{
			"the round trip itself (no execution): that the printed text re-parses to the same model, e.g. escaping inside descriptions (see C13 for quotes), date format strings; of the posting sign normalisation only its stability on the nine sign states (K-swap-sign).",
		},
		Rules: []Rule{RuleFKeywords, RuleFFields, RuleFMultiline, RuleFModelOnly, RuleKPrintPairs, RuleKPricesOrder, RuleHQuotes, RuleCRound, RuleAOrder, RuleFDirectiveTypes, RuleDCheckFirst, RuleKSwapSign, RuleKBuildersAll},
	})
	claim(&Property{
		ID: "C17",
		Decides: []string{
			"(F-cells) every type implementing table.cell has a case in TextRenderer.renderCell, TextRenderer.minLengthCell and CSVRenderer.renderCell, and number cells are measured and rendered through the same numToString;",
			"(F-width-unit) a text cell's content is used only whole or through a character count, at the width site and at the padding site alike (no byte-wise len, copy, slicing or []byte conversion);",
			"(C-round) the text renderer scales by the write-once constant 1000 only under Thousands and rounds with decimal.StringFixed(Round) (half away from zero); the CSV renderer calls only decimal.String.",
			"(K-width-all) every cell of every row contributes to its column's width: the width update depends only on the loops over rows and cells and on the comparison with the measured width;",
			"(K-decimal-config) no function of the module changes the decimal library's division precision: the /1000 of --thousands is exact to 16 digits before it is rounded to --digits;",
		},
		NotDecided: []string{
			"digit grouping, padding arithmetic, sign and blank-zero rules, equal line width (arithmetic on runtime strings);",
			"percent cells (portfolio weights; outside this property).",
		},
		Rules: []Rule{RuleFCells, RuleFWidthUnit, RuleCRound, RuleKWidthAll, RuleKDecimalConfig},
	})
}

func init() {
	claim(&Property{
		ID: "C13",
		Decides: []string{
			"(C-stdout) in cmd/importer/** nothing but journal.Print on cmd.OutOrStdout() writes to standard output (no fmt.Print*, no os.Stdout, no other consumer of the writer): 11 approved sites;",
			"(H-quotes) the text printed between double quotes is the Description with every double quote replaced by a constant without quote or line break, otherwise verbatim;",
			"(K-registry-origin) every account and commodity an importer stores into a model builder or directive comes from a registry accessor or a flag resolved through the registry (96 stores);",
			"(C-postings) the postings of every emitted transaction come from the pair builder;",
			"(F-keywords, F-multiline, F-model-only, K-print-pairs) the shared printer writes keywords the parser reads back, terminates multi-line directives with an empty line, prints model content only, and prints exactly one booking line per posting pair whatever the amounts;",
			"(A-order) no map iteration order reaches the output of an importer.",
			"(K-builders-all) the pair builders build the postings of every booking they are given (no booking is skipped, so no transaction is left without postings);",
			"(K-tx-nonempty) an importer builds the postings of a transaction from a list of pair builders only if that list has an element on every path (or under a test of its length): no transaction without bookings is printed;",
			"(K-kv-keys) a constant under which an importer looks a header value up is a fixed point of the normalisation it applies to the keys it stores (strings functions folded on the constant);",
			"(K-add-commutes) the journal builder accepts every directive the importer adds, whatever was added before: no row is dropped because an equal one exists;",
		},
		NotDecided: []string{
			"row fidelity: one transaction per row, on the row's date, with the row's signed amount in the row's currency (which column is read, sign conventions, thousands separators): values of runtime strings, no structural reading;",
			"zero-amount rows and other value-dependent printing paths.",
		},
		Rules: []Rule{RuleCStdout, RuleHQuotes, RuleKRegistryOrigin, RuleCPostings, RuleKBuildersAll, RuleFKeywords, RuleFMultiline, RuleFModelOnly, RuleKPrintPairs, RuleAOrder, RuleKTxNonempty, RuleKKVKeys, RuleKAddCommutes},
	})
}

func init() {
	claim(&Property{
		ID: "C14",
		Decides: []string{
			"(C-panic) every explicit panic / Must* / RequireFromString / MustCompile reachable from check, balance, print, format, infer, transcode, portfolio is in a reviewed table whose structural conditions are re-checked (constant valid arguments at all callers; callers of date.NewPartition exclude a zero start);",
			"(D-div) every decimal or integer division has a non-zero constant divisor or a dominating zero test;",
			"(D-nilflag) the nil of an absent optional flag never reaches an unguarded dereference;",
			"(D-flagint, D-makecap) integers from the command line that reach a slice bound are rejected when negative where they are parsed; every non-constant make length/capacity is provably non-negative;",
			"(D-recursion, K-nested-limit) the include recursion is bounded by an ancestor chain and a membership test; the goroutine group with nested submission has no concurrency limit;",
			"(K-errors) no call reachable from these commands drops the error of a module function (355 used, 6 reviewed drops);",
			"(D-out-after) standard output is first used after the journal was loaded and processed successfully, and no processor callback of balance/print/transcode/check/infer writes to it;",
			"(E-loops) the parser terminates on every input (shared with C07).",
			"(K-chan) a failing stage cannot leave its neighbours blocked on a channel: pools with unbuffered links cancel on error or their stages drain their input, so the command terminates with the error;",
			"(D-write-last) once the directive writers (journal.Print, the beancount transcoder) have started to write, the only errors they return come from writing: no validation can fail after the first byte of the report;",
			"(I-locks) no function of a registry calls, while it holds the registry's mutex, a function that acquires it again (sync.RWMutex is not reentrant: the command would hang);",
			"(D-flag-bound) an integer flag that reaches a sink linear in its value (StringFixed places, strings.Repeat, make) is compared with a constant upper bound on a branch that fails the command;",
			"(K-columns-agree) under every combination of a report renderer's options no row receives more cells than the table was created with columns for — constant cells against constant group sizes, per-iteration cells against group sizes that are not constants (the text renderer indexes its column widths by the cell's position);",
		},
		NotDecided: []string{
			"implicit panics in general (index and slice bounds that do not come from a flag or from the input text, nil maps, type assertions);",
			"memory bounds other than the include cycle; hangs other than the channel protocol of C19.",
		},
		Rules: []Rule{RuleCPanic, RuleDDiv, RuleDNilFlag, RuleDFlagInt, RuleDMakeCap, RuleDRecursion, RuleKNestedLimit, RuleKChan, RuleKErrors, RuleDOutAfter, RuleDWriteLast, RuleELoops, RuleILocks, RuleDFlagBound, RuleKColumnsAgree},
	})
}

func init() {
	claim(&Property{
		ID: "C16",
		Decides: []string{
			"(K-all-postings) every posting of every transaction is written (no skip condition in the loop over the postings), and the amount on the valuation branch is Posting.Value; with C01's pair algebra (J-pair, J-valuation) the postings of a transaction sum to zero;",
			"(K-emit-all) every element of Journal.Days, Day.Openings, Day.Closings and Day.Transactions is written (its write depends on no test but error tests), and no writer of the transcoder returns success before its writes and element loops;",
			"(K-transcode-order, K-sorted-days) entries follow the sorted days, and within a day opens come before transactions before closes;",
			"(F-valuation-open) the predicate that recognises generated valuation accounts accepts what Registry.ValuationAccountFor builds (violated on this tree: known finding);",
			"(D-nilflag) a missing valuation is an error, not a nil dereference; (D-check-first, G1) the checker and the price stage precede the valuation.",
			"(K-reval) the daily value adjustments that transcode emits: one per open position whose price moved — positions are skipped only for the reviewed reasons (sign tests decided on the sign domain: only a zero quantity or an unchanged price);",
			"(D-open-close) the checker in front of the transcoder keeps the set of open accounts (close removes on every success path), so no posting follows the close of its account;",
		},
		NotDecided: []string{
			"open-before-use for user accounts (that is the checker's job, C04); completeness against a reference beancount run; escaping of descriptions for beancount.",
		},
		Rules: []Rule{RuleKAllPostings, RuleKEmitAll, RuleJPair, RuleJValuation, RuleKTranscodeOrder, RuleKSortedDays, RuleFValuationOpen, RuleDNilFlag, RuleDCheckFirst, RuleG1, RuleKReval, RuleDOpenClose},
	})
	claim(&Property{
		ID: "C19",
		Decides: []string{
			"(I-locks) every access to the registries' guarded maps happens with the mutex held (exclusively for writes), computed as a must-lockset over the CFG with deferred unlocks; unlocked helpers are called only with the lock held;",
			"(B1, B2) what the registries hand out is immutable: no append through a reslice of shared storage, account and commodity fields are written only while the object is created, no element store into an account's segments;",
			"(G3) two stages of one Process call share only registries, interned objects, the builder (unused by callbacks) or configuration objects no callback stores into;",
			"(K-chan) every channel made by cpr.Produce/FanIn is closed by an unconditional defer in its worker; the only blocking channel operations reachable from a command are the selects of cpr.Push/Pop (with ctx.Done()) and receives dominated by a successful Wait; cpr.Seq's pool cancels on error, and in pools that do not, no consumer can fail before draining its input;",
			"(K-fifo, D-push-once, F-directive-types, K-nested-limit) one goroutine per stage, each item forwarded exactly once, no directive type is dropped between the stages, no concurrency limit on the group with nested submission.",
			"(I-recheck) a fresh object is published into a registry map only after a membership test under the same exclusive acquisition (no check-then-act across the read lock);",
			"(K-postings-fresh) postings stored into a transaction inside a loop are built inside that loop: no two transactions (days) share Posting objects;",
			"(K-slice-alias) no loop keeps results of append on one unclipped loop-invariant base, and none keeps the address of an element of a slice it appends to: one file's / one element's data does not show up in another's;",
		},
		NotDecided: []string{
			"race freedom in general: no pointer analysis is available (x/tools v0.29 has no go/pointer; VTA resolves calls, not aliases), so races through objects other than the registries, interned objects and stage arguments are not excluded;",
			"schedule-dependent liveness beyond the protocol rules.",
		},
		Rules: []Rule{RuleILocks, RuleIRecheck, RuleB1, RuleB2, RuleKPostingsFresh, RuleG3, RuleKChan, RuleKFifo, RuleDPushOnce, RuleFDirectiveTypes, RuleKNestedLimit, RuleKSliceAlias},
	})
}
