package rules

const commonNote = "Level 'other': structural necessary conditions decided statically on the type-checked program (go/packages + go/ssa + VTA call graph), every instance enumerated, fail-closed on unknown idioms. Trusted: the Go type checker and go/ssa; VTA over-approximates dynamic calls; shopspring/decimal arithmetic is exact; strings.Split returns cap==len. "

func claim(p *Property) {
	if p.Technique == "" {
		p.Technique = "static analysis: repository-specific rules over typed AST, SSA, CFG dominance and VTA call graph"
	}
	p.LevelNote = commonNote + "NOT decided: " + join(p.NotDecided)
	p.LevelText = "Decides, for every instance in the program, these structural clauses: " + join(p.Decides) + " It does not decide the behavioural remainder (see level_note)."
	p.Explanation = p.LevelText + " " + p.LevelNote
	Properties[p.ID] = p
}

func join(ss []string) string {
	out := ""
	for i, s := range ss {
		if i > 0 {
			out += " "
		}
		out += s
	}
	return out
}

func init() {
	NotApplicable["C11"] = "Every clause quantifies over calendar arithmetic on runtime dates (AddDate, Weekday, month lengths, sort.Search over generated periods). No clause has a shape-level reading that a rule could name without also firing on behaviour-preserving rewrites of the date arithmetic; enumerating the (finite) domain would be running the code, which is a different technique family."
}
