package rules

func init() {
	Properties["C02"] = &Property{
		ID:          "C02",
		Explanation: "tbd",
		Rules:       []Rule{RuleB1, RuleDDiv, RuleCSparse, RuleFAcctTypes, RuleCStdout, RuleDDaysBeforeBuild, RuleDFlagInt, RuleDNilFlag, RuleDRecursion, RuleCInfer, RuleCInferFresh, RuleKZeroFlow},
	}
}
