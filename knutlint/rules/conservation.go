package rules

import (
	"fmt"
	"go/ast"
	"go/token"
	"go/types"
	"sort"
	"strings"

	"golang.org/x/tools/go/ssa"

	"knutlint/core"
)

// pairBuilder finds the function that allocates posting.Posting objects (by
// shape); also returns every allocation site in the module.
func postingAllocs(c *core.Ctx) (sites map[*ssa.Function][]*ssa.Alloc, postingT *types.Named) {
	p := c.P
	postingT = p.NamedType(pkgPosting, "Posting")
	sites = map[*ssa.Function][]*ssa.Alloc{}
	if postingT == nil {
		return
	}
	for _, fn := range p.SrcFuncs() {
		core.EachInstr(fn, func(ins ssa.Instruction) {
			a, ok := ins.(*ssa.Alloc)
			if !ok {
				return
			}
			pt, ok := a.Type().Underlying().(*types.Pointer)
			if !ok {
				return
			}
			el := pt.Elem()
			// new Posting, or an array / slice literal of Posting values
			if arr, ok := el.Underlying().(*types.Array); ok {
				el = arr.Elem()
			}
			if isNamed(el, postingT) {
				sites[fn] = append(sites[fn], a)
			}
		})
	}
	return
}

// RuleCPosting — *posting.Posting values are allocated only by the pair
// builder (P1 of the conservation argument).
func RuleCPosting(c *core.Ctx) {
	const rule = "C-posting"
	p := c.P
	sites, postingT := postingAllocs(c)
	if postingT == nil {
		c.Anchor(rule, "type posting.Posting")
		return
	}
	build := p.Func(pkgPosting, "Builder.Build")
	if build == nil {
		c.Anchor(rule, "posting.Builder.Build")
		return
	}
	n := 0
	parts := pairBuilderParts(p, build)
	total := 0
	for fn, as := range sites {
		for _, a := range as {
			n++
			key := fmt.Sprintf("%s:allocates posting.Posting", core.FuncName(fn))
			if _, isPart := parts[fn]; isPart {
				calls := 1
				if fn != build {
					calls = len(parts[fn])
				}
				total += calls
				c.Ob(rule, key, a.Pos(), core.FuncName(fn), core.Discharged, "allocation inside the pair builder (or a method it alone calls on its own builder value)")
			} else {
				c.Ob(rule, key, a.Pos(), core.FuncName(fn), core.Violated,
					"a Posting is allocated outside posting.Builder.Build: a hand-made posting need not have a counterpart with the negated quantity and value, which breaks the zero-sum of every report")
			}
		}
	}
	if total != 2 {
		c.Ob(rule, "posting.Builder.Build:two allocations", build.Pos(), core.FuncName(build), core.Undecided,
			fmt.Sprintf("the pair builder is expected to allocate exactly two postings per call, found %d", total))
	}
	c.Floor(rule, 1)
}

// RuleCValue — after construction, Posting.Quantity is never written, and
// Posting.Value is written only by the valuation stage's posting callback;
// no Posting is overwritten as a whole (P3).
func RuleCValue(c *core.Ctx) {
	const rule = "C-value"
	p := c.P
	qty := p.Field(pkgPosting, "Posting", "Quantity")
	val := p.Field(pkgPosting, "Posting", "Value")
	acct := p.Field(pkgPosting, "Posting", "Account")
	other := p.Field(pkgPosting, "Posting", "Other")
	com := p.Field(pkgPosting, "Posting", "Commodity")
	build := p.Func(pkgPosting, "Builder.Build")
	valuate := p.Func(pkgJournal, "Valuate")
	postingT := p.NamedType(pkgPosting, "Posting")
	if qty == nil || val == nil || build == nil || valuate == nil || postingT == nil {
		c.Anchor(rule, "posting.Posting.{Quantity,Value}, posting.Builder.Build, journal.Valuate")
		return
	}
	valueStores := 0
	for _, fn := range p.SrcFuncs() {
		core.EachInstr(fn, func(ins ssa.Instruction) {
			st, ok := ins.(*ssa.Store)
			if !ok {
				return
			}
			// whole-object store through a *Posting
			if pt, ok := st.Addr.Type().Underlying().(*types.Pointer); ok && isNamed(pt.Elem(), postingT) {
				if _, isAlloc := st.Addr.(*ssa.Alloc); !isAlloc {
					c.Ob(rule, core.FuncName(fn)+":whole Posting overwritten", st.Pos(), core.FuncName(fn), core.Violated, "a Posting is overwritten as a whole after construction")
				}
				return
			}
			fa, ok := st.Addr.(*ssa.FieldAddr)
			if !ok {
				return
			}
			fv := core.FieldOf(fa)
			switch fv {
			case qty, acct, other, com:
				if _, isPart := pairBuilderParts(p, build)[fn]; isPart {
					return
				}
				c.Ob(rule, fmt.Sprintf("%s:store to Posting.%s", core.FuncName(fn), fv.Name()), st.Pos(), core.FuncName(fn), core.Violated,
					"Posting."+fv.Name()+" is written after construction: the two halves of a pair no longer mirror each other")
			case val:
				if _, isPart := pairBuilderParts(p, build)[fn]; isPart {
					return
				}
				if valuationStageFuncs(p, valuate)[fn] {
					valueStores++
					c.Ob(rule, fmt.Sprintf("%s:store to Posting.Value", core.FuncName(fn)), st.Pos(), core.FuncName(fn), core.Discharged,
						"Posting.Value is written by the valuation stage (its symmetry is decided by rule J)")
					return
				}
				c.Ob(rule, fmt.Sprintf("%s:store to Posting.Value", core.FuncName(fn)), st.Pos(), core.FuncName(fn), core.Violated,
					"Posting.Value is written outside the valuation stage")
			}
		})
	}
	if valueStores == 0 {
		c.Ob(rule, "journal.Valuate:stores to Posting.Value", valuate.Pos(), core.FuncName(valuate), core.Undecided, "no store to Posting.Value found in the valuation stage (anchor moved?)")
	}
	c.Floor(rule, 1)
}

// RuleJPair — pair algebra in the pair builder, on the typed syntax tree of
// the one composite literal: the two postings carry {x.Neg(), x} as Quantity,
// {y.Neg(), y} as Value, swap Account/Other and share Commodity (P2).
func RuleJPair(c *core.Ctx) {
	const rule = "J-pair"
	p := c.P
	build := p.Func(pkgPosting, "Builder.Build")
	if build == nil {
		c.Anchor(rule, "posting.Builder.Build")
		return
	}
	decl, _ := p.FuncSyntax(build).(*ast.FuncDecl)
	info := p.TypesInfoOf(build.Pos())
	postingT := p.NamedType(pkgPosting, "Posting")
	if decl == nil || info == nil || postingT == nil {
		c.Anchor(rule, "syntax of posting.Builder.Build")
		return
	}
	var lits []*ast.CompositeLit
	litRecv := map[*ast.CompositeLit]string{} // name of the receiver variable of the function the literal is in
	litFn := map[*ast.CompositeLit]*ssa.Function{}
	collect := func(fn *ssa.Function) {
		d, _ := p.FuncSyntax(fn).(*ast.FuncDecl)
		inf := p.TypesInfoOf(fn.Pos())
		if d == nil || inf == nil || d.Body == nil {
			return
		}
		recv := ""
		if d.Recv != nil && len(d.Recv.List) == 1 && len(d.Recv.List[0].Names) == 1 {
			recv = d.Recv.List[0].Names[0].Name
		}
		ast.Inspect(d.Body, func(n ast.Node) bool {
			cl, ok := n.(*ast.CompositeLit)
			if !ok {
				return true
			}
			tv, ok := inf.Types[cl]
			if !ok {
				return true
			}
			t := tv.Type
			if pt, ok := t.Underlying().(*types.Pointer); ok {
				t = pt.Elem()
			}
			if isNamed(t, postingT) {
				lits = append(lits, cl)
				litRecv[cl] = recv
				litFn[cl] = fn
			}
			return true
		})
	}
	parts := pairBuilderParts(p, build)
	var partFns []*ssa.Function
	for fn := range parts {
		partFns = append(partFns, fn)
	}
	sort.Slice(partFns, func(i, j int) bool { return partFns[i].Pos() < partFns[j].Pos() })
	for _, fn := range partFns {
		collect(fn)
	}
	key := "posting.Builder.Build:pair literal"
	if len(lits) != 2 {
		// not two literals of one expression: decide on the SSA form (helper that
		// builds one posting from its parameters, called twice)
		if decided, probs := jpairSSA(p, build); decided {
			probs = append(probs, pairOnEveryReturn(build)...)
			if len(probs) == 0 {
				c.Ob(rule, key, build.Pos(), core.FuncName(build), core.Discharged, "the two returned postings carry {x.Neg(), x} for Quantity and Value on the same side, swapped Account/Other and one Commodity (decided on the values; helper parameters followed to the call's arguments)")
			} else {
				c.Ob(rule, key, build.Pos(), core.FuncName(build), core.Violated, "the pair builder does not produce exact negatives: "+strings.Join(probs, "; "))
			}
			c.Floor(rule, 1)
			return
		}
		c.Ob(rule, key, build.Pos(), core.FuncName(build), core.Undecided, fmt.Sprintf("expected two Posting literals in one expression, found %d", len(lits)))
		return
	}
	field := func(cl *ast.CompositeLit, name string) ast.Expr {
		for _, e := range cl.Elts {
			if kv, ok := e.(*ast.KeyValueExpr); ok {
				if id, ok := kv.Key.(*ast.Ident); ok && id.Name == name {
					return kv.Value
				}
			}
		}
		return nil
	}
	// negation forms
	negOf := func(e ast.Expr) (ast.Expr, bool) {
		call, ok := e.(*ast.CallExpr)
		if !ok {
			return nil, false
		}
		sel, ok := call.Fun.(*ast.SelectorExpr)
		if !ok {
			return nil, false
		}
		if sel.Sel.Name == "Neg" && len(call.Args) == 0 {
			if fnObj, ok := info.Uses[sel.Sel].(*types.Func); ok && fnObj.Pkg() != nil && fnObj.Pkg().Path() == pkgDecimal {
				return sel.X, true
			}
		}
		return nil, false
	}
	pureSel := func(e ast.Expr) bool {
		for {
			switch x := e.(type) {
			case *ast.Ident:
				return true
			case *ast.SelectorExpr:
				e = x.X
			case *ast.ParenExpr:
				e = x.X
			default:
				return false
			}
		}
	}
	// expressions are compared as text with the receiver's name normalised, so that
	// pb.Quantity in one method and b.Quantity in a sibling method (both called on
	// the same builder value) are the same expression
	norm := func(e ast.Expr, cl *ast.CompositeLit) string {
		str := types.ExprString(e)
		if r := litRecv[cl]; r != "" && (str == r || strings.HasPrefix(str, r+".")) {
			return "$recv" + strings.TrimPrefix(str, r)
		}
		return str
	}
	var curA, curB *ast.CompositeLit
	same := func(a, b ast.Expr) bool {
		if a == nil || b == nil || !pureSel(a) || !pureSel(b) {
			return false
		}
		if curA != nil && curB != nil && litFn[curA] != litFn[curB] {
			return norm(a, curA) == norm(b, curB) || norm(a, curB) == norm(b, curA)
		}
		return types.ExprString(a) == types.ExprString(b)
	}
	if len(lits) == 2 {
		curA, curB = lits[0], lits[1]
	}
	var problems []string
	antisym := func(name string) {
		a, b := field(lits[0], name), field(lits[1], name)
		if a == nil || b == nil {
			problems = append(problems, name+" is not set in both postings")
			return
		}
		if x, ok := negOf(a); ok && same(x, b) {
			return
		}
		if x, ok := negOf(b); ok && same(x, a) {
			return
		}
		problems = append(problems, fmt.Sprintf("%s of the two postings is {%s, %s}: not of the form {x.Neg(), x} for one side-effect-free x", name, types.ExprString(a), types.ExprString(b)))
	}
	antisym("Quantity")
	antisym("Value")
	if !(same(field(lits[0], "Account"), field(lits[1], "Other")) && same(field(lits[0], "Other"), field(lits[1], "Account"))) {
		problems = append(problems, "Account/Other of the two postings are not swapped")
	}
	if same(field(lits[0], "Account"), field(lits[0], "Other")) {
		problems = append(problems, "Account and Other of one posting are the same expression")
	}
	if !same(field(lits[0], "Commodity"), field(lits[1], "Commodity")) {
		problems = append(problems, "the two postings do not share the Commodity expression")
	}
	// the two literals must be elements of one enclosing literal (one expression: no store can intervene)
	if litFn[lits[0]] == litFn[lits[1]] {
		if !(lits[0].Pos() > 0 && enclosingSliceLit(decl.Body, lits[0]) != nil && enclosingSliceLit(decl.Body, lits[0]) == enclosingSliceLit(decl.Body, lits[1])) {
			problems = append(problems, "the two postings are not elements of one composite literal")
		}
	} else {
		// two sibling methods: called once each from the pair builder, on the same builder value
		c0, c1 := parts[litFn[lits[0]]], parts[litFn[lits[1]]]
		switch {
		case litFn[lits[0]] == build || litFn[lits[1]] == build || len(c0) != 1 || len(c1) != 1:
			problems = append(problems, "the two postings are built in different functions that are not each called exactly once by the pair builder")
		case !sameReceiverValue(p, c0[0], c1[0]):
			problems = append(problems, "the two halves are built from different builder values (the receiver is modified between the two calls)")
		}
	}
	problems = append(problems, pairOnEveryReturn(build)...)
	if len(problems) == 0 {
		c.Ob(rule, key, lits[0].Pos(), core.FuncName(build), core.Discharged,
			"the pair literal carries {x.Neg(), x} for Quantity and Value, swapped Account/Other and one Commodity, all inside one expression; every return of the builder returns it")
	} else {
		c.Ob(rule, key, lits[0].Pos(), core.FuncName(build), core.Violated, "the pair builder does not produce exact negatives: "+strings.Join(problems, "; "))
	}
	c.Floor(rule, 1)
}

// pairOnEveryReturn: every return of the pair builder hands back a slice of a
// two-element array built in the function — no path returns nil or a shorter
// list (a booking that produces no postings is invisible to the checker).
func pairOnEveryReturn(build *ssa.Function) []string {
	var problems []string
	core.EachInstr(build, func(ins ssa.Instruction) {
		ret, ok := ins.(*ssa.Return)
		if !ok || len(ret.Results) != 1 {
			return
		}
		okPair := false
		if es, ok := sliceElems(ret.Results[0], 0); ok && len(es) == 2 {
			okPair = true
		}
		if !okPair {
			problems = append(problems, "a path of the pair builder returns something other than the two postings (no postings at all for some bookings)")
		}
	})
	return problems
}

func enclosingSliceLit(body ast.Node, inner *ast.CompositeLit) *ast.CompositeLit {
	var res *ast.CompositeLit
	ast.Inspect(body, func(n ast.Node) bool {
		cl, ok := n.(*ast.CompositeLit)
		if !ok || cl == inner {
			return true
		}
		for _, e := range cl.Elts {
			if e == ast.Expr(inner) {
				res = cl
			}
		}
		return true
	})
	return res
}

// odd-symmetric decimal operations (shopspring/decimal v1.3.1): f(-x) = -f(x)
// in the receiver (for Mul also in the argument).
var oddDecimalOps = map[string]bool{
	"Neg": true, "Mul": true, "Div": true, "DivRound": true, "Shift": true, "Truncate": true,
	"Round": true, "RoundBank": true, "RoundUp": true, "RoundDown": true, "RoundCash": true,
}

// not odd: Floor, Ceil, RoundFloor, RoundCeil, Abs, Pow, Add/Sub of something that is not itself odd in x.
var notOddDecimalOps = map[string]bool{
	"Floor": true, "Ceil": true, "RoundFloor": true, "RoundCeil": true, "Abs": true, "Pow": true, "Add": true, "Sub": true,
	"Mod": true, "QuoRem": true, "Sign": true, "Exponent": true,
}

// oddIn decides whether v is an odd function of the Quantity of posting
// pv (the other operands being independent of that posting). why explains a
// failure.
func oddIn(p *core.Prog, v ssa.Value, isQuantityLoad func(ssa.Value) bool, bind map[*ssa.Parameter]ssa.Value, depth int, why *string) bool {
	v = core.Strip(v)
	if isQuantityLoad(v) {
		return true
	}
	if depth <= 0 {
		*why = "operation chain too deep"
		return false
	}
	switch x := v.(type) {
	case *ssa.Parameter:
		if a, ok := bind[x]; ok {
			return oddIn(p, a, isQuantityLoad, nil, depth-1, why)
		}
	case *ssa.Extract:
		return oddIn(p, x.Tuple, isQuantityLoad, bind, depth, why)
	case *ssa.Phi:
		for _, e := range x.Edges {
			if c, ok := e.(*ssa.Const); ok && c.Value == nil {
				continue
			}
			if isZeroDecimal(e) {
				continue // zero on an error path
			}
			if !oddIn(p, e, isQuantityLoad, bind, depth-1, why) {
				return false
			}
		}
		return true
	case *ssa.Call:
		callee := x.Call.StaticCallee()
		if callee == nil {
			*why = "dynamic call " + describeValue(p, x)
			return false
		}
		if core.PkgPathOf(callee) == pkgDecimal && callee.Signature.Recv() != nil {
			name := callee.Name()
			if notOddDecimalOps[name] {
				*why = "decimal." + name + " is not odd-symmetric (f(-x) != -f(x)), so the two halves of a pair would be valued differently"
				return false
			}
			if !oddDecimalOps[name] {
				*why = "decimal." + name + " is not in the table of odd-symmetric operations"
				return false
			}
			// odd in the receiver, or (Mul) in the argument
			w1 := ""
			if oddIn(p, x.Call.Args[0], isQuantityLoad, bind, depth-1, &w1) {
				return true
			}
			if name == "Mul" && len(x.Call.Args) > 1 {
				w2 := ""
				if oddIn(p, x.Call.Args[1], isQuantityLoad, bind, depth-1, &w2) {
					return true
				}
			}
			*why = w1
			if *why == "" {
				*why = "the quantity does not flow into decimal." + name
			}
			return false
		}
		if p.InModule(callee) && callee.Blocks != nil {
			// follow the callee's return values with parameters bound to the arguments
			b := map[*ssa.Parameter]ssa.Value{}
			for i, prm := range callee.Params {
				if i < len(x.Call.Args) {
					a := x.Call.Args[i]
					// resolve through the caller's own binding
					if ap, ok := core.Strip(a).(*ssa.Parameter); ok && bind != nil {
						if aa, ok := bind[ap]; ok {
							a = aa
						}
					}
					b[prm] = a
				}
			}
			ok := true
			found := false
			core.EachInstr(callee, func(ins ssa.Instruction) {
				ret, isRet := ins.(*ssa.Return)
				if !isRet || !ok {
					return
				}
				for _, rv := range ret.Results {
					if core.IsErrorType(rv.Type()) {
						continue
					}
					if isZeroDecimal(rv) {
						continue // (Zero, err)
					}
					found = true
					if !oddIn(p, rv, isQuantityLoad, b, depth-1, why) {
						ok = false
					}
				}
			})
			return ok && found
		}
		*why = "call to " + calleeText(x) + " is not a known odd-symmetric operation"
		return false
	}
	if *why == "" {
		*why = "value " + describeValue(p, v) + " is not derived from the posting's quantity by odd-symmetric operations"
	}
	return false
}

func isZeroDecimal(v ssa.Value) bool {
	v = core.Strip(v)
	if u, ok := v.(*ssa.UnOp); ok && u.Op == token.MUL {
		if g, ok := u.X.(*ssa.Global); ok && g.Pkg != nil && g.Pkg.Pkg.Path() == pkgDecimal && g.Name() == "Zero" {
			return true
		}
	}
	return false
}

// RuleJValuation — the only writer of Posting.Value after construction stores
// an odd function of the same posting's Quantity, and the store is not
// control-dependent on the posting's side (Account/Other) (P3).
func RuleJValuation(c *core.Ctx) {
	const rule = "J-valuation"
	p := c.P
	qty := p.Field(pkgPosting, "Posting", "Quantity")
	val := p.Field(pkgPosting, "Posting", "Value")
	acct := p.Field(pkgPosting, "Posting", "Account")
	other := p.Field(pkgPosting, "Posting", "Other")
	valuate := p.Func(pkgJournal, "Valuate")
	if qty == nil || val == nil || valuate == nil {
		c.Anchor(rule, "Posting.Quantity/Value, journal.Valuate")
		return
	}
	n := 0
	var stageFns []*ssa.Function
	for fn := range valuationStageFuncs(p, valuate) {
		stageFns = append(stageFns, fn)
	}
	sort.Slice(stageFns, func(i, j int) bool { return stageFns[i].String() < stageFns[j].String() })
	for _, fn := range stageFns {
		core.EachInstr(fn, func(ins ssa.Instruction) {
			st, ok := ins.(*ssa.Store)
			if !ok {
				return
			}
			fa, ok := st.Addr.(*ssa.FieldAddr)
			if !ok || core.FieldOf(fa) != val {
				return
			}
			n++
			posting := fa.X
			isQ := func(v ssa.Value) bool {
				ld, ok := v.(*ssa.UnOp)
				if !ok || ld.Op != token.MUL {
					return false
				}
				qa, ok := ld.X.(*ssa.FieldAddr)
				return ok && core.FieldOf(qa) == qty && p.SameExpr(qa.X, posting)
			}
			key := fmt.Sprintf("%s:Posting.Value = %s", core.FuncName(fn), describeValue(p, st.Val))
			why := ""
			if !oddIn(p, st.Val, isQ, nil, 8, &why) {
				c.Ob(rule, key, st.Pos(), core.FuncName(fn), core.Violated, "the stored value is not an odd-symmetric function of the same posting's Quantity: "+why)
				return
			}
			// control dependence on the posting's side
			for _, b := range fn.Blocks {
				iff, ok := b.Instrs[len(b.Instrs)-1].(*ssa.If)
				if !ok {
					continue
				}
				if ctl, _ := core.Controls(b, st.Block()); !ctl {
					continue // not controlling
				}
				side := false
				w := &core.Walker{P: p, Visit: func(v ssa.Value) bool {
					if f, ok := v.(*ssa.FieldAddr); ok && (core.FieldOf(f) == acct || core.FieldOf(f) == other) {
						side = true
					}
					return !side
				}}
				w.Origin(iff.Cond)
				if side {
					c.Ob(rule, key, st.Pos(), core.FuncName(fn), core.Violated,
						"the store to Posting.Value is control-dependent on a condition that reads the posting's Account/Other ("+describeValue(p, iff.Cond)+" at "+p.Pos(core.NearPos(iff))+"): the two halves of a pair, which differ exactly there, are valued differently")
					return
				}
			}
			c.Ob(rule, key, st.Pos(), core.FuncName(fn), core.Discharged, "odd-symmetric in the posting's own Quantity (through price.Multiply: Mul, Truncate) and independent of the posting's side")
		})
	}
	c.Floor(rule, 2)
}

// RuleCPostings — every value stored into a Postings field comes from the
// pair builder (posting.Builder.Build, Builders.Build, posting.Create) or
// from another Postings field.
func RuleCPostings(c *core.Ctx) {
	const rule = "C-postings"
	p := c.P
	fields := map[*types.Var]bool{}
	for _, t := range []string{"Builder", "Transaction"} {
		if fv := p.Field(pkgTransaction, t, "Postings"); fv != nil {
			fields[fv] = true
		}
	}
	if len(fields) != 2 {
		c.Anchor(rule, "transaction.Builder.Postings / transaction.Transaction.Postings")
		return
	}
	okFns := map[*ssa.Function]bool{}
	for _, n := range []string{"Builder.Build", "Builders.Build", "Create"} {
		if f := p.Func(pkgPosting, n); f != nil {
			okFns[f] = true
		}
	}
	var check func(v ssa.Value, seen map[ssa.Value]bool) string
	check = func(v ssa.Value, seen map[ssa.Value]bool) string {
		v = core.Strip(v)
		if seen[v] {
			return ""
		}
		seen[v] = true
		switch x := v.(type) {
		case *ssa.Const:
			if x.Value == nil {
				return "" // nil: no postings
			}
		case *ssa.Call:
			if callee := x.Call.StaticCallee(); callee != nil && okFns[callee] {
				return ""
			}
			if b, ok := x.Call.Value.(*ssa.Builtin); ok && b.Name() == "append" {
				for _, a := range x.Call.Args {
					if w := check(a, seen); w != "" {
						return w
					}
				}
				return ""
			}
			// a module helper that returns postings: judge what it returns
			if callee := x.Call.StaticCallee(); callee != nil && callee.Blocks != nil && p.InModule(callee) && len(seen) < 200 {
				any := false
				bad := ""
				core.EachInstr(callee, func(ins ssa.Instruction) {
					ret, ok := ins.(*ssa.Return)
					if !ok || bad != "" {
						return
					}
					for _, rv := range ret.Results {
						if _, isSlice := rv.Type().Underlying().(*types.Slice); !isSlice {
							continue
						}
						any = true
						if w := check(rv, seen); w != "" {
							bad = w
						}
					}
				})
				if any {
					return bad
				}
			}
			return "result of " + calleeText(x)
		case *ssa.Extract:
			return check(x.Tuple, seen)
		case *ssa.Phi:
			for _, e := range x.Edges {
				if w := check(e, seen); w != "" {
					return w
				}
			}
			return ""
		case *ssa.UnOp:
			if x.Op == token.MUL {
				if fa, ok := x.X.(*ssa.FieldAddr); ok && fields[core.FieldOf(fa)] {
					return ""
				}
				if a, ok := x.X.(*ssa.Alloc); ok {
					for _, s := range core.AllStoresToCell(a) {
						if w := check(s.Val, seen); w != "" {
							return w
						}
					}
					return ""
				}
			}
		case *ssa.Field:
			if fields[core.FieldOf(x)] {
				return ""
			}
		case *ssa.Slice:
			return "a reslice of " + describeValue(p, x.X) + " (postings may be dropped individually)"
		}
		return describeValue(p, v)
	}
	n := 0
	for _, fn := range p.SrcFuncs() {
		core.EachInstr(fn, func(ins ssa.Instruction) {
			st, ok := ins.(*ssa.Store)
			if !ok {
				return
			}
			fa, ok := st.Addr.(*ssa.FieldAddr)
			if !ok || !fields[core.FieldOf(fa)] {
				return
			}
			n++
			key := fmt.Sprintf("%s:%s = %s", core.FuncName(fn), p.FieldRef(core.FieldOf(fa)), describeValue(p, st.Val))
			if w := check(st.Val, map[ssa.Value]bool{}); w != "" {
				c.Ob(rule, key, st.Pos(), core.FuncName(fn), core.Violated, "postings of a transaction do not come from the pair builder but from "+w)
			} else {
				c.Ob(rule, key, st.Pos(), core.FuncName(fn), core.Discharged, "postings come from the pair builder or from another transaction's Postings")
			}
		})
	}
	c.Floor(rule, 10)
}

// RuleKDayTx — whole transactions, never single postings, are added to or
// dropped from a day: the only stores to Day.Transactions are nil, an append
// of builder-made transactions, and the builder's own append (P4).
func RuleKDayTx(c *core.Ctx) {
	const rule = "K-daytx"
	p := c.P
	fv := p.Field(pkgJournal, "Day", "Transactions")
	tbuild := p.Func(pkgTransaction, "Builder.Build")
	add := p.Func(pkgJournal, "Builder.Add")
	if fv == nil || tbuild == nil || add == nil {
		c.Anchor(rule, "journal.Day.Transactions / transaction.Builder.Build / journal.Builder.Add")
		return
	}
	for _, fn := range p.SrcFuncs() {
		core.EachInstr(fn, func(ins ssa.Instruction) {
			st, ok := ins.(*ssa.Store)
			if !ok {
				return
			}
			fa, ok := st.Addr.(*ssa.FieldAddr)
			if !ok || core.FieldOf(fa) != fv {
				return
			}
			key := fmt.Sprintf("%s:Day.Transactions = %s", core.FuncName(fn), describeValue(p, st.Val))
			if core.IsNilConst(st.Val) {
				c.Ob(rule, key, st.Pos(), core.FuncName(fn), core.Discharged, "the day's transactions are dropped as a whole")
				return
			}
			call, ok := st.Val.(*ssa.Call)
			if b, isB := callBuiltin(call); ok && isB == "append" {
				_ = b
				// arg0 must be the same field; the appended elements builder-made transactions
				ld, ok := call.Call.Args[0].(*ssa.UnOp)
				okBase := false
				if ok {
					if fa0, ok := ld.X.(*ssa.FieldAddr); ok && core.FieldOf(fa0) == fv {
						okBase = true
					}
				}
				bad := ""
				if !okBase {
					bad = "the slice appended to is not Day.Transactions itself"
				}
				for _, a := range call.Call.Args[1:] {
					w := &core.Walker{P: p, Visit: func(v ssa.Value) bool {
						return true
					}}
					_ = w
					elemsOK := true
					set := originSet(p, a, 2)
					foundBuild := false
					for v := range set {
						if cl, ok := v.(*ssa.Call); ok && cl.Call.StaticCallee() == tbuild {
							foundBuild = true
						}
						if prm, ok := v.(*ssa.Parameter); ok && fn == add && prm.Parent() == fn {
							foundBuild = true // Builder.Add appends the directive it was given
						}
					}
					if !foundBuild {
						elemsOK = false
					}
					if !elemsOK {
						bad = "an appended element is not the result of transaction.Builder.Build"
					}
				}
				if bad == "" {
					c.Ob(rule, key, st.Pos(), core.FuncName(fn), core.Discharged, "appends whole, builder-made transactions")
				} else {
					c.Ob(rule, key, st.Pos(), core.FuncName(fn), core.Violated, bad)
				}
				return
			}
			c.Ob(rule, key, st.Pos(), core.FuncName(fn), core.Violated, "Day.Transactions is assigned something other than nil or an append of whole transactions (e.g. a filtered copy): postings could be dropped one by one")
		})
	}
	c.Floor(rule, 3)
}

func callBuiltin(call *ssa.Call) (*ssa.Builtin, string) {
	if call == nil {
		return nil, ""
	}
	if b, ok := call.Call.Value.(*ssa.Builtin); ok {
		return b, b.Name()
	}
	return nil, ""
}

// RuleKInsert — the balance report adds each posting with a non-nil mapped
// account exactly once: in Report.Insert every path to a return passes the
// Amounts.Add call, except the path guarded by `k.Account == nil` (P5); and
// the key's date is the transaction's date.
func RuleKInsert(c *core.Ctx) {
	const rule = "K-insert"
	p := c.P
	insert := p.Func(pkgBalance, "Report.Insert")
	add := p.Func(pkgAmounts, "Amounts.Add")
	if insert == nil || add == nil {
		c.Anchor(rule, "balance.Report.Insert / amounts.Amounts.Add")
		return
	}
	var adds []*ssa.Call
	core.EachInstr(insert, func(ins ssa.Instruction) {
		if call, ok := ins.(*ssa.Call); ok && call.Call.StaticCallee() == add {
			adds = append(adds, call)
		}
	})
	key := "balance.Report.Insert:every path adds once"
	if len(adds) != 1 {
		c.Ob(rule, key, insert.Pos(), core.FuncName(insert), core.Undecided, fmt.Sprintf("expected one Amounts.Add call, found %d", len(adds)))
		return
	}
	addBlock := adds[0].Block()
	// returns reachable without passing the add block
	avoid := map[*ssa.BasicBlock]bool{addBlock: true}
	reach := core.ReachableBlocks(insert.Blocks[0], avoid)
	reach[insert.Blocks[0]] = true
	var escapes []*ssa.BasicBlock
	for b := range reach {
		if b == addBlock {
			continue
		}
		if _, ok := b.Instrs[len(b.Instrs)-1].(*ssa.Return); ok {
			escapes = append(escapes, b)
		}
	}
	acctField := p.Field(pkgAmounts, "Key", "Account")
	bad := ""
	for _, e := range escapes {
		// must be entered only on the nil edge of k.Account == nil
		ok := false
		for _, b := range insert.Blocks {
			iff, isIf := b.Instrs[len(b.Instrs)-1].(*ssa.If)
			if !isIf {
				continue
			}
			for _, f := range core.DecodeCond(iff) {
				if f.Kind != "nil" {
					continue
				}
				isAcct := false
				w := &core.Walker{P: p, Visit: func(v ssa.Value) bool {
					switch y := v.(type) {
					case *ssa.FieldAddr:
						if core.FieldOf(y) == acctField {
							isAcct = true
						}
					case *ssa.Field:
						if core.FieldOf(y) == acctField {
							isAcct = true
						}
					}
					return !isAcct
				}}
				w.Origin(f.X)
				nilSucc := b.Succs[1]
				if f.ZeroOnTrue {
					nilSucc = b.Succs[0]
				}
				if isAcct && core.EdgeDominates(b, nilSucc, e) {
					ok = true
				}
			}
		}
		if !ok {
			bad = "a return at " + p.Pos(core.NearPos(e.Instrs[len(e.Instrs)-1])) + " is reachable without adding the amount and is not the `k.Account == nil` exit"
		}
	}
	// the add block must not lie on a cycle
	if core.ReachableBlocks(addBlock, nil)[addBlock] {
		bad = "Amounts.Add lies on a cycle: a posting could be added more than once"
	}
	if bad == "" {
		c.Ob(rule, key, adds[0].Pos(), core.FuncName(insert), core.Discharged, "every path to a return passes the single Amounts.Add, except the k.Account == nil exit")
	} else {
		c.Ob(rule, key, adds[0].Pos(), core.FuncName(insert), core.Violated, bad+": postings of some accounts never reach the report, so Delta is not zero")
	}
	// date provenance in Query.Into
	into := p.Func(pkgJournal, "Query.Into")
	dateField := p.Field(pkgAmounts, "Key", "Date")
	txDate := p.Field(pkgTransaction, "Transaction", "Date")
	if into == nil || dateField == nil || txDate == nil {
		c.Anchor(rule, "journal.Query.Into / amounts.Key.Date / Transaction.Date")
		return
	}
	found := false
	var intoFns []*ssa.Function
	for fn := range p.ReachLexical(into) {
		if core.PkgPathOf(fn) == pkgJournal {
			intoFns = append(intoFns, fn)
		}
	}
	sort.Slice(intoFns, func(i, j int) bool { return intoFns[i].String() < intoFns[j].String() })
	for _, fn := range intoFns {
		core.EachInstr(fn, func(ins ssa.Instruction) {
			st, ok := ins.(*ssa.Store)
			if !ok {
				return
			}
			fa, ok := st.Addr.(*ssa.FieldAddr)
			if !ok || core.FieldOf(fa) != dateField {
				return
			}
			found = true
			fromTx := false
			for v := range originSet(p, st.Val, 0) {
				if f, ok := v.(*ssa.FieldAddr); ok && core.FieldOf(f) == txDate {
					fromTx = true
				}
			}
			k2 := "journal.Query.Into:Key.Date from the transaction"
			if fromTx {
				c.Ob(rule, k2, st.Pos(), core.FuncName(fn), core.Discharged, "both halves of a pair are keyed by their transaction's date and land in the same column")
			} else {
				c.Ob(rule, k2, st.Pos(), core.FuncName(fn), core.Violated, "the report key's date does not come from the transaction")
			}
		})
	}
	if !found {
		c.Ob(rule, "journal.Query.Into:Key.Date from the transaction", into.Pos(), core.FuncName(into), core.Undecided, "no store to Key.Date found")
	}
	c.Floor(rule, 2)
}

// RuleKDelta — the row labelled "Delta" renders Total(A+L) plus
// Total(E+I+E): the rendered amounts are the first result of Report.Totals
// after an Amounts.Plus with the second result; no Minus on that flow; not
// negated (P6).
func RuleKDelta(c *core.Ctx) {
	const rule = "K-delta"
	p := c.P
	render := p.Func(pkgBalance, "Renderer.Render")
	totals := p.Func(pkgBalance, "Report.Totals")
	plus := p.Func(pkgAmounts, "Amounts.Plus")
	minus := p.Func(pkgAmounts, "Amounts.Minus")
	if render == nil || totals == nil || plus == nil {
		c.Anchor(rule, "balance.Renderer.Render / Report.Totals / Amounts.Plus")
		return
	}
	var delta *ssa.Call
	core.EachInstr(render, func(ins ssa.Instruction) {
		call, ok := ins.(*ssa.Call)
		if !ok {
			return
		}
		for _, a := range call.Call.Args {
			if s, ok := core.ConstString(a); ok && s == "Delta" {
				delta = call
			}
		}
	})
	key := "balance.Renderer.Render:Delta row"
	if delta == nil {
		c.Ob(rule, key, render.Pos(), core.FuncName(render), core.Undecided, "no call with the constant label \"Delta\" found")
		return
	}
	// the Amounts argument
	amountsT := p.NamedType(pkgAmounts, "Amounts")
	var amt ssa.Value
	var negArg ssa.Value
	for _, a := range delta.Call.Args {
		if isNamed(a.Type(), amountsT) {
			amt = a
		}
		if b, ok := a.Type().Underlying().(*types.Basic); ok && b.Kind() == types.Bool {
			negArg = a
		}
	}
	if amt == nil {
		c.Ob(rule, key, delta.Pos(), core.FuncName(render), core.Undecided, "the Delta call has no Amounts argument")
		return
	}
	ex, ok := amt.(*ssa.Extract)
	if !ok {
		c.Ob(rule, key, delta.Pos(), core.FuncName(render), core.Violated, "the Delta amounts are not a result of Report.Totals")
		return
	}
	tcall, ok := ex.Tuple.(*ssa.Call)
	if !ok || tcall.Call.StaticCallee() != totals {
		c.Ob(rule, key, delta.Pos(), core.FuncName(render), core.Violated, "the Delta amounts are not a result of Report.Totals")
		return
	}
	plusOK, minusSeen := false, false
	core.EachInstr(render, func(ins ssa.Instruction) {
		call, ok := ins.(*ssa.Call)
		if !ok {
			return
		}
		callee := call.Call.StaticCallee()
		if callee == plus && call.Call.Args[0] == amt && core.Dominates(call, delta) {
			if ex2, ok := call.Call.Args[1].(*ssa.Extract); ok && ex2.Tuple == ex.Tuple && ex2.Index != ex.Index {
				plusOK = true
			}
		}
		if minus != nil && callee == minus && (call.Call.Args[0] == amt || call.Call.Args[1] == amt) {
			minusSeen = true
		}
	})
	switch {
	case minusSeen:
		c.Ob(rule, key, delta.Pos(), core.FuncName(render), core.Violated, "an Amounts.Minus lies on the flow into the Delta row: Delta is a sum, not a difference (both totals are signed)")
	case !plusOK:
		c.Ob(rule, key, delta.Pos(), core.FuncName(render), core.Violated, "the Delta row does not depend on both results of Report.Totals through Amounts.Plus")
	case negArg != nil && !isConstBool(negArg, false):
		c.Ob(rule, key, delta.Pos(), core.FuncName(render), core.Violated, "the Delta row is rendered negated")
	default:
		c.Ob(rule, key, delta.Pos(), core.FuncName(render), core.Discharged, "Delta = Totals()#0 after Plus(Totals()#1), rendered without negation")
	}
	c.Floor(rule, 1)
}

func isConstBool(v ssa.Value, want bool) bool {
	c, ok := v.(*ssa.Const)
	if !ok || c.Value == nil {
		return false
	}
	return c.Value.String() == fmt.Sprint(want)
}

// valuationStageFuncs: the functions that make up the valuation stage — the
// constructor journal.Valuate, its closures, and the callbacks (closures or
// methods bound to a state object) of the Processor it returns.
func valuationStageFuncs(p *core.Prog, valuate *ssa.Function) map[*ssa.Function]bool {
	res := map[*ssa.Function]bool{}
	if valuate == nil {
		return res
	}
	for _, fn := range core.WithAnon(valuate) {
		res[fn] = true
	}
	core.EachInstr(valuate, func(ins ssa.Instruction) {
		if ret, ok := ins.(*ssa.Return); ok && len(ret.Results) == 1 && !core.IsNilConst(ret.Results[0]) {
			for _, f := range processorLiteral(p, ret.Results[0]) {
				for _, g := range core.WithAnon(f) {
					res[g] = true
				}
			}
		}
	})
	return res
}


// pairBuilderParts: the pair builder and the methods of the same builder type
// it calls on its own (unchanged) builder value to construct the two halves —
// e.g. Build → pb.credit(), pb.debit(). Only methods that are called from the
// pair builder and from nowhere else count.
func pairBuilderParts(p *core.Prog, build *ssa.Function) map[*ssa.Function][]*ssa.Call {
	parts := map[*ssa.Function][]*ssa.Call{build: nil}
	if build == nil || build.Signature.Recv() == nil {
		return parts
	}
	recvT := build.Signature.Recv().Type()
	core.EachInstr(build, func(ins ssa.Instruction) {
		call, ok := ins.(*ssa.Call)
		if !ok {
			return
		}
		callee := call.Call.StaticCallee()
		if callee == nil || callee == build || callee.Signature.Recv() == nil || core.PkgPathOf(callee) != core.PkgPathOf(build) {
			return
		}
		if !types.Identical(callee.Signature.Recv().Type(), recvT) {
			return
		}
		// called only from the pair builder
		if n := p.CG.Nodes[callee]; n != nil {
			for _, e := range n.In {
				if e.Caller.Func != build && e.Caller.Func.Synthetic == "" && p.InModule(e.Caller.Func) {
					return
				}
			}
		}
		parts[callee] = append(parts[callee], call)
	})
	return parts
}


// sameReceiverValue: the two method calls have the same receiver value — the
// same SSA value, or loads of one local with no store to it in between.
func sameReceiverValue(p *core.Prog, a, b *ssa.Call) bool {
	ra, rb := a.Call.Args[0], b.Call.Args[0]
	if ra == rb {
		return true
	}
	la, ok1 := ra.(*ssa.UnOp)
	lb, ok2 := rb.(*ssa.UnOp)
	if !ok1 || !ok2 || la.X != lb.X || a.Block() != b.Block() {
		return false
	}
	first, second := core.InstrIndex(la), core.InstrIndex(lb)
	if first > second {
		first, second = second, first
	}
	for i, ins := range a.Block().Instrs {
		if i <= first || i >= second {
			continue
		}
		if st, ok := ins.(*ssa.Store); ok && st.Addr == la.X {
			return false
		}
		if _, isCall := ins.(*ssa.Call); isCall {
			// a call in between could modify the local only through its address; value receivers do not
		}
	}
	return true
}

// RuleKTotalsAll — the totals of the balance report are the sum over all
// nodes and all amounts:
//
//	(nodes)   in lib/reports/balance every call that sums a node's amounts into
//	          a total (Amounts.SumIntoBy) is unconditional in its function: no
//	          node of the tree is left out of Total (A+L) / Total (E+I+E);
//	(amounts) in lib/amounts an accumulation `dest[k] = dest[k].Add(v)` inside a
//	          loop over the source does not depend on a test of a decimal (the
//	          new sum): an entry already in dest is always replaced by the sum.
//
// Both are necessary for Delta = 0: every posting is in exactly one node, and
// a pair's two halves are in the two totals or cancel inside one.
func RuleKTotalsAll(c *core.Ctx) {
	const rule = "K-totals-all"
	p := c.P
	sumInto := p.Func(pkgAmounts, "Amounts.SumIntoBy")
	if sumInto == nil {
		c.Anchor(rule, "amounts.Amounts.SumIntoBy")
		return
	}
	n := 0
	for _, fn := range p.SrcFuncs() {
		if core.PkgPathOf(fn) != pkgBalance {
			continue
		}
		k := 0
		core.EachInstr(fn, func(ins ssa.Instruction) {
			call, ok := ins.(*ssa.Call)
			if !ok || call.Call.StaticCallee() != sumInto {
				return
			}
			n++
			k++
			key := fmt.Sprintf("%s:sum %d takes every node", core.FuncName(fn), k)
			bad := ""
			for _, b := range fn.Blocks {
				iff, ok := b.Instrs[len(b.Instrs)-1].(*ssa.If)
				if !ok {
					continue
				}
				if ctl, _ := core.Controls(b, call.Block()); ctl && !core.IsLoopExitTest(b, call.Block()) {
					bad = describeValue(p, iff.Cond)
				}
			}
			if bad == "" {
				c.Ob(rule, key, call.Pos(), core.FuncName(fn), core.Discharged, "unconditional")
			} else {
				c.Ob(rule, key, call.Pos(), core.FuncName(fn), core.Violated, "a node's amounts are added to the total only if "+bad+": amounts booked on the other nodes appear in their rows but not in the totals, so Delta is not zero")
			}
		})
	}
	// (amounts)
	for _, fn := range p.SrcFuncs() {
		if core.PkgPathOf(fn) != pkgAmounts {
			continue
		}
		k := 0
		core.EachInstr(fn, func(ins ssa.Instruction) {
			mu, ok := ins.(*ssa.MapUpdate)
			if !ok {
				return
			}
			// dest[k] = dest[k].Add(v): the value is a decimal Add/Sub whose receiver is a lookup of the same map
			call, ok := core.Strip(mu.Value).(*ssa.Call)
			if !ok || call.Call.StaticCallee() == nil || core.PkgPathOf(call.Call.StaticCallee()) != pkgDecimal {
				return
			}
			accum := false
			for v := range originSet(p, call.Call.Args[0], 0) {
				if lk, ok := v.(*ssa.Lookup); ok && p.SameExpr(lk.X, mu.Map) {
					accum = true
				}
			}
			if !accum {
				return
			}
			n++
			k++
			key := fmt.Sprintf("%s:accumulation %d always stores the sum", core.FuncName(fn), k)
			bad := ""
			for _, b := range fn.Blocks {
				iff, ok := b.Instrs[len(b.Instrs)-1].(*ssa.If)
				if !ok {
					continue
				}
				if ctl, _ := core.Controls(b, mu.Block()); !ctl || core.IsLoopExitTest(b, mu.Block()) {
					continue
				}
				for v := range originSet(p, iff.Cond, 0) {
					if cl, ok := v.(*ssa.Call); ok && cl.Call.StaticCallee() != nil && core.PkgPathOf(cl.Call.StaticCallee()) == pkgDecimal {
						bad = describeValue(p, iff.Cond)
					}
				}
			}
			if bad == "" {
				c.Ob(rule, key, mu.Pos(), core.FuncName(fn), core.Discharged, "the store depends on no test of a decimal")
			} else {
				c.Ob(rule, key, mu.Pos(), core.FuncName(fn), core.Violated, "the sum is stored only if "+bad+": otherwise the previous partial sum stays in the destination")
			}
		})
	}
	c.Floor(rule, 3)
}
