package rules

import (
	"fmt"
	"go/token"
	"go/types"
	"strings"

	"golang.org/x/tools/go/ssa"

	"knutlint/core"
)

// account types in declaration order (lib/model/account: ASSETS..EXPENSES)
var acctTypeNames = []string{"ASSETS", "LIABILITIES", "EQUITY", "INCOME", "EXPENSES"}

// evalAcctPredicate evaluates an account-type predicate condition under the
// assumption that every account it mentions has type t. ok=false if cond is
// not such a predicate.
func evalAcctPredicate(cond ssa.Value, t int) (val bool, ok bool) {
	switch x := cond.(type) {
	case *ssa.UnOp:
		if x.Op == token.NOT {
			v, ok := evalAcctPredicate(x.X, t)
			return !v, ok
		}
	case *ssa.Call:
		callee := x.Call.StaticCallee()
		if callee == nil || core.PkgPathOf(callee) != pkgAccount || callee.Signature.Recv() == nil {
			return false, false
		}
		switch callee.Name() {
		case "IsAL":
			return t == 0 || t == 1, true
		case "IsIE":
			return t == 3 || t == 4, true
		}
	case *ssa.BinOp:
		if x.Op != token.EQL && x.Op != token.NEQ {
			return false, false
		}
		call, k := x.X, x.Y
		if _, isC := call.(*ssa.Const); isC {
			call, k = k, call
		}
		cl, ok1 := call.(*ssa.Call)
		n, ok2 := core.ConstInt(k)
		if !ok1 || !ok2 {
			return false, false
		}
		callee := cl.Call.StaticCallee()
		if callee == nil || core.PkgPathOf(callee) != pkgAccount || callee.Name() != "Type" {
			return false, false
		}
		if x.Op == token.EQL {
			return int(n) == t, true
		}
		return int(n) != t, true
	}
	return false, false
}

// RuleFAcctTypes — a loop that re-books the postings of an existing
// transaction (ranges over Transaction.Postings and builds new postings in
// the body) must build something for a posting of every account type;
// otherwise legs of the uncovered type are silently dropped.
func RuleFAcctTypes(c *core.Ctx) {
	const rule = "F-acct-types"
	p := c.P
	postingsField := p.Field(pkgTransaction, "Transaction", "Postings")
	buildFn := p.Func(pkgPosting, "Builder.Build")
	if postingsField == nil || buildFn == nil {
		c.Anchor(rule, "Transaction.Postings / posting.Builder.Build")
		return
	}
	n := 0
	for _, fn := range p.SrcFuncs() {
		if core.PkgPathOf(fn) == pkgPosting {
			continue
		}
		// element loads of a slice loaded from Transaction.Postings
		var elemLoads []ssa.Instruction
		core.EachInstr(fn, func(ins ssa.Instruction) {
			ia, ok := ins.(*ssa.IndexAddr)
			if !ok {
				return
			}
			ld, ok := ia.X.(*ssa.UnOp)
			if !ok || ld.Op != token.MUL {
				return
			}
			fa, ok := ld.X.(*ssa.FieldAddr)
			if !ok || core.FieldOf(fa) != postingsField {
				return
			}
			elemLoads = append(elemLoads, ia)
		})
		if len(elemLoads) == 0 {
			continue
		}
		// Build calls in fn
		buildBlocks := map[*ssa.BasicBlock]bool{}
		core.EachInstr(fn, func(ins ssa.Instruction) {
			if call, ok := ins.(*ssa.Call); ok {
				for _, callee := range p.Callees(call) {
					if reachesFunc(p, callee, buildFn, 0) {
						buildBlocks[call.Block()] = true
					}
				}
			}
		})
		if len(buildBlocks) == 0 {
			continue
		}
		for _, el := range elemLoads {
			start := el.Block()
			// only loops: start must lie on a cycle
			if !core.ReachableBlocks(start, nil)[start] {
				continue
			}
			// does any Build call sit inside the loop body?
			inLoop := false
			for b := range buildBlocks {
				if core.BlockReaches(start, b, nil) && core.BlockReaches(b, start, nil) {
					inLoop = true
				}
			}
			if !inLoop {
				continue
			}
			n++
			var missing []string
			for t := range acctTypeNames {
				if !reachesBuildUnder(start, buildBlocks, t) {
					missing = append(missing, acctTypeNames[t])
				}
			}
			key := fmt.Sprintf("%s:re-booking loop over Transaction.Postings", core.FuncName(fn))
			if len(missing) == 0 {
				c.Ob(rule, key, el.Pos(), core.FuncName(fn), core.Discharged, "for each of the five account types the loop body reaches a posting.Builder.Build call")
			} else {
				c.Ob(rule, key, el.Pos(), core.FuncName(fn), core.Violated,
					"the loop re-books each posting of the transaction but builds nothing when the posting's account type is "+strings.Join(missing, "/")+": those legs vanish from the expanded transactions (the account-type predicates IsAL/IsIE do not partition the five types)")
			}
		}
	}
	c.Floor(rule, 1)
}

// reachesBuildUnder walks one loop iteration from start, deciding
// account-type predicates under type t and following both branches of every
// other condition; reports whether a block with a Build call is visited.
func reachesBuildUnder(start *ssa.BasicBlock, build map[*ssa.BasicBlock]bool, t int) bool {
	seen := map[*ssa.BasicBlock]bool{}
	var walk func(b *ssa.BasicBlock, first bool) bool
	walk = func(b *ssa.BasicBlock, first bool) bool {
		if !first && b == start {
			return false
		}
		if seen[b] {
			return false
		}
		seen[b] = true
		if build[b] {
			return true
		}
		if iff, ok := b.Instrs[len(b.Instrs)-1].(*ssa.If); ok {
			if v, ok := evalAcctPredicate(iff.Cond, t); ok {
				if v {
					return walk(b.Succs[0], false)
				}
				return walk(b.Succs[1], false)
			}
		}
		for _, s := range b.Succs {
			if walk(s, false) {
				return true
			}
		}
		return false
	}
	return walk(start, true)
}

var _ = types.Identical

// reachesFunc: fn is target, or a module function (closure, helper) that
// calls target within three levels.
func reachesFunc(p *core.Prog, fn, target *ssa.Function, depth int) bool {
	if fn == target {
		return true
	}
	if fn == nil || fn.Blocks == nil || !p.InModule(fn) || depth > 3 {
		return false
	}
	found := false
	core.EachInstr(fn, func(ins ssa.Instruction) {
		if call, ok := ins.(ssa.CallInstruction); ok && !found {
			if callee := call.Common().StaticCallee(); callee != nil && reachesFunc(p, callee, target, depth+1) {
				found = true
			}
		}
	})
	return found
}

// evalTypePredicate evaluates a boolean method of account.Account whose
// result depends only on the accountType field, for accountType = t, by
// constant propagation over its SSA form (comparisons with constants, boolean
// connectives compiled to branches and phis). ok=false if the body does
// anything else.
func evalTypePredicate(fn *ssa.Function, typeField *types.Var, t int64) (val bool, ok bool) {
	return evalTypePredicateIn(fn, typeField, t, nil, 0)
}

// evalTypePredicateIn: bind gives the values of the parameters of a helper the
// predicate delegates to (a.accountType.IsAL()).
func evalTypePredicateIn(fn *ssa.Function, typeField *types.Var, t int64, bind map[*ssa.Parameter]int64, depth int) (val bool, ok bool) {
	if fn == nil || len(fn.Blocks) == 0 || depth > 3 {
		return false, false
	}
	vals := map[ssa.Value]int64{} // ints and bools (0/1)
	var eval func(v ssa.Value) (int64, bool)
	eval = func(v ssa.Value) (int64, bool) {
		if k, ok := vals[v]; ok {
			return k, true
		}
		switch x := v.(type) {
		case *ssa.Const:
			if n, ok := core.ConstInt(x); ok {
				return n, true
			}
			if x.Value != nil && x.Value.Kind().String() == "Bool" {
				if x.Value.String() == "true" {
					return 1, true
				}
				return 0, true
			}
		case *ssa.Parameter:
			if k, ok := bind[x]; ok {
				return k, true
			}
		case *ssa.Call:
			callee := x.Call.StaticCallee()
			if callee == nil || callee.Blocks == nil || core.PkgPathOf(callee) != core.PkgPathOf(fn) || len(x.Call.Args) != len(callee.Params) {
				return 0, false
			}
			nb := map[*ssa.Parameter]int64{}
			for i, a := range x.Call.Args {
				k, ok := eval(a)
				if !ok {
					return 0, false
				}
				nb[callee.Params[i]] = k
			}
			r, ok := evalTypePredicateIn(callee, typeField, t, nb, depth+1)
			if !ok {
				return 0, false
			}
			if r {
				return 1, true
			}
			return 0, true
		case *ssa.Field:
			if core.FieldOf(x) == typeField {
				return t, true
			}
		case *ssa.UnOp:
			if x.Op == token.MUL {
				if fa, ok := x.X.(*ssa.FieldAddr); ok && core.FieldOf(fa) == typeField {
					return t, true
				}
				// a parameter spilled to a local
				if al, ok := x.X.(*ssa.Alloc); ok {
					if st := core.StoresTo(al); len(st) == 1 {
						return eval(st[0].Val)
					}
				}
			}
			if x.Op == token.NOT {
				if k, ok := eval(x.X); ok {
					return 1 - k, true
				}
			}
		case *ssa.Convert:
			return eval(x.X)
		case *ssa.ChangeType:
			return eval(x.X)
		case *ssa.BinOp:
			a, ok1 := eval(x.X)
			b, ok2 := eval(x.Y)
			if !ok1 || !ok2 {
				return 0, false
			}
			r := false
			switch x.Op {
			case token.EQL:
				r = a == b
			case token.NEQ:
				r = a != b
			case token.LSS:
				r = a < b
			case token.LEQ:
				r = a <= b
			case token.GTR:
				r = a > b
			case token.GEQ:
				r = a >= b
			case token.AND:
				return a & b, true
			case token.OR:
				return a | b, true
			default:
				return 0, false
			}
			if r {
				return 1, true
			}
			return 0, true
		}
		return 0, false
	}
	b := fn.Blocks[0]
	var prev *ssa.BasicBlock
	for steps := 0; steps < 64; steps++ {
		for _, ins := range b.Instrs {
			switch x := ins.(type) {
			case *ssa.Phi:
				for i, p := range b.Preds {
					if p == prev {
						k, ok := eval(x.Edges[i])
						if !ok {
							return false, false
						}
						vals[x] = k
					}
				}
			case *ssa.Return:
				if len(x.Results) != 1 {
					return false, false
				}
				k, ok := eval(x.Results[0])
				return k == 1, ok
			case *ssa.If:
				k, ok := eval(x.Cond)
				if !ok {
					return false, false
				}
				prev = b
				if k == 1 {
					b = b.Succs[0]
				} else {
					b = b.Succs[1]
				}
			case *ssa.Jump:
				prev = b
				b = b.Succs[0]
			case *ssa.DebugRef, *ssa.Alloc, *ssa.Store, *ssa.FieldAddr, *ssa.UnOp, *ssa.BinOp, *ssa.Field, *ssa.Convert, *ssa.ChangeType, *ssa.Call:
				// values are evaluated on demand; a spilled receiver (Alloc+Store) is harmless
			default:
				return false, false
			}
			if _, isBr := ins.(*ssa.If); isBr {
				break
			}
			if _, isJ := ins.(*ssa.Jump); isJ {
				break
			}
		}
	}
	return false, false
}

// RuleKAcctPredicates — the account-type predicates mean what every rule and
// every caller takes them to mean: IsAL is true exactly for ASSETS and
// LIABILITIES, IsIE exactly for INCOME and EXPENSES, decided by evaluating the
// two method bodies for each of the five values of the type enumeration (the
// bodies depend on nothing else). The accrual expansion splits the legs for
// which IsIE holds and keeps the others on their date; the checker and the
// valuation track positions for which IsAL holds.
func RuleKAcctPredicates(c *core.Ctx) {
	const rule = "K-acct-predicates"
	p := c.P
	typeField := p.Field(pkgAccount, "Account", "accountType")
	if typeField == nil {
		c.Anchor(rule, "account.Account.accountType")
		return
	}
	// the enumeration: constants of type account.Type, by name
	enum := map[string]int64{}
	if pk := p.Package(pkgAccount); pk != nil {
		for _, n := range pk.Scope().Names() {
			if k, ok := pk.Scope().Lookup(n).(*types.Const); ok && strings.HasSuffix(k.Type().String(), "account.Type") {
				if v, ok := constantInt64(k); ok {
					enum[n] = v
				}
			}
		}
	}
	want := map[string]map[string]bool{
		"IsAL": {"ASSETS": true, "LIABILITIES": true},
		"IsIE": {"INCOME": true, "EXPENSES": true},
	}
	for _, n := range acctTypeNames {
		if _, ok := enum[n]; !ok {
			c.Anchor(rule, "account type constant "+n)
			return
		}
	}
	for _, name := range []string{"IsAL", "IsIE"} {
		fn := p.Func(pkgAccount, "Account."+name)
		key := "account.Account." + name + ":true exactly for its two types"
		if fn == nil {
			c.Anchor(rule, "account.Account."+name)
			continue
		}
		var wrong []string
		undecided := false
		for _, tn := range acctTypeNames {
			got, ok := evalTypePredicate(fn, typeField, enum[tn])
			if !ok {
				undecided = true
				break
			}
			if got != want[name][tn] {
				wrong = append(wrong, fmt.Sprintf("%s(%s) = %v", name, tn, got))
			}
		}
		switch {
		case undecided:
			c.Ob(rule, key, fn.Pos(), core.FuncName(fn), core.Undecided, "the predicate's body is not a function of the account type alone that this rule can evaluate")
		case len(wrong) > 0:
			c.Ob(rule, key, fn.Pos(), core.FuncName(fn), core.Violated, strings.Join(wrong, ", ")+": legs on such accounts are treated as the wrong kind (an accrual splits or keeps them wrongly, positions are tracked or dropped wrongly)")
		default:
			c.Ob(rule, key, fn.Pos(), core.FuncName(fn), core.Discharged, "evaluated for the five account types")
		}
	}
	c.Floor(rule, 2)
}

func constantInt64(k *types.Const) (int64, bool) {
	v := k.Val()
	if v == nil {
		return 0, false
	}
	var n int64
	if _, err := fmt.Sscan(v.ExactString(), &n); err != nil {
		return 0, false
	}
	return n, true
}
