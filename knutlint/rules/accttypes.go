package rules

import (
	"fmt"
	"go/token"
	"go/types"
	"strings"

	"golang.org/x/tools/go/ssa"

	"knutlint/core"
)

// account types in declaration order (lib/model/account: ASSETS..EXPENSES)
var acctTypeNames = []string{"ASSETS", "LIABILITIES", "EQUITY", "INCOME", "EXPENSES"}

// evalAcctPredicate evaluates an account-type predicate condition under the
// assumption that every account it mentions has type t. ok=false if cond is
// not such a predicate.
func evalAcctPredicate(cond ssa.Value, t int) (val bool, ok bool) {
	switch x := cond.(type) {
	case *ssa.UnOp:
		if x.Op == token.NOT {
			v, ok := evalAcctPredicate(x.X, t)
			return !v, ok
		}
	case *ssa.Call:
		callee := x.Call.StaticCallee()
		if callee == nil || core.PkgPathOf(callee) != pkgAccount || callee.Signature.Recv() == nil {
			return false, false
		}
		switch callee.Name() {
		case "IsAL":
			return t == 0 || t == 1, true
		case "IsIE":
			return t == 3 || t == 4, true
		}
	case *ssa.BinOp:
		if x.Op != token.EQL && x.Op != token.NEQ {
			return false, false
		}
		call, k := x.X, x.Y
		if _, isC := call.(*ssa.Const); isC {
			call, k = k, call
		}
		cl, ok1 := call.(*ssa.Call)
		n, ok2 := core.ConstInt(k)
		if !ok1 || !ok2 {
			return false, false
		}
		callee := cl.Call.StaticCallee()
		if callee == nil || core.PkgPathOf(callee) != pkgAccount || callee.Name() != "Type" {
			return false, false
		}
		if x.Op == token.EQL {
			return int(n) == t, true
		}
		return int(n) != t, true
	}
	return false, false
}

// RuleFAcctTypes — a loop that re-books the postings of an existing
// transaction (ranges over Transaction.Postings and builds new postings in
// the body) must build something for a posting of every account type;
// otherwise legs of the uncovered type are silently dropped.
func RuleFAcctTypes(c *core.Ctx) {
	const rule = "F-acct-types"
	p := c.P
	postingsField := p.Field(pkgTransaction, "Transaction", "Postings")
	buildFn := p.Func(pkgPosting, "Builder.Build")
	if postingsField == nil || buildFn == nil {
		c.Anchor(rule, "Transaction.Postings / posting.Builder.Build")
		return
	}
	n := 0
	for _, fn := range p.SrcFuncs() {
		if core.PkgPathOf(fn) == pkgPosting {
			continue
		}
		// element loads of a slice loaded from Transaction.Postings
		var elemLoads []ssa.Instruction
		core.EachInstr(fn, func(ins ssa.Instruction) {
			ia, ok := ins.(*ssa.IndexAddr)
			if !ok {
				return
			}
			ld, ok := ia.X.(*ssa.UnOp)
			if !ok || ld.Op != token.MUL {
				return
			}
			fa, ok := ld.X.(*ssa.FieldAddr)
			if !ok || core.FieldOf(fa) != postingsField {
				return
			}
			elemLoads = append(elemLoads, ia)
		})
		if len(elemLoads) == 0 {
			continue
		}
		// Build calls in fn
		buildBlocks := map[*ssa.BasicBlock]bool{}
		core.EachInstr(fn, func(ins ssa.Instruction) {
			if call, ok := ins.(*ssa.Call); ok {
				for _, callee := range p.Callees(call) {
					if reachesFunc(p, callee, buildFn, 0) {
						buildBlocks[call.Block()] = true
					}
				}
			}
		})
		if len(buildBlocks) == 0 {
			continue
		}
		for _, el := range elemLoads {
			start := el.Block()
			// only loops: start must lie on a cycle
			if !core.ReachableBlocks(start, nil)[start] {
				continue
			}
			// does any Build call sit inside the loop body?
			inLoop := false
			for b := range buildBlocks {
				if core.BlockReaches(start, b, nil) && core.BlockReaches(b, start, nil) {
					inLoop = true
				}
			}
			if !inLoop {
				continue
			}
			n++
			var missing []string
			for t := range acctTypeNames {
				if !reachesBuildUnder(start, buildBlocks, t) {
					missing = append(missing, acctTypeNames[t])
				}
			}
			key := fmt.Sprintf("%s:re-booking loop over Transaction.Postings", core.FuncName(fn))
			if len(missing) == 0 {
				c.Ob(rule, key, el.Pos(), core.FuncName(fn), core.Discharged, "for each of the five account types the loop body reaches a posting.Builder.Build call")
			} else {
				c.Ob(rule, key, el.Pos(), core.FuncName(fn), core.Violated,
					"the loop re-books each posting of the transaction but builds nothing when the posting's account type is "+strings.Join(missing, "/")+": those legs vanish from the expanded transactions (the account-type predicates IsAL/IsIE do not partition the five types)")
			}
		}
	}
	c.Floor(rule, 1)
}

// reachesBuildUnder walks one loop iteration from start, deciding
// account-type predicates under type t and following both branches of every
// other condition; reports whether a block with a Build call is visited.
func reachesBuildUnder(start *ssa.BasicBlock, build map[*ssa.BasicBlock]bool, t int) bool {
	seen := map[*ssa.BasicBlock]bool{}
	var walk func(b *ssa.BasicBlock, first bool) bool
	walk = func(b *ssa.BasicBlock, first bool) bool {
		if !first && b == start {
			return false
		}
		if seen[b] {
			return false
		}
		seen[b] = true
		if build[b] {
			return true
		}
		if iff, ok := b.Instrs[len(b.Instrs)-1].(*ssa.If); ok {
			if v, ok := evalAcctPredicate(iff.Cond, t); ok {
				if v {
					return walk(b.Succs[0], false)
				}
				return walk(b.Succs[1], false)
			}
		}
		for _, s := range b.Succs {
			if walk(s, false) {
				return true
			}
		}
		return false
	}
	return walk(start, true)
}

var _ = types.Identical

// reachesFunc: fn is target, or a module function (closure, helper) that
// calls target within three levels.
func reachesFunc(p *core.Prog, fn, target *ssa.Function, depth int) bool {
	if fn == target {
		return true
	}
	if fn == nil || fn.Blocks == nil || !p.InModule(fn) || depth > 3 {
		return false
	}
	found := false
	core.EachInstr(fn, func(ins ssa.Instruction) {
		if call, ok := ins.(ssa.CallInstruction); ok && !found {
			if callee := call.Common().StaticCallee(); callee != nil && reachesFunc(p, callee, target, depth+1) {
				found = true
			}
		}
	})
	return found
}
