package rules

import (
	"fmt"
	"go/constant"
	"go/token"
	"go/types"
	"sort"
	"strings"
	"time"

	"golang.org/x/tools/go/ssa"

	"knutlint/core"
)

// RuleKDayKey — the directives of one date form one day and the directives of
// two dates form two: the key under which the journal builder files a day is
// an injective function of the date. Decided for the forms a key can take:
//
//   - the time.Time itself (possibly through UTC/In/Local, which keep the
//     instant), or time.Date(d.Year(), d.Month(), d.Day(), …) of one date;
//   - an integer that is linear in d.Year(), d.Month(), d.Day(), d.YearDay()
//     (or is d.Unix…()): the linear form is recovered from the SSA (helpers
//     with one return are inlined) and evaluated, with the constants of the
//     source, on every date of more than a Gregorian cycle; two dates with the
//     same value are named in the report. This is arithmetic on the source's
//     constants over the finite calendar, not a run of the program;
//   - d.Format(layout) with a constant layout that names year, month and day.
//
// Any other form is reported as undecided (the check fails closed).
func RuleKDayKey(c *core.Ctx) {
	const rule = "K-day-key"
	p := c.P
	dayObj, _ := p.Lookup(pkgJournal, "Day").(*types.TypeName)
	if dayObj == nil {
		c.Anchor(rule, "journal.Day")
		return
	}
	isDayMap := func(t types.Type) *types.Map {
		m, ok := t.Underlying().(*types.Map)
		if !ok {
			return nil
		}
		pt, ok := m.Elem().(*types.Pointer)
		if !ok {
			return nil
		}
		if n, ok := types.Unalias(pt.Elem()).(*types.Named); ok && n.Obj() == dayObj {
			return m
		}
		return nil
	}
	n := 0
	for _, fn := range p.SrcFuncs() {
		if !p.InModule(fn) {
			continue
		}
		// generic helpers are judged at their instantiated call sites
		if fn.TypeParams().Len() > 0 || fn.Origin() != nil {
			continue
		}
		k := 0
		judge := func(ins ssa.Instruction, key ssa.Value) {
			n++
			k++
			okey := fmt.Sprintf("%s:day key %d is injective in the date", core.FuncName(fn), k)
			verdict, why := classifyDayKey(p, key)
			switch verdict {
			case "ok":
				c.Ob(rule, okey, ins.Pos(), core.FuncName(fn), core.Discharged, why)
			case "bad":
				c.Ob(rule, okey, ins.Pos(), core.FuncName(fn), core.Violated, why+": directives of different dates are filed under the same day (or of the same date under different days)")
			default:
				c.Ob(rule, okey, ins.Pos(), core.FuncName(fn), core.Undecided, "the key under which a day is filed is "+why+"; this rule decides time.Time values, integers linear in Year/Month/Day/YearDay/Unix and Format with a constant layout")
			}
		}
		core.EachInstr(fn, func(ins ssa.Instruction) {
			switch x := ins.(type) {
			case *ssa.Lookup:
				if isDayMap(x.X.Type()) != nil {
					judge(ins, x.Index)
				}
			case *ssa.MapUpdate:
				if isDayMap(x.Map.Type()) != nil {
					judge(ins, x.Key)
				}
			case *ssa.Call:
				var m *types.Map
				for _, a := range x.Call.Args {
					if mm := isDayMap(a.Type()); mm != nil {
						m = mm
					}
				}
				if m == nil {
					return
				}
				for _, a := range x.Call.Args {
					if types.Identical(a.Type(), m.Key()) {
						judge(ins, a)
					}
				}
			}
		})
	}
	c.Floor(rule, 1)
}

type linForm struct {
	coef map[string]int64
	k    int64
	base ssa.Value
}

var dateComponents = map[string][2]int64{ // component → min, max
	"Month":   {1, 12},
	"Day":     {1, 31},
	"YearDay": {1, 366},
}

func classifyDayKey(p *core.Prog, key ssa.Value) (string, string) {
	key = core.Strip(key)
	t := key.Type()
	if isTimeType(t) {
		return classifyTimeKey(p, key, 0)
	}
	if b, ok := t.Underlying().(*types.Basic); ok {
		switch {
		case b.Info()&types.IsInteger != 0:
			lf, why := linearInDate(p, key, nil, 0)
			if lf == nil {
				return "unknown", "an integer that is " + why
			}
			return judgeLinear(lf)
		case b.Info()&types.IsString != 0:
			return classifyStringKey(p, key)
		}
	}
	return "unknown", "a value of type " + t.String()
}

func isTimeType(t types.Type) bool {
	n, ok := types.Unalias(t).(*types.Named)
	return ok && n.Obj().Pkg() != nil && n.Obj().Pkg().Path() == "time" && n.Obj().Name() == "Time"
}

func classifyTimeKey(p *core.Prog, v ssa.Value, depth int) (string, string) {
	v = core.Strip(v)
	if depth > 6 {
		return "unknown", "a time computed through a long chain"
	}
	switch x := v.(type) {
	case *ssa.Parameter, *ssa.FreeVar, *ssa.Field, *ssa.Extract, *ssa.Lookup, *ssa.Index, *ssa.Next, *ssa.TypeAssert:
		return "ok", "the date itself is the key"
	case *ssa.UnOp:
		if x.Op == token.MUL {
			return "ok", "the date itself is the key"
		}
	case *ssa.Phi:
		for _, e := range x.Edges {
			if vd, why := classifyTimeKey(p, e, depth+1); vd != "ok" {
				return vd, why
			}
		}
		return "ok", "the date itself is the key"
	case *ssa.Call:
		callee := x.Call.StaticCallee()
		if callee == nil {
			return "unknown", "the result of a dynamic call"
		}
		if callee.Pkg != nil && callee.Pkg.Pkg.Path() == "time" {
			switch callee.Name() {
			case "UTC", "Local", "In":
				return classifyTimeKey(p, x.Call.Args[0], depth+1)
			case "Date":
				if callee.Signature.Recv() == nil && len(x.Call.Args) == 8 {
					// time.Date(d.Year(), d.Month(), d.Day(), consts…)
					var base ssa.Value
					for i, want := range []string{"Year", "Month", "Day"} {
						lf, _ := linearInDate(p, x.Call.Args[i], nil, 0)
						if lf == nil || len(lf.coef) != 1 || lf.coef[want] != 1 || lf.k != 0 {
							return "unknown", "time.Date of components this rule does not recognise"
						}
						if base == nil {
							base = lf.base
						} else if !p.SameExpr(base, lf.base) {
							return "unknown", "time.Date of components of different dates"
						}
					}
					for _, a := range x.Call.Args[3:7] {
						if _, ok := a.(*ssa.Const); !ok {
							return "unknown", "time.Date with a variable time of day"
						}
					}
					return "ok", "the key is the date rebuilt from its year, month and day"
				}
			}
			return "bad", "the date is passed through time." + callee.Name() + " before it is used as the key"
		}
		if p.InModule(callee) && callee.Blocks != nil {
			// a module helper: identity on its parameter?
			rets := 0
			ident := true
			core.EachInstr(callee, func(ins ssa.Instruction) {
				if r, ok := ins.(*ssa.Return); ok {
					rets++
					if len(r.Results) != 1 {
						ident = false
						return
					}
					if _, ok := core.Strip(r.Results[0]).(*ssa.Parameter); !ok {
						ident = false
					}
				}
			})
			if rets > 0 && ident {
				return "ok", "the date itself is the key"
			}
			return "bad", "the date is transformed by " + core.FuncName(callee) + " before it is used as the key"
		}
		return "unknown", "the result of " + core.FuncName(callee)
	}
	return "unknown", fmt.Sprintf("a time computed by %T", v)
}

// linearInDate evaluates an integer SSA value as Σ coef·component + k over
// the components of one date. env maps the parameters of an inlined helper to
// the caller's values.
func linearInDate(p *core.Prog, v ssa.Value, env map[*ssa.Parameter]ssa.Value, depth int) (*linForm, string) {
	if depth > 12 {
		return nil, "computed through a long chain"
	}
	v = core.Strip(v)
	resolve := func(b ssa.Value) ssa.Value {
		for i := 0; i < 8; i++ {
			b = core.Strip(b)
			if prm, ok := b.(*ssa.Parameter); ok && env != nil {
				if a, ok := env[prm]; ok {
					b = a
					continue
				}
			}
			// a receiver spilled to a local
			if ld, ok := b.(*ssa.UnOp); ok && ld.Op == token.MUL {
				if al, ok := ld.X.(*ssa.Alloc); ok {
					if st := core.StoresTo(al); len(st) == 1 {
						b = st[0].Val
						continue
					}
				}
			}
			break
		}
		return b
	}
	switch x := v.(type) {
	case *ssa.Const:
		if x.Value != nil && x.Value.Kind() == constant.Int {
			if i, ok := constant.Int64Val(x.Value); ok {
				return &linForm{coef: map[string]int64{}, k: i}, ""
			}
		}
		return nil, "a constant that is not an integer"
	case *ssa.Convert:
		return linearInDate(p, x.X, env, depth+1)
	case *ssa.Parameter:
		if env != nil {
			if a, ok := env[x]; ok {
				return linearInDate(p, a, nil, depth+1)
			}
		}
		return nil, "a parameter"
	case *ssa.BinOp:
		a, wa := linearInDate(p, x.X, env, depth+1)
		if a == nil {
			return nil, wa
		}
		b, wb := linearInDate(p, x.Y, env, depth+1)
		if b == nil {
			return nil, wb
		}
		merge := func(sign int64) (*linForm, string) {
			res := &linForm{coef: map[string]int64{}, k: a.k + sign*b.k, base: a.base}
			if res.base == nil {
				res.base = b.base
			} else if b.base != nil && !p.SameExpr(a.base, b.base) {
				return nil, "combined from two different dates"
			}
			for n, cf := range a.coef {
				res.coef[n] += cf
			}
			for n, cf := range b.coef {
				res.coef[n] += sign * cf
			}
			return res, ""
		}
		scale := func(f *linForm, m int64) *linForm {
			res := &linForm{coef: map[string]int64{}, k: f.k * m, base: f.base}
			for n, cf := range f.coef {
				res.coef[n] = cf * m
			}
			return res
		}
		switch x.Op {
		case token.ADD:
			return merge(1)
		case token.SUB:
			return merge(-1)
		case token.MUL:
			if len(b.coef) == 0 {
				return scale(a, b.k), ""
			}
			if len(a.coef) == 0 {
				return scale(b, a.k), ""
			}
			return nil, "a product of two components"
		case token.SHL:
			if len(b.coef) == 0 && b.k >= 0 && b.k < 62 {
				return scale(a, int64(1)<<uint(b.k)), ""
			}
		}
		return nil, "computed with the operator " + x.Op.String()
	case *ssa.Call:
		callee := x.Call.StaticCallee()
		if callee == nil {
			return nil, "the result of a dynamic call"
		}
		if callee.Pkg != nil && callee.Pkg.Pkg.Path() == "time" && callee.Signature.Recv() != nil && isTimeType(callee.Signature.Recv().Type()) && len(x.Call.Args) >= 1 {
			switch callee.Name() {
			case "Year", "Month", "Day", "YearDay", "Unix", "UnixNano", "UnixMilli", "UnixMicro":
				return &linForm{coef: map[string]int64{callee.Name(): 1}, base: resolve(x.Call.Args[0])}, ""
			}
			return nil, "derived from time.Time." + callee.Name()
		}
		if p.InModule(callee) && callee.Blocks != nil {
			var ret *ssa.Return
			cnt := 0
			core.EachInstr(callee, func(ins ssa.Instruction) {
				if r, ok := ins.(*ssa.Return); ok {
					ret = r
					cnt++
				}
			})
			if cnt == 1 && len(ret.Results) == 1 {
				nenv := map[*ssa.Parameter]ssa.Value{}
				for i, prm := range callee.Params {
					if i < len(x.Call.Args) {
						a := x.Call.Args[i]
						if ap, ok := core.Strip(a).(*ssa.Parameter); ok && env != nil {
							if aa, ok := env[ap]; ok {
								a = aa
							}
						}
						nenv[prm] = a
					}
				}
				return linearInDate(p, ret.Results[0], nenv, depth+1)
			}
			return nil, "computed by " + core.FuncName(callee) + " (more than one return)"
		}
		return nil, "the result of " + core.FuncName(callee)
	}
	return nil, fmt.Sprintf("computed by %T", v)
}

func judgeLinear(lf *linForm) (string, string) {
	for _, u := range []string{"Unix", "UnixNano", "UnixMilli", "UnixMicro"} {
		if cf, ok := lf.coef[u]; ok && cf != 0 {
			if len(lf.coef) == 1 {
				return "ok", "the key is a non-zero multiple of the date's " + u + "()"
			}
			return "unknown", "an integer that mixes " + u + "() with calendar components"
		}
	}
	var names []string
	for n, cf := range lf.coef {
		if cf != 0 {
			names = append(names, n)
		}
	}
	sort.Strings(names)
	if len(names) == 0 {
		return "bad", "the integer key is a constant"
	}
	// The form is linear in components of one date with the constants of the
	// source: evaluate it on every date of more than a full Gregorian cycle and
	// look for two dates with the same key. This is exact for collisions less
	// than 400 years apart; a key whose year coefficient is so small that only
	// dates further apart could collide is reported as not injective as well.
	seen := map[int64]time.Time{}
	for d := time.Date(1999, 1, 1, 0, 0, 0, 0, time.UTC); d.Year() < 2402; d = d.AddDate(0, 0, 1) {
		key := lf.k + lf.coef["Year"]*int64(d.Year()) + lf.coef["Month"]*int64(d.Month()) + lf.coef["Day"]*int64(d.Day()) + lf.coef["YearDay"]*int64(d.YearDay())
		if prev, dup := seen[key]; dup {
			return "bad", fmt.Sprintf("the integer key (linear in %s) is not injective: %s and %s both get the key %d", strings.Join(names, ", "), prev.Format("2006-01-02"), d.Format("2006-01-02"), key)
		}
		seen[key] = d
	}
	var span int64
	for _, n := range names {
		if r, ok := dateComponents[n]; ok {
			cf := lf.coef[n]
			if cf < 0 {
				cf = -cf
			}
			span += cf * (r[1] - r[0])
		}
	}
	cy := lf.coef["Year"]
	if cy < 0 {
		cy = -cy
	}
	if cy == 0 || span/cy >= 400 {
		return "bad", "the integer key hardly depends on the year (components: " + strings.Join(names, ", ") + ")"
	}
	return "ok", fmt.Sprintf("the integer key is linear in %s with the constants of the source; evaluated on every date from 1999 to 2401 it takes no value twice", strings.Join(names, ", "))
}

func classifyStringKey(p *core.Prog, v ssa.Value) (string, string) {
	call, ok := core.Strip(v).(*ssa.Call)
	if !ok {
		return "unknown", "a string that is not the result of a call"
	}
	callee := call.Call.StaticCallee()
	if callee == nil || callee.Pkg == nil || callee.Pkg.Pkg.Path() != "time" || callee.Signature.Recv() == nil {
		if callee != nil {
			return "unknown", "a string built by " + core.FuncName(callee)
		}
		return "unknown", "a string built by a dynamic call"
	}
	switch callee.Name() {
	case "String":
		return "ok", "the key is the date's String()"
	case "Format":
		if len(call.Call.Args) == 2 {
			if cst, ok := call.Call.Args[1].(*ssa.Const); ok && cst.Value != nil && cst.Value.Kind() == constant.String {
				layout := constant.StringVal(cst.Value)
				year := strings.Contains(layout, "2006")
				month := strings.Contains(layout, "01") || strings.Contains(layout, "Jan")
				day := strings.Contains(layout, "02") || strings.Contains(layout, "_2")
				if strings.Contains(layout, "002") {
					month, day = true, true
				}
				if year && month && day {
					return "ok", "the key is the date formatted with the layout " + layout + ", which names year, month and day"
				}
				return "bad", "the key is the date formatted with the layout \"" + layout + "\", which does not name year, month and day"
			}
		}
		return "unknown", "the date formatted with a layout that is not a constant"
	}
	return "unknown", "a string built by time.Time." + callee.Name()
}
