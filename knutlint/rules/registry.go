// Package rules holds the repository-specific rules (DESIGN.md section 2) and
// the mapping from properties to rules (section 4).
package rules

import "knutlint/core"

// Rule is one rule; it appends obligations to the context.
type Rule func(c *core.Ctx)

// Property is a claimed property: the rules that decide its clauses and the
// text that goes into the evidence file.
type Property struct {
	ID          string
	Explanation string
	Decides     []string
	NotDecided  []string
	Assumptions []string
	Rules       []Rule
	Technique   string // MANIFEST technique
	LevelText   string // MANIFEST level_claimed.text
	LevelNote   string // MANIFEST level_note
}

// NotApplicable lists the properties that are not claimed, with the reason.
var NotApplicable = map[string]string{}

// ManifestNotes is the free-text note of MANIFEST.json.
var ManifestNotes = "Static analysis only: every verdict is computed from the source of /repo at the time the check runs; knut is never executed. All claims are at level 'other' (structural necessary conditions); each check's level_note lists what it does not decide. See DESIGN.md."

// Properties is filled by init functions in props.go.
var Properties = map[string]*Property{}

// Package paths used as anchors.
const (
	mod            = core.Module
	pkgAccount     = mod + "/lib/model/account"
	pkgCommodity   = mod + "/lib/model/commodity"
	pkgPosting     = mod + "/lib/model/posting"
	pkgTransaction = mod + "/lib/model/transaction"
	pkgPrice       = mod + "/lib/model/price"
	pkgAssertion   = mod + "/lib/model/assertion"
	pkgOpen        = mod + "/lib/model/open"
	pkgClose       = mod + "/lib/model/close"
	pkgModel       = mod + "/lib/model"
	pkgRegistry    = mod + "/lib/model/registry"
	pkgJournal     = mod + "/lib/journal"
	pkgCheck       = mod + "/lib/journal/check"
	pkgJPrinter    = mod + "/lib/journal/printer"
	pkgBeancount   = mod + "/lib/journal/beancount"
	pkgPerformance = mod + "/lib/journal/performance"
	pkgAmounts     = mod + "/lib/amounts"
	pkgBalance     = mod + "/lib/reports/balance"
	pkgWeights     = mod + "/lib/reports/weights"
	pkgSyntax      = mod + "/lib/syntax"
	pkgScanner     = mod + "/lib/syntax/scanner"
	pkgParser      = mod + "/lib/syntax/parser"
	pkgDirectives  = mod + "/lib/syntax/directives"
	pkgSPrinter    = mod + "/lib/syntax/printer"
	pkgBayes       = mod + "/lib/syntax/bayes"
	pkgCpr         = mod + "/lib/common/cpr"
	pkgDate        = mod + "/lib/common/date"
	pkgDict        = mod + "/lib/common/dict"
	pkgSet         = mod + "/lib/common/set"
	pkgCompare     = mod + "/lib/common/compare"
	pkgMultimap    = mod + "/lib/common/multimap"
	pkgTable       = mod + "/lib/common/table"
	pkgFlags       = mod + "/cmd/flags"
	pkgCommands    = mod + "/cmd/commands"
	pkgPortfolio   = mod + "/cmd/commands/portfolio"
	pkgImporter    = mod + "/cmd/importer"
	pkgDecimal     = "github.com/shopspring/decimal"
	pkgAtomic      = "github.com/natefinch/atomic"
)
