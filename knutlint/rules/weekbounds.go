package rules

import (
	"fmt"
	"go/constant"
	"go/types"
	"sort"

	"knutlint/core"
)

// RuleKWeekBounds — weekly periods run from Monday to Sunday. The functions of
// lib/common/date that map (date, interval) to a date are executed abstractly:
// the date stays symbolic, only its weekday class (0..6) and the interval (one
// of the constants of its type) are enumerated, so every integer the function
// derives from d.Weekday() and every comparison on it is concrete. Where such
// a function returns d.AddDate(0, 0, x) with x derived from the weekday, the
// 7 offsets must either all lie in [-6, 0] and land on a Monday (a week's
// start) or all lie in [0, 6] and land on a Sunday (a week's end). An offset
// the interpreter cannot evaluate is reported as undecided.
func RuleKWeekBounds(c *core.Ctx) {
	const rule = "K-week-bounds"
	p := c.P
	intervalObj, _ := p.Lookup(pkgDate, "Interval").(*types.TypeName)
	if intervalObj == nil {
		c.Anchor(rule, "date.Interval")
		return
	}
	// the constants of the interval type
	var intervals []int64
	names := map[int64]string{}
	if tp := p.Package(pkgDate); tp != nil {
		for _, n := range tp.Scope().Names() {
			if cst, ok := tp.Scope().Lookup(n).(*types.Const); ok && types.Identical(cst.Type(), intervalObj.Type()) {
				if v, ok := constant.Int64Val(cst.Val()); ok {
					intervals = append(intervals, v)
					names[v] = n
				}
			}
		}
	}
	sort.Slice(intervals, func(i, j int) bool { return intervals[i] < intervals[j] })
	n := 0
	for _, fn := range p.SrcFuncs() {
		if core.PkgPathOf(fn) != pkgDate || fn.Parent() != nil || len(fn.Params) != 2 {
			continue
		}
		sig := fn.Signature
		if sig.Results().Len() != 1 || !isTimeType(sig.Results().At(0).Type()) || !isTimeType(fn.Params[0].Type()) || !types.Identical(fn.Params[1].Type(), intervalObj.Type()) {
			continue
		}
		for _, iv := range intervals {
			offs := map[int]int64{}
			uses := false
			bad := ""
			for wd := 0; wd < 7; wd++ {
				r, why := runDateFunc(p, fn, iv, int64(wd), 0)
				if why != "" {
					bad = why
				}
				if r.kind == aDate && r.cal.kind == calSelf {
					offs[wd] = r.dayOff
					if r.usesWd || r.dayOff != offs[0] {
						uses = true // the result depends on the weekday, by value or by control
					}
				}
			}
			if !uses {
				continue
			}
			n++
			key := fmt.Sprintf("%s:%s:the weekday offset lands on a week boundary", core.FuncName(fn), names[iv])
			if bad != "" {
				c.Ob(rule, key, fn.Pos(), core.FuncName(fn), core.Undecided, "the day offset derived from the weekday could not be evaluated: "+bad)
				continue
			}
			start, end := true, true
			desc := ""
			for wd := 0; wd < 7; wd++ {
				off, ok := offs[wd]
				if !ok {
					start, end = false, false
					desc += fmt.Sprintf(" %s:none", weekdayName(wd))
					continue
				}
				desc += fmt.Sprintf(" %s:%+d", weekdayName(wd), off)
				land := ((int64(wd)+off)%7 + 7) % 7
				if !(off >= -6 && off <= 0 && land == 1) {
					start = false
				}
				if !(off >= 0 && off <= 6 && land == 0) {
					end = false
				}
			}
			switch {
			case start:
				c.Ob(rule, key, fn.Pos(), core.FuncName(fn), core.Discharged, "for every weekday the offset is within the week and lands on its Monday:"+desc)
			case end:
				c.Ob(rule, key, fn.Pos(), core.FuncName(fn), core.Discharged, "for every weekday the offset is within the week and lands on its Sunday:"+desc)
			default:
				c.Ob(rule, key, fn.Pos(), core.FuncName(fn), core.Violated, "the day offsets per weekday ("+desc+" ) neither all lead to the Monday of the date's own week nor all to its Sunday: a weekly period straddles a week boundary or does not contain its date")
			}
		}
	}
	c.Floor(rule, 1)
}

func weekdayName(wd int) string {
	return []string{"Sun", "Mon", "Tue", "Wed", "Thu", "Fri", "Sat"}[wd]
}

