package rules

import (
	"fmt"
	"go/constant"
	"go/token"
	"go/types"
	"sort"

	"golang.org/x/tools/go/ssa"

	"knutlint/core"
)

// RuleKWeekBounds — weekly periods run from Monday to Sunday. The functions of
// lib/common/date that map (date, interval) to a date are executed abstractly:
// the date stays symbolic, only its weekday class (0..6) and the interval (one
// of the constants of its type) are enumerated, so every integer the function
// derives from d.Weekday() and every comparison on it is concrete. Where such
// a function returns d.AddDate(0, 0, x) with x derived from the weekday, the
// 7 offsets must either all lie in [-6, 0] and land on a Monday (a week's
// start) or all lie in [0, 6] and land on a Sunday (a week's end). An offset
// the interpreter cannot evaluate is reported as undecided.
func RuleKWeekBounds(c *core.Ctx) {
	const rule = "K-week-bounds"
	p := c.P
	intervalObj, _ := p.Lookup(pkgDate, "Interval").(*types.TypeName)
	if intervalObj == nil {
		c.Anchor(rule, "date.Interval")
		return
	}
	// the constants of the interval type
	var intervals []int64
	names := map[int64]string{}
	if tp := p.Package(pkgDate); tp != nil {
		for _, n := range tp.Scope().Names() {
			if cst, ok := tp.Scope().Lookup(n).(*types.Const); ok && types.Identical(cst.Type(), intervalObj.Type()) {
				if v, ok := constant.Int64Val(cst.Val()); ok {
					intervals = append(intervals, v)
					names[v] = n
				}
			}
		}
	}
	sort.Slice(intervals, func(i, j int) bool { return intervals[i] < intervals[j] })
	n := 0
	for _, fn := range p.SrcFuncs() {
		if core.PkgPathOf(fn) != pkgDate || fn.Parent() != nil || len(fn.Params) != 2 {
			continue
		}
		sig := fn.Signature
		if sig.Results().Len() != 1 || !isTimeType(sig.Results().At(0).Type()) || !isTimeType(fn.Params[0].Type()) || !types.Identical(fn.Params[1].Type(), intervalObj.Type()) {
			continue
		}
		for _, iv := range intervals {
			offs := map[int]int64{}
			uses := false
			bad := ""
			for wd := 0; wd < 7; wd++ {
				ex := &wdExec{p: p, date: fn.Params[0], ivParam: fn.Params[1], iv: iv, wd: int64(wd), vals: map[ssa.Value]int64{}}
				off, usesWd, why := ex.run(fn)
				if why != "" {
					bad = why
				}
				if usesWd {
					uses = true
					offs[wd] = off
				}
			}
			if !uses {
				continue
			}
			n++
			key := fmt.Sprintf("%s:%s:the weekday offset lands on a week boundary", core.FuncName(fn), names[iv])
			if bad != "" {
				c.Ob(rule, key, fn.Pos(), core.FuncName(fn), core.Undecided, "the day offset derived from the weekday could not be evaluated: "+bad)
				continue
			}
			start, end := true, true
			desc := ""
			for wd := 0; wd < 7; wd++ {
				off, ok := offs[wd]
				if !ok {
					start, end = false, false
					desc += fmt.Sprintf(" %s:none", weekdayName(wd))
					continue
				}
				desc += fmt.Sprintf(" %s:%+d", weekdayName(wd), off)
				land := ((int64(wd)+off)%7 + 7) % 7
				if !(off >= -6 && off <= 0 && land == 1) {
					start = false
				}
				if !(off >= 0 && off <= 6 && land == 0) {
					end = false
				}
			}
			switch {
			case start:
				c.Ob(rule, key, fn.Pos(), core.FuncName(fn), core.Discharged, "for every weekday the offset is within the week and lands on its Monday:"+desc)
			case end:
				c.Ob(rule, key, fn.Pos(), core.FuncName(fn), core.Discharged, "for every weekday the offset is within the week and lands on its Sunday:"+desc)
			default:
				c.Ob(rule, key, fn.Pos(), core.FuncName(fn), core.Violated, "the day offsets per weekday ("+desc+" ) neither all lead to the Monday of the date's own week nor all to its Sunday: a weekly period straddles a week boundary or does not contain its date")
			}
		}
	}
	c.Floor(rule, 1)
}

func weekdayName(wd int) string {
	return []string{"Sun", "Mon", "Tue", "Wed", "Thu", "Fri", "Sat"}[wd]
}

// wdExec executes a function of (date, interval) with a concrete weekday class
// and interval; everything else about the date is unknown.
type wdExec struct {
	p       *core.Prog
	date    *ssa.Parameter
	ivParam *ssa.Parameter
	iv, wd  int64
	vals    map[ssa.Value]int64
	usesWd  map[ssa.Value]bool
}

func (ex *wdExec) run(fn *ssa.Function) (off int64, usesWd bool, why string) {
	ex.usesWd = map[ssa.Value]bool{}
	var pred *ssa.BasicBlock
	b := fn.Blocks[0]
	for steps := 0; steps < 500; steps++ {
		for _, ins := range b.Instrs {
			v, ok := ins.(ssa.Value)
			if !ok {
				continue
			}
			if phi, ok := ins.(*ssa.Phi); ok {
				for i, pb := range b.Preds {
					if pb == pred {
						if x, ok := ex.get(phi.Edges[i]); ok {
							ex.vals[phi] = x
							ex.usesWd[phi] = ex.usesWd[core.Strip(phi.Edges[i])]
						}
					}
				}
				continue
			}
			ex.eval(v)
		}
		switch t := b.Instrs[len(b.Instrs)-1].(type) {
		case *ssa.If:
			cv, ok := ex.cond(t.Cond)
			if !ok {
				return 0, false, "" // a branch that does not depend on weekday or interval: this path is not about weeks
			}
			pred = b
			if cv {
				b = b.Succs[0]
			} else {
				b = b.Succs[1]
			}
		case *ssa.Jump:
			pred, b = b, b.Succs[0]
		case *ssa.Return:
			if len(t.Results) != 1 {
				return 0, false, ""
			}
			off, uses, ok, why := ex.dateOffset(t.Results[0], 0)
			if why != "" {
				return 0, true, why
			}
			if !ok {
				return 0, false, ""
			}
			return off, uses, ""
		default:
			return 0, false, ""
		}
	}
	return 0, false, "the control flow does not terminate within 500 steps"
}

// dateOffset: v is the function's date moved by a number of days: the date
// itself, x.AddDate(0, 0, n) of such a value, or the result of a sibling
// function of (date, interval) applied to the date.
func (ex *wdExec) dateOffset(v ssa.Value, depth int) (off int64, uses bool, ok bool, why string) {
	v = core.Strip(v)
	if depth > 4 {
		return 0, false, false, ""
	}
	if ex.isDate(v) {
		return 0, false, true, ""
	}
	call, isCall := v.(*ssa.Call)
	if !isCall {
		return 0, false, false, ""
	}
	callee := call.Call.StaticCallee()
	if callee == nil {
		return 0, false, false, ""
	}
	if callee.Name() == "AddDate" && callee.Pkg != nil && callee.Pkg.Pkg.Path() == "time" && len(call.Call.Args) == 4 {
		o, u, ok, why := ex.dateOffset(call.Call.Args[0], depth+1)
		if !ok || why != "" {
			return 0, u, false, why
		}
		for _, a := range call.Call.Args[1:3] {
			if x, ok := ex.get(a); !ok || x != 0 {
				return 0, false, false, ""
			}
		}
		d := core.Strip(call.Call.Args[3])
		x, known := ex.get(d)
		if !known {
			if u || ex.dependsOnWeekday(d, 0) {
				return 0, true, false, "the offset at " + ex.p.Pos(call.Pos()) + " depends on the weekday through an operation this rule does not evaluate"
			}
			return 0, false, false, ""
		}
		return o + x, u || ex.usesWd[d], true, ""
	}
	// a sibling: same shape, applied to the date itself
	if core.PkgPathOf(callee) == pkgDate && callee.Blocks != nil && len(callee.Params) == 2 && len(call.Call.Args) == 2 && isTimeType(callee.Params[0].Type()) && ex.isDate(call.Call.Args[0]) {
		if iv2, ok := ex.get(call.Call.Args[1]); ok {
			sub := &wdExec{p: ex.p, date: callee.Params[0], ivParam: callee.Params[1], iv: iv2, wd: ex.wd, vals: map[ssa.Value]int64{}}
			o, u, why := sub.run(callee)
			if why != "" {
				return 0, true, false, why
			}
			if !u {
				return 0, false, false, ""
			}
			return o, true, true, ""
		}
	}
	return 0, false, false, ""
}

func (ex *wdExec) isDate(v ssa.Value) bool {
	v = core.Strip(v)
	if v == ex.date {
		return true
	}
	// the parameter spilled to a local
	if ld, ok := v.(*ssa.UnOp); ok && ld.Op == token.MUL {
		if al, ok := ld.X.(*ssa.Alloc); ok {
			if st := core.StoresTo(al); len(st) == 1 && core.Strip(st[0].Val) == ex.date {
				return true
			}
		}
	}
	return false
}

func (ex *wdExec) dependsOnWeekday(v ssa.Value, depth int) bool {
	if depth > 10 {
		return false
	}
	v = core.Strip(v)
	if call, ok := v.(*ssa.Call); ok {
		if callee := call.Call.StaticCallee(); callee != nil && callee.Name() == "Weekday" && callee.Pkg != nil && callee.Pkg.Pkg.Path() == "time" {
			return true
		}
	}
	if ins, ok := v.(ssa.Instruction); ok {
		for _, op := range ins.Operands(nil) {
			if op != nil && *op != nil && ex.dependsOnWeekday(*op, depth+1) {
				return true
			}
		}
	}
	return false
}

func (ex *wdExec) get(v ssa.Value) (int64, bool) {
	v = core.Strip(v)
	if cst, ok := v.(*ssa.Const); ok {
		if cst.Value != nil && cst.Value.Kind() == constant.Int {
			return constant.Int64Val(cst.Value)
		}
		return 0, false
	}
	if v == ex.ivParam {
		return ex.iv, true
	}
	x, ok := ex.vals[v]
	return x, ok
}

func (ex *wdExec) eval(v ssa.Value) {
	set := func(x int64, uses bool) {
		ex.vals[v] = x
		ex.usesWd[v] = uses
	}
	switch x := v.(type) {
	case *ssa.Convert:
		if a, ok := ex.get(x.X); ok {
			set(a, ex.usesWd[core.Strip(x.X)])
		}
	case *ssa.ChangeType:
		if a, ok := ex.get(x.X); ok {
			set(a, ex.usesWd[core.Strip(x.X)])
		}
	case *ssa.UnOp:
		if x.Op == token.SUB {
			if a, ok := ex.get(x.X); ok {
				set(-a, ex.usesWd[core.Strip(x.X)])
			}
		}
	case *ssa.BinOp:
		a, ok1 := ex.get(x.X)
		b, ok2 := ex.get(x.Y)
		if !ok1 || !ok2 {
			return
		}
		uses := ex.usesWd[core.Strip(x.X)] || ex.usesWd[core.Strip(x.Y)]
		switch x.Op {
		case token.ADD:
			set(a+b, uses)
		case token.SUB:
			set(a-b, uses)
		case token.MUL:
			set(a*b, uses)
		case token.QUO:
			if b != 0 {
				set(a/b, uses)
			}
		case token.REM:
			if b != 0 {
				set(a%b, uses)
			}
		}
	case *ssa.Call:
		callee := x.Call.StaticCallee()
		if callee != nil && callee.Name() == "Weekday" && callee.Pkg != nil && callee.Pkg.Pkg.Path() == "time" && len(x.Call.Args) == 1 && ex.isDate(x.Call.Args[0]) {
			set(ex.wd, true)
		}
	}
}

func (ex *wdExec) cond(v ssa.Value) (bool, bool) {
	v = core.Strip(v)
	switch x := v.(type) {
	case *ssa.UnOp:
		if x.Op == token.NOT {
			r, ok := ex.cond(x.X)
			return !r, ok
		}
	case *ssa.BinOp:
		a, ok1 := ex.get(x.X)
		b, ok2 := ex.get(x.Y)
		if !ok1 || !ok2 {
			return false, false
		}
		switch x.Op {
		case token.EQL:
			return a == b, true
		case token.NEQ:
			return a != b, true
		case token.LSS:
			return a < b, true
		case token.LEQ:
			return a <= b, true
		case token.GTR:
			return a > b, true
		case token.GEQ:
			return a >= b, true
		}
	}
	return false, false
}
