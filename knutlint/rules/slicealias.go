package rules

import (
	"fmt"
	"go/types"

	"golang.org/x/tools/go/ssa"

	"knutlint/core"
)

// RuleKSliceAlias — two aliasing slips of Go slices, each of which makes one
// element's data show up in another's:
//
//	(shared base) inside a loop, `x := append(base, e…)` with a base that does
//	    not change in the loop and a result that is kept (stored in a map, a
//	    field, a slice, or captured): when base has spare capacity every
//	    iteration writes into the same backing array. Accepted: a base that is
//	    clipped (`base[:len(base):len(base)]`, slices.Clip), or that is the
//	    result of a call or a literal evaluated in that very iteration.
//	(element pointer) inside a loop that appends to a slice, the address of
//	    an element of that slice (`&s[i]`) is kept in a closure or stored: the
//	    next append may move the elements, the pointer then refers to the old
//	    array.
func RuleKSliceAlias(c *core.Ctx) {
	const rule = "K-slice-alias"
	p := c.P
	n, bad := 0, 0
	for _, fn := range p.SrcFuncs() {
		if !p.InModule(fn) {
			continue
		}
		loops := loopsOf(fn)
		innermost := func(b *ssa.BasicBlock) (*ssa.BasicBlock, map[*ssa.BasicBlock]bool) {
			var h *ssa.BasicBlock
			var body map[*ssa.BasicBlock]bool
			for hh, bb := range loops {
				if bb[b] && (body == nil || len(bb) < len(body)) {
					h, body = hh, bb
				}
			}
			return h, body
		}
		definedIn := func(v ssa.Value, body map[*ssa.BasicBlock]bool) bool {
			ins, ok := v.(ssa.Instruction)
			return ok && ins.Parent() == fn && body[ins.Block()]
		}
		kept := func(v ssa.Value) string {
			if v.Referrers() == nil {
				return ""
			}
			for _, r := range *v.Referrers() {
				switch x := r.(type) {
				case *ssa.MapUpdate:
					if x.Value == v {
						return "stored in a map"
					}
				case *ssa.Store:
					if x.Val == v {
						al, isAlloc := x.Addr.(*ssa.Alloc)
						if !isAlloc {
							return "stored in a field or element"
						}
						// a local variable that a function literal captures
						if al.Referrers() != nil {
							for _, ar := range *al.Referrers() {
								if _, ok := ar.(*ssa.MakeClosure); ok {
									return "captured by a function literal"
								}
							}
						}
					}
				case *ssa.MakeClosure:
					return "captured by a function literal"
				case *ssa.MakeInterface:
					return "boxed and passed on"
				}
			}
			return ""
		}
		core.EachInstr(fn, func(ins ssa.Instruction) {
			call, ok := ins.(*ssa.Call)
			if !ok {
				return
			}
			bi, ok := call.Call.Value.(*ssa.Builtin)
			if !ok || bi.Name() != "append" || len(call.Call.Args) != 2 {
				return
			}
			_, body := innermost(call.Block())
			if body == nil {
				return
			}
			base := call.Call.Args[0]
			// nil / empty base: a fresh array every time
			if cst, ok := base.(*ssa.Const); ok && cst.Value == nil {
				return
			}
			if definedIn(base, body) {
				return // computed in this iteration (a phi of the loop, a call, a literal, a clipped slice)
			}
			// loop-invariant base: is the result kept, and does it not flow back into the base?
			how := kept(call)
			if how == "" {
				return
			}
			n++
			// clipped base: a three-index slice whose max is its high bound
			if sl, ok := base.(*ssa.Slice); ok && sl.Max != nil {
				c.Ob(rule, fmt.Sprintf("%s:append to a loop-invariant base %d", core.FuncName(fn), n), call.Pos(), core.FuncName(fn), core.Discharged, "the base is clipped: append allocates")
				return
			}
			bad++
			c.Ob(rule, fmt.Sprintf("%s:append to a loop-invariant base %d", core.FuncName(fn), n), call.Pos(), core.FuncName(fn), core.Violated,
				"every iteration appends to the same slice "+describeValue(p, base)+" and keeps the result ("+how+"): when that slice has spare capacity the results share one backing array and the last iteration's elements show up in all of them")
		})
		// (element pointer)
		core.EachInstr(fn, func(ins ssa.Instruction) {
			ia, ok := ins.(*ssa.IndexAddr)
			if !ok {
				return
			}
			if _, isSlice := ia.X.Type().Underlying().(*types.Slice); !isSlice {
				return
			}
			_, body := innermost(ia.Block())
			if body == nil {
				// a function literal that appends to a captured slice is the body of an
				// iteration its caller runs (cpr.ForEach(ch, func(x) { s = append(s, …) }))
				if fv, ok := sliceVar(ia.X).(*ssa.FreeVar); !ok || fv == nil || fn.Parent() == nil {
					return
				}
				body = map[*ssa.BasicBlock]bool{}
				for _, b := range fn.Blocks {
					body[b] = true
				}
			}
			how := kept(ia)
			if how == "" || how == "stored in a field or element" {
				// a store *through* the address is the normal use of &s[i]
				if how != "captured by a function literal" {
					return
				}
			}
			// is the same slice variable appended to in this loop?
			root := sliceVar(ia.X)
			if root == nil {
				return
			}
			grows := false
			for b := range body {
				for _, i2 := range b.Instrs {
					cl, ok := i2.(*ssa.Call)
					if !ok {
						continue
					}
					if bi, ok := cl.Call.Value.(*ssa.Builtin); ok && bi.Name() == "append" && sliceVar(cl.Call.Args[0]) == root {
						grows = true
					}
				}
			}
			if !grows {
				return
			}
			n++
			bad++
			c.Ob(rule, fmt.Sprintf("%s:pointer to an element of a growing slice %d", core.FuncName(fn), n), ia.Pos(), core.FuncName(fn), core.Violated,
				"the address of an element of "+describeValue(p, ia.X)+" is "+how+" inside the loop that appends to that slice: the next append may move the elements, and what is written through the pointer afterwards is lost")
		})
	}
	c.Ob(rule, "module:slices appended to in loops", 0, "", core.Discharged, fmt.Sprintf("%d appends to loop-invariant bases / element pointers examined, %d reported", n, bad))
	c.Floor(rule, 1)
}

// sliceVar: the variable (local cell, captured cell or loop phi) a slice value
// is read from.
func sliceVar(v ssa.Value) ssa.Value {
	v = core.Strip(v)
	for i := 0; i < 6; i++ {
		switch x := v.(type) {
		case *ssa.UnOp:
			return x.X
		case *ssa.Phi:
			return x
		case *ssa.Call:
			if bi, ok := x.Call.Value.(*ssa.Builtin); ok && bi.Name() == "append" {
				v = core.Strip(x.Call.Args[0])
				continue
			}
			return nil
		case *ssa.Slice:
			v = core.Strip(x.X)
			continue
		}
		return nil
	}
	return nil
}
