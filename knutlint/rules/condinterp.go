package rules

import (
	"fmt"
	"go/constant"
	"go/token"
	"go/types"
	"sort"

	"golang.org/x/tools/go/ssa"

	"knutlint/core"
)

// condInterp evaluates a branch condition as a boolean function of atoms:
//
//	sign atoms   the sign (-1, 0, +1) of a decimal value, or of the difference
//	             of two decimal values (x.Equal(y), x.Cmp(y), x.LessThan(y) …)
//	bool atoms   facts this analysis does not look into but knows the kind of:
//	             equality of two *Commodity pointers, Account.IsAL()
//
// Boolean helpers of the module (functions and local closures) are executed on
// the atoms. Anything else makes the condition "unreviewed".
type condInterp struct {
	p       *core.Prog
	signs   map[string]int
	bools   map[string]bool
	order   []string // atoms in order of discovery; "s:" sign, "b:" bool
	desc    map[string]string
	unknown string
	fresh   bool // an atom was discovered during the last evaluation
	// extra classifies a leaf this interpreter does not know as a boolean atom
	// of the calling rule (nil: none). For x == y / x != y on pointers it is
	// asked about the comparison as if it were ==.
	extra func(v ssa.Value) (key, desc string, ok bool)
}

func newCondInterp(p *core.Prog) *condInterp {
	return &condInterp{p: p, signs: map[string]int{}, bools: map[string]bool{}, desc: map[string]string{}}
}

func valueID(v ssa.Value) string {
	v = core.Strip(v)
	// loads of the same address are the same subject
	if ld, ok := v.(*ssa.UnOp); ok && ld.Op == token.MUL {
		return "*" + valueID(ld.X)
	}
	if fa, ok := v.(*ssa.FieldAddr); ok {
		return fmt.Sprintf("%s.%d", valueID(fa.X), fa.Field)
	}
	if f, ok := v.(*ssa.Field); ok {
		return fmt.Sprintf("%s.%d", valueID(f.X), f.Field)
	}
	return fmt.Sprintf("%p", v)
}

func (ci *condInterp) sign(key, desc string) int {
	k := "s:" + key
	if _, ok := ci.signs[k]; !ok {
		ci.signs[k] = 0
		ci.order = append(ci.order, k)
		ci.desc[k] = desc
		ci.fresh = true
	}
	return ci.signs[k]
}

func (ci *condInterp) boolean(key, desc string) bool {
	k := "b:" + key
	if _, ok := ci.bools[k]; !ok {
		ci.bools[k] = false
		ci.order = append(ci.order, k)
		ci.desc[k] = desc
		ci.fresh = true
	}
	return ci.bools[k]
}

func (ci *condInterp) fail(what string) {
	if ci.unknown == "" {
		ci.unknown = what
	}
}

// decimalSign: the sign atom a decimal call refers to.
func (ci *condInterp) decimalSign(call *ssa.Call) (int, bool) {
	args := call.Call.Args
	if len(args) == 1 || (len(args) == 2 && isDecimalZero(args[1])) {
		return ci.sign(valueID(args[0]), "the sign of a decimal"), true
	}
	if len(args) == 2 {
		return ci.sign(valueID(args[0])+"-"+valueID(args[1]), "the sign of the difference of two decimals"), true
	}
	return 0, false
}

func (ci *condInterp) evalInt(v ssa.Value) (int64, bool) {
	v = core.Strip(v)
	switch x := v.(type) {
	case *ssa.Const:
		if x.Value != nil && x.Value.Kind() == constant.Int {
			return constant.Int64Val(x.Value)
		}
	case *ssa.Convert:
		return ci.evalInt(x.X)
	case *ssa.Call:
		callee := x.Call.StaticCallee()
		if callee != nil && core.PkgPathOf(callee) == pkgDecimal && (callee.Name() == "Sign" || callee.Name() == "Cmp") {
			if s, ok := ci.decimalSign(x); ok {
				return int64(s), true
			}
		}
	}
	ci.fail("an integer that is not a constant, Sign() or Cmp() of a decimal (" + describeValue(ci.p, v) + ")")
	return 0, false
}

func (ci *condInterp) evalBool(v ssa.Value, cur, pred *ssa.BasicBlock, depth int) bool {
	if depth > 24 || ci.unknown != "" {
		ci.fail("a condition nested too deeply")
		return false
	}
	v = core.Strip(v)
	switch x := v.(type) {
	case *ssa.Const:
		if x.Value != nil && x.Value.Kind() == constant.Bool {
			return constant.BoolVal(x.Value)
		}
	case *ssa.UnOp:
		if x.Op == token.NOT {
			return !ci.evalBool(x.X, cur, pred, depth+1)
		}
	case *ssa.Phi:
		if x.Block() == cur && pred != nil {
			for i, pb := range cur.Preds {
				if pb == pred {
					return ci.evalBool(x.Edges[i], pred, nil, depth+1)
				}
			}
		}
		ci.fail("a merged condition")
		return false
	case *ssa.BinOp:
		switch x.Op {
		case token.EQL, token.NEQ:
			if isPtrToNamed(x.X.Type(), "Commodity") && isPtrToNamed(x.Y.Type(), "Commodity") {
				a, b := valueID(x.X), valueID(x.Y)
				if a > b {
					a, b = b, a
				}
				r := ci.boolean("ptr:"+a+"="+b, "equality of two commodities")
				if x.Op == token.NEQ {
					return !r
				}
				return r
			}
			if _, isPtr := x.X.Type().Underlying().(*types.Pointer); isPtr || core.IsNilConst(x.X) || core.IsNilConst(x.Y) {
				if ci.extra != nil {
					if key, desc, ok := ci.extra(x); ok {
						r := ci.boolean(key, desc)
						if x.Op == token.NEQ {
							return !r
						}
						return r
					}
				}
				ci.fail("a comparison of " + describeValue(ci.p, x.X) + " with " + describeValue(ci.p, x.Y))
				return false
			}
			fallthrough
		case token.LSS, token.LEQ, token.GTR, token.GEQ:
			a, ok1 := ci.evalInt(x.X)
			b, ok2 := ci.evalInt(x.Y)
			if !ok1 || !ok2 {
				return false
			}
			switch x.Op {
			case token.EQL:
				return a == b
			case token.NEQ:
				return a != b
			case token.LSS:
				return a < b
			case token.LEQ:
				return a <= b
			case token.GTR:
				return a > b
			default:
				return a >= b
			}
		case token.AND:
			a := ci.evalBool(x.X, cur, pred, depth+1)
			b := ci.evalBool(x.Y, cur, pred, depth+1)
			return a && b
		case token.OR:
			a := ci.evalBool(x.X, cur, pred, depth+1)
			b := ci.evalBool(x.Y, cur, pred, depth+1)
			return a || b
		}
	case *ssa.Call:
		callee := x.Call.StaticCallee()
		if callee == nil {
			callee = core.FuncValue(x.Call.Value)
		}
		if callee == nil {
			if ld, ok := x.Call.Value.(*ssa.UnOp); ok {
				if al, ok := ld.X.(*ssa.Alloc); ok {
					for _, st := range core.AllStoresToCell(al) {
						if f := core.FuncValue(st.Val); f != nil {
							callee = f
						}
					}
				}
			}
		}
		if callee == nil {
			callee = capturedFunc(x.Call.Value)
		}
		if callee == nil {
			ci.fail("a dynamic call")
			return false
		}
		switch {
		case core.PkgPathOf(callee) == pkgDecimal && callee.Signature.Recv() != nil:
			s, ok := ci.decimalSign(x)
			if !ok {
				break
			}
			switch callee.Name() {
			case "IsZero", "Equal", "Equals":
				return s == 0
			case "IsPositive", "GreaterThan":
				return s > 0
			case "IsNegative", "LessThan":
				return s < 0
			case "GreaterThanOrEqual":
				return s >= 0
			case "LessThanOrEqual":
				return s <= 0
			}
			ci.fail("decimal." + callee.Name())
			return false
		case core.PkgPathOf(callee) == pkgAccount && callee.Name() == "IsAL" && len(x.Call.Args) == 1:
			return ci.boolean("isAL:"+valueID(x.Call.Args[0]), "Account.IsAL()")
		}
		if ci.extra != nil {
			if key, desc, ok := ci.extra(x); ok {
				return ci.boolean(key, desc)
			}
		}
		if ci.p.InModule(callee) && callee.Blocks != nil && onlyBoolResults(callee) && depth < 6 {
			return ci.run(callee, depth+1)
		}
		if ci.extra != nil {
			if key, desc, ok := ci.extra(x); ok {
				return ci.boolean(key, desc)
			}
		}
		ci.fail("a call of " + core.FuncName(callee))
		return false
	}
	if ci.extra != nil {
		if key, desc, ok := ci.extra(v); ok {
			return ci.boolean(key, desc)
		}
	}
	ci.fail("a condition of the form " + describeValue(ci.p, v))
	return false
}

// run executes a boolean function of the module on the atoms.
func (ci *condInterp) run(fn *ssa.Function, depth int) bool {
	var pred *ssa.BasicBlock
	b := fn.Blocks[0]
	for steps := 0; steps < 300 && ci.unknown == ""; steps++ {
		switch t := b.Instrs[len(b.Instrs)-1].(type) {
		case *ssa.If:
			v := ci.evalBool(t.Cond, b, pred, depth+1)
			pred = b
			if v {
				b = b.Succs[0]
			} else {
				b = b.Succs[1]
			}
		case *ssa.Jump:
			pred, b = b, b.Succs[0]
		case *ssa.Return:
			if len(t.Results) != 1 {
				ci.fail(core.FuncName(fn) + " returns several values")
				return false
			}
			return ci.evalBool(t.Results[0], b, pred, depth+1)
		default:
			ci.fail(core.FuncName(fn) + " can panic")
			return false
		}
	}
	ci.fail(core.FuncName(fn) + " does not return within 300 steps")
	return false
}

// table evaluates cond for every assignment of the atoms it depends on.
// The result maps an assignment (values in the order of ci.order) to the
// truth value.
func (ci *condInterp) table(cond ssa.Value, cur *ssa.BasicBlock) (map[string]bool, bool) {
	for round := 0; round < 6; round++ {
		res := map[string]bool{}
		ci.fresh = false
		n := len(ci.order)
		var rec func(i int, key string) bool
		rec = func(i int, key string) bool {
			if i == n {
				v := ci.evalBool(cond, cur, nil, 0)
				if ci.unknown != "" {
					return false
				}
				res[key] = v
				return true
			}
			k := ci.order[i]
			if k[0] == 's' {
				for _, s := range []int{-1, 0, 1} {
					ci.signs[k] = s
					if !rec(i+1, key+fmt.Sprintf("%+d,", s)) {
						return false
					}
				}
				return true
			}
			for _, bv := range []bool{false, true} {
				ci.bools[k] = bv
				t := "F,"
				if bv {
					t = "T,"
				}
				if !rec(i+1, key+t) {
					return false
				}
			}
			return true
		}
		if !rec(0, "") {
			return nil, false
		}
		if !ci.fresh && len(ci.order) == n {
			return res, true
		}
	}
	ci.fail("too many atoms")
	return nil, false
}

// signSymmetric: no sign atom is treated differently for -1 and +1.
func (ci *condInterp) signSymmetric(tbl map[string]bool) string {
	for i, atom := range ci.order {
		if atom[0] != 's' {
			continue
		}
		for k := range tbl {
			parts := splitAssign(k)
			if parts[i] != "-1" {
				continue
			}
			q := append([]string{}, parts...)
			q[i] = "+1"
			if tbl[k] != tbl[joinAssign(q)] {
				return "negative and positive values of " + ci.desc[atom] + " are treated differently"
			}
		}
	}
	return ""
}

// skipOnlyForZero decides, for the table of "the element is skipped": every
// sign atom matters only through being zero — the outcome is the same for -1
// and +1, and a non-zero value that is skipped is also skipped when zero.
func (ci *condInterp) skipOnlyForZero(skip map[string]bool) string {
	var keys []string
	for k := range skip {
		keys = append(keys, k)
	}
	sort.Strings(keys)
	for i, atom := range ci.order {
		if atom[0] != 's' {
			continue
		}
		for _, k := range keys {
			parts := splitAssign(k)
			if parts[i] != "-1" {
				continue
			}
			with := func(v string) bool {
				q := append([]string{}, parts...)
				q[i] = v
				return skip[joinAssign(q)]
			}
			neg, zero, pos := with("-1"), with("+0"), with("+1")
			switch {
			case neg && !pos:
				return "negative values of " + ci.desc[atom] + " are skipped, positive ones are not"
			case pos && !neg:
				return "positive values of " + ci.desc[atom] + " are skipped, negative ones are not"
			case neg && pos && !zero:
				return "non-zero values of " + ci.desc[atom] + " are skipped, zero is not"
			}
		}
	}
	return ""
}

func splitAssign(k string) []string {
	var res []string
	cur := ""
	for _, ch := range k {
		if ch == ',' {
			res = append(res, cur)
			cur = ""
			continue
		}
		cur += string(ch)
	}
	return res
}

func joinAssign(parts []string) string {
	s := ""
	for _, p := range parts {
		s += p + ","
	}
	return s
}

// capturedFunc: the function a closure calls through a captured variable
// (`helper := func(…) bool {…}` declared in the enclosing function).
func capturedFunc(v ssa.Value) *ssa.Function {
	if ld, ok := v.(*ssa.UnOp); ok && ld.Op == token.MUL {
		v = ld.X
	}
	fv, ok := v.(*ssa.FreeVar)
	if !ok {
		return nil
	}
	fn := fv.Parent()
	idx := -1
	for i, f := range fn.FreeVars {
		if f == fv {
			idx = i
		}
	}
	parent := fn.Parent()
	if idx < 0 || parent == nil {
		return nil
	}
	var res *ssa.Function
	core.EachInstr(parent, func(ins ssa.Instruction) {
		mc, ok := ins.(*ssa.MakeClosure)
		if !ok || mc.Fn != ssa.Value(fn) || idx >= len(mc.Bindings) {
			return
		}
		b := mc.Bindings[idx]
		if f := core.FuncValue(b); f != nil {
			res = f
			return
		}
		if al, ok := b.(*ssa.Alloc); ok {
			for _, st := range core.AllStoresToCell(al) {
				if f := core.FuncValue(st.Val); f != nil {
					res = f
				}
			}
		}
		// captured one level further up
		if f := capturedFunc(b); f != nil {
			res = f
		}
	})
	return res
}
