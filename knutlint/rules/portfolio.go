package rules

import (
	"fmt"
	"go/token"
	"go/types"

	"golang.org/x/tools/go/ssa"

	"knutlint/core"
)

// accumulates reports whether the map update mu adds to the entry it
// replaces: its value is  m[k] + x  (or x + m[k]) with the same map and key.
func accumulates(p *core.Prog, mu *ssa.MapUpdate) bool {
	bo, ok := mu.Value.(*ssa.BinOp)
	if !ok || (bo.Op != token.ADD && bo.Op != token.SUB) {
		return false
	}
	isOld := func(v ssa.Value) bool {
		lk, ok := v.(*ssa.Lookup)
		if !ok {
			return false
		}
		return p.SameExpr(lk.X, mu.Map) && p.SameExpr(lk.Index, mu.Key)
	}
	if isOld(bo.X) {
		return true
	}
	return bo.Op == token.ADD && isOld(bo.Y)
}

// RuleKWeightsSum — the weights report adds: every update of a node's
// Weights entry (Report.Add for the leaves, PropagateWeights for the groups)
// adds to the entry it replaces, and the map itself is only ever replaced by
// an empty one under a test of the same node. With an assignment instead of
// an addition the second commodity mapped to a row replaces the first, and a
// group is no longer the sum of its members. The divisor of the weights is
// the sum, over the same commodities and the same map (Performance.V1), of
// the dividends: the top level sums to one.
func RuleKWeightsSum(c *core.Ctx) {
	const rule = "K-weights-sum"
	p := c.P
	weightsF := p.Field(pkgWeights, "Value", "Weights")
	v1 := p.Field(pkgJournal, "Performance", "V1")
	add := p.Func(pkgWeights, "Report.Add")
	valueT := p.NamedType(pkgWeights, "Value")
	if weightsF == nil || v1 == nil || add == nil {
		c.Anchor(rule, "weights.Value.Weights / journal.Performance.V1 / weights.Report.Add")
		return
	}
	n := 0
	for _, fn := range p.SrcFuncs() {
		core.EachInstr(fn, func(ins ssa.Instruction) {
			switch x := ins.(type) {
			case *ssa.MapUpdate:
				if f, _ := containerRoot(x.Map); f != weightsF {
					return
				}
				n++
				key := core.FuncName(fn) + ":update of Value.Weights adds"
				if accumulates(p, x) {
					// and nothing but loop tests and the lazy initialisation's nil test decides
					// whether the addition happens
					skip := ""
					for _, b := range fn.Blocks {
						iff, ok := b.Instrs[len(b.Instrs)-1].(*ssa.If)
						if !ok {
							continue
						}
						if ctl, _ := core.Controls(b, x.Block()); !ctl || core.IsLoopExitTest(b, x.Block()) || isLoopHeaderOf(fn, b, x.Block()) {
							continue
						}
						if bo, ok := iff.Cond.(*ssa.BinOp); ok && (core.IsNilConst(bo.X) || core.IsNilConst(bo.Y)) {
							continue
						}
						if ex, ok := iff.Cond.(*ssa.Extract); ok {
							if _, isNext := ex.Tuple.(*ssa.Next); isNext {
								continue // range over a map
							}
						}
						skip = describeValue(p, iff.Cond)
					}
					if skip != "" {
						c.Ob(rule, key, x.Pos(), core.FuncName(fn), core.Violated, "whether a weight is added to the node depends on "+skip+": some members are left out of their group's weight, so groups are not the sum of their members")
						return
					}
					c.Ob(rule, key, x.Pos(), core.FuncName(fn), core.Discharged, "m[k] = m[k] + x on the same map and key")
				} else {
					c.Ob(rule, key, x.Pos(), core.FuncName(fn), core.Violated, "an entry of a node's Weights is overwritten, not added to: two commodities (or two children) mapped to the same row and date leave only the last one, so a group's weight is not the sum of its members and the top level does not reach 100%")
				}
			case *ssa.Store:
				var base ssa.Value
				what := ""
				if fa, ok := x.Addr.(*ssa.FieldAddr); ok && core.FieldOf(fa) == weightsF {
					if al, ok := fa.X.(*ssa.Alloc); ok && !al.Heap {
						return // building a fresh Value in a local; its store into a node is judged below
					}
					base, what = fa.X, "Value.Weights"
				} else if pt, ok := x.Addr.Type().Underlying().(*types.Pointer); ok && valueT != nil && isNamed(pt.Elem(), valueT) {
					if _, isAlloc := x.Addr.(*ssa.Alloc); isAlloc {
						return
					}
					base, what = x.Addr, "a whole weights.Value"
				}
				if base == nil {
					return
				}
				n++
				key := core.FuncName(fn) + ":store to " + what
				fresh := false
				switch v := x.Val.(type) {
				case *ssa.MakeMap:
					fresh = true
				case *ssa.UnOp: // load of a composite literal built in a local
					_, fresh = v.X.(*ssa.Alloc)
				}
				guarded := false
				for _, b := range fn.Blocks {
					iff, ok := b.Instrs[len(b.Instrs)-1].(*ssa.If)
					if !ok {
						continue
					}
					if ctl, _ := core.Controls(b, x.Block()); !ctl {
						continue
					}
					for v := range originSet(p, iff.Cond, 0) {
						if fa2, ok := v.(*ssa.FieldAddr); ok && (p.SameExpr(fa2.X, base) || p.SameExpr(fa2, base)) {
							guarded = true
						}
					}
				}
				if fresh && guarded {
					c.Ob(rule, key, x.Pos(), core.FuncName(fn), core.Discharged, "replaced by an empty value under a test of the same node (lazy initialisation)")
				} else {
					c.Ob(rule, key, x.Pos(), core.FuncName(fn), core.Violated, "a node's Weights map is replaced outside a lazy initialisation: weights already added to the node are lost")
				}
			}
		})
	}
	// the call of Report.Add: w = V1[com] / total, total = sum of V1[com'] over the same slice
	for _, fn := range p.SrcFuncs() {
		if core.PkgPathOf(fn) != pkgWeights {
			continue
		}
		core.EachInstr(fn, func(ins ssa.Instruction) {
			call, ok := ins.(*ssa.Call)
			if !ok || call.Call.StaticCallee() != add {
				return
			}
			n++
			key := core.FuncName(fn) + ":Report.Add receives value/total over the same commodities"
			args := call.Call.Args
			w := args[len(args)-1]
			bo, ok := w.(*ssa.BinOp)
			if !ok || bo.Op != token.QUO {
				c.Ob(rule, key, call.Pos(), core.FuncName(fn), core.Violated, "the weight passed to Report.Add is not a quotient value/total: "+describeValue(p, w))
				return
			}
			num, okN := bo.X.(*ssa.Lookup)
			if !okN {
				c.Ob(rule, key, call.Pos(), core.FuncName(fn), core.Violated, "the dividend is not an entry of Performance.V1: "+describeValue(p, bo.X))
				return
			}
			fN, _ := containerRoot(num.X)
			rangedN := rangedSliceOfKey(num.Index)
			// the divisor: a phi accumulating lookups of the same map over the same slice
			okD := false
			why := "the divisor is not a loop-carried sum"
			seen := map[ssa.Value]bool{}
			var visit func(v ssa.Value)
			visit = func(v ssa.Value) {
				if seen[v] {
					return
				}
				seen[v] = true
				switch x := v.(type) {
				case *ssa.Phi:
					for _, e := range x.Edges {
						visit(e)
					}
				case *ssa.BinOp:
					if x.Op != token.ADD {
						why = "the divisor is built with " + x.Op.String()
						return
					}
					visit(x.X)
					if lk, ok := x.Y.(*ssa.Lookup); ok {
						fD, _ := containerRoot(lk.X)
						rangedD := rangedSliceOfKey(lk.Index)
						switch {
						case fD != fN || fD != v1:
							why = "the divisor sums a different map than the dividend comes from"
						case rangedD == nil || rangedN == nil || !p.SameExpr(rangedD, rangedN):
							why = "the divisor sums over a different collection of commodities than the weights are computed for"
						default:
							okD = true
						}
					} else {
						why = "the divisor adds " + describeValue(p, x.Y)
					}
				}
			}
			visit(bo.Y)
			// or: the divisor is computed by a helper sum(m, keys) = Σ m[k], k ∈ keys
			if call2, ok := bo.Y.(*ssa.Call); ok && !okD {
				if mi, ki, ok := sumHelperShape(p, call2.Call.StaticCallee()); ok && mi < len(call2.Call.Args) && ki < len(call2.Call.Args) {
					fD, _ := containerRoot(call2.Call.Args[mi])
					switch {
					case fD != fN || fD != v1:
						why = "the divisor sums a different map than the dividend comes from"
					case rangedN == nil || !p.SameExpr(call2.Call.Args[ki], rangedN):
						why = "the divisor sums over a different collection of commodities than the weights are computed for"
					default:
						okD = true
					}
				}
			}
			if okD {
				c.Ob(rule, key, call.Pos(), core.FuncName(fn), core.Discharged, "dividend V1[com], divisor the sum of V1 over the same sorted commodities")
			} else {
				c.Ob(rule, key, call.Pos(), core.FuncName(fn), core.Violated, why+": the weights of a date do not sum to 100%")
			}
		})
	}
	c.Floor(rule, 5)
}

// rangedSliceOfKey: key is the element &s[i] of a range over slice s → s.
func rangedSliceOfKey(key ssa.Value) ssa.Value {
	ld, ok := core.Strip(key).(*ssa.UnOp)
	if !ok || ld.Op != token.MUL {
		return nil
	}
	ia, ok := ld.X.(*ssa.IndexAddr)
	if !ok {
		return nil
	}
	return ia.X
}

// RuleKTransferFresh — an accumulator that is transferred additively into a
// longer-lived one starts empty before every transfer. A "transfer" is a
// module function with a map parameter that ranges over it and adds each
// entry to another map (performance.split). At each call inside a processor
// callback the transferred map must be a variable of that callback invocation
// (zero on entry), or be reset on every path from the callback's entry to the
// call. A map that outlives the invocation is transferred again together
// with the next transaction's flows: flows are counted twice and a period
// with only external flows no longer returns 0%.
func RuleKTransferFresh(c *core.Ctx) {
	const rule = "K-transfer-fresh"
	p := c.P
	// discover the transfer functions
	transfers := map[*ssa.Function]int{}
	for _, fn := range p.SrcFuncs() {
		if core.PkgPathOf(fn) != pkgPerformance || fn.Parent() != nil {
			continue
		}
		for i, prm := range fn.Params {
			if _, ok := prm.Type().Underlying().(*types.Map); !ok {
				continue
			}
			// range over prm …
			var rng *ssa.Range
			for _, r := range *prm.Referrers() {
				if x, ok := r.(*ssa.Range); ok {
					rng = x
				}
			}
			if rng == nil {
				continue
			}
			// … whose body adds into another map
			adds := false
			core.EachInstr(fn, func(ins ssa.Instruction) {
				if mu, ok := ins.(*ssa.MapUpdate); ok && accumulates(p, mu) {
					for v := range originSet(p, mu.Value, 0) {
						if ex, ok := v.(*ssa.Extract); ok {
							if nx, ok := ex.Tuple.(*ssa.Next); ok && nx.Iter == rng {
								adds = true
							}
						}
					}
				}
			})
			if adds {
				transfers[fn] = i
			}
		}
	}
	if len(transfers) == 0 {
		c.Anchor(rule, "an additive transfer function (performance.split)")
		return
	}
	n := 0
	for _, fn := range p.SrcFuncs() {
		if !p.InModule(fn) {
			continue
		}
		core.EachInstr(fn, func(ins ssa.Instruction) {
			call, ok := ins.(*ssa.Call)
			if !ok {
				return
			}
			idx, ok := transfers[call.Call.StaticCallee()]
			if !ok || fn.Parent() == nil {
				return
			}
			n++
			arg := call.Call.Args[idx]
			key := fmt.Sprintf("%s:map transferred by %s into %s starts empty", core.FuncName(fn), call.Call.StaticCallee().Name(), describeValue(p, call.Call.Args[(idx+1)%len(call.Call.Args)]))
			if freshMapResult(p, arg, 0) {
				c.Ob(rule, key, call.Pos(), core.FuncName(fn), core.Discharged, "the map is built anew by a helper for this invocation (a local of the helper, returned)")
				return
			}
			// a local that is assigned the helper's fresh result before the transfer
			if ld0, ok := arg.(*ssa.UnOp); ok && ld0.Op == token.MUL {
				if al, ok := ld0.X.(*ssa.Alloc); ok && al.Parent() == fn {
					all, any := true, false
					for _, st := range core.AllStoresToCell(al) {
						any = true
						if !freshMapResult(p, st.Val, 0) && !core.IsNilConst(st.Val) {
							all = false
						}
					}
					if all && any {
						c.Ob(rule, key, call.Pos(), core.FuncName(fn), core.Discharged, "the map is a variable of this invocation, assigned only maps built anew for it")
						return
					}
				}
			}
			ld, isLoad := arg.(*ssa.UnOp)
			if !isLoad || ld.Op != token.MUL {
				c.Ob(rule, key, call.Pos(), core.FuncName(fn), core.Undecided, "the transferred map is not read from a variable: "+describeValue(p, arg))
				return
			}
			switch cell := ld.X.(type) {
			case *ssa.Alloc:
				if cell.Parent() == fn {
					c.Ob(rule, key, call.Pos(), core.FuncName(fn), core.Discharged, "the map is a variable of this invocation of the callback (nil on entry)")
					return
				}
			case *ssa.FreeVar:
				// reset on every path: a store of nil / a new map to the cell that dominates the call
				for _, st := range core.StoresTo(cell) {
					if st.Parent() != fn {
						continue
					}
					_, isMake := st.Val.(*ssa.MakeMap)
					if (isMake || core.IsNilConst(st.Val)) && (st.Block().Dominates(call.Block())) && !accumulatedBetween(fn, st, call, cell) {
						c.Ob(rule, key, call.Pos(), core.FuncName(fn), core.Discharged, "the captured map is reset in this callback before anything is added to it")
						return
					}
				}
				c.Ob(rule, key, call.Pos(), core.FuncName(fn), core.Violated, "the map outlives the callback invocation (captured variable "+cell.Name()+") and is not reset before it is filled: what an earlier transaction of the day added is transferred again, so its flows are counted twice")
				return
			}
			c.Ob(rule, key, call.Pos(), core.FuncName(fn), core.Undecided, "the transferred map lives in "+describeValue(p, ld.X))
		})
	}
	c.Floor(rule, 2)
}

// freshMapResult: v is a map built anew by the call that yields it — the
// (extracted) result of a module function all of whose returns hand back, at
// that position, a map that is a local variable of the function (nil on
// entry), a make, or nil.
func freshMapResult(p *core.Prog, v ssa.Value, depth int) bool {
	if depth > 2 {
		return false
	}
	idx := 0
	var call *ssa.Call
	switch x := v.(type) {
	case *ssa.Extract:
		c, ok := x.Tuple.(*ssa.Call)
		if !ok {
			return false
		}
		call, idx = c, x.Index
	case *ssa.Call:
		call = x
	default:
		return false
	}
	callee := call.Call.StaticCallee()
	if callee == nil || callee.Blocks == nil || !p.InModule(callee) {
		return false
	}
	ok, any := true, false
	core.EachInstr(callee, func(ins ssa.Instruction) {
		ret, isRet := ins.(*ssa.Return)
		if !isRet || idx >= len(ret.Results) {
			return
		}
		any = true
		var fresh func(r ssa.Value, d int) bool
		fresh = func(r ssa.Value, d int) bool {
			if d > 4 {
				return false
			}
			switch y := r.(type) {
			case *ssa.MakeMap:
				return true
			case *ssa.Const:
				return y.Value == nil
			case *ssa.Phi:
				for _, e := range y.Edges {
					if !fresh(e, d+1) {
						return false
					}
				}
				return true
			case *ssa.UnOp:
				if al, isAlloc := y.X.(*ssa.Alloc); isAlloc && y.Op == token.MUL && al.Parent() == callee {
					return true // a local of the callee: nil on entry of every call
				}
			case *ssa.Extract, *ssa.Call:
				return freshMapResult(p, r, depth+1)
			}
			return false
		}
		if !fresh(ret.Results[idx], 0) {
			ok = false
		}
	})
	return ok && any
}

// accumulatedBetween: a use of the cell other than the reset store st occurs
// in a block that can reach st's block (i.e. before the reset).
func accumulatedBetween(fn *ssa.Function, st *ssa.Store, call *ssa.Call, cell ssa.Value) bool {
	for _, r := range *cell.Referrers() {
		if r == st || r.Parent() != fn || r == ssa.Instruction(call) {
			continue
		}
		if r.Block() != st.Block() && core.BlockReaches(r.Block(), st.Block(), nil) {
			return true
		}
		if r.Block() == st.Block() {
			for _, i := range st.Block().Instrs {
				if i == r {
					return true
				}
				if i == ssa.Instruction(st) {
					break
				}
			}
		}
	}
	return false
}


// sumHelperShape: fn(m map[K]float64, keys []K) float64 returns the sum of
// m[k] over the elements k of keys — the indices of those two parameters.
func sumHelperShape(p *core.Prog, fn *ssa.Function) (mapParam, keysParam int, ok bool) {
	if fn == nil || fn.Blocks == nil || !p.InModule(fn) {
		return 0, 0, false
	}
	idx := func(v ssa.Value) int {
		for i, q := range fn.Params {
			if ssa.Value(q) == v {
				return i
			}
		}
		return -1
	}
	mapParam, keysParam = -1, -1
	good := true
	nret := 0
	core.EachInstr(fn, func(ins ssa.Instruction) {
		ret, isRet := ins.(*ssa.Return)
		if !isRet || len(ret.Results) != 1 {
			return
		}
		nret++
		seen := map[ssa.Value]bool{}
		var visit func(v ssa.Value)
		visit = func(v ssa.Value) {
			if seen[v] {
				return
			}
			seen[v] = true
			switch x := v.(type) {
			case *ssa.Const:
			case *ssa.Phi:
				for _, e := range x.Edges {
					visit(e)
				}
			case *ssa.BinOp:
				if x.Op != token.ADD {
					good = false
					return
				}
				visit(x.X)
				lk, ok := x.Y.(*ssa.Lookup)
				if !ok {
					good = false
					return
				}
				mi := idx(lk.X)
				ks := rangedSliceOfKey(lk.Index)
				if mi < 0 || ks == nil || idx(ks) < 0 {
					good = false
					return
				}
				mapParam, keysParam = mi, idx(ks)
			default:
				good = false
			}
		}
		visit(ret.Results[0])
	})
	return mapParam, keysParam, good && nret == 1 && mapParam >= 0 && keysParam >= 0
}


// isLoopHeaderOf: b is the header of a loop of fn that contains target (its
// test merely continues the iteration).
func isLoopHeaderOf(fn *ssa.Function, b, target *ssa.BasicBlock) bool {
	for h, body := range loopsOf(fn) {
		if h == b && body[target] {
			return true
		}
	}
	return false
}

// RuleKDayReset — state that a stage accumulates within a day starts afresh
// every day. In the stages of the performance calculator, every state
// variable (captured variable or field of the stage's state object) that the
// Transaction or Posting callback updates by accumulation (x = x ± v) and the
// DayEnd callback reads is assigned in DayStart on every path. An accumulator
// reset only under a condition carries one day's flows into all later days.
func RuleKDayReset(c *core.Ctx) {
	const rule = "K-day-reset"
	p := c.P
	n := 0
	for _, ctor := range p.SrcFuncs() {
		if core.PkgPathOf(ctor) != pkgPerformance || ctor.Parent() != nil {
			continue
		}
		var lit ssa.Value
		core.EachInstr(ctor, func(ins ssa.Instruction) {
			if ret, ok := ins.(*ssa.Return); ok && len(ret.Results) == 1 && !core.IsNilConst(ret.Results[0]) {
				if pt, ok := ret.Results[0].Type().Underlying().(*types.Pointer); ok && isNamed(pt.Elem(), p.NamedType(pkgJournal, "Processor")) {
					lit = ret.Results[0]
				}
			}
		})
		if lit == nil {
			continue
		}
		cbs := processorLiteral(p, lit)
		dayStart, dayEnd := cbs["DayStart"], cbs["DayEnd"]
		if dayEnd == nil {
			continue
		}
		// accumulated state
		accum := map[any]token.Pos{}
		for _, name := range []string{"Transaction", "Posting"} {
			cb := cbs[name]
			if cb == nil {
				continue
			}
			reach := p.ReachLexical(cb)
			for g := range reach {
				if core.PkgPathOf(g) != pkgPerformance {
					continue
				}
				core.EachInstr(g, func(ins ssa.Instruction) {
					st, ok := ins.(*ssa.Store)
					if !ok {
						return
					}
					loc := stateLoc(st.Addr)
					if loc == nil {
						return
					}
					if bo, ok := st.Val.(*ssa.BinOp); ok && (bo.Op == token.ADD || bo.Op == token.SUB) {
						if ld, ok := bo.X.(*ssa.UnOp); ok && stateLoc(ld.X) == loc {
							accum[loc] = st.Pos()
						}
						return
					}
					// read-modify-write through a helper: x = f(..., x, ...)
					var call *ssa.Call
					switch y := st.Val.(type) {
					case *ssa.Extract:
						call, _ = y.Tuple.(*ssa.Call)
					case *ssa.Call:
						call = y
					}
					if call != nil {
						for _, a := range call.Call.Args {
							if ld, ok := a.(*ssa.UnOp); ok && ld.Op == token.MUL && stateLoc(ld.X) == loc {
								accum[loc] = st.Pos()
							}
						}
					}
				})
			}
		}
		for loc, pos := range accum {
			// read by DayEnd?
			read := false
			core.EachInstr(dayEnd, func(ins ssa.Instruction) {
				if ld, ok := ins.(*ssa.UnOp); ok && ld.Op == token.MUL && stateLoc(ld.X) == loc {
					read = true
				}
			})
			if !read {
				continue
			}
			n++
			name := "state"
			if v, ok := loc.(ssa.Value); ok {
				name = v.Name()
				if al, ok := v.(*ssa.Alloc); ok && al.Comment != "" {
					name = al.Comment
				}
			} else if f, ok := loc.(*types.Var); ok {
				name = f.Name()
			}
			key := fmt.Sprintf("%s:accumulator %s is reset at the start of every day", core.FuncName(ctor), name)
			if dayStart == nil {
				c.Ob(rule, key, pos, core.FuncName(ctor), core.Violated, "the stage accumulates "+name+" within a day and reads it at the end of the day, but has no DayStart callback that resets it")
				continue
			}
			esc, cnt := mustPass(p, dayStart, func(ins ssa.Instruction) bool {
				st, ok := ins.(*ssa.Store)
				return ok && stateLoc(st.Addr) == loc
			})
			switch {
			case cnt == 0:
				c.Ob(rule, key, pos, core.FuncName(ctor), core.Violated, "DayStart never assigns "+name+": the flows of one day are carried into every later day")
			case esc != "":
				c.Ob(rule, key, pos, core.FuncName(ctor), core.Violated, "DayStart does not assign "+name+" on every path ("+esc+"): on the other paths the flows of earlier days are carried into this day's figures")
			default:
				c.Ob(rule, key, pos, core.FuncName(ctor), core.Discharged, "assigned in DayStart on every path")
			}
		}
	}
	c.Floor(rule, 1)
}
