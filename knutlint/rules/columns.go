package rules

import (
	"fmt"
	"go/constant"
	"go/token"
	"go/types"
	"sort"
	"strings"

	"golang.org/x/tools/go/ssa"

	"knutlint/core"
)

// RuleKColumnsAgree — no row has more cells than its table has columns (the
// text renderer indexes the column widths by the cell's position: a cell
// beyond the width is an index out of range). The width of a report's table
// and the number of cells its rows receive are both evaluated as functions of
// the renderer's options (finite domain: every option that the code tests is
// a boolean atom — a bool field, `field == nil`, `len(field) > 0`; a bool
// field the package itself computes from other options is replaced by its
// definition). For every assignment of the atoms
//
//	width  = Σ constant group sizes + (number of group sizes that are not constants)
//	cells  = cells added once + (cells added per iteration of a loop)
//
// and the two pairs must agree component-wise, or the row must end in the
// table's fill method. Conditions that are not atoms (data: `i == 0`,
// `commodity != nil`) are followed both ways; the rule reports only when every
// way gives the row more cells than the table is wide. That the loops run as
// often as the non-constant group is large is not decided here.
func RuleKColumnsAgree(c *core.Ctx) {
	const rule = "K-columns-agree"
	p := c.P
	tableT := p.NamedType(pkgTable, "Table")
	rowT := p.NamedType(pkgTable, "Row")
	newFn := p.Func(pkgTable, "New")
	if tableT == nil || rowT == nil || newFn == nil {
		c.Anchor(rule, "table.Table, table.Row, table.New")
		return
	}
	// the methods of Row: adds one cell / fills up to the width
	addOne := map[*ssa.Function]bool{}
	fill := map[*ssa.Function]bool{}
	var addCell *ssa.Function
	for _, fn := range p.SrcFuncs() {
		if core.PkgPathOf(fn) == pkgTable && fn.Name() == "addCell" && fn.Signature.Recv() != nil {
			addCell = fn
		}
	}
	for round := 0; round < 4; round++ {
		for _, fn := range p.SrcFuncs() {
			if core.PkgPathOf(fn) != pkgTable || fn.Signature.Recv() == nil || fn.Parent() != nil || !isNamed(derefType(fn.Signature.Recv().Type()), rowT) || fn == addCell || addOne[fn] || fill[fn] {
				continue
			}
			calls, loops, capped := 0, false, false
			for _, b := range fn.Blocks {
				for _, pb := range b.Preds {
					if b.Dominates(pb) {
						loops = true
					}
				}
				for _, in := range b.Instrs {
					if call, ok := in.(*ssa.Call); ok {
						if callee := call.Call.StaticCallee(); callee != nil && (callee == addCell || addOne[callee]) {
							calls++
						}
						if bi, ok := call.Call.Value.(*ssa.Builtin); ok && bi.Name() == "cap" {
							capped = true
						}
					}
				}
			}
			switch {
			case !loops && calls == 1 && len(fn.Blocks) == 1:
				addOne[fn] = true
			case loops && capped:
				fill[fn] = true
			}
		}
	}
	// second pass for fill methods that call add-one methods declared later
	for _, fn := range p.SrcFuncs() {
		if core.PkgPathOf(fn) != pkgTable || fn.Signature.Recv() == nil || addOne[fn] || fill[fn] || fn == addCell || !isNamed(derefType(fn.Signature.Recv().Type()), rowT) {
			continue
		}
		loops, capped := false, false
		for _, b := range fn.Blocks {
			for _, pb := range b.Preds {
				if b.Dominates(pb) {
					loops = true
				}
			}
			for _, in := range b.Instrs {
				if call, ok := in.(*ssa.Call); ok {
					if bi, ok := call.Call.Value.(*ssa.Builtin); ok && bi.Name() == "cap" {
						capped = true
					}
				}
			}
		}
		if loops && capped {
			fill[fn] = true
		}
	}
	if len(addOne) == 0 {
		c.Anchor(rule, "methods of table.Row that add one cell")
		return
	}

	ev := &colEval{p: p, stores: map[string][]*ssa.Store{}, asg: map[string]bool{}, addOne: addOne, fill: fill}
	for _, fn := range p.SrcFuncs() {
		for _, b := range fn.Blocks {
			for _, in := range b.Instrs {
				if st, ok := in.(*ssa.Store); ok {
					if fa, ok := st.Addr.(*ssa.FieldAddr); ok {
						if k := fieldKey(fa.X.Type(), fa.Field); k != "" {
							ev.stores[k] = append(ev.stores[k], st)
						}
					}
				}
			}
		}
	}

	// per package: the calls of table.New and the rows
	type site struct {
		fn   *ssa.Function
		call *ssa.Call
	}
	news := map[string][]site{}
	rows := map[string][]site{}
	for _, fn := range p.SrcFuncs() {
		pk := core.PkgPathOf(fn)
		if pk == pkgTable || pk == "" {
			continue
		}
		for _, b := range fn.Blocks {
			for _, in := range b.Instrs {
				call, ok := in.(*ssa.Call)
				if !ok {
					continue
				}
				callee := call.Call.StaticCallee()
				if callee == nil {
					continue
				}
				if callee == newFn {
					news[pk] = append(news[pk], site{fn, call})
				}
				if core.PkgPathOf(callee) == pkgTable && callee.Name() == "AddRow" && callee.Signature.Recv() != nil && isNamed(derefType(callee.Signature.Recv().Type()), tableT) {
					rows[pk] = append(rows[pk], site{fn, call})
				}
			}
		}
	}
	var pkgs []string
	for pk := range news {
		pkgs = append(pkgs, pk)
	}
	sort.Strings(pkgs)
	nTables, nRows := 0, 0
	for _, pk := range pkgs {
		short := strings.TrimPrefix(pk, mod+"/")
		fns := map[*ssa.Function]bool{}
		for _, s := range news[pk] {
			fns[s.fn] = true
		}
		if len(fns) != 1 {
			c.Ob(rule, short+":the table's width", news[pk][0].call.Pos(), short, core.Info, "tables are created in more than one function of the package: rows are not matched to tables")
			continue
		}
		newIn := news[pk][0].fn
		// two tables in one function: rows cannot be matched to tables
		sequential := false
		for i, a := range news[pk] {
			for j, b := range news[pk] {
				if i != j && blockReaches(a.call.Block(), b.call.Block()) {
					sequential = true
				}
			}
		}
		if sequential {
			c.Ob(rule, short+":the table's width is a function of the options", news[pk][0].call.Pos(), core.FuncName(newIn), core.Info, "more than one table is created on one way through the function: rows are not matched to tables")
			continue
		}
		// row aliases and the calls that add to each row
		type rowInfo struct {
			site
			uses *rowUses
		}
		var infos []*rowInfo
		for _, r := range rows[pk] {
			infos = append(infos, &rowInfo{site: r, uses: ev.usesOf(r.call, 0)})
		}
		// discover the atoms: evaluate everything once per assignment until no
		// new atom appears, then enumerate
		evalAll := func() (w colCount, wok bool, wwhy string, rowOuts [][]colCount, rowWhy []string) {
			ev.unknown = ""
			w, wok, wwhy = ev.width(newIn, newFn)
			for _, ri := range infos {
				if ri.uses.escapes != "" {
					rowOuts = append(rowOuts, nil)
					rowWhy = append(rowWhy, ri.uses.escapes)
					continue
				}
				outs, why := ev.rowCount(ri.call.Block(), ri.call, ri.uses, 0)
				rowOuts = append(rowOuts, outs)
				rowWhy = append(rowWhy, why)
			}
			return
		}
		ev.atoms = nil
		ev.asg = map[string]bool{}
		evalAll()
		var atoms []string
		widthWhy := ""
		var bad, skipped []string
		var mixed []bool
	restart:
		for round := 0; ; round++ {
			atoms = append([]string(nil), ev.atoms...)
			sort.Strings(atoms)
			widthWhy = ""
			bad = make([]string, len(infos))     // first assignment under which every way through the row is too wide
			skipped = make([]string, len(infos)) // reason a row was not counted
			mixed = make([]bool, len(infos))
			if len(atoms) > 10 || round > 10 {
				widthWhy = fmt.Sprintf("%d options are tested: too many to enumerate", len(atoms))
				break
			}
			for mask := 0; mask < 1<<len(atoms); mask++ {
				ev.asg = map[string]bool{}
				var on []string
				for i, a := range atoms {
					ev.asg[a] = mask&(1<<i) != 0
					if ev.asg[a] {
						on = append(on, a)
					}
				}
				w, wok, wwhy, rowOuts, rowWhy := evalAll()
				if len(ev.atoms) != len(atoms) {
					continue restart // an option that is tested only under some assignment of the others
				}
				if !wok {
					widthWhy = wwhy
					break restart
				}
				for i, outs := range rowOuts {
					if outs == nil {
						if skipped[i] == "" {
							skipped[i] = rowWhy[i]
						}
						continue
					}
					over, all := 0, 0
					for _, o := range outs {
						all++
						if !o.full && (o.c > w.c || o.loop > w.loop) {
							over++
						}
					}
					switch {
					case over == all && all > 0:
						if bad[i] == "" {
							o := outs[0]
							bad[i] = fmt.Sprintf("with {%s} set the row receives %s, the table has %s", strings.Join(on, ", "), o, w)
						}
					case over > 0:
						mixed[i] = true
					}
				}
			}
			break
		}
		wkey := short + ":the table's width is a function of the options"
		if widthWhy != "" {
			c.Ob(rule, wkey, news[pk][0].call.Pos(), core.FuncName(newIn), core.Info, "not evaluated: "+widthWhy+"; the rows of the package are not compared")
			continue
		}
		nTables++
		c.Ob(rule, wkey, news[pk][0].call.Pos(), core.FuncName(newIn), core.Discharged, fmt.Sprintf("the group sizes given to table.New evaluated under all %d assignments of {%s}", 1<<len(atoms), strings.Join(atoms, ", ")))
		perFn := map[string]int{}
		for i, ri := range infos {
			perFn[core.FuncName(ri.fn)]++
			key := fmt.Sprintf("%s:row %d:no more cells than columns", core.FuncName(ri.fn), perFn[core.FuncName(ri.fn)])
			switch {
			case skipped[i] != "":
				c.Ob(rule, key, ri.call.Pos(), core.FuncName(ri.fn), core.Info, "not counted: "+skipped[i])
			case bad[i] != "":
				c.Ob(rule, key, ri.call.Pos(), core.FuncName(ri.fn), core.Violated, bad[i]+": the text renderer indexes the column widths by the position of the cell")
			case mixed[i]:
				c.Ob(rule, key, ri.call.Pos(), core.FuncName(ri.fn), core.Info, "the number of cells depends on conditions that are not options; some way through gives more cells than columns, not decided")
			default:
				nRows++
				c.Ob(rule, key, ri.call.Pos(), core.FuncName(ri.fn), core.Discharged, "under every assignment of the options every way through the row adds at most the constant and the per-iteration cells the table has groups for, or ends in the fill method")
			}
		}
	}
	c.Note("%s: %d tables, %d rows counted", rule, nTables, nRows)
	c.Floor(rule, 3)
}

func blockReaches(a, b *ssa.BasicBlock) bool {
	if a == b {
		return true
	}
	seen := map[*ssa.BasicBlock]bool{a: true}
	work := []*ssa.BasicBlock{a}
	for len(work) > 0 {
		x := work[len(work)-1]
		work = work[:len(work)-1]
		for _, s := range x.Succs {
			if s == b {
				return true
			}
			if !seen[s] {
				seen[s] = true
				work = append(work, s)
			}
		}
	}
	return false
}

type colCount struct {
	c, loop int
	full    bool
}

func (k colCount) String() string {
	if k.full {
		return "cells up to the width"
	}
	return fmt.Sprintf("%d cells + %d per iteration", k.c, k.loop)
}

type colEval struct {
	p       *core.Prog
	stores  map[string][]*ssa.Store
	asg     map[string]bool
	atoms   []string
	unknown string
	depth   int
	addOne  map[*ssa.Function]bool
	fill    map[*ssa.Function]bool
}

// rowUses: what a function does with a row (a value of type *table.Row and
// the results of the one-cell methods called on it).
type rowUses struct {
	adds    map[ssa.Instruction]int      // 1: adds one cell, 2: fills up to the width
	helpers map[ssa.Instruction]*rowUses // a function of the module that is given the row: what it does with its parameter
	entry   map[ssa.Instruction]*ssa.Function
	escapes string
}

func (e *colEval) usesOf(row ssa.Value, depth int) *rowUses {
	u := &rowUses{adds: map[ssa.Instruction]int{}, helpers: map[ssa.Instruction]*rowUses{}, entry: map[ssa.Instruction]*ssa.Function{}}
	var follow func(v ssa.Value, d int)
	follow = func(v ssa.Value, d int) {
		if v.Referrers() == nil || d > 64 {
			return
		}
		for _, ref := range *v.Referrers() {
			switch x := ref.(type) {
			case *ssa.DebugRef:
			case *ssa.Call:
				callee := x.Call.StaticCallee()
				if callee != nil && len(x.Call.Args) > 0 && x.Call.Args[0] == v && (e.addOne[callee] || e.fill[callee]) {
					if e.fill[callee] {
						u.adds[x] = 2
					} else {
						u.adds[x] = 1
						follow(x, d+1)
					}
					continue
				}
				// a helper of the module that is given the row once and returns nothing of it
				if callee != nil && e.p.InModule(callee) && len(callee.Blocks) > 0 && depth < 3 && callee != x.Parent() && (x.Referrers() == nil || len(*x.Referrers()) == 0) {
					at := -1
					for i, a := range x.Call.Args {
						if a == v {
							if at >= 0 {
								at = -2
								break
							}
							at = i
						}
					}
					if at >= 0 && at < len(callee.Params) {
						hu := e.usesOf(callee.Params[at], depth+1)
						if hu.escapes == "" {
							u.helpers[x] = hu
							u.entry[x] = callee
							continue
						}
					}
				}
				u.escapes = "handed to " + describeCallee(x)
			default:
				u.escapes = fmt.Sprintf("used by %T at %s", ref, e.p.Pos(ref.Pos()))
			}
		}
	}
	follow(row, 0)
	return u
}

func fieldKey(t types.Type, field int) string {
	n, _ := derefType(t).(*types.Named)
	if n == nil {
		return ""
	}
	st, _ := n.Underlying().(*types.Struct)
	if st == nil || field >= st.NumFields() || n.Obj().Pkg() == nil {
		return ""
	}
	return strings.TrimPrefix(n.Obj().Pkg().Path(), mod+"/") + "." + n.Obj().Name() + "." + st.Field(field).Name()
}

func (e *colEval) atom(k string) bool {
	if _, ok := e.asg[k]; !ok {
		e.asg[k] = false
	}
	for _, a := range e.atoms {
		if a == k {
			return e.asg[k]
		}
	}
	e.atoms = append(e.atoms, k)
	return e.asg[k]
}

// fieldLoad: v is a load of a field of a named struct.
func fieldLoad(v ssa.Value) (string, bool) {
	ld, ok := core.Strip(v).(*ssa.UnOp)
	if !ok || ld.Op != token.MUL {
		if f, ok := core.Strip(v).(*ssa.Field); ok {
			if k := fieldKey(f.X.Type(), f.Field); k != "" {
				return k, true
			}
		}
		return "", false
	}
	fa, ok := ld.X.(*ssa.FieldAddr)
	if !ok {
		return "", false
	}
	k := fieldKey(fa.X.Type(), fa.Field)
	return k, k != ""
}

func (e *colEval) evalBool(v ssa.Value) (bool, bool) {
	e.depth++
	defer func() { e.depth-- }()
	if e.depth > 32 {
		return false, false
	}
	v = core.Strip(v)
	switch x := v.(type) {
	case *ssa.Const:
		if x.Value != nil && x.Value.Kind() == constant.Bool {
			return constant.BoolVal(x.Value), true
		}
	case *ssa.UnOp:
		if x.Op == token.NOT {
			r, ok := e.evalBool(x.X)
			return !r, ok
		}
		if k, ok := fieldLoad(x); ok && isBoolType(x.Type()) {
			// a field the package computes from other options (one store in
			// the package, with a value that is itself a function of
			// options) is replaced by its definition; a field the package
			// writes in any other way is not an option
			own := e.ownStores(k)
			if len(own) == 1 {
				save := len(e.atoms)
				if r, ok := e.evalBool(own[0].Val); ok {
					return r, true
				}
				e.atoms = e.atoms[:save]
			}
			if len(own) > 0 {
				return false, false
			}
			return e.atom(k), true
		}
	case *ssa.Field:
		if k, ok := fieldLoad(x); ok && isBoolType(x.Type()) && len(e.ownStores(k)) == 0 {
			return e.atom(k), true
		}
	case *ssa.Phi:
		if i, ok := e.phiEdge(x); ok {
			return e.evalBool(x.Edges[i])
		}
	case *ssa.BinOp:
		switch x.Op {
		case token.EQL, token.NEQ, token.GTR, token.GEQ, token.LSS, token.LEQ:
			a, b, op := x.X, x.Y, x.Op
			if core.IsNilConst(a) {
				a, b = b, a
			}
			if core.IsNilConst(b) && (op == token.EQL || op == token.NEQ) {
				if k, ok := fieldLoad(a); ok && len(e.ownStores(k)) == 0 {
					r := e.atom(k + " == nil")
					return r == (op == token.EQL), true
				}
				return false, false
			}
			// len(field) against 0 or 1
			if _, isC := a.(*ssa.Const); isC {
				a, b = b, a
				op = map[token.Token]token.Token{token.GTR: token.LSS, token.LSS: token.GTR, token.GEQ: token.LEQ, token.LEQ: token.GEQ, token.EQL: token.EQL, token.NEQ: token.NEQ}[op]
			}
			call, ok1 := core.Strip(a).(*ssa.Call)
			cst, ok2 := b.(*ssa.Const)
			if ok1 && ok2 && cst.Value != nil && cst.Value.Kind() == constant.Int {
				if bi, ok := call.Call.Value.(*ssa.Builtin); ok && bi.Name() == "len" {
					if k, ok := fieldLoad(call.Call.Args[0]); ok && len(e.ownStores(k)) == 0 {
						n, _ := constant.Int64Val(cst.Value)
						switch {
						case n == 0 && (op == token.GTR || op == token.NEQ), n == 1 && op == token.GEQ:
							return e.atom("len(" + k + ") > 0"), true
						case n == 0 && (op == token.EQL || op == token.LEQ), n == 1 && op == token.LSS:
							return !e.atom("len(" + k + ") > 0"), true
						}
					}
				}
			}
		case token.AND, token.OR:
			if isBoolType(x.Type()) {
				a, ok1 := e.evalBool(x.X)
				b, ok2 := e.evalBool(x.Y)
				if ok1 && ok2 {
					if x.Op == token.AND {
						return a && b, true
					}
					return a || b, true
				}
			}
		}
	}
	return false, false
}

// ownStores: the stores to the field in the package that declares its struct.
func (e *colEval) ownStores(k string) []*ssa.Store {
	var res []*ssa.Store
	for _, st := range e.stores[k] {
		if strings.HasPrefix(k, strings.TrimPrefix(core.PkgPathOf(st.Parent()), mod+"/")+".") {
			res = append(res, st)
		}
	}
	return res
}

func isBoolType(t types.Type) bool {
	b, ok := t.Underlying().(*types.Basic)
	return ok && b.Kind() == types.Bool
}

// phiEdge: the edge of a phi that is taken under the current assignment, by
// following the branches from the immediate dominator of its block.
func (e *colEval) phiEdge(phi *ssa.Phi) (int, bool) {
	blk := phi.Block()
	cur := blk.Idom()
	if cur == nil {
		return 0, false
	}
	var prev *ssa.BasicBlock
	for steps := 0; steps < 64; steps++ {
		if cur == blk && prev != nil {
			for i, pb := range blk.Preds {
				if pb == prev {
					return i, true
				}
			}
			return 0, false
		}
		var next *ssa.BasicBlock
		switch t := cur.Instrs[len(cur.Instrs)-1].(type) {
		case *ssa.If:
			r, ok := e.evalBool(t.Cond)
			if !ok {
				return 0, false
			}
			if r {
				next = cur.Succs[0]
			} else {
				next = cur.Succs[1]
			}
		case *ssa.Jump:
			next = cur.Succs[0]
		default:
			return 0, false
		}
		prev, cur = cur, next
	}
	return 0, false
}

// width: the width of the table created in fn under the current assignment.
func (e *colEval) width(fn, newFn *ssa.Function) (colCount, bool, string) {
	type found struct {
		w  colCount
		ok bool
	}
	var res []found
	why := e.walkPaths(fn, func(in ssa.Instruction, came map[*ssa.BasicBlock]*ssa.BasicBlock) bool {
		call, ok := in.(*ssa.Call)
		if !ok || call.Call.StaticCallee() != newFn {
			return false
		}
		var w colCount
		ok = true
		if len(call.Call.Args) == 1 {
			terms, tok := e.groups(call.Call.Args[0], came, 0)
			ok = tok
			for _, t := range terms {
				if t < 0 {
					w.loop++
				} else {
					w.c += t
				}
			}
		}
		res = append(res, found{w, ok})
		return true
	})
	if why != "" {
		return colCount{}, false, why
	}
	if len(res) == 0 {
		return colCount{}, false, "no creation of the table is reached"
	}
	for _, r := range res {
		if !r.ok {
			return colCount{}, false, "the group sizes given to table.New are not a list of constants and single non-constant sizes"
		}
		if r.w != res[0].w {
			return colCount{}, false, "the width depends on a condition that is not an option"
		}
	}
	return res[0].w, true, ""
}

// walkPaths follows the function from its entry under the current
// assignment: branches on options are decided, other branches are followed
// both ways (a block is entered once per way). visit is called for every
// instruction with the predecessors taken so far; it ends the way by
// returning true.
func (e *colEval) walkPaths(fn *ssa.Function, visit func(in ssa.Instruction, came map[*ssa.BasicBlock]*ssa.BasicBlock) bool) string {
	why := ""
	var walk func(b *ssa.BasicBlock, came map[*ssa.BasicBlock]*ssa.BasicBlock, budget *int)
	walk = func(b *ssa.BasicBlock, came map[*ssa.BasicBlock]*ssa.BasicBlock, budget *int) {
		for {
			*budget--
			if *budget < 0 {
				why = "too many ways through " + core.FuncName(fn)
				return
			}
			for _, in := range b.Instrs {
				if visit(in, came) {
					return
				}
			}
			var next *ssa.BasicBlock
			switch t := b.Instrs[len(b.Instrs)-1].(type) {
			case *ssa.Jump:
				next = b.Succs[0]
			case *ssa.If:
				r, ok := e.evalBool(t.Cond)
				if !ok {
					for _, s := range b.Succs {
						if _, seen := came[s]; seen {
							continue
						}
						cp := make(map[*ssa.BasicBlock]*ssa.BasicBlock, len(came)+1)
						for k, v := range came {
							cp[k] = v
						}
						cp[s] = b
						walk(s, cp, budget)
					}
					return
				}
				if r {
					next = b.Succs[0]
				} else {
					next = b.Succs[1]
				}
			default:
				return
			}
			if _, seen := came[next]; seen {
				return
			}
			came[next] = b
			b = next
		}
	}
	budget := 4096
	walk(fn.Blocks[0], map[*ssa.BasicBlock]*ssa.BasicBlock{fn.Blocks[0]: nil}, &budget)
	return why
}

// groups: the elements of a []int as constants (>= 0) or -1 for a size that
// is not a constant.
func (e *colEval) groups(v ssa.Value, came map[*ssa.BasicBlock]*ssa.BasicBlock, depth int) ([]int, bool) {
	if depth > 32 {
		return nil, false
	}
	v = core.Strip(v)
	switch x := v.(type) {
	case *ssa.Const:
		if x.Value == nil {
			return nil, true
		}
	case *ssa.Slice:
		if x.Low != nil || x.High != nil {
			return nil, false
		}
		al, ok := x.X.(*ssa.Alloc)
		if !ok {
			return nil, false
		}
		arr, ok := derefType(al.Type()).Underlying().(*types.Array)
		if !ok {
			return nil, false
		}
		out := make([]int, arr.Len())
		set := make([]bool, arr.Len())
		for _, ref := range *al.Referrers() {
			ia, ok := ref.(*ssa.IndexAddr)
			if !ok {
				continue
			}
			idx, ok := ia.Index.(*ssa.Const)
			if !ok {
				return nil, false
			}
			i, _ := constant.Int64Val(idx.Value)
			for _, st := range core.StoresTo(ia) {
				if set[i] {
					return nil, false
				}
				set[i] = true
				val := st.Val
				for d := 0; d < 8; d++ {
					phi, ok := val.(*ssa.Phi)
					if !ok {
						break
					}
					pred := came[phi.Block()]
					found := false
					for i, pb := range phi.Block().Preds {
						if pred != nil && pb == pred {
							val, found = phi.Edges[i], true
							break
						}
					}
					if !found {
						break
					}
				}
				if cst, ok := val.(*ssa.Const); ok && cst.Value != nil && cst.Value.Kind() == constant.Int {
					n, _ := constant.Int64Val(cst.Value)
					if n < 0 {
						return nil, false
					}
					out[i] = int(n)
				} else if e.loopSized(val, came, 0) {
					out[i] = -1
				} else {
					return nil, false
				}
			}
		}
		for _, s := range set {
			if !s {
				return nil, false
			}
		}
		return out, true
	case *ssa.Call:
		// a function of the module that returns the list: every return that is
		// reached under the assignment must give the same list
		if callee := x.Call.StaticCallee(); callee != nil && e.p.InModule(callee) && len(callee.Blocks) > 0 && callee.Signature.Results().Len() == 1 && depth < 8 && callee != x.Parent() {
			var lists [][]int
			bad := false
			why := e.walkPaths(callee, func(in ssa.Instruction, c2 map[*ssa.BasicBlock]*ssa.BasicBlock) bool {
				ret, ok := in.(*ssa.Return)
				if !ok {
					return false
				}
				l, ok := e.groups(ret.Results[0], c2, depth+8)
				if !ok {
					bad = true
				}
				lists = append(lists, l)
				return true
			})
			if why != "" || bad || len(lists) == 0 {
				return nil, false
			}
			for _, l := range lists[1:] {
				if len(l) != len(lists[0]) {
					return nil, false
				}
				for i := range l {
					if l[i] != lists[0][i] {
						return nil, false
					}
				}
			}
			return lists[0], true
		}
		if bi, ok := x.Call.Value.(*ssa.Builtin); ok && bi.Name() == "append" && len(x.Call.Args) == 2 {
			a, ok1 := e.groups(x.Call.Args[0], came, depth+1)
			b, ok2 := e.groups(x.Call.Args[1], came, depth+1)
			if ok1 && ok2 {
				return append(append([]int(nil), a...), b...), true
			}
		}
	case *ssa.Phi:
		pred, ok := came[x.Block()]
		if !ok || pred == nil {
			return nil, false
		}
		for i, pb := range x.Block().Preds {
			if pb == pred {
				return e.groups(x.Edges[i], came, depth+1)
			}
		}
	case *ssa.UnOp:
		// a local slice variable kept in memory: its single store
		if x.Op == token.MUL {
			if al, ok := x.X.(*ssa.Alloc); ok {
				if sts := core.StoresTo(al); len(sts) == 1 {
					return e.groups(sts[0].Val, came, depth+1)
				}
			}
		}
	}
	return nil, false
}

// loopSized: a group size that is not a constant is taken for the size of a
// collection (one cell per iteration of a loop) only if it is the result of a
// call (len, Size()), a field or a parameter — not a number the function
// computes itself from constants.
func (e *colEval) loopSized(v ssa.Value, came map[*ssa.BasicBlock]*ssa.BasicBlock, depth int) bool {
	if depth > 8 {
		return false
	}
	switch x := core.Strip(v).(type) {
	case *ssa.Call:
		return true
	case *ssa.Parameter:
		return true
	case *ssa.Convert:
		return e.loopSized(x.X, came, depth+1)
	case *ssa.UnOp:
		if x.Op == token.MUL {
			_, ok := x.X.(*ssa.FieldAddr)
			return ok
		}
	case *ssa.Phi:
		if pred, ok := came[x.Block()]; ok && pred != nil {
			for i, pb := range x.Block().Preds {
				if pb == pred {
					if _, isConst := x.Edges[i].(*ssa.Const); isConst {
						return false // a constant on this way, something else on another: not this rule's form
					}
					return e.loopSized(x.Edges[i], came, depth+1)
				}
			}
		}
	}
	return false
}

// rowCount: the numbers of cells the row created by call receives, one per
// way through the function under the current assignment.
func (e *colEval) rowCount(start *ssa.BasicBlock, call *ssa.Call, uses *rowUses, depth int) ([]colCount, string) {
	fn := start.Parent()
	adds := uses.adds
	isHeader := func(b *ssa.BasicBlock) bool {
		for _, pb := range b.Preds {
			if b.Dominates(pb) {
				return true
			}
		}
		return false
	}
	inLoop := func(h, b *ssa.BasicBlock) bool {
		// b belongs to the natural loop of header h
		if !h.Dominates(b) {
			return false
		}
		seen := map[*ssa.BasicBlock]bool{h: true}
		var work []*ssa.BasicBlock
		for _, pb := range h.Preds {
			if h.Dominates(pb) && !seen[pb] {
				seen[pb] = true
				work = append(work, pb)
			}
		}
		for len(work) > 0 {
			x := work[len(work)-1]
			work = work[:len(work)-1]
			for _, pb := range x.Preds {
				if !seen[pb] {
					seen[pb] = true
					work = append(work, pb)
				}
			}
		}
		return seen[b]
	}
	type outcome struct {
		end *ssa.BasicBlock // the stop block reached, nil: the function returns
		n   colCount
	}
	why := ""
	budget := 20000
	var walk func(b *ssa.BasicBlock, idx int, stop map[*ssa.BasicBlock]bool, asHeader bool) []outcome
	merge := func(outs []outcome) []outcome {
		var res []outcome
		for _, o := range outs {
			dup := false
			for _, r := range res {
				if r == o {
					dup = true
				}
			}
			if !dup {
				res = append(res, o)
			}
		}
		return res
	}
	walk = func(b *ssa.BasicBlock, idx int, stop map[*ssa.BasicBlock]bool, asHeader bool) []outcome {
		budget--
		if budget < 0 || why != "" {
			if why == "" {
				why = "too many ways through the function"
			}
			return nil
		}
		if idx == 0 && stop[b] && !asHeader {
			return []outcome{{end: b}}
		}
		if idx == 0 && !asHeader && isHeader(b) {
			st := map[*ssa.BasicBlock]bool{b: true}
			for k := range stop {
				st[k] = true
			}
			outs := walk(b, 0, st, true)
			var iter []colCount
			var rest []outcome
			for _, o := range outs {
				if o.end == b {
					iter = append(iter, o.n)
				} else {
					rest = append(rest, o)
				}
			}
			if len(iter) == 0 {
				return rest
			}
			for _, it := range iter {
				if it != iter[0] {
					// iterations that add different numbers of cells: follow each
					var res []outcome
					for _, it := range iter {
						for _, o := range rest {
							o.n.loop += it.c + it.loop
							o.n.full = o.n.full || it.full
							res = append(res, o)
						}
					}
					return merge(res)
				}
			}
			var res []outcome
			for _, o := range rest {
				o.n.loop += iter[0].c + iter[0].loop
				o.n.full = o.n.full || iter[0].full
				res = append(res, o)
			}
			return merge(res)
		}
		ns := []colCount{{}}
		for _, in := range b.Instrs[idx:] {
			switch adds[in] {
			case 1:
				for i := range ns {
					ns[i].c++
				}
			case 2:
				for i := range ns {
					ns[i].full = true
				}
			}
			if hu := uses.helpers[in]; hu != nil {
				callee := uses.entry[in]
				houts, hwhy := e.rowCount(callee.Blocks[0], nil, hu, depth+1)
				if houts == nil {
					if why == "" {
						why = "in " + core.FuncName(callee) + ": " + hwhy
					}
					return nil
				}
				var prod []colCount
				for _, n := range ns {
					for _, h := range houts {
						prod = append(prod, colCount{c: n.c + h.c, loop: n.loop + h.loop, full: n.full || h.full})
					}
				}
				ns = prod
				if len(ns) > 64 {
					why = "too many ways through the helpers"
					return nil
				}
			}
		}
		var succs []*ssa.BasicBlock
		switch t := b.Instrs[len(b.Instrs)-1].(type) {
		case *ssa.Jump:
			succs = b.Succs
		case *ssa.If:
			if r, ok := e.evalBool(t.Cond); ok {
				if r {
					succs = b.Succs[:1]
				} else {
					succs = b.Succs[1:2]
				}
			} else {
				succs = b.Succs
			}
		default:
			var res []outcome
			for _, n := range ns {
				res = append(res, outcome{n: n})
			}
			return merge(res)
		}
		var res []outcome
		for _, s := range succs {
			for _, o := range walk(s, 0, stop, false) {
				for _, n := range ns {
					o2 := o
					o2.n.c += n.c
					o2.n.loop += n.loop
					o2.n.full = o2.n.full || n.full
					res = append(res, o2)
				}
			}
		}
		return merge(res)
	}
	// the row ends where the loops that contain its creation start over; in a
	// helper that is given the row, where the helper returns
	stop := map[*ssa.BasicBlock]bool{}
	idx := 0
	if call != nil {
		for _, b := range fn.Blocks {
			if isHeader(b) && inLoop(b, call.Block()) {
				stop[b] = true
			}
		}
		for i, in := range call.Block().Instrs {
			if in == call {
				idx = i + 1
			}
		}
	}
	outs := walk(start, idx, stop, idx > 0 || !isHeader(start))
	if why != "" {
		return nil, why
	}
	var res []colCount
	for _, o := range outs {
		dup := false
		for _, r := range res {
			if r == o.n {
				dup = true
			}
		}
		if !dup {
			res = append(res, o.n)
		}
	}
	if len(res) == 0 {
		return nil, "no way through the function was followed"
	}
	return res, ""
}
