package rules

import (
	"fmt"
	"strings"

	"golang.org/x/tools/go/ssa"

	"knutlint/core"
)

// stdoutPrinters are functions that write to os.Stdout implicitly.
func isImplicitStdoutCall(call ssa.CallInstruction) (string, bool) {
	c := call.Common()
	if b, ok := c.Value.(*ssa.Builtin); ok && (b.Name() == "print" || b.Name() == "println") {
		return b.Name(), false // builtin print writes to stderr; not stdout
	}
	obj := core.CalleeObj(call)
	if obj == nil || obj.Pkg() == nil {
		return "", false
	}
	if obj.Pkg().Path() == "fmt" {
		switch obj.Name() {
		case "Print", "Printf", "Println":
			return "fmt." + obj.Name(), true
		}
	}
	return "", false
}

// RuleCStdout — importers write to standard output only through the shared
// journal printer: journal.Print(bufio.NewWriter(cmd.OutOrStdout()), ...).
// No fmt.Print*, no os.Stdout, no other consumer of the command's stdout
// writer anywhere in cmd/importer/** (closures included). DESIGN.md C-stdout.
func RuleCStdout(c *core.Ctx) {
	const rule = "C-stdout"
	p := c.P
	printFn := p.Func(pkgJournal, "Print")
	if printFn == nil {
		c.Anchor(rule, "lib/journal.Print")
		return
	}
	approved := 0
	approvedFns := map[*ssa.Function]bool{}
	importers := map[string]bool{}
	for _, fn := range p.SrcFuncs() {
		pkg := core.PkgPathOf(fn)
		if !strings.HasPrefix(pkg, pkgImporter+"/") && pkg != pkgImporter {
			continue
		}
		importers[pkg] = true
		short := strings.TrimPrefix(pkg, pkgImporter+"/")
		core.EachInstr(fn, func(ins ssa.Instruction) {
			// os.Stdout
			for _, op := range ins.Operands(nil) {
				if g, ok := (*op).(*ssa.Global); ok && g.Pkg != nil && g.Pkg.Pkg.Path() == "os" && g.Name() == "Stdout" {
					c.Ob(rule, fmt.Sprintf("%s:os.Stdout", core.FuncName(fn)), ins.Pos(), core.FuncName(fn), core.Violated,
						"importer "+short+" refers to os.Stdout directly; the only approved stdout path is journal.Print on cmd.OutOrStdout()")
				}
			}
			call, ok := ins.(ssa.CallInstruction)
			if !ok {
				return
			}
			if name, bad := isImplicitStdoutCall(call); bad {
				c.Ob(rule, fmt.Sprintf("%s:%s", core.FuncName(fn), name), ins.Pos(), core.FuncName(fn), core.Violated,
					"importer "+short+" calls "+name+", which writes to standard output besides the journal printer: the text lands in the emitted journal")
				return
			}
			// cmd.OutOrStdout(): follow its uses
			obj := core.CalleeObj(call)
			if obj == nil || obj.Pkg() == nil || obj.Pkg().Path() != "github.com/spf13/cobra" || obj.Name() != "OutOrStdout" {
				return
			}
			v, ok := ins.(ssa.Value)
			if !ok {
				return
			}
			bad := stdoutWriterMisuse(p, v, printFn, map[ssa.Value]bool{})
			key := fmt.Sprintf("%s:cmd.OutOrStdout()", core.FuncName(fn))
			if len(bad) == 0 {
				approved++
				approvedFns[fn] = true
				c.Ob(rule, key, ins.Pos(), core.FuncName(fn), core.Discharged, "stdout writer flows only into bufio.NewWriter, Flush and journal.Print")
			} else {
				c.Ob(rule, key, ins.Pos(), core.FuncName(fn), core.Violated, "stdout writer of importer "+short+" is also used by "+strings.Join(bad, ", "))
			}
		})
	}
	// every importer command prints through an approved site (its own, or a shared
	// helper of the importer package)
	for _, cmd := range core.Commands(c) {
		if cmd.Run == nil || !core.IsImporterCmd(cmd) {
			continue
		}
		key := "importer " + cmd.Use + ":prints through journal.Print on the command's stdout"
		through := false
		for fn := range p.ReachLexical(cmd.Run) {
			if approvedFns[fn] {
				through = true
			}
		}
		if through {
			c.Ob(rule, key, cmd.Run.Pos(), core.FuncName(cmd.Run), core.Discharged, "reaches an approved stdout site")
		} else {
			c.Ob(rule, key, cmd.Run.Pos(), core.FuncName(cmd.Run), core.Violated, "the importer does not print its journal through journal.Print on cmd.OutOrStdout()")
		}
	}
	c.Note("C-stdout: %d importer packages, %d approved stdout sites", len(importers), approved)
	c.Floor(rule, 9)
}

// stdoutWriterMisuse follows a writer value and returns the consumers other
// than bufio.NewWriter / (*bufio.Writer).Flush / journal.Print.
func stdoutWriterMisuse(p *core.Prog, v ssa.Value, printFn *ssa.Function, seen map[ssa.Value]bool) []string {
	if seen[v] || v.Referrers() == nil {
		return nil
	}
	seen[v] = true
	var bad []string
	for _, r := range *v.Referrers() {
		switch x := r.(type) {
		case *ssa.MakeInterface:
			bad = append(bad, stdoutWriterMisuse(p, x, printFn, seen)...)
		case *ssa.ChangeInterface:
			bad = append(bad, stdoutWriterMisuse(p, x, printFn, seen)...)
		case *ssa.ChangeType:
			bad = append(bad, stdoutWriterMisuse(p, x, printFn, seen)...)
		case *ssa.Phi:
			bad = append(bad, stdoutWriterMisuse(p, x, printFn, seen)...)
		case *ssa.DebugRef:
		case *ssa.Store:
			// spilled local (defer): follow loads of the cell
			if a, ok := x.Addr.(*ssa.Alloc); ok && x.Val == v {
				if a.Referrers() != nil {
					for _, ar := range *a.Referrers() {
						if ld, ok := ar.(*ssa.UnOp); ok {
							bad = append(bad, stdoutWriterMisuse(p, ld, printFn, seen)...)
						}
					}
				}
			} else {
				bad = append(bad, "a store at "+p.Pos(x.Pos()))
			}
		case ssa.CallInstruction:
			callee := x.Common().StaticCallee()
			name := ""
			if callee != nil {
				name = callee.String()
			}
			switch {
			case name == "bufio.NewWriter":
				if val, ok := x.(ssa.Value); ok {
					bad = append(bad, stdoutWriterMisuse(p, val, printFn, seen)...)
				}
			case name == "(*bufio.Writer).Flush":
			case callee == printFn:
			case callee != nil && callee.Blocks != nil && (strings.HasPrefix(core.PkgPathOf(callee), pkgImporter+"/") || core.PkgPathOf(callee) == pkgImporter):
				// a helper of the importers that takes the writer: what it does with its
				// parameter is judged by the same rule
				args := x.Common().Args
				for i, a := range args {
					if a == v && i < len(callee.Params) {
						bad = append(bad, stdoutWriterMisuse(p, callee.Params[i], printFn, seen)...)
					}
				}
			default:
				if name == "" {
					name = x.Common().Value.String()
				}
				bad = append(bad, name+" at "+p.Pos(x.Pos()))
			}
		default:
			bad = append(bad, fmt.Sprintf("%T at %s", r, p.Pos(r.Pos())))
		}
	}
	return bad
}
