package rules

// Family F — agreement between the parser, the two printers, the model and
// the table renderers (DESIGN.md section 2.F).

import (
	"fmt"
	"go/token"
	"go/types"
	"regexp"
	"sort"
	"strings"

	"golang.org/x/tools/go/ssa"

	"knutlint/core"
)

// typeSwitchCases: the concrete types asserted on value v in fn (the cases of
// a type switch), mapped to the block entered when the assertion holds.
func typeSwitchTypes(fn *ssa.Function) map[string]*ssa.TypeAssert {
	res := map[string]*ssa.TypeAssert{}
	core.EachInstr(fn, func(ins ssa.Instruction) {
		ta, ok := ins.(*ssa.TypeAssert)
		if !ok || !ta.CommaOk {
			return
		}
		res[typeShort(ta.AssertedType)] = ta
	})
	return res
}

// printerFor: the function a printer's dispatch (type switch) calls for the
// asserted type.
func printerFor(p *core.Prog, dispatch *ssa.Function) map[string]*ssa.Function {
	res := map[string]*ssa.Function{}
	for name, ta := range typeSwitchTypes(dispatch) {
		// the value extracted from the assertion flows into a static call
		if ta.Referrers() == nil {
			continue
		}
		for _, r := range *ta.Referrers() {
			ex, ok := r.(*ssa.Extract)
			if !ok || ex.Index != 0 || ex.Referrers() == nil {
				continue
			}
			for _, rr := range *ex.Referrers() {
				if call, ok := rr.(*ssa.Call); ok && call.Call.StaticCallee() != nil && p.InModule(call.Call.StaticCallee()) {
					res[name] = call.Call.StaticCallee()
				}
			}
		}
	}
	return res
}

// constStringsWritten: constant strings that fn (and module callees in the
// same package) hand to Fprintf / WriteString / Write.
func constStringsWritten(p *core.Prog, fn *ssa.Function, seen map[*ssa.Function]bool, out *[]string) {
	if fn == nil || seen[fn] || fn.Blocks == nil {
		return
	}
	seen[fn] = true
	core.EachInstr(fn, func(ins ssa.Instruction) {
		call, ok := ins.(*ssa.Call)
		if !ok {
			return
		}
		callee := call.Call.StaticCallee()
		if callee != nil && core.PkgPathOf(callee) == core.PkgPathOf(fn) {
			constStringsWritten(p, callee, seen, out)
			// a constant handed to a helper of the printer that writes (e.g. the keyword
			// argument of a shared "date keyword rest" helper)
			var sub []string
			constStringsWritten(p, callee, map[*ssa.Function]bool{}, &sub)
			if len(sub) > 0 || writesToWriter(callee) {
				for _, a := range call.Call.Args {
					*out = append(*out, constParts(a, 0)...)
				}
			}
		}
		if callee == nil || callee.Pkg == nil {
			return
		}
		switch callee.Pkg.Pkg.Path() + "." + callee.Name() {
		case "fmt.Fprintf", "io.WriteString", "fmt.Fprint", "fmt.Fprintln":
			for _, a := range call.Call.Args {
				for _, s := range constParts(a, 0) {
					*out = append(*out, s)
				}
			}
		}
	})
}

// writesToWriter: fn calls io.WriteString / fmt.Fprint* itself.
func writesToWriter(fn *ssa.Function) bool {
	res := false
	core.EachInstr(fn, func(ins ssa.Instruction) {
		if call, ok := ins.(*ssa.Call); ok {
			if callee := call.Call.StaticCallee(); callee != nil && callee.Pkg != nil {
				switch callee.Pkg.Pkg.Path() + "." + callee.Name() {
				case "fmt.Fprintf", "io.WriteString", "fmt.Fprint", "fmt.Fprintln":
					res = true
				}
			}
		}
	})
	return res
}

// constParts: the string constants an argument is made of — the constant
// itself, or the constant operands of a concatenation.
func constParts(v ssa.Value, depth int) []string {
	if s, ok := core.ConstString(v); ok {
		return []string{s}
	}
	if bo, ok := v.(*ssa.BinOp); ok && bo.Op == token.ADD && depth < 12 {
		if b, ok := bo.Type().Underlying().(*types.Basic); ok && b.Info()&types.IsString != 0 {
			return append(constParts(bo.X, depth+1), constParts(bo.Y, depth+1)...)
		}
	}
	return nil
}

var keywordRe = regexp.MustCompile(`@?[a-z]{3,}`)

// parserKeywords: keyword constant -> name of the directive type the parser
// builds after reading it.
func parserKeywords(c *core.Ctx) map[string]string {
	p := c.P
	res := map[string]string{}
	returnsType := func(fn *ssa.Function) string {
		if fn.Signature.Results().Len() == 0 {
			return ""
		}
		if n, ok := types.Unalias(fn.Signature.Results().At(0).Type()).(*types.Named); ok && n.Obj().Pkg() != nil && n.Obj().Pkg().Path() == pkgDirectives {
			// an error value of the directives package is not a directive
			if errT, ok := types.Universe.Lookup("error").Type().Underlying().(*types.Interface); ok && (types.Implements(n, errT) || types.Implements(types.NewPointer(n), errT)) {
				return ""
			}
			return n.Obj().Name()
		}
		return ""
	}
	for _, fn := range p.SrcFuncs() {
		if core.PkgPathOf(fn) != pkgParser {
			continue
		}
		core.EachInstr(fn, func(ins ssa.Instruction) {
			switch x := ins.(type) {
			case *ssa.BinOp:
				// switch r.Extract() { case "open": parseOpen(...) }
				if x.Op != token.EQL {
					return
				}
				k, ok := core.ConstString(x.Y)
				if !ok {
					k, ok = core.ConstString(x.X)
				}
				if !ok || x.Referrers() == nil {
					return
				}
				for _, r := range *x.Referrers() {
					iff, ok := r.(*ssa.If)
					if !ok {
						continue
					}
					then := iff.Block().Succs[0]
					for _, b := range fn.Blocks {
						if b != then && !then.Dominates(b) {
							continue
						}
						for _, i2 := range b.Instrs {
							if call, ok := i2.(*ssa.Call); ok && call.Call.StaticCallee() != nil && core.PkgPathOf(call.Call.StaticCallee()) == pkgParser {
								if t := returnsType(call.Call.StaticCallee()); t != "" {
									if _, dup := res[k]; !dup {
										res[k] = t
									}
								}
							}
						}
					}
				}
			case *ssa.MapUpdate:
				// a dispatch table: map[keyword]func(...) built in the package initialiser
				k, ok := core.ConstString(x.Key)
				if !ok {
					return
				}
				// the value may be an adapter applied to the parse function: byKeyword(T.parseX)
				if call, ok := x.Value.(*ssa.Call); ok {
					for _, a := range call.Call.Args {
						if f := core.FuncValue(a); f != nil && core.PkgPathOf(f) == pkgParser {
							if t := returnsType(f); t != "" {
								if _, dup := res[k]; !dup {
									res[k] = t
								}
							}
						}
					}
				}
				if f := core.FuncValue(x.Value); f != nil {
					core.EachInstr(f, func(i2 ssa.Instruction) {
						if call, ok := i2.(*ssa.Call); ok && call.Call.StaticCallee() != nil && core.PkgPathOf(call.Call.StaticCallee()) == pkgParser {
							if t := returnsType(call.Call.StaticCallee()); t != "" {
								if _, dup := res[k]; !dup {
									res[k] = t
								}
							}
						}
					})
					if t := returnsType(f); t != "" {
						if _, dup := res[k]; !dup {
							res[k] = t
						}
					}
				}
			case *ssa.Call:
				// ReadString("include") inside parseInclude
				if callee := x.Call.StaticCallee(); callee != nil && core.PkgPathOf(callee) == pkgScanner && callee.Name() == "ReadString" {
					if k, ok := core.ConstString(x.Call.Args[1]); ok {
						if t := returnsType(fn); t != "" {
							res[k] = t
						}
					}
				}
			}
		})
	}
	return res
}

// RuleFKeywords — what the printers write is what the parser reads: every
// keyword in the constant format strings of the printer function for a
// directive type is a keyword after which the parser builds that type.
func RuleFKeywords(c *core.Ctx) {
	const rule = "F-keywords"
	p := c.P
	kw := parserKeywords(c)
	if len(kw) < 6 {
		c.Anchor(rule, fmt.Sprintf("the parser's keyword dispatch (found %d keywords)", len(kw)))
		return
	}
	// addon keywords belong to the transaction
	typeOfKeyword := func(k string) string {
		t := kw[k]
		switch t {
		case "Performance", "Accrual":
			return "Transaction"
		}
		return t
	}
	dispatches := map[string]*ssa.Function{
		"syntax printer":  p.Func(pkgSPrinter, "Printer.printDirective"),
		"journal printer": p.Func(pkgJPrinter, "Printer.PrintDirective"),
	}
	for which, d := range dispatches {
		if d == nil {
			c.Anchor(rule, which+" dispatch")
			continue
		}
		pf := printerFor(p, d)
		var names []string
		for n := range pf {
			names = append(names, n)
		}
		sort.Strings(names)
		for _, tn := range names {
			fn := pf[tn]
			short := tn[strings.LastIndex(tn, ".")+1:]
			var strs []string
			constStringsWritten(p, fn, map[*ssa.Function]bool{}, &strs)
			var words []string
			for _, s := range strs {
				words = append(words, keywordRe.FindAllString(s, -1)...)
			}
			words = uniq(words)
			key := fmt.Sprintf("%s:%s keywords", which, short)
			var bad []string
			for _, w := range words {
				t := typeOfKeyword(w)
				if t == "" {
					bad = append(bad, fmt.Sprintf("%q is not a keyword the parser accepts", w))
				} else if t != short {
					bad = append(bad, fmt.Sprintf("%q makes the parser build a %s, not a %s", w, t, short))
				}
			}
			if len(bad) == 0 {
				c.Ob(rule, key, fn.Pos(), core.FuncName(fn), core.Discharged, fmt.Sprintf("keywords written %v are read back as %s", words, short))
			} else {
				c.Ob(rule, key, fn.Pos(), core.FuncName(fn), core.Violated, "the "+which+" writes a keyword the parser does not read back as this directive: "+strings.Join(bad, "; "))
			}
		}
	}
	c.Floor(rule, 10)
}

// structFields lists Type.Field for all fields of the named struct (and of
// the directive structs nested in it), skipping excluded ones.
func contentFields(t *types.Named, pkgPath string, exclude map[string]bool, seen map[*types.Named]bool, out map[string]bool) {
	if seen[t] {
		return
	}
	seen[t] = true
	st, ok := t.Underlying().(*types.Struct)
	if !ok {
		return
	}
	for i := 0; i < st.NumFields(); i++ {
		f := st.Field(i)
		ref := t.Obj().Name() + "." + f.Name()
		if exclude[ref] || exclude["*."+f.Name()] {
			continue
		}
		if f.Embedded() {
			continue
		}
		out[ref] = true
		ft := f.Type()
		for {
			switch u := ft.(type) {
			case *types.Pointer:
				ft = u.Elem()
				continue
			case *types.Slice:
				ft = u.Elem()
				continue
			}
			break
		}
		if n, ok := types.Unalias(ft).(*types.Named); ok && n.Obj().Pkg() != nil && strings.HasPrefix(n.Obj().Pkg().Path(), pkgPath) {
			if _, isStruct := n.Underlying().(*types.Struct); isStruct {
				contentFields(n, pkgPath, exclude, seen, out)
			}
		}
	}
}

// RuleFFields — every content field of a directive is read by the printer
// function for its type (both printers).
func RuleFFields(c *core.Ctx) {
	const rule = "F-fields"
	p := c.P
	oa := newOrderAnalysis(c)
	type side struct {
		which    string
		dispatch *ssa.Function
		pkgPath  string
		exclude  map[string]bool
	}
	sides := []side{
		{"syntax printer", p.Func(pkgSPrinter, "Printer.printDirective"), pkgDirectives,
			map[string]bool{"Account.Macro": true, "*.Range": true, "Range.Start": true, "Range.End": true, "Range.Path": true, "Range.Text": true}},
		{"journal printer", p.Func(pkgJPrinter, "Printer.PrintDirective"), core.Module + "/lib/model",
			map[string]bool{"*.Src": true, "Posting.Value": true, "Account.accountType": true, "Account.segments": true, "Account.name": true, "Commodity.name": true, "Commodity.IsCurrency": true}},
	}
	for _, s := range sides {
		if s.dispatch == nil {
			c.Anchor(rule, s.which+" dispatch")
			continue
		}
		pf := printerFor(p, s.dispatch)
		var names []string
		for n := range pf {
			names = append(names, n)
		}
		sort.Strings(names)
		for _, tn := range names {
			fn := pf[tn]
			ta := typeSwitchTypes(s.dispatch)[tn]
			t := ta.AssertedType
			if pt, ok := t.(*types.Pointer); ok {
				t = pt.Elem()
			}
			named, ok := types.Unalias(t).(*types.Named)
			if !ok {
				continue
			}
			want := map[string]bool{}
			contentFields(named, s.pkgPath, s.exclude, map[*types.Named]bool{}, want)
			read := map[string]bool{}
			oa.fieldsRead(fn, map[*ssa.Function]bool{}, read)
			var missing []string
			for f := range want {
				if !read[f] {
					missing = append(missing, f)
				}
			}
			sort.Strings(missing)
			key := fmt.Sprintf("%s:%s fields", s.which, named.Obj().Name())
			if len(missing) == 0 {
				c.Ob(rule, key, fn.Pos(), core.FuncName(fn), core.Discharged, fmt.Sprintf("all %d content fields are read by %s", len(want), core.FuncName(fn)))
			} else {
				c.Ob(rule, key, fn.Pos(), core.FuncName(fn), core.Violated, "the "+s.which+" never reads "+strings.Join(missing, ", ")+": that part of the directive is lost (or replaced by a constant) in the output")
			}
		}
	}
	c.Floor(rule, 10)
}

// RuleFPresence — optional parts are printed exactly when they are present:
// in the syntax printer the write of an annotation ("@…") is control-dependent
// only on the emptiness test of that annotation's own range.
func RuleFPresence(c *core.Ctx) {
	const rule = "F-presence"
	p := c.P
	d := p.Func(pkgSPrinter, "Printer.printDirective")
	if d == nil {
		c.Anchor(rule, "syntax printer dispatch")
		return
	}
	addonField := map[string]*types.Var{
		"@performance": p.Field(pkgDirectives, "Addons", "Performance"),
		"@accrue":      p.Field(pkgDirectives, "Addons", "Accrual"),
	}
	rangeT := p.NamedType(pkgDirectives, "Range")
	// the functions of the printer reachable from the per-directive printers
	scope := map[*ssa.Function]bool{}
	var add func(fn *ssa.Function, depth int)
	add = func(fn *ssa.Function, depth int) {
		if fn == nil || scope[fn] || fn.Blocks == nil || core.PkgPathOf(fn) != pkgSPrinter || depth > 4 {
			return
		}
		scope[fn] = true
		core.EachInstr(fn, func(ins ssa.Instruction) {
			if call, ok := ins.(*ssa.Call); ok {
				add(call.Call.StaticCallee(), depth+1)
			}
		})
	}
	for _, fn := range printerFor(p, d) {
		add(fn, 0)
	}
	// is cond a test of the presence of the annotation held in field fv?
	fromField := func(v ssa.Value, fv *types.Var) bool {
		for x := range originSet(p, v, 0) {
			if fa, ok := x.(*ssa.FieldAddr); ok && core.FieldOf(fa) == fv {
				return true
			}
			if f, ok := x.(*ssa.Field); ok && core.FieldOf(f) == fv {
				return true
			}
			// the annotation handed to a helper as a parameter of its type
			if prm, ok := x.(*ssa.Parameter); ok && types.Identical(prm.Type(), fv.Type()) {
				return true
			}
		}
		return false
	}
	isRangeTest := func(callee *ssa.Function) bool {
		if callee == nil || core.PkgPathOf(callee) != pkgDirectives || callee.Signature.Recv() == nil {
			return false
		}
		return isNamed(derefType(callee.Signature.Recv().Type()), rangeT) && (callee.Name() == "Empty" || callee.Name() == "Length")
	}
	presence := func(cond ssa.Value, fv *types.Var) (isTest bool, wrong string) {
		if u, ok := cond.(*ssa.UnOp); ok && u.Op == token.NOT {
			cond = u.X
		}
		if bo, ok := cond.(*ssa.BinOp); ok {
			// r.Length() != 0 and the like
			for _, o := range []ssa.Value{bo.X, bo.Y} {
				if cl, ok := o.(*ssa.Call); ok && isRangeTest(cl.Call.StaticCallee()) && fromField(cl.Call.Args[0], fv) {
					return true, ""
				}
			}
		}
		cl, ok := cond.(*ssa.Call)
		if !ok || cl.Call.StaticCallee() == nil {
			return false, ""
		}
		callee := cl.Call.StaticCallee()
		if core.PkgPathOf(callee) == pkgDirectives && callee.Name() == "Empty" && !isRangeTest(callee) && len(cl.Call.Args) > 0 && fromField(cl.Call.Args[0], fv) {
			return false, "a test by " + core.FuncName(callee) + ", which is not the emptiness of the annotation's range"
		}
		if isRangeTest(callee) && fromField(cl.Call.Args[0], fv) {
			return true, ""
		}
		// a helper of the printer that asks the range: present(r) { return r.Length() != 0 }
		if core.PkgPathOf(callee) == pkgSPrinter && callee.Blocks != nil && onlyBoolResults(callee) {
			asks := false
			core.EachInstr(callee, func(ins ssa.Instruction) {
				if c2, ok := ins.(*ssa.Call); ok && isRangeTest(c2.Call.StaticCallee()) {
					asks = true
				}
			})
			for _, a := range cl.Call.Args {
				if asks && fromField(a, fv) {
					return true, ""
				}
			}
		}
		return false, ""
	}
	var guarded func(fn *ssa.Function, at *ssa.BasicBlock, fv *types.Var, depth int) (bool, []string)
	guarded = func(fn *ssa.Function, at *ssa.BasicBlock, fv *types.Var, depth int) (bool, []string) {
		var bad []string
		okTest := false
		for _, b := range fn.Blocks {
			iff, isIf := b.Instrs[len(b.Instrs)-1].(*ssa.If)
			if !isIf {
				continue
			}
			if ctl, _ := core.Controls(b, at); !ctl || core.IsLoopExitTest(b, at) {
				continue
			}
			if is, wrong := presence(iff.Cond, fv); is {
				okTest = true
				continue
			} else if wrong != "" {
				bad = append(bad, wrong)
				continue
			}
			cond := iff.Cond
			if u, ok := cond.(*ssa.UnOp); ok && u.Op == token.NOT {
				cond = u.X
			}
			if bo, ok := cond.(*ssa.BinOp); ok && (core.IsNilConst(bo.X) || core.IsNilConst(bo.Y)) {
				continue // error test
			}
			bad = append(bad, describeValue(p, iff.Cond))
		}
		if okTest || len(bad) > 0 || depth > 3 {
			return okTest, bad
		}
		// unconditional here: every caller in the printer must be guarded
		callers := 0
		all := true
		for g := range scope {
			core.EachInstr(g, func(ins ssa.Instruction) {
				call, ok := ins.(*ssa.Call)
				if !ok || call.Call.StaticCallee() != fn {
					return
				}
				callers++
				ok2, bad2 := guarded(g, call.Block(), fv, depth+1)
				bad = append(bad, bad2...)
				if !ok2 {
					all = false
				}
			})
		}
		return callers > 0 && all, bad
	}
	n := 0
	var fns []*ssa.Function
	for fn := range scope {
		fns = append(fns, fn)
	}
	sort.Slice(fns, func(i, j int) bool { return fns[i].String() < fns[j].String() })
	for _, fn := range fns {
		core.EachInstr(fn, func(ins ssa.Instruction) {
			call, ok := ins.(*ssa.Call)
			if !ok || call.Call.StaticCallee() == nil {
				return
			}
			// a direct write of an "@..." constant
			kw := ""
			for _, a := range call.Call.Args {
				for _, s := range constParts(a, 0) {
					for k := range addonField {
						if strings.HasPrefix(s, k) {
							kw = k
						}
					}
				}
			}
			if kw == "" {
				return
			}
			n++
			key := fmt.Sprintf("%s:%s printed iff present", core.FuncName(fn), kw)
			okTest, bad := guarded(fn, call.Block(), addonField[kw], 0)
			switch {
			case len(bad) > 0:
				c.Ob(rule, key, call.Pos(), core.FuncName(fn), core.Violated, "the "+kw+" annotation is printed under a condition other than the presence of the annotation ("+strings.Join(uniq(bad), "; ")+"): an annotation that is present can be dropped by format")
			case !okTest:
				c.Ob(rule, key, call.Pos(), core.FuncName(fn), core.Violated, "the "+kw+" annotation is printed unconditionally")
			default:
				c.Ob(rule, key, call.Pos(), core.FuncName(fn), core.Discharged, "printed exactly when the annotation's range is not empty")
			}
		})
	}
	c.Floor(rule, 2)
}

// RuleFGap — format copies the text between directives byte for byte: data
// from File.Text reaches the output only through slicing and []byte
// conversion into Write, the slice bounds are 0 / Directive.End /
// Directive.Start, and the tail is written on the success path.
func RuleFGap(c *core.Ctx) {
	const rule = "F-gap"
	p := c.P
	format := p.Func(pkgSPrinter, "Printer.Format")
	textF := p.Field(pkgDirectives, "Range", "Text")
	startF := p.Field(pkgDirectives, "Range", "Start")
	endF := p.Field(pkgDirectives, "Range", "End")
	if format == nil || textF == nil {
		c.Anchor(rule, "syntax/printer.Printer.Format / Range.Text")
		return
	}
	isText := func(v ssa.Value) bool {
		for x := range originSet(p, v, 0) {
			switch y := x.(type) {
			case *ssa.FieldAddr:
				if core.FieldOf(y) == textF {
					return true
				}
			case *ssa.Field:
				if core.FieldOf(y) == textF {
					return true
				}
			}
		}
		return false
	}
	hasField := func(v ssa.Value, f *types.Var) bool {
		if v == nil {
			return false
		}
		for x := range originSet(p, v, 0) {
			switch y := x.(type) {
			case *ssa.FieldAddr:
				if core.FieldOf(y) == f {
					return true
				}
			case *ssa.Field:
				if core.FieldOf(y) == f {
					return true
				}
			}
		}
		return false
	}
	writes := 0
	var tail *ssa.Call
	core.EachInstr(format, func(ins ssa.Instruction) {
		call, ok := ins.(*ssa.Call)
		if !ok {
			return
		}
		textArg := -1
		for i, a := range call.Call.Args {
			if isText(a) {
				textArg = i
			}
		}
		if textArg < 0 {
			return
		}
		callee := call.Call.StaticCallee()
		name := calleeText(call)
		key := fmt.Sprintf("%s:text handed to %s", core.FuncName(format), name)
		// Initialize(f.Directives) etc. do not receive the text itself but the directives
		if _, isStr := call.Call.Args[textArg].Type().Underlying().(*types.Basic); !isStr {
			if _, isBytes := call.Call.Args[textArg].Type().Underlying().(*types.Slice); !isBytes {
				return
			}
		}
		// verbatim sinks: the printer's own Write, io.WriteString, a writer's Write/WriteString
		verbatim := false
		switch {
		case callee != nil && callee.Name() == "Write" && core.PkgPathOf(callee) == pkgSPrinter:
			verbatim = true
		case callee != nil && callee.Pkg != nil && callee.Pkg.Pkg.Path() == "io" && callee.Name() == "WriteString":
			verbatim = true
		case callee != nil && callee.Pkg != nil && callee.Pkg.Pkg.Path() == "bufio" && (callee.Name() == "WriteString" || callee.Name() == "Write"):
			verbatim = true
		case call.Call.IsInvoke() && (call.Call.Method.Name() == "Write" || call.Call.Method.Name() == "WriteString"):
			verbatim = true
		}
		if !verbatim {
			c.Ob(rule, key, call.Pos(), core.FuncName(format), core.Violated, "text between directives passes through "+name+" on its way to the output: it is interpreted or transformed instead of copied byte for byte")
			return
		}
		// the argument: text[lo:hi], as a string or converted to []byte
		var sl *ssa.Slice
		ok = false
		switch x := call.Call.Args[textArg].(type) {
		case *ssa.Convert:
			sl, ok = x.X.(*ssa.Slice)
		case *ssa.Slice:
			sl, ok = x, true
		}
		if !ok {
			c.Ob(rule, key, call.Pos(), core.FuncName(format), core.Violated, "the gap is not a plain slice of the file's text")
			return
		}
		writes++
		k2 := fmt.Sprintf("%s:gap write %d bounds", core.FuncName(format), writes)
		loOK := sl.Low == nil || isZeroOrEnd(p, sl.Low, endF)
		hiOK := sl.High == nil || hasField(sl.High, startF)
		if sl.High == nil {
			tail = call
		}
		if loOK && hiOK {
			c.Ob(rule, k2, call.Pos(), core.FuncName(format), core.Discharged, "gap = text[previous directive's End (or 0) : next directive's Start (or end of text)]")
		} else {
			c.Ob(rule, k2, call.Pos(), core.FuncName(format), core.Violated, "the bounds of a gap do not come from 0 / Directive.End and Directive.Start: text is dropped or duplicated")
		}
	})
	key := core.FuncName(format) + ":tail written on the success path"
	if tail == nil {
		c.Ob(rule, key, format.Pos(), core.FuncName(format), core.Violated, "the text after the last directive is never written")
	} else if esc, _ := mustPass(p, format, func(ins ssa.Instruction) bool { return ins == ssa.Instruction(tail) }); esc != "" {
		c.Ob(rule, key, tail.Pos(), core.FuncName(format), core.Violated, "the text after the last directive is not written on every success path: "+esc)
	} else {
		c.Ob(rule, key, tail.Pos(), core.FuncName(format), core.Discharged, "text[pos:] is written before every success return")
	}
	// every function between the commands and Format reaches it on every success
	// path: a wrapper that returns success without formatting hands an empty
	// buffer to the atomic replacement
	var wrappers []*ssa.Function
	for _, fn := range p.SrcFuncs() {
		if !p.InModule(fn) || fn == format {
			continue
		}
		calls := false
		core.EachInstr(fn, func(ins ssa.Instruction) {
			if call, ok := ins.(*ssa.Call); ok && call.Call.StaticCallee() == format {
				calls = true
			}
		})
		if calls {
			wrappers = append(wrappers, fn)
		}
	}
	sort.Slice(wrappers, func(i, j int) bool { return wrappers[i].String() < wrappers[j].String() })
	for _, fn := range wrappers {
		k := core.FuncName(fn) + ":formats on every success path"
		if esc, _ := mustPass(p, fn, func(ins ssa.Instruction) bool {
			call, ok := ins.(*ssa.Call)
			return ok && call.Call.StaticCallee() == format
		}); esc != "" {
			c.Ob(rule, k, fn.Pos(), core.FuncName(fn), core.Violated, "the function can report success without having formatted the file ("+esc+"): the caller replaces the file by whatever was written so far — nothing")
		} else {
			c.Ob(rule, k, fn.Pos(), core.FuncName(fn), core.Discharged, "Printer.Format is called before every success return")
		}
	}
	c.Floor(rule, 4)
}

func isZeroOrEnd(p *core.Prog, v ssa.Value, endF *types.Var) bool {
	seen := map[ssa.Value]bool{}
	var ok func(v ssa.Value) bool
	ok = func(v ssa.Value) bool {
		if seen[v] {
			return true
		}
		seen[v] = true
		if n, isC := core.ConstInt(v); isC {
			return n == 0
		}
		switch x := v.(type) {
		case *ssa.Phi:
			for _, e := range x.Edges {
				if !ok(e) {
					return false
				}
			}
			return true
		case *ssa.UnOp:
			if fa, isFa := x.X.(*ssa.FieldAddr); isFa && core.FieldOf(fa) == endF {
				return true
			}
		case *ssa.Field:
			return core.FieldOf(x) == endF
		}
		return false
	}
	return ok(v)
}

// RuleFMultiline — a directive whose printed form spans several lines must
// end with a newline, so that the line break added after every directive
// yields the empty line at which the parser's continuation loop stops.
func RuleFMultiline(c *core.Ctx) {
	const rule = "F-multiline"
	p := c.P
	d := p.Func(pkgJPrinter, "Printer.PrintDirective")
	if d == nil {
		c.Anchor(rule, "journal printer dispatch")
		return
	}
	pf := printerFor(p, d)
	var names []string
	for n := range pf {
		names = append(names, n)
	}
	sort.Strings(names)
	for _, tn := range names {
		fn := pf[tn]
		// forward exploration of (newline emitted?, last char is newline?)
		type st struct{ nl, tail bool }
		type item struct {
			b *ssa.BasicBlock
			s st
		}
		seen := map[string]bool{}
		work := []item{{fn.Blocks[0], st{}}}
		bad := ""
		for len(work) > 0 {
			it := work[len(work)-1]
			work = work[:len(work)-1]
			k := fmt.Sprintf("%d/%v/%v", it.b.Index, it.s.nl, it.s.tail)
			if seen[k] {
				continue
			}
			seen[k] = true
			s := it.s
			for _, ins := range it.b.Instrs {
				call, ok := ins.(*ssa.Call)
				if !ok {
					continue
				}
				callee := call.Call.StaticCallee()
				if callee == nil || callee.Pkg == nil {
					continue
				}
				full := callee.Pkg.Pkg.Path() + "." + callee.Name()
				var format string
				hasConst := false
				switch full {
				case "fmt.Fprintf", "io.WriteString":
					if cs, ok := core.ConstString(call.Call.Args[1]); ok {
						format, hasConst = cs, true
					}
				default:
					if core.PkgPathOf(callee) == pkgJPrinter && callee.Name() == "printPosting" {
						format, hasConst = "x", true // one line without newline
					}
				}
				if !hasConst {
					continue
				}
				if strings.Contains(format, "\n") {
					s.nl = true
				}
				s.tail = strings.HasSuffix(format, "\n")
			}
			switch t := it.b.Instrs[len(it.b.Instrs)-1].(type) {
			case *ssa.Return:
				isErr := false
				for _, rv := range t.Results {
					if core.IsErrorType(rv.Type()) && !core.IsNilConst(rv) {
						isErr = true
					}
				}
				if !isErr && s.nl && !s.tail && bad == "" {
					bad = "a success path ending at " + p.Pos(core.NearPos(t)) + " has written line breaks but does not end with one"
				}
			default:
				for _, succ := range it.b.Succs {
					work = append(work, item{succ, s})
				}
			}
		}
		short := tn[strings.LastIndex(tn, ".")+1:]
		key := "journal printer:" + short + " multi-line form ends with a newline"
		if bad == "" {
			c.Ob(rule, key, fn.Pos(), core.FuncName(fn), core.Discharged, "single-line form, or multi-line form terminated by a newline (an empty line follows in the output)")
		} else {
			c.Ob(rule, key, fn.Pos(), core.FuncName(fn), core.Violated, bad+": the next directive follows on the very next line, and the parser's continuation loop (which stops at an empty line) reads it as a sub-line — the printed journal does not parse")
		}
	}
	c.Floor(rule, 5)
}

// lossy decimal operations: must not occur on the way to the journal text or the CSV cells.
var lossyDecimal = map[string]bool{
	"Round": true, "RoundBank": true, "RoundCash": true, "RoundCeil": true, "RoundFloor": true, "RoundUp": true, "RoundDown": true,
	"StringFixed": true, "StringFixedBank": true, "StringFixedCash": true, "StringScaled": true, "Truncate": true, "Float64": true,
	"InexactFloat64": true, "Div": true, "DivRound": true, "Floor": true, "Ceil": true, "Shift": true, "IntPart": true, "BigInt": true,
	"Abs": true, "Neg": true, "Mul": true, "Add": true, "Sub": true,
}

// RuleCRound — decimals reach the journal printer and the CSV renderer
// untouched; the text renderer divides by the constant 1000 only under
// Thousands and formats with StringFixed(Round) (half away from zero).
func RuleCRound(c *core.Ctx) {
	const rule = "C-round"
	p := c.P
	n := 0
	decimalCallsIn := func(fns []*ssa.Function, visit func(fn *ssa.Function, call *ssa.Call, name string)) {
		for _, fn := range fns {
			core.EachInstr(fn, func(ins ssa.Instruction) {
				call, ok := ins.(*ssa.Call)
				if !ok {
					return
				}
				callee := call.Call.StaticCallee()
				if callee == nil || core.PkgPathOf(callee) != pkgDecimal || callee.Signature.Recv() == nil {
					return
				}
				visit(fn, call, callee.Name())
			})
		}
	}
	var exact []*ssa.Function
	for _, fn := range p.SrcFuncs() {
		switch {
		case core.PkgPathOf(fn) == pkgJPrinter:
			exact = append(exact, fn)
		case core.PkgPathOf(fn) == pkgTable && strings.Contains(core.FuncName(fn), "CSVRenderer"):
			exact = append(exact, fn)
		}
	}
	seenExact := map[string]bool{}
	decimalCallsIn(exact, func(fn *ssa.Function, call *ssa.Call, name string) {
		n++
		key := fmt.Sprintf("%s:decimal.%s", core.FuncName(fn), name)
		if seenExact[key] {
			return
		}
		seenExact[key] = true
		if lossyDecimal[name] {
			c.Ob(rule, key, call.Pos(), core.FuncName(fn), core.Violated, "decimal."+name+" changes or rounds the amount on its way into the printed journal / CSV cell: the output no longer carries the exact booked amount")
		} else {
			c.Ob(rule, key, call.Pos(), core.FuncName(fn), core.Discharged, "exact rendering")
		}
	})
	for _, fn := range exact {
		if len(fn.Blocks) > 0 && fn.Parent() == nil {
			c.Ob(rule, core.FuncName(fn)+":no lossy decimal call", fn.Pos(), core.FuncName(fn), core.Info, "examined")
		}
	}
	// text renderer
	num := p.Func(pkgTable, "TextRenderer.numToString")
	thousands := p.Field(pkgTable, "TextRenderer", "Thousands")
	round := p.Field(pkgTable, "TextRenderer", "Round")
	if num == nil || thousands == nil || round == nil {
		c.Anchor(rule, "table.TextRenderer.numToString / Thousands / Round")
		return
	}
	var problems []string
	sawFixed := false
	decimalCallsIn([]*ssa.Function{num}, func(fn *ssa.Function, call *ssa.Call, name string) {
		switch name {
		case "Div":
			if ok, _ := globalNonZeroDecimal(p, globalOf(call.Call.Args[1])); !ok {
				problems = append(problems, "the divisor of the thousands scaling is not the write-once constant")
			} else if g := globalOf(call.Call.Args[1]); g != nil {
				if ok, why := globalNonZeroDecimal(p, g); !ok || !strings.Contains(why, "\"1000\"") {
					problems = append(problems, "the thousands divisor is not 1000")
				}
			}
			// under Thousands only
			ctlOK := false
			for _, b := range fn.Blocks {
				iff, isIf := b.Instrs[len(b.Instrs)-1].(*ssa.If)
				if !isIf {
					continue
				}
				if ctl, idx := core.Controls(b, call.Block()); ctl && idx == 0 {
					if ld, ok := iff.Cond.(*ssa.UnOp); ok {
						if fa, ok := ld.X.(*ssa.FieldAddr); ok && core.FieldOf(fa) == thousands {
							ctlOK = true
						}
					}
				}
			}
			if !ctlOK {
				problems = append(problems, "the division by 1000 is not controlled by the Thousands option")
			}
		case "StringFixed":
			sawFixed = true
			isRound := false
			for v := range originSet(p, call.Call.Args[1], 0) {
				if fa, ok := v.(*ssa.FieldAddr); ok && core.FieldOf(fa) == round {
					isRound = true
				}
			}
			if !isRound {
				problems = append(problems, "the number of digits is not the Round option")
			}
			// the formatted number leaves the function as it is (or through the
			// package's own grouping helper): it is not cut, trimmed or glued
			seenV := map[ssa.Value]bool{}
			var follow func(v ssa.Value)
			follow = func(v ssa.Value) {
				if seenV[v] || v.Referrers() == nil {
					return
				}
				seenV[v] = true
				for _, r := range *v.Referrers() {
					switch u := r.(type) {
					case *ssa.Phi:
						follow(u)
					case *ssa.Slice:
						problems = append(problems, "the formatted number is cut by a slice expression at "+p.Pos(u.Pos())+" (a sign or a digit can be lost)")
					case *ssa.BinOp:
						if u.Op == token.ADD {
							problems = append(problems, "the formatted number is concatenated with other text at "+p.Pos(u.Pos()))
						}
					case *ssa.Call:
						callee := u.Call.StaticCallee()
						if callee != nil && !p.InModule(callee) && callee.Signature.Results().Len() > 0 {
							if b, ok := callee.Signature.Results().At(0).Type().Underlying().(*types.Basic); ok && b.Kind() == types.String {
								problems = append(problems, "the formatted number is rewritten by "+core.FuncName(callee)+" at "+p.Pos(u.Pos()))
							}
						}
					}
				}
			}
			follow(call)
		default:
			problems = append(problems, "decimal."+name+" in the number formatting path (expected only Div(1000) and StringFixed(Round), which rounds half away from zero)")
		}
	})
	if !sawFixed {
		problems = append(problems, "numbers are not formatted with StringFixed(Round)")
	}
	key := core.FuncName(num) + ":Div(1000) under Thousands, StringFixed(Round)"
	if len(problems) == 0 {
		c.Ob(rule, key, num.Pos(), core.FuncName(num), core.Discharged, "scaling by the constant 1000 only with --thousands; rounding by decimal.StringFixed (half away from zero) to --digits")
	} else {
		c.Ob(rule, key, num.Pos(), core.FuncName(num), core.Violated, strings.Join(uniq(problems), "; "))
	}
	c.Floor(rule, 1)
}

func globalOf(v ssa.Value) *ssa.Global {
	if u, ok := v.(*ssa.UnOp); ok && u.Op == token.MUL {
		if g, ok := u.X.(*ssa.Global); ok {
			return g
		}
	}
	return nil
}

// RuleFCells — every cell type is handled by all three renderer switches, and
// a number cell is measured with the string it is rendered with.
func RuleFCells(c *core.Ctx) {
	const rule = "F-cells"
	p := c.P
	tp := p.Package(pkgTable)
	if tp == nil {
		c.Anchor(rule, "package lib/common/table")
		return
	}
	cellObj := tp.Scope().Lookup("cell")
	if cellObj == nil {
		c.Anchor(rule, "table.cell")
		return
	}
	iface, ok := cellObj.Type().Underlying().(*types.Interface)
	if !ok {
		c.Anchor(rule, "table.cell interface")
		return
	}
	var cells []string
	for _, n := range tp.Scope().Names() {
		tn, ok := tp.Scope().Lookup(n).(*types.TypeName)
		if !ok || tn == cellObj {
			continue
		}
		if types.Implements(tn.Type(), iface) {
			cells = append(cells, "table."+n)
		}
	}
	sort.Strings(cells)
	contentFree := map[string]bool{}
	for _, n := range tp.Scope().Names() {
		if tn, ok := tp.Scope().Lookup(n).(*types.TypeName); ok {
			if st, ok := tn.Type().Underlying().(*types.Struct); ok && st.NumFields() == 0 {
				contentFree["table."+n] = true
			}
		}
	}
	measures := cellMeasures(p)
	// every dispatch over the cell types is exhaustive: a type switch on a value of
	// type cell anywhere in the package covers every type that implements cell; a
	// role implemented as a method of the cell interface is exhaustive by the type
	// checker
	nSwitch := 0
	var switchFns []*ssa.Function
	for _, fn := range p.SrcFuncs() {
		if core.PkgPathOf(fn) != pkgTable {
			continue
		}
		have := typeSwitchTypes(fn)
		nCellTypes := 0
		for name := range have {
			for _, cell := range cells {
				if name == cell {
					nCellTypes++
				}
			}
		}
		// a dispatch names at least two cell types; a single `x.(SeparatorCell)`
		// test is a membership question like the predicates below
		if nCellTypes < 2 {
			continue
		}
		if onlyBoolResults(fn) {
			// a membership predicate ("is this a separator or an empty cell?"): a
			// partial switch is a set test, not a dispatch; what is done with the
			// answer is judged where it is used (K-width-all)
			continue
		}
		nSwitch++
		switchFns = append(switchFns, fn)
		sn := strings.TrimPrefix(strings.TrimPrefix(core.FuncName(fn), "(*lib/common/table."), "(lib/common/table.")
		sn = strings.Replace(sn, ")", "", 1)
		for _, cell := range cells {
			key := fmt.Sprintf("table.%s:case %s", sn, cell)
			if _, ok := have[cell]; ok {
				c.Ob(rule, key, fn.Pos(), core.FuncName(fn), core.Discharged, "handled")
			} else if measures[fn] && contentFree[cell] {
				c.Ob(rule, key, fn.Pos(), core.FuncName(fn), core.Discharged, "a cell type without fields has no content to measure: width 0 by the function's default")
			} else {
				c.Ob(rule, key, fn.Pos(), core.FuncName(fn), core.Violated, "cell type "+cell+" has no case in "+sn+": such cells are measured as width 0 / rendered as an error, so rows lose their alignment or the report fails")
			}
		}
	}
	nMethods := iface.NumMethods()
	c.Ob(rule, "table.cell:roles", cellObj.Pos(), "", verdictIf(nSwitch+nMethods-1 >= 3), fmt.Sprintf("%d type switches over the cell types (each checked for exhaustiveness) and %d interface methods besides isSep (exhaustive by the type checker): rendering as text, measuring and rendering as CSV are all dispatched over every cell type", nSwitch, nMethods-1))
	// number cells: same string source for measuring and rendering. The cell's
	// decimal reaches numToString directly, or a formatter parameter for which
	// the caller passes the method value numToString.
	num := p.Func(pkgTable, "TextRenderer.numToString")
	numberCellN := p.Field(pkgTable, "numberCell", "n")
	sites := 0
	if num != nil && numberCellN != nil {
		for _, fn := range p.SrcFuncs() {
			if core.PkgPathOf(fn) != pkgTable {
				continue
			}
			core.EachInstr(fn, func(ins ssa.Instruction) {
				call, ok := ins.(*ssa.Call)
				if !ok {
					return
				}
				fromN := false
				for _, a := range call.Call.Args {
					for v := range originSet(p, a, 0) {
						if f, ok := v.(*ssa.Field); ok && core.FieldOf(f) == numberCellN {
							fromN = true
						}
						if fa, ok := v.(*ssa.FieldAddr); ok && core.FieldOf(fa) == numberCellN {
							fromN = true
						}
					}
				}
				if !fromN {
					return
				}
				if call.Call.StaticCallee() == num {
					sites++
					return
				}
				// a formatter parameter: every caller passes numToString
				if prm, ok := call.Call.Value.(*ssa.Parameter); ok {
					idx := paramIndex(prm)
					all, any := true, false
					if n := p.CG.Nodes[fn]; n != nil {
						for _, e := range n.In {
							if !p.InModule(e.Caller.Func) || e.Site == nil {
								continue
							}
							args := e.Site.Common().Args
							if e.Site.Common().IsInvoke() {
								args = append([]ssa.Value{e.Site.Common().Value}, args...)
							}
							if idx < len(args) {
								any = true
								if core.FuncValue(args[idx]) != num {
									all = false
								}
							}
						}
					}
					if all && any {
						sites++
					}
				}
			})
		}
	}
	key := "table:number cells are measured and rendered through numToString"
	if sites >= 2 {
		c.Ob(rule, key, 0, "", core.Discharged, fmt.Sprintf("%d sites convert a number cell's decimal with numToString (measuring and rendering)", sites))
	} else {
		c.Ob(rule, key, 0, "", core.Violated, fmt.Sprintf("only %d site converts a number cell's decimal with numToString: column width and rendered text disagree, lines get different widths", sites))
	}
	c.Floor(rule, 8)
}

func onlyBoolResults(fn *ssa.Function) bool {
	res := fn.Signature.Results()
	if res.Len() == 0 {
		return false
	}
	for i := 0; i < res.Len(); i++ {
		if b, ok := res.At(i).Type().Underlying().(*types.Basic); !ok || b.Kind() != types.Bool {
			return false
		}
	}
	return true
}

// cellMeasures: the functions of the table package that compute a width (an
// int) from a cell: a type switch over the cell types, or a method of the cell
// interface, with an int result.
func cellMeasures(p *core.Prog) map[*ssa.Function]bool {
	res := map[*ssa.Function]bool{}
	tp := p.Package(pkgTable)
	if tp == nil {
		return res
	}
	cellObj := tp.Scope().Lookup("cell")
	if cellObj == nil {
		return res
	}
	isInt := func(fn *ssa.Function) bool {
		r := fn.Signature.Results()
		if r.Len() != 1 {
			return false
		}
		b, ok := r.At(0).Type().Underlying().(*types.Basic)
		return ok && b.Kind() == types.Int
	}
	for _, fn := range p.SrcFuncs() {
		if core.PkgPathOf(fn) != pkgTable || !isInt(fn) {
			continue
		}
		takesCell := false
		for _, prm := range fn.Params {
			if types.Identical(prm.Type(), cellObj.Type()) || types.AssignableTo(prm.Type(), cellObj.Type()) && prm == fn.Params[0] && fn.Signature.Recv() != nil && types.Implements(prm.Type(), cellObj.Type().Underlying().(*types.Interface)) {
				takesCell = true
			}
		}
		if takesCell {
			res[fn] = true
		}
	}
	return res
}

// RuleKWidthAll — every cell of every row contributes to the width of its
// column: the store `widths[i] = measure(cell)` is control-dependent only on
// the loops over rows and cells and on the comparison between that slot and
// the measured value. A row or cell that is skipped there is rendered wider
// than its column and the lines of the table differ in width.
func RuleKWidthAll(c *core.Ctx) {
	const rule = "K-width-all"
	p := c.P
	measures := cellMeasures(p)
	if len(measures) == 0 {
		c.Anchor(rule, "a function of lib/common/table that measures a cell")
		return
	}
	fromMeasure := func(v ssa.Value) bool {
		for x := range originSet(p, v, 0) {
			if call, ok := x.(*ssa.Call); ok {
				for _, callee := range p.Callees(call) {
					if measures[callee] {
						return true
					}
				}
			}
		}
		return false
	}
	n := 0
	for _, fn := range p.SrcFuncs() {
		if core.PkgPathOf(fn) != pkgTable {
			continue
		}
		k := 0
		core.EachInstr(fn, func(ins ssa.Instruction) {
			st, ok := ins.(*ssa.Store)
			if !ok {
				return
			}
			ia, ok := st.Addr.(*ssa.IndexAddr)
			if !ok || !fromMeasure(st.Val) {
				return
			}
			_ = ia
			n++
			k++
			key := fmt.Sprintf("%s:width update %d sees every cell", core.FuncName(fn), k)
			bad := ""
			for _, b := range fn.Blocks {
				iff, ok := b.Instrs[len(b.Instrs)-1].(*ssa.If)
				if !ok {
					continue
				}
				if ctl, _ := core.Controls(b, st.Block()); !ctl {
					continue
				}
				if core.IsLoopExitTest(b, st.Block()) || isLoopHeaderOf(fn, b, st.Block()) {
					continue
				}
				if fromMeasure(iff.Cond) {
					continue // widths[i] < measure(cell)
				}
				bad = p.Pos(iff.Cond.Pos())
				if iff.Cond.Pos() == 0 {
					bad = p.Pos(iff.Pos())
				}
			}
			if bad == "" {
				c.Ob(rule, key, st.Pos(), core.FuncName(fn), core.Discharged, "controlled only by the loops over rows and cells and by the comparison with the measured width")
			} else {
				c.Ob(rule, key, st.Pos(), core.FuncName(fn), core.Violated, "the width of a column is updated only under the condition at "+bad+": cells for which it fails do not widen their column, are rendered wider than it and the lines of the table differ in width")
			}
		})
	}
	if n == 0 {
		c.Ob(rule, "table:column widths are computed from measured cells", 0, "", core.Undecided, "no store of a measured cell width into a slice was found in lib/common/table: the shape of the width computation is not known to this rule")
	}
	c.Floor(rule, 1)
}

// RuleFDirectiveTypes — the directive types agree along the pipeline: what
// the parser produces is what model.ParseDirective switches on and what the
// syntax printer prints; what ParseDirective returns is what Builder.Add and
// the journal printer switch on.
func RuleFDirectiveTypes(c *core.Ctx) {
	const rule = "F-directive-types"
	p := c.P
	parseDirective := p.Func(pkgParser, "Parser.parseDirective")
	modelParse := p.Func(pkgModel, "ParseDirective")
	sprinter := p.Func(pkgSPrinter, "Printer.printDirective")
	add := p.Func(pkgJournal, "Builder.Add")
	jprinter := p.Func(pkgJPrinter, "Printer.PrintDirective")
	if parseDirective == nil || modelParse == nil || sprinter == nil || add == nil || jprinter == nil {
		c.Anchor(rule, "parser.parseDirective / model.ParseDirective / printers / Builder.Add")
		return
	}
	produced := func(root *ssa.Function, pkgPrefix string) map[string]bool {
		res := map[string]bool{}
		// the function and the helpers of its own package it calls (generic
		// helpers are analysed per instantiation), three levels deep
		fns := map[*ssa.Function]bool{root: true}
		frontier := []*ssa.Function{root}
		for depth := 0; depth < 3; depth++ {
			var next []*ssa.Function
			for _, f := range frontier {
				core.EachInstr(f, func(ins ssa.Instruction) {
					call, ok := ins.(ssa.CallInstruction)
					if !ok {
						return
					}
					for _, callee := range p.Callees(call) {
						if callee == nil || callee.Blocks == nil || fns[callee] || core.PkgPathOf(callee) != core.PkgPathOf(root) {
							continue
						}
						fns[callee] = true
						next = append(next, callee)
					}
				})
			}
			frontier = next
		}
		var each func(fn *ssa.Function, f func(ssa.Instruction))
		each = func(fn *ssa.Function, f func(ssa.Instruction)) { core.EachInstr(fn, f) }
		for fn := range fns {
			each(fn, func(ins ssa.Instruction) {
				mi, ok := ins.(*ssa.MakeInterface)
				if !ok {
					return
				}
				t := mi.X.Type()
				if pt, ok := t.(*types.Pointer); ok {
					t = pt.Elem()
				}
				if n, ok := types.Unalias(t).(*types.Named); ok && n.Obj().Pkg() != nil && strings.HasPrefix(n.Obj().Pkg().Path(), pkgPrefix) {
					if _, isErr := n.Underlying().(*types.Struct); isErr && n.Obj().Name() != "Error" {
						res[n.Obj().Name()] = true
					}
				}
			})
		}
		return res
	}
	switched := func(fn *ssa.Function) map[string]bool {
		res := map[string]bool{}
		for tn := range typeSwitchTypes(fn) {
			res[tn[strings.LastIndex(tn, ".")+1:]] = true
		}
		return res
	}
	cmp := func(key string, a map[string]bool, an string, b map[string]bool, bn string, ignore map[string]bool, fn *ssa.Function) {
		var onlyA, onlyB []string
		for k := range a {
			if !b[k] && !ignore[k] {
				onlyA = append(onlyA, k)
			}
		}
		for k := range b {
			if !a[k] && !ignore[k] {
				onlyB = append(onlyB, k)
			}
		}
		sort.Strings(onlyA)
		sort.Strings(onlyB)
		if len(onlyA)+len(onlyB) == 0 {
			c.Ob(rule, key, fn.Pos(), core.FuncName(fn), core.Discharged, fmt.Sprintf("%s and %s agree on %d types", an, bn, len(a)))
			return
		}
		msg := ""
		if len(onlyA) > 0 {
			msg += fmt.Sprintf("%s handles %v, which %s does not; ", an, onlyA, bn)
		}
		if len(onlyB) > 0 {
			msg += fmt.Sprintf("%s handles %v, which %s does not; ", bn, onlyB, an)
		}
		c.Ob(rule, key, fn.Pos(), core.FuncName(fn), core.Violated, msg+"such a directive is lost or makes the command fail with `unknown directive`")
	}
	syn := produced(parseDirective, pkgDirectives)
	cmp("syntax: parser vs model.ParseDirective", syn, "the parser", switched(modelParse), "model.ParseDirective", nil, modelParse)
	cmp("syntax: parser vs syntax printer", syn, "the parser", switched(sprinter), "the syntax printer", nil, sprinter)
	mod := produced(modelParse, core.Module+"/lib/model")
	// transactions are appended in a loop as values of type *Transaction
	core.EachInstr(modelParse, func(ins ssa.Instruction) {
		if call, ok := ins.(*ssa.Call); ok && call.Call.StaticCallee() != nil && originName(call.Call.StaticCallee()) == "lib/model/transaction.Create" {
			mod["Transaction"] = true
		}
	})
	cmp("model: ParseDirective vs journal.Builder.Add", mod, "model.ParseDirective", switched(add), "journal.Builder.Add", nil, add)
	cmp("model: ParseDirective vs journal printer", mod, "model.ParseDirective", switched(jprinter), "the journal printer", nil, jprinter)
	c.Floor(rule, 4)
}

// RuleFWidthUnit — the text renderer measures and pads a text cell in one
// unit: characters. Every use of textCell.Content in the table package is a
// whole-string use (written, returned, boxed for fmt, stored in a cell) or a
// character count (utf8.RuneCountInString, conversion to []rune, range); a
// byte-wise use (len, copy, slicing, indexing, conversion to []byte) measures
// or cuts a multi-byte account name in bytes while the column width is in
// characters, and the row is no longer as wide as the others.
func RuleFWidthUnit(c *core.Ctx) {
	const rule = "F-width-unit"
	p := c.P
	content := p.Field(pkgTable, "textCell", "Content")
	if content == nil {
		c.Anchor(rule, "table.textCell.Content")
		return
	}
	n, counted := 0, 0
	for _, fn := range p.SrcFuncs() {
		if core.PkgPathOf(fn) != pkgTable {
			continue
		}
		core.EachInstr(fn, func(ins ssa.Instruction) {
			var val ssa.Value
			switch x := ins.(type) {
			case *ssa.Field:
				if fieldOfStruct(x.X.Type(), x.Field) == content {
					val = x
				}
			case *ssa.UnOp:
				if fa, ok := x.X.(*ssa.FieldAddr); ok && x.Op == token.MUL && core.FieldOf(fa) == content {
					val = x
				}
			}
			if val == nil || val.Referrers() == nil {
				return
			}
			// the content also where it has been merged with other strings (a phi of
			// "the text to measure")
			var refs []ssa.Instruction
			seenPhi := map[ssa.Value]bool{}
			var collect func(v ssa.Value)
			collect = func(v ssa.Value) {
				if seenPhi[v] || v.Referrers() == nil {
					return
				}
				seenPhi[v] = true
				for _, r := range *v.Referrers() {
					if ph, ok := r.(*ssa.Phi); ok {
						collect(ph)
						continue
					}
					refs = append(refs, r)
				}
			}
			collect(val)
			for _, r := range refs {
				use, bad := "", false
				switch u := r.(type) {
				case *ssa.Call:
					if b, ok := u.Call.Value.(*ssa.Builtin); ok {
						use, bad = "builtin "+b.Name(), true
					} else if callee := u.Call.StaticCallee(); callee != nil {
						use = core.FuncName(callee)
						if callee.Pkg != nil && callee.Pkg.Pkg.Path() == "unicode/utf8" && callee.Name() == "RuneCountInString" {
							counted++
						} else if callee.Pkg != nil && callee.Pkg.Pkg.Path() == "unicode/utf8" {
							bad = true
						}
					} else {
						use = "dynamic call"
					}
				case *ssa.Convert:
					if sl, ok := u.Type().Underlying().(*types.Slice); ok {
						if b, ok := sl.Elem().Underlying().(*types.Basic); ok && b.Kind() == types.Uint8 {
							use, bad = "conversion to []byte", true
						} else {
							use = "conversion to []rune"
						}
					}
				case *ssa.Slice:
					use, bad = "slice expression", true
				case *ssa.Index, *ssa.Lookup:
					use, bad = "byte index", true
				case *ssa.Range:
					use = "range (characters)"
				case *ssa.DebugRef:
					continue
				default:
					use = fmt.Sprintf("%T", r)
				}
				n++
				key := fmt.Sprintf("%s:use of textCell.Content by %s", core.FuncName(fn), use)
				if bad {
					c.Ob(rule, key, r.Pos(), core.FuncName(fn), core.Violated, "the content of a text cell is used byte-wise ("+use+"), but column widths and padding are counted in characters: a row with a multi-byte account name gets a different width or a cut name")
				} else {
					c.Ob(rule, key, r.Pos(), core.FuncName(fn), core.Discharged, "whole-string or character-count use")
				}
			}
		})
	}
	// the width site and the padding site both count characters
	{
		key := "table:text cells are measured in characters at the width site and at the padding site"
		n++
		if counted >= 2 {
			c.Ob(rule, key, 0, "", core.Discharged, fmt.Sprintf("%d uses of utf8.RuneCountInString(textCell.Content)", counted))
		} else {
			c.Ob(rule, key, 0, "", core.Violated, fmt.Sprintf("only %d use of utf8.RuneCountInString(textCell.Content): one of the two sites (column width, padding) does not count characters, so width and padding disagree for multi-byte names", counted))
		}
	}
	c.Floor(rule, 4)
}

func fieldOfStruct(t types.Type, i int) *types.Var {
	if ptr, ok := t.Underlying().(*types.Pointer); ok {
		t = ptr.Elem()
	}
	if st, ok := t.Underlying().(*types.Struct); ok && i < st.NumFields() {
		return st.Field(i)
	}
	return nil
}

func derefType(t types.Type) types.Type {
	if pt, ok := t.Underlying().(*types.Pointer); ok {
		return pt.Elem()
	}
	return t
}
