package rules

import (
	"fmt"
	"go/constant"
	"go/token"
	"go/types"

	"golang.org/x/tools/go/ssa"

	"knutlint/core"
)

// A small abstract executor for the calendar functions of lib/common/date.
// One date is the input: its weekday class and its month class may be made
// concrete, its year and its day of the month stay symbolic. Every value the
// code derives is one of:
//
//	aInt     a concrete integer
//	aYear    the date's year plus a constant
//	aDayLin  a·(the date's day of the month) + b
//	aDate    the date itself moved by a number of days, or the first / last /
//	         k-th day of a concrete month of the year (date's year + constant)
//	aTuple   the results of a call with several results
//	aUnknown anything else
//
// Branches on concrete integers are decided; a branch on an unknown value
// ends the path (the result of the function is then unknown). Calls to
// functions of the module are executed with their parameters bound.

const (
	aUnknown = iota
	aInt
	aYear
	aDayLin
	aDate
	aTuple
)

type aval struct {
	kind   int
	i      int64    // aInt: the value; aYear: the offset
	lin    [2]int64 // aDayLin
	cal    calDate  // aDate (kind calSelf: the input date, moved by dayOff days)
	dayOff int64
	tuple  []aval
	usesWd bool // derived from the weekday class
	usesM  bool // derived from the month class
}

func (a aval) String() string {
	switch a.kind {
	case aInt:
		return fmt.Sprint(a.i)
	case aYear:
		return fmt.Sprintf("Y%+d", a.i)
	case aDayLin:
		return fmt.Sprintf("%d·D%+d", a.lin[0], a.lin[1])
	case aDate:
		if a.cal.kind == calSelf {
			return fmt.Sprintf("d%+d", a.dayOff)
		}
		return a.cal.String()
	}
	return "?"
}

type calMachine struct {
	p      *core.Prog
	wd     int64 // 0..6, or -1 unknown
	month  int64 // 1..12, or 0 unknown
	why    string
	budget int
}

func (m *calMachine) fail(format string, args ...any) aval {
	if m.why == "" {
		m.why = fmt.Sprintf(format, args...)
	}
	return aval{}
}

// call executes fn with its parameters bound to args and returns its result.
func (m *calMachine) call(fn *ssa.Function, args []aval, depth int) aval {
	if depth > 6 || fn.Blocks == nil || len(args) != len(fn.Params) {
		return aval{}
	}
	env := map[ssa.Value]aval{}
	for i, prm := range fn.Params {
		env[prm] = args[i]
	}
	var pred *ssa.BasicBlock
	b := fn.Blocks[0]
	for {
		m.budget--
		if m.budget < 0 {
			return m.fail("the execution of %s does not settle", core.FuncName(fn))
		}
		for _, ins := range b.Instrs {
			v, ok := ins.(ssa.Value)
			if !ok {
				// a store to a local (a spilled parameter or variable)
				if st, ok := ins.(*ssa.Store); ok {
					if al, ok := st.Addr.(*ssa.Alloc); ok {
						env[al] = m.get(env, st.Val)
					}
				}
				continue
			}
			if phi, ok := ins.(*ssa.Phi); ok {
				for i, pb := range b.Preds {
					if pb == pred {
						env[phi] = m.get(env, phi.Edges[i])
					}
				}
				continue
			}
			env[v] = m.eval(env, v, depth)
		}
		switch t := b.Instrs[len(b.Instrs)-1].(type) {
		case *ssa.If:
			cv, ok := m.cond(env, t.Cond)
			if !ok {
				return aval{}
			}
			pred = b
			if cv {
				b = b.Succs[0]
			} else {
				b = b.Succs[1]
			}
		case *ssa.Jump:
			pred, b = b, b.Succs[0]
		case *ssa.Return:
			switch len(t.Results) {
			case 0:
				return aval{}
			case 1:
				return m.get(env, t.Results[0])
			}
			var tup []aval
			for _, r := range t.Results {
				tup = append(tup, m.get(env, r))
			}
			return aval{kind: aTuple, tuple: tup}
		default:
			return aval{}
		}
	}
}

func (m *calMachine) get(env map[ssa.Value]aval, v ssa.Value) aval {
	v = core.Strip(v)
	if cst, ok := v.(*ssa.Const); ok {
		if cst.Value != nil && cst.Value.Kind() == constant.Int {
			if i, ok := constant.Int64Val(cst.Value); ok {
				return aval{kind: aInt, i: i}
			}
		}
		return aval{}
	}
	if a, ok := env[v]; ok {
		return a
	}
	return aval{}
}

func (m *calMachine) eval(env map[ssa.Value]aval, v ssa.Value, depth int) aval {
	switch x := v.(type) {
	case *ssa.Convert:
		return m.get(env, x.X)
	case *ssa.ChangeType:
		return m.get(env, x.X)
	case *ssa.UnOp:
		switch x.Op {
		case token.MUL: // a load from a local
			if al, ok := x.X.(*ssa.Alloc); ok {
				return env[al]
			}
		case token.SUB:
			a := m.get(env, x.X)
			switch a.kind {
			case aInt:
				a.i = -a.i
				return a
			case aDayLin:
				a.lin = [2]int64{-a.lin[0], -a.lin[1]}
				return a
			}
		}
	case *ssa.Extract:
		t := m.get(env, x.Tuple)
		if t.kind == aTuple && x.Index < len(t.tuple) {
			return t.tuple[x.Index]
		}
	case *ssa.BinOp:
		return m.binop(x.Op, m.get(env, x.X), m.get(env, x.Y))
	case *ssa.Call:
		return m.evalCall(env, x, depth)
	}
	return aval{}
}

func (m *calMachine) binop(op token.Token, a, b aval) aval {
	flags := func(r aval) aval {
		r.usesWd = a.usesWd || b.usesWd
		r.usesM = a.usesM || b.usesM
		return r
	}
	switch {
	case a.kind == aInt && b.kind == aInt:
		switch op {
		case token.ADD:
			return flags(aval{kind: aInt, i: a.i + b.i})
		case token.SUB:
			return flags(aval{kind: aInt, i: a.i - b.i})
		case token.MUL:
			return flags(aval{kind: aInt, i: a.i * b.i})
		case token.QUO:
			if b.i != 0 {
				return flags(aval{kind: aInt, i: a.i / b.i})
			}
		case token.REM:
			if b.i != 0 {
				return flags(aval{kind: aInt, i: a.i % b.i})
			}
		}
	case a.kind == aYear && b.kind == aInt && (op == token.ADD || op == token.SUB):
		if op == token.SUB {
			return aval{kind: aYear, i: a.i - b.i}
		}
		return aval{kind: aYear, i: a.i + b.i}
	case a.kind == aInt && b.kind == aYear && op == token.ADD:
		return aval{kind: aYear, i: a.i + b.i}
	case (a.kind == aDayLin || b.kind == aDayLin) && (op == token.ADD || op == token.SUB):
		la, lb := a.lin, b.lin
		if a.kind == aInt {
			la = [2]int64{0, a.i}
		} else if a.kind != aDayLin {
			return aval{}
		}
		if b.kind == aInt {
			lb = [2]int64{0, b.i}
		} else if b.kind != aDayLin {
			return aval{}
		}
		if op == token.ADD {
			return aval{kind: aDayLin, lin: [2]int64{la[0] + lb[0], la[1] + lb[1]}}
		}
		return aval{kind: aDayLin, lin: [2]int64{la[0] - lb[0], la[1] - lb[1]}}
	}
	return aval{}
}

func (m *calMachine) cond(env map[ssa.Value]aval, v ssa.Value) (bool, bool) {
	v = core.Strip(v)
	switch x := v.(type) {
	case *ssa.UnOp:
		if x.Op == token.NOT {
			r, ok := m.cond(env, x.X)
			return !r, ok
		}
	case *ssa.BinOp:
		a, b := m.get(env, x.X), m.get(env, x.Y)
		if a.kind != aInt || b.kind != aInt {
			return false, false
		}
		switch x.Op {
		case token.EQL:
			return a.i == b.i, true
		case token.NEQ:
			return a.i != b.i, true
		case token.LSS:
			return a.i < b.i, true
		case token.LEQ:
			return a.i <= b.i, true
		case token.GTR:
			return a.i > b.i, true
		case token.GEQ:
			return a.i >= b.i, true
		}
	}
	return false, false
}

func (m *calMachine) evalCall(env map[ssa.Value]aval, call *ssa.Call, depth int) aval {
	callee := call.Call.StaticCallee()
	if callee == nil {
		return aval{}
	}
	var args []aval
	for _, a := range call.Call.Args {
		args = append(args, m.get(env, a))
	}
	if callee.Pkg != nil && callee.Pkg.Pkg.Path() == "time" {
		return m.timeCall(callee, args, call)
	}
	if m.p.InModule(callee) && callee.Blocks != nil {
		return m.call(callee, args, depth+1)
	}
	return aval{}
}

func (m *calMachine) timeCall(callee *ssa.Function, args []aval, at *ssa.Call) aval {
	name := callee.Name()
	if callee.Signature.Recv() == nil {
		if name == "Date" && len(args) == 8 {
			y, mo, d := args[0], args[1], args[2]
			if y.kind != aYear || mo.kind != aInt || d.kind != aInt {
				if mo.usesM && y.kind != aYear {
					return m.fail("the year of the date built at %s is not the year of the date itself", m.p.Pos(at.Pos()))
				}
				return aval{}
			}
			cd, ok := normCal(y.i, mo.i, d.i)
			if !ok {
				return m.fail("day %d of month %d at %s depends on the length of the month", d.i, mo.i, m.p.Pos(at.Pos()))
			}
			return aval{kind: aDate, cal: cd, usesM: mo.usesM}
		}
		return aval{}
	}
	if !isTimeType(callee.Signature.Recv().Type()) || len(args) == 0 || args[0].kind != aDate {
		return aval{}
	}
	d := args[0]
	self := d.cal.kind == calSelf
	switch name {
	case "Weekday":
		if self && m.wd >= 0 {
			return aval{kind: aInt, i: ((m.wd+d.dayOff)%7 + 7) % 7, usesWd: true}
		}
	case "Month":
		if self && d.dayOff == 0 && m.month > 0 {
			return aval{kind: aInt, i: m.month, usesM: true}
		}
		if !self {
			return aval{kind: aInt, i: d.cal.month, usesM: d.usesM}
		}
	case "Year":
		if self && d.dayOff == 0 {
			return aval{kind: aYear}
		}
		if !self {
			return aval{kind: aYear, i: d.cal.year}
		}
	case "Day":
		if self && d.dayOff == 0 {
			return aval{kind: aDayLin, lin: [2]int64{1, 0}}
		}
		if !self && d.cal.kind == calFirst {
			return aval{kind: aInt, i: 1}
		}
	case "Date":
		if self && d.dayOff == 0 && m.month > 0 {
			return aval{kind: aTuple, tuple: []aval{{kind: aYear}, {kind: aInt, i: m.month, usesM: true}, {kind: aDayLin, lin: [2]int64{1, 0}}}}
		}
	case "UTC", "Local":
		return d
	case "AddDate":
		if len(args) != 4 {
			return aval{}
		}
		y, mo, dd := args[1], args[2], args[3]
		if y.kind != aInt || mo.kind != aInt {
			return aval{}
		}
		if self {
			switch {
			case dd.kind == aInt && y.i == 0 && mo.i == 0:
				d.dayOff += dd.i
				d.usesWd = d.usesWd || dd.usesWd
				return d
			case dd.kind == aDayLin && dd.lin[0] == -1 && d.dayOff == 0 && m.month > 0:
				// k − d.Day() days from the date: the k-th day of its month; years and months first
				nb, ok := normCal(0, m.month, dd.lin[1])
				if !ok {
					return m.fail("day %d of the date's month at %s depends on the length of the month", dd.lin[1], m.p.Pos(at.Pos()))
				}
				if nb.kind == calLast && (y.i != 0 || mo.i != 0) {
					return m.fail("AddDate with months at %s is applied to the last day of a month", m.p.Pos(at.Pos()))
				}
				r, ok, why := addCal(nb, y.i, mo.i, 0, m.p.Pos(at.Pos()))
				if why != "" {
					return m.fail("%s", why)
				}
				if !ok {
					return aval{}
				}
				return aval{kind: aDate, cal: r, usesM: true}
			}
			return aval{}
		}
		if dd.kind != aInt {
			if dd.usesM || mo.usesM {
				return m.fail("the argument of AddDate at %s depends on the month through an operation this rule does not evaluate", m.p.Pos(at.Pos()))
			}
			return aval{}
		}
		r, ok, why := addCal(d.cal, y.i, mo.i, dd.i, m.p.Pos(at.Pos()))
		if why != "" {
			return m.fail("%s", why)
		}
		if !ok {
			return aval{}
		}
		return aval{kind: aDate, cal: r, usesM: d.usesM}
	}
	return aval{}
}

// runDateFunc executes fn(date, interval) for one weekday / month class.
func runDateFunc(p *core.Prog, fn *ssa.Function, iv, wd, month int64) (aval, string) {
	m := &calMachine{p: p, wd: wd, month: month, budget: 5000}
	args := make([]aval, len(fn.Params))
	for i, prm := range fn.Params {
		if isTimeType(prm.Type()) {
			args[i] = aval{kind: aDate, cal: calDate{kind: calSelf, month: month}}
		} else if b, ok := prm.Type().Underlying().(*types.Basic); ok && b.Info()&types.IsInteger != 0 {
			args[i] = aval{kind: aInt, i: iv}
		}
	}
	r := m.call(fn, args, 0)
	return r, m.why
}
