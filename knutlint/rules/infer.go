package rules

import (
	"fmt"
	"go/token"
	"go/types"
	"strings"

	"golang.org/x/tools/go/ssa"

	"knutlint/core"
)

// inferScope: functions reachable from the infer command that are not part of
// the parser/scanner/printer (which legitimately build and read the tree).
func inferScope(c *core.Ctx) (map[*ssa.Function]bool, bool) {
	entries := core.CommandEntries(c, func(use string) bool { return use == "infer" })
	if len(entries) == 0 {
		return nil, false
	}
	reach := c.P.ReachLexical(entries...)
	res := map[*ssa.Function]bool{}
	for fn := range reach {
		if !c.P.InModule(fn) || fn.Blocks == nil {
			continue
		}
		switch core.PkgPathOf(fn) {
		case pkgParser, pkgScanner, pkgDirectives, pkgSPrinter:
			continue
		}
		res[fn] = true
	}
	return res, true
}

// treeStoreField: if st writes into a syntax-tree object that is not a fresh
// local, return the field written (nil for a whole-object store).
func treeStore(p *core.Prog, st *ssa.Store) (isTree bool, field *types.Var, base ssa.Value) {
	addr := st.Addr
	var top *types.Var
	for {
		switch a := addr.(type) {
		case *ssa.FieldAddr:
			fv := core.FieldOf(a)
			if top == nil {
				top = fv
			}
			if fv.Pkg() != nil && fv.Pkg().Path() == pkgDirectives {
				isTree = true
			}
			addr = a.X
			continue
		case *ssa.IndexAddr:
			addr = a.X
			continue
		case *ssa.UnOp:
			if a.Op == token.MUL {
				// a pointer kept in a field of a local struct (a table of {target, other}
				// pointer pairs): the addresses stored into that field in this function
				if fa2, ok := a.X.(*ssa.FieldAddr); ok && !isTree {
					if fv2 := core.FieldOf(fa2); fv2 != nil && (fv2.Pkg() == nil || fv2.Pkg().Path() != pkgDirectives) {
						var res *types.Var
						okAll, any := true, false
						core.EachInstr(st.Parent(), func(ins ssa.Instruction) {
							s2, ok := ins.(*ssa.Store)
							if !ok {
								return
							}
							f3, ok := s2.Addr.(*ssa.FieldAddr)
							if !ok || core.FieldOf(f3) != fv2 {
								return
							}
							any = true
							tgt, ok := s2.Val.(*ssa.FieldAddr)
							if !ok || core.FieldOf(tgt) == nil || core.FieldOf(tgt).Pkg() == nil || core.FieldOf(tgt).Pkg().Path() != pkgDirectives {
								okAll = false
								return
							}
							if res == nil {
								res = core.FieldOf(tgt)
							}
						})
						if any && okAll && res != nil {
							return true, res, a
						}
					}
				}
				addr = a.X
				continue
			}
		case *ssa.Alloc:
			// a fresh local object (composite literal under construction)
			if a.Heap || true {
				// local or escaping literal: fresh unless it is a spilled parameter
				if sts := core.StoresTo(a); len(sts) == 1 {
					if _, isParam := sts[0].Val.(*ssa.Parameter); isParam {
						return isTree, top, a
					}
				}
				return false, nil, nil
			}
		}
		break
	}
	// a store through a pointer parameter (`*target = account`): the fields the
	// callers take the address of
	if prm, ok := addr.(*ssa.Parameter); ok && !isTree {
		if fv := paramTreeField(p, prm); fv != nil {
			return true, fv, prm
		}
	}
	if !isTree {
		// whole-object store through a pointer to a directives type
		if pt, ok := st.Addr.Type().Underlying().(*types.Pointer); ok {
			if n, ok := types.Unalias(pt.Elem()).(*types.Named); ok && n.Obj().Pkg() != nil && n.Obj().Pkg().Path() == pkgDirectives {
				if _, isAlloc := st.Addr.(*ssa.Alloc); !isAlloc {
					return true, nil, addr
				}
			}
		}
	}
	return isTree, top, addr
}

// paramTreeField: prm is a pointer parameter and every call of its function in
// the module passes the address of a field of a directives (syntax tree)
// struct: returns that field when all callers agree on Booking.Credit /
// Booking.Debit (either of them), else the first field found; nil if some
// caller passes something else.
func paramTreeField(p *core.Prog, prm *ssa.Parameter) *types.Var {
	fn := prm.Parent()
	idx := -1
	for i, q := range fn.Params {
		if q == prm {
			idx = i
		}
	}
	n := p.CG.Nodes[fn]
	if idx < 0 || n == nil {
		return nil
	}
	var res *types.Var
	for _, e := range n.In {
		if !p.InModule(e.Caller.Func) || e.Site == nil {
			continue
		}
		args := e.Site.Common().Args
		if idx >= len(args) {
			return nil
		}
		fa, ok := args[idx].(*ssa.FieldAddr)
		if !ok {
			return nil
		}
		fv := core.FieldOf(fa)
		if fv == nil || fv.Pkg() == nil || fv.Pkg().Path() != pkgDirectives {
			return nil
		}
		if res == nil {
			res = fv
		} else if res != fv {
			// Credit at one site, Debit at the other: both are the booking's accounts
			if !((res.Name() == "Credit" || res.Name() == "Debit") && (fv.Name() == "Credit" || fv.Name() == "Debit")) {
				return nil
			}
		}
	}
	return res
}

// RuleCInfer — write set of `knut infer`: the only stores into the parsed
// tree are Booking.Credit / Booking.Debit, each control-dependent on an
// equality test between that same field's text and the model's placeholder
// account. DESIGN.md C-infer.
func RuleCInfer(c *core.Ctx) {
	const rule = "C-infer"
	p := c.P
	scope, ok := inferScope(c)
	if !ok {
		c.Anchor(rule, "the infer command (cobra.Command{Use: \"infer\"})")
		return
	}
	credit := p.Field(pkgDirectives, "Booking", "Credit")
	debit := p.Field(pkgDirectives, "Booking", "Debit")
	placeholder := p.Field(pkgBayes, "Model", "account")
	if credit == nil || debit == nil || placeholder == nil {
		c.Anchor(rule, "directives.Booking.Credit/Debit, bayes.Model.account")
		return
	}
	nStores := 0
	for fn := range scope {
		core.EachInstr(fn, func(ins ssa.Instruction) {
			switch x := ins.(type) {
			case *ssa.Store:
				isTree, fv, _ := treeStore(p, x)
				if !isTree {
					return
				}
				nStores++
				if fv != credit && fv != debit {
					name := "whole object"
					if fv != nil {
						name = p.FieldRef(fv)
					}
					c.Ob(rule, fmt.Sprintf("%s:store to %s", core.FuncName(fn), name), x.Pos(), core.FuncName(fn), core.Violated,
						"infer writes a part of the syntax tree other than Booking.Credit/Booking.Debit: text other than the placeholder account would change")
					return
				}
				key := fmt.Sprintf("%s:store to %s", core.FuncName(fn), p.FieldRef(fv))
				if placeholderGuard(p, x, fv, placeholder) {
					c.Ob(rule, key, x.Pos(), core.FuncName(fn), core.Discharged,
						"store is taken only on the true edge of `<text of the same field> == m.account`")
				} else {
					c.Ob(rule, key, x.Pos(), core.FuncName(fn), core.Violated,
						"store to "+p.FieldRef(fv)+" is not guarded by an equality test between that field's text and the placeholder account: a booking that does not carry the placeholder could be rewritten")
				}
			case ssa.CallInstruction:
				callee := x.Common().StaticCallee()
				if callee == nil || core.PkgPathOf(callee) != pkgDirectives {
					return
				}
				if o := callee.Origin(); o != nil {
					callee = o
				}
				switch callee.Name() {
				case "Extend", "SetRange":
					c.Ob(rule, fmt.Sprintf("%s:%s", core.FuncName(fn), callee.Name()), ins.Pos(), core.FuncName(fn), core.Violated,
						"infer mutates a range of the parsed tree through "+callee.Name())
				}
			}
		})
	}
	c.Note("%s: %d functions in scope, %d stores into tree objects", rule, len(scope), nStores)
	c.Floor(rule, 1)
}

// placeholderGuard: st is dominated by the true edge of an `a == b` test in
// which one side derives from field fv and the other from Model.account.
func placeholderGuard(p *core.Prog, st *ssa.Store, fv, placeholder *types.Var) bool {
	fn := st.Parent()
	for _, b := range fn.Blocks {
		iff, ok := b.Instrs[len(b.Instrs)-1].(*ssa.If)
		if !ok {
			continue
		}
		bo, ok := iff.Cond.(*ssa.BinOp)
		if !ok || bo.Op != token.EQL {
			continue
		}
		if !core.EdgeDominates(b, b.Succs[0], st.Block()) {
			continue
		}
		has := func(v ssa.Value, f *types.Var) bool {
			found := false
			w := &core.Walker{P: p, CallDepth: 0, Visit: func(x ssa.Value) bool {
				if fa, ok := x.(*ssa.FieldAddr); ok && core.FieldOf(fa) == f {
					found = true
				}
				if fl, ok := x.(*ssa.Field); ok && core.FieldOf(fl) == f {
					found = true
				}
				return !found
			}}
			w.Origin(v)
			return found
		}
		viaParam := func(v ssa.Value) bool {
			prm, ok := st.Addr.(*ssa.Parameter)
			if !ok {
				return false
			}
			return originSet(p, v, 0)[prm]
		}
		if ((has(bo.X, fv) || viaParam(bo.X)) && has(bo.Y, placeholder)) || ((has(bo.Y, fv) || viaParam(bo.Y)) && has(bo.X, placeholder)) {
			return true
		}
		// `!=` with the store on the false edge is the same guard
	}
	for _, b := range fn.Blocks {
		iff, ok := b.Instrs[len(b.Instrs)-1].(*ssa.If)
		if !ok {
			continue
		}
		bo, ok := iff.Cond.(*ssa.BinOp)
		if !ok || bo.Op != token.NEQ || !core.EdgeDominates(b, b.Succs[1], st.Block()) {
			continue
		}
		hasF := func(v ssa.Value, f *types.Var) bool {
			for x := range originSet(p, v, 0) {
				if fa, ok := x.(*ssa.FieldAddr); ok && core.FieldOf(fa) == f {
					return true
				}
				if fl, ok := x.(*ssa.Field); ok && core.FieldOf(fl) == f {
					return true
				}
			}
			return false
		}
		viaParam := func(v ssa.Value) bool {
			prm, ok := st.Addr.(*ssa.Parameter)
			return ok && originSet(p, v, 0)[prm]
		}
		if ((hasF(bo.X, fv) || viaParam(bo.X)) && hasF(bo.Y, placeholder)) || ((hasF(bo.Y, fv) || viaParam(bo.Y)) && hasF(bo.X, placeholder)) {
			return true
		}
	}
	return false
}

// RuleCInferFresh — in the function that replaces Booking.Credit/Debit, a
// value read from one of these fields before it is replaced must not be used
// after the replacement (stale read across a store): the "other account"
// handed to the candidate search has to be the booking's current other side.
func RuleCInferFresh(c *core.Ctx) {
	const rule = "C-infer-fresh"
	p := c.P
	scope, ok := inferScope(c)
	if !ok {
		c.Anchor(rule, "the infer command")
		return
	}
	credit := p.Field(pkgDirectives, "Booking", "Credit")
	debit := p.Field(pkgDirectives, "Booking", "Debit")
	if credit == nil || debit == nil {
		c.Anchor(rule, "directives.Booking.Credit/Debit")
		return
	}
	n := 0
	// functions that store through a pointer parameter bound to Credit/Debit
	paramStores := map[*ssa.Function]int{}
	for fn := range scope {
		core.EachInstr(fn, func(ins ssa.Instruction) {
			if st, ok := ins.(*ssa.Store); ok {
				if prm, ok := st.Addr.(*ssa.Parameter); ok {
					if isTree, fv, _ := treeStore(p, st); isTree && (fv == credit || fv == debit) {
						for i, q := range fn.Params {
							if q == prm {
								paramStores[fn] = i
							}
						}
					}
				}
			}
		})
	}
	type event struct {
		at  ssa.Instruction
		fa  *ssa.FieldAddr
		ptr ssa.Value // when the store goes through a pointer value rather than a field address
		fv  *types.Var
	}
	for fn := range scope {
		var stores []event
		core.EachInstr(fn, func(ins ssa.Instruction) {
			switch x := ins.(type) {
			case *ssa.Store:
				if isTree, fv, _ := treeStore(p, x); isTree && (fv == credit || fv == debit) {
					if fa, ok := x.Addr.(*ssa.FieldAddr); ok {
						stores = append(stores, event{x, fa, nil, fv})
					} else if _, isParam := x.Addr.(*ssa.Parameter); !isParam {
						stores = append(stores, event{x, nil, x.Addr, fv})
					}
				}
			case *ssa.Call:
				// a call of a helper that replaces the account its pointer argument designates
				if idx, ok := paramStores[x.Call.StaticCallee()]; ok && idx < len(x.Call.Args) {
					if fa, ok := x.Call.Args[idx].(*ssa.FieldAddr); ok {
						stores = append(stores, event{x, fa, nil, core.FieldOf(fa)})
					}
				}
			}
		})
		for _, ev := range stores {
			st, fa := ev.at, ev.fa
			fv := ev.fv
			n++
			// loads of the same field (any sub-field of it) executed before the store
			var loads []ssa.Instruction
			core.EachInstr(fn, func(ins ssa.Instruction) {
				ld, ok := ins.(*ssa.UnOp)
				if !ok || ld.Op != token.MUL {
					return
				}
				if fa != nil {
					if !addrUnderField(p, ld.X, fa) {
						return
					}
				} else if !addrUnderPtr(p, ld.X, ev.ptr) {
					return
				}
				if before(ld, st) {
					loads = append(loads, ld)
				}
			})
			var stale []string
			for _, l := range loads {
				avoid := map[*ssa.BasicBlock]bool{l.Block(): true}
				after := core.ReachableBlocks(st.Block(), avoid)
				core.EachInstr(fn, func(u ssa.Instruction) {
					if u == st {
						return
					}
					isAfter := false
					if u.Block() == st.Block() {
						isAfter = core.InstrIndex(u) > core.InstrIndex(st)
					} else {
						isAfter = after[u.Block()]
					}
					if !isAfter {
						return
					}
					if _, isPhi := u.(*ssa.Phi); isPhi {
						return
					}
					for _, op := range u.Operands(nil) {
						if *op == nil {
							continue
						}
						if derivesFromLoad(*op, l.(ssa.Value), st, avoid, map[ssa.Value]bool{}) {
							stale = append(stale, fmt.Sprintf("%s at %s", describeInstr(p, u), p.Pos(core.NearPos(u))))
							return
						}
					}
				})
			}
			key := fmt.Sprintf("%s:store to %s", core.FuncName(fn), p.FieldRef(fv))
			if len(stale) == 0 {
				c.Ob(rule, key, st.Pos(), core.FuncName(fn), core.Discharged, "no value read from "+p.FieldRef(fv)+" before this store is used after it")
			} else {
				c.Ob(rule, key, st.Pos(), core.FuncName(fn), core.Violated,
					"a value read from "+p.FieldRef(fv)+" before it is replaced is still used afterwards (stale read): "+strings.Join(uniq(stale), "; ")+
						" — with the placeholder on both sides of a booking the second inference excludes the old text instead of the account just chosen, and both sides can receive the same account")
			}
		}
	}
	c.Floor(rule, 1)
}

func uniq(ss []string) []string {
	seen := map[string]bool{}
	var res []string
	for _, s := range ss {
		if !seen[s] {
			seen[s] = true
			res = append(res, s)
		}
	}
	return res
}

func describeInstr(p *core.Prog, ins ssa.Instruction) string {
	if call, ok := ins.(ssa.CallInstruction); ok {
		return "argument of " + calleeText(call)
	}
	return fmt.Sprintf("%T", ins)
}

// addrUnderField: addr is fa itself or an address derived from an equal
// FieldAddr (same base expression, same field) through further FieldAddrs.
func addrUnderField(p *core.Prog, addr ssa.Value, fa *ssa.FieldAddr) bool {
	for {
		a, ok := addr.(*ssa.FieldAddr)
		if !ok {
			return false
		}
		if a.Field == fa.Field && core.FieldOf(a) == core.FieldOf(fa) && p.SameExpr(a.X, fa.X) {
			return true
		}
		addr = a.X
	}
}

// addrUnderPtr: addr is the pointer value ptr itself or a field address under
// an equal pointer value.
func addrUnderPtr(p *core.Prog, addr, ptr ssa.Value) bool {
	for i := 0; i < 6; i++ {
		if addr == ptr || p.SameExpr(addr, ptr) {
			return true
		}
		a, ok := addr.(*ssa.FieldAddr)
		if !ok {
			return false
		}
		addr = a.X
	}
	return false
}

// before: instruction a executes before b on some path without b in between
// (a dominates b, or a's block reaches b's block).
func before(a, b ssa.Instruction) bool {
	if a.Block() == b.Block() {
		return core.InstrIndex(a) < core.InstrIndex(b)
	}
	return a.Block().Dominates(b.Block())
}

// derivesFromLoad: v is computed from load l; phi edges are followed only
// from predecessors that the store can reach without re-executing l.
func derivesFromLoad(v ssa.Value, l ssa.Value, st ssa.Instruction, avoid map[*ssa.BasicBlock]bool, seen map[ssa.Value]bool) bool {
	if v == l {
		return true
	}
	if seen[v] {
		return false
	}
	seen[v] = true
	switch x := v.(type) {
	case *ssa.Phi:
		for i, e := range x.Edges {
			pred := x.Block().Preds[i]
			if pred != st.Block() && !core.BlockReaches(st.Block(), pred, avoid) {
				continue
			}
			if avoid[pred] {
				continue
			}
			if derivesFromLoad(e, l, st, avoid, seen) {
				return true
			}
		}
	case *ssa.Call:
		for _, a := range x.Call.Args {
			if derivesFromLoad(a, l, st, avoid, seen) {
				return true
			}
		}
	case *ssa.Extract:
		return derivesFromLoad(x.Tuple, l, st, avoid, seen)
	case *ssa.BinOp:
		return derivesFromLoad(x.X, l, st, avoid, seen) || derivesFromLoad(x.Y, l, st, avoid, seen)
	case *ssa.UnOp:
		if x.Op == token.MUL {
			// load of a local cell: values stored there
			if a, ok := x.X.(*ssa.Alloc); ok {
				for _, s := range core.StoresTo(a) {
					if s.Block() != st.Block() && !core.BlockReaches(st.Block(), s.Block(), avoid) && !before(s, st) {
						continue
					}
					if derivesFromLoad(s.Val, l, st, avoid, seen) {
						return true
					}
				}
			}
			return false
		}
		return derivesFromLoad(x.X, l, st, avoid, seen)
	case *ssa.Convert:
		return derivesFromLoad(x.X, l, st, avoid, seen)
	case *ssa.ChangeType:
		return derivesFromLoad(x.X, l, st, avoid, seen)
	case *ssa.MakeInterface:
		return derivesFromLoad(x.X, l, st, avoid, seen)
	case *ssa.Field:
		return derivesFromLoad(x.X, l, st, avoid, seen)
	case *ssa.Slice:
		return derivesFromLoad(x.X, l, st, avoid, seen)
	}
	return false
}

// RuleKZeroFlow — the account stored into Booking.Credit/Debit must not be
// derived from the empty-string constant ("no candidate") unless a found-flag
// or non-emptiness test dominates the store.
func RuleKZeroFlow(c *core.Ctx) {
	const rule = "K-zero-flow"
	p := c.P
	scope, ok := inferScope(c)
	if !ok {
		c.Anchor(rule, "the infer command")
		return
	}
	credit := p.Field(pkgDirectives, "Booking", "Credit")
	debit := p.Field(pkgDirectives, "Booking", "Debit")
	if credit == nil || debit == nil {
		c.Anchor(rule, "directives.Booking.Credit/Debit")
		return
	}
	for fn := range scope {
		core.EachInstr(fn, func(ins ssa.Instruction) {
			st, ok := ins.(*ssa.Store)
			if !ok {
				return
			}
			isTree, fv, _ := treeStore(p, st)
			if !isTree || (fv != credit && fv != debit) {
				return
			}
			key := fmt.Sprintf("%s:value stored to %s", core.FuncName(fn), p.FieldRef(fv))
			empty := false
			w := &core.Walker{P: p, CallDepth: 2, Visit: func(v ssa.Value) bool {
				if s, ok := core.ConstString(v); ok && s == "" {
					empty = true
				}
				// the value's own construction only: do not walk into the
				// arguments of the producing call's callees' callers
				return !empty
			}}
			w.Origin(st.Val)
			if !empty {
				c.Ob(rule, key, st.Pos(), core.FuncName(fn), core.Discharged, "stored account is not derived from an empty-string constant")
				return
			}
			if foundFlagGuard(p, st) {
				c.Ob(rule, key, st.Pos(), core.FuncName(fn), core.Discharged, "the stored account may be built from the empty default, but the store is taken only when the producing call reports success / non-emptiness")
				return
			}
			c.Ob(rule, key, st.Pos(), core.FuncName(fn), core.Violated,
				"the stored account can be built from the empty-string default (no candidate found) and nothing tests for that before the store: the booking gets an empty account and the output no longer parses")
		})
	}
	c.Floor(rule, 1)
}

// foundFlagGuard: the store is dominated by the true edge of a test on a
// boolean that comes from the same call as the stored value (comma-ok
// result), or on len(x) > 0 / x != "" of a value derived from the stored one.
func foundFlagGuard(p *core.Prog, st *ssa.Store) bool {
	var tuple ssa.Value
	if ex, ok := st.Val.(*ssa.Extract); ok {
		tuple = ex.Tuple
	}
	fn := st.Parent()
	for _, b := range fn.Blocks {
		iff, ok := b.Instrs[len(b.Instrs)-1].(*ssa.If)
		if !ok {
			continue
		}
		if tuple != nil {
			if ex, ok := iff.Cond.(*ssa.Extract); ok && ex.Tuple == tuple && core.EdgeDominates(b, b.Succs[0], st.Block()) {
				return true
			}
			if un, ok := iff.Cond.(*ssa.UnOp); ok && un.Op == token.NOT {
				if ex, ok := un.X.(*ssa.Extract); ok && ex.Tuple == tuple && core.EdgeDominates(b, b.Succs[1], st.Block()) {
					return true
				}
			}
		}
		// non-emptiness test on something derived from the stored value
		if bo, ok := iff.Cond.(*ssa.BinOp); ok {
			dep := originSet(p, bo.X, 0)
			for k := range originSet(p, bo.Y, 0) {
				dep[k] = true
			}
			if !dep[st.Val] {
				continue
			}
			isEmptyCmp := false
			for _, side := range []ssa.Value{bo.X, bo.Y} {
				if s, ok := core.ConstString(side); ok && s == "" {
					isEmptyCmp = true
				}
				if n, ok := core.ConstInt(side); ok && n == 0 {
					isEmptyCmp = true
				}
			}
			if !isEmptyCmp {
				continue
			}
			switch bo.Op {
			case token.NEQ, token.GTR:
				if core.EdgeDominates(b, b.Succs[0], st.Block()) {
					return true
				}
			case token.EQL:
				if core.EdgeDominates(b, b.Succs[1], st.Block()) {
					return true
				}
			}
		}
	}
	return false
}

// RuleKInferAll — every transaction of the target is handed to the model:
// the call of Model.Infer in the commands sits in a loop that is left only
// when its range is exhausted (no break, no return out of the body), and
// within an iteration it depends only on the type test that picks the
// transactions among the directives.
func RuleKInferAll(c *core.Ctx) {
	const rule = "K-infer-all"
	p := c.P
	infer := p.Func(pkgBayes, "Model.Infer")
	if infer == nil {
		c.Anchor(rule, "bayes.Model.Infer")
		return
	}
	n := 0
	judge := func(fn *ssa.Function, call *ssa.Call) { kInferAllJudge(c, rule, &n, fn, call) }
	for _, fn := range p.SrcFuncs() {
		if !strings.HasPrefix(core.PkgPathOf(fn), core.Module+"/cmd") {
			continue
		}
		core.EachInstr(fn, func(ins ssa.Instruction) {
			call, ok := ins.(*ssa.Call)
			if !ok {
				return
			}
			if call.Call.StaticCallee() != infer {
				// Model.Infer handed as a function value to a helper of the commands that
				// applies it (forEachTransaction(file, model.Infer)): the applications of
				// that parameter inside the helper are the call sites
				h := call.Call.StaticCallee()
				if h == nil || h.Blocks == nil || !strings.HasPrefix(core.PkgPathOf(h), core.Module+"/cmd") {
					return
				}
				for i, a := range call.Call.Args {
					f := core.FuncValue(a)
					if f == nil || (f != infer && core.OriginOf(f) != infer && !strings.HasPrefix(f.Name(), "Infer$bound")) || i >= len(h.Params) {
						continue
					}
					if f != infer && !reachesFunc(p, f, infer, 0) {
						continue
					}
					prm := h.Params[i]
					core.EachInstr(h, func(hi ssa.Instruction) {
						hc, ok := hi.(*ssa.Call)
						if !ok || hc.Call.Value != ssa.Value(prm) {
							return
						}
						judge(h, hc)
					})
				}
				return
			}
			judge(fn, call)
		})
	}
	c.Floor(rule, 1)
}

func kInferAllJudge(c *core.Ctx, rule string, n *int, fn *ssa.Function, call *ssa.Call) {
	p := c.P
	{
		{
			*n++
			key := core.FuncName(fn) + ":every transaction of the target reaches Model.Infer"
			var body map[*ssa.BasicBlock]bool
			var header *ssa.BasicBlock
			for h, b := range loopsOf(fn) {
				if b[call.Block()] && (body == nil || len(b) < len(body)) {
					header, body = h, b
				}
			}
			if body == nil {
				c.Ob(rule, key, call.Pos(), core.FuncName(fn), core.Violated, "Model.Infer is not called in a loop over the directives of the target")
				return
			}
			bad := ""
			for b := range body {
				if b == header {
					continue
				}
				for _, s := range b.Succs {
					if !body[s] {
						bad = "the loop is left at " + p.Pos(core.NearPos(b.Instrs[len(b.Instrs)-1])) + " before its range is exhausted"
					}
				}
				if _, isRet := b.Instrs[len(b.Instrs)-1].(*ssa.Return); isRet {
					bad = "the function returns from inside the loop at " + p.Pos(core.NearPos(b.Instrs[len(b.Instrs)-1]))
				}
			}
			for b := range body {
				iff, ok := b.Instrs[len(b.Instrs)-1].(*ssa.If)
				if !ok || b == header || bad != "" {
					continue
				}
				if ctl, _ := core.Controls(b, call.Block()); !ctl {
					continue
				}
				// the ok of a type assertion on the directive
				isTypeTest := false
				if ex, ok := iff.Cond.(*ssa.Extract); ok && ex.Index == 1 {
					if _, ok := ex.Tuple.(*ssa.TypeAssert); ok {
						isTypeTest = true
					}
				}
				if !isTypeTest {
					bad = "the call depends on the condition at " + p.Pos(core.NearPos(iff)) + ", which is not the type test that picks the transactions"
				}
			}
			if bad == "" {
				c.Ob(rule, key, call.Pos(), core.FuncName(fn), core.Discharged, "called for every directive that is a transaction; the loop ends only with its range")
			} else {
				c.Ob(rule, key, call.Pos(), core.FuncName(fn), core.Violated, bad+": some placeholder bookings of the target are never offered a replacement")
			}
		}
	}
}
