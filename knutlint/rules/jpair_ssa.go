package rules

import (
	"fmt"
	"go/constant"
	"go/token"
	"go/types"
	"strings"

	"golang.org/x/tools/go/ssa"

	"knutlint/core"
)

// jpairSSA decides the pair algebra on the SSA form of the pair builder when
// the two postings are not two literals of one expression: the function
// returns a two-element slice whose elements are Posting literals of the
// function itself or results of a helper that fills a fresh Posting from its
// parameters and from the (unchanged) builder. Field values of a helper are
// translated into the caller's frame (parameters → arguments).
func jpairSSA(p *core.Prog, build *ssa.Function) (decided bool, problems []string) {
	var elemsList []ssa.Value
	found := false
	core.EachInstr(build, func(ins ssa.Instruction) {
		ret, ok := ins.(*ssa.Return)
		if !ok || len(ret.Results) != 1 || found {
			return
		}
		if es, ok := sliceElems(ret.Results[0], 0); ok && len(es) == 2 {
			elemsList, found = es, true
		}
	})
	if !found {
		return false, nil
	}
	elems := map[int64]ssa.Value{0: elemsList[0], 1: elemsList[1]}
	// a field value in the caller's frame: an SSA value of build, or a symbolic
	// name for something the helper reads from its receiver
	type fval struct {
		v   ssa.Value
		sym string
	}
	fieldsOf := func(e ssa.Value) (map[string]fval, *ssa.Call, bool) {
		res := map[string]fval{}
		fill := func(al *ssa.Alloc, bind func(ssa.Value) fval) bool {
			if al.Referrers() == nil {
				return false
			}
			for _, r := range *al.Referrers() {
				fa, ok := r.(*ssa.FieldAddr)
				if !ok {
					continue
				}
				for _, st := range core.StoresTo(fa) {
					res[core.FieldOf(fa).Name()] = bind(st.Val)
				}
			}
			return len(res) > 0
		}
		switch x := core.Strip(e).(type) {
		case *ssa.Alloc:
			return res, nil, fill(x, func(v ssa.Value) fval { return fval{v: v} })
		case *ssa.Call:
			callee := x.Call.StaticCallee()
			if callee == nil || callee.Blocks == nil || !p.InModule(callee) {
				return nil, nil, false
			}
			var lit *ssa.Alloc
			rets := 0
			core.EachInstr(callee, func(ins ssa.Instruction) {
				if ret, ok := ins.(*ssa.Return); ok {
					rets++
					if len(ret.Results) == 1 {
						lit, _ = core.Strip(ret.Results[0]).(*ssa.Alloc)
					}
				}
			})
			if rets != 1 || lit == nil {
				return nil, nil, false
			}
			ok := fill(lit, func(v ssa.Value) fval {
				v = core.Strip(v)
				if prm, ok := v.(*ssa.Parameter); ok {
					for i, q := range callee.Params {
						if q == prm && i < len(x.Call.Args) {
							return fval{v: x.Call.Args[i]}
						}
					}
				}
				// Neg of a parameter inside the helper
				if call, ok := v.(*ssa.Call); ok {
					if c := call.Call.StaticCallee(); c != nil && core.PkgPathOf(c) == pkgDecimal && c.Name() == "Neg" {
						if prm, ok := core.Strip(call.Call.Args[0]).(*ssa.Parameter); ok {
							for i, q := range callee.Params {
								if q == prm && i < len(x.Call.Args) {
									return fval{v: x.Call.Args[i], sym: "neg"}
								}
							}
						}
					}
				}
				return fval{sym: core.FuncName(callee) + ":" + describeValue(p, v)}
			})
			return res, x, ok
		}
		return nil, nil, false
	}
	f0, c0, ok0 := fieldsOf(elems[0])
	f1, c1, ok1 := fieldsOf(elems[1])
	if !ok0 || !ok1 {
		return false, nil
	}
	if (c0 == nil) != (c1 == nil) {
		return false, nil
	}
	if c0 != nil && (c0.Call.StaticCallee() != c1.Call.StaticCallee() || (c0.Call.StaticCallee().Signature.Recv() != nil && !sameReceiverValue(p, c0, c1))) {
		return true, []string{"the two halves are built by different helpers or from different builder values"}
	}
	sameLoad := func(a, b ssa.Value) bool {
		a, b = core.Strip(a), core.Strip(b)
		if a == b {
			return true
		}
		la, ok1 := a.(*ssa.UnOp)
		lb, ok2 := b.(*ssa.UnOp)
		if !ok1 || !ok2 || la.Op != token.MUL || lb.Op != token.MUL || !p.SameExpr(la.X, lb.X) || la.Block() != lb.Block() {
			return false
		}
		i, j := core.InstrIndex(la), core.InstrIndex(lb)
		if i > j {
			i, j = j, i
		}
		for k, ins := range la.Block().Instrs {
			if k <= i || k >= j {
				continue
			}
			if st, ok := ins.(*ssa.Store); ok && (p.SameExpr(st.Addr, la.X) || baseOf(st.Addr) == baseOf(la.X) && st.Addr == baseOf(la.X)) {
				return false
			}
		}
		return true
	}
	same := func(a, b fval) bool {
		if a.v == nil || b.v == nil {
			return a.v == nil && b.v == nil && a.sym != "" && a.sym == b.sym
		}
		return a.sym == b.sym && sameLoad(a.v, b.v)
	}
	negOf := func(a fval) (fval, bool) {
		if a.sym == "neg" {
			return fval{v: a.v}, true
		}
		if a.v == nil {
			return fval{}, false
		}
		if call, ok := core.Strip(a.v).(*ssa.Call); ok {
			if c := call.Call.StaticCallee(); c != nil && core.PkgPathOf(c) == pkgDecimal && c.Name() == "Neg" && len(call.Call.Args) == 1 {
				return fval{v: call.Call.Args[0]}, true
			}
		}
		return fval{}, false
	}
	negSide := -1
	for _, name := range []string{"Quantity", "Value"} {
		a, okA := f0[name]
		b, okB := f1[name]
		if !okA || !okB {
			problems = append(problems, name+" is not set in both postings")
			continue
		}
		side := -1
		if x, ok := negOf(a); ok && same(x, b) {
			side = 0
		} else if x, ok := negOf(b); ok && same(x, a) {
			side = 1
		}
		switch {
		case side < 0:
			problems = append(problems, fmt.Sprintf("%s of the two postings is {%s, %s}: not of the form {x.Neg(), x} for one value x", name, describeFval(p, a.v, a.sym), describeFval(p, b.v, b.sym)))
		case negSide >= 0 && side != negSide:
			problems = append(problems, "Quantity is negated in one posting and Value in the other")
		default:
			negSide = side
		}
	}
	if !(same(f0["Account"], f1["Other"]) && same(f0["Other"], f1["Account"])) {
		problems = append(problems, "Account/Other of the two postings are not swapped")
	}
	if same(f0["Account"], f0["Other"]) {
		problems = append(problems, "Account and Other of one posting are the same value")
	}
	if !same(f0["Commodity"], f1["Commodity"]) {
		problems = append(problems, "the two postings do not share the Commodity")
	}
	return true, problems
}

func baseOf(addr ssa.Value) ssa.Value {
	for {
		switch x := addr.(type) {
		case *ssa.FieldAddr:
			addr = x.X
		case *ssa.IndexAddr:
			addr = x.X
		default:
			return addr
		}
	}
}

func describeFval(p *core.Prog, v ssa.Value, sym string) string {
	if v == nil {
		return sym
	}
	return strings.TrimSpace(sym + " " + describeValue(p, v))
}

// sliceElems lists the elements of a slice value that is built in place: a
// composite literal, or appends of explicit elements to an empty slice.
func sliceElems(v ssa.Value, depth int) ([]ssa.Value, bool) {
	v = core.Strip(v)
	if depth > 8 {
		return nil, false
	}
	switch x := v.(type) {
	case *ssa.Const:
		if x.Value == nil {
			return nil, true
		}
	case *ssa.MakeSlice:
		if constInt(x.Len, 0) {
			return nil, true
		}
	case *ssa.Slice:
		// make([]T, 0, n): a fresh array sliced to length zero
		if x.Low == nil && x.High != nil && constInt(x.High, 0) {
			if _, ok := x.X.(*ssa.Alloc); ok {
				return nil, true
			}
		}
		if x.Low != nil || x.High != nil {
			return nil, false
		}
		al, ok := x.X.(*ssa.Alloc)
		if !ok || al.Referrers() == nil {
			return nil, false
		}
		pt, ok := al.Type().Underlying().(*types.Pointer)
		if !ok {
			return nil, false
		}
		at, ok := pt.Elem().Underlying().(*types.Array)
		if !ok {
			return nil, false
		}
		res := make([]ssa.Value, at.Len())
		for _, r := range *al.Referrers() {
			ia, ok := r.(*ssa.IndexAddr)
			if !ok {
				continue
			}
			idx, ok := ia.Index.(*ssa.Const)
			if !ok || idx.Value == nil {
				return nil, false
			}
			i, _ := constant.Int64Val(idx.Value)
			for _, st := range core.StoresTo(ia) {
				if i >= 0 && i < int64(len(res)) {
					res[i] = st.Val
				}
			}
		}
		for _, e := range res {
			if e == nil {
				return nil, false
			}
		}
		return res, true
	case *ssa.Call:
		if b, ok := x.Call.Value.(*ssa.Builtin); ok && b.Name() == "append" && len(x.Call.Args) == 2 {
			base, ok1 := sliceElems(x.Call.Args[0], depth+1)
			more, ok2 := sliceElems(x.Call.Args[1], depth+1)
			if ok1 && ok2 {
				return append(append([]ssa.Value{}, base...), more...), true
			}
		}
	}
	return nil, false
}
