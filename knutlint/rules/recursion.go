package rules

import (
	"fmt"
	"go/types"

	"golang.org/x/tools/go/ssa"

	"knutlint/core"
)

// originSet collects the backward slice of v as a set.
func originSet(p *core.Prog, v ssa.Value, depth int) map[ssa.Value]bool {
	set := map[ssa.Value]bool{}
	w := &core.Walker{P: p, CallDepth: depth, Visit: func(x ssa.Value) bool {
		set[x] = true
		return true
	}}
	w.Origin(v)
	return set
}

// RuleDRecursion — a function that reads a file named by its parameter and
// can reach itself again with a path derived from that file's contents
// (include directives) recurses without bound on a file that includes itself
// unless each recursive call is guarded by a membership test between the new
// path and a structure that grows along the recursion. DESIGN.md D-recursion.
func RuleDRecursion(c *core.Ctx) {
	const rule = "D-recursion"
	p := c.P
	n := 0
	for _, g := range p.SrcFuncs() {
		if g.Parent() != nil {
			continue
		}
		// path parameter: a string parameter that names a file the function reads
		// (directly or through a helper)
		pathParam := fileReadParam(p, g, 0)
		if pathParam < 0 {
			continue
		}
		reach := p.ReachLexical(g)
		// recursive sites: calls to g from functions reachable from g
		for f := range reach {
			if !p.InModule(f) {
				continue
			}
			core.EachInstr(f, func(ins ssa.Instruction) {
				call, ok := ins.(ssa.CallInstruction)
				if !ok || call.Common().StaticCallee() != g {
					return
				}
				// a call to g from g's own reach: is g reachable from f's call? yes (static)
				n++
				key := fmt.Sprintf("%s:recursive call from %s", core.FuncName(g), core.FuncName(f))
				newPath := call.Common().Args[pathParam]
				if _, isConst := newPath.(*ssa.Const); isConst {
					c.Ob(rule, key, ins.Pos(), core.FuncName(f), core.Discharged, "recursive call on a constant path")
					return
				}
				newPathOrigin := originSet(p, newPath, 1)
				// chain parameter of g: slice or map parameter
				var verdicts []string
				ok2 := false
				for ci, prm := range g.Params {
					switch prm.Type().Underlying().(type) {
					case *types.Slice, *types.Map:
					default:
						continue
					}
					if ci >= len(call.Common().Args) {
						continue
					}
					chainArg := call.Common().Args[ci]
					chainOrigin := originSet(p, chainArg, 1)
					// (a) grows: the chain argument is built by append/insert from g's chain parameter and a path
					grows := false
					for v := range chainOrigin {
						if cl, ok := v.(*ssa.Call); ok {
							if b, ok := cl.Call.Value.(*ssa.Builtin); ok && b.Name() == "append" {
								o0 := originSet(p, cl.Call.Args[0], 1)
								if o0[prm] && len(cl.Call.Args) > 1 {
									o1 := originSet(p, cl.Call.Args[1], 1)
									if o1[g.Params[pathParam]] || intersects(o1, newPathOrigin) {
										grows = true
									}
								}
							}
						}
					}
					if !grows {
						verdicts = append(verdicts, fmt.Sprintf("parameter %s is passed on but is not extended with the current path", prm.Name()))
						continue
					}
					// (b) guarded: an If in f (or an enclosing function) whose condition depends on
					// both the new path and the chain, one branch of which cannot reach the call
					guarded := false
					for fn := f; fn != nil && !guarded; fn = fn.Parent() {
						for _, b := range fn.Blocks {
							iff, isIf := b.Instrs[len(b.Instrs)-1].(*ssa.If)
							if !isIf {
								continue
							}
							co := originSet(p, iff.Cond, 2)
							dependsChain := co[prm] || intersectsNonConst(co, chainOrigin)
							dependsPath := intersectsNonConst(co, newPathOrigin)
							if !dependsChain || !dependsPath {
								continue
							}
							// the test must compare an element (or key) read from the chain, and
							// must not be computed from the result of the recursion itself
							if !readsElementOf(p, co, chainOrigin, prm) || dependsOnCallTo(co, g) {
								continue
							}
							if fn == f {
								r0 := b.Succs[0] == ins.Block() || core.BlockReaches(b.Succs[0], ins.Block(), nil)
								r1 := b.Succs[1] == ins.Block() || core.BlockReaches(b.Succs[1], ins.Block(), nil)
								if r0 != r1 {
									guarded = true
								}
							} else {
								guarded = true // the closure itself is created under the test
							}
						}
					}
					if guarded {
						ok2 = true
						verdicts = []string{fmt.Sprintf("the recursive call passes %s extended by the current path and is control-dependent on a test between the new path and that chain", prm.Name())}
						break
					}
					verdicts = append(verdicts, fmt.Sprintf("parameter %s grows along the recursion but no test between it and the new path guards the call", prm.Name()))
				}
				if ok2 {
					c.Ob(rule, key, ins.Pos(), core.FuncName(f), core.Discharged, verdicts[0], p.CallPath([]*ssa.Function{g}, f)...)
					return
				}
				detail := "the function reads the file named by parameter " + g.Params[pathParam].Name() +
					" and is re-entered with a path derived from that file's contents; no ancestor/visited structure bounds the recursion, so a file that includes itself (directly or through others) spawns parses until the process dies"
				for _, v := range verdicts {
					detail += "; " + v
				}
				c.Ob(rule, key, ins.Pos(), core.FuncName(f), core.Violated, detail, p.CallPath([]*ssa.Function{g}, f)...)
			})
		}
	}
	c.Floor(rule, 1)
}

// readsElementOf: the slice co contains an element or key read (index, lookup,
// range) of a container in chain.
func readsElementOf(p *core.Prog, co, chain map[ssa.Value]bool, prm *ssa.Parameter) bool {
	inChain := func(x ssa.Value) bool {
		if x == prm || chain[x] {
			switch x.(type) {
			case *ssa.Const, *ssa.Builtin, *ssa.Function, *ssa.Global:
				return false
			}
			return true
		}
		return intersectsNonConst(originSet(p, x, 0), map[ssa.Value]bool{prm: true}) || chainContainer(originSet(p, x, 0), chain)
	}
	for v := range co {
		switch v := v.(type) {
		case *ssa.IndexAddr:
			if inChain(v.X) {
				return true
			}
		case *ssa.Index:
			if inChain(v.X) {
				return true
			}
		case *ssa.Lookup:
			if inChain(v.X) {
				return true
			}
		case *ssa.Range:
			if inChain(v.X) {
				return true
			}
		case *ssa.Call:
			// slices.Contains(chain, x), slices.Index(chain, x), a set's Has(x)
			if callee := v.Call.StaticCallee(); callee != nil && len(v.Call.Args) >= 1 {
				name := core.BaseName(callee)
				if callee.Pkg != nil && callee.Pkg.Pkg.Path() == "slices" && (name == "Contains" || name == "Index" || name == "ContainsFunc" || name == "IndexFunc") && inChain(v.Call.Args[0]) {
					return true
				}
				if (name == "Has" || name == "Contains") && inChain(v.Call.Args[0]) {
					return true
				}
			}
		}
	}
	return false
}

// chainContainer: a slice- or map-typed value of the slice a is in chain.
func chainContainer(a, chain map[ssa.Value]bool) bool {
	for v := range a {
		if !chain[v] {
			continue
		}
		switch v.Type().Underlying().(type) {
		case *types.Slice, *types.Map:
			return true
		}
	}
	return false
}

func dependsOnCallTo(co map[ssa.Value]bool, g *ssa.Function) bool {
	for v := range co {
		if c, ok := v.(*ssa.Call); ok && c.Call.StaticCallee() == g {
			return true
		}
	}
	return false
}

func intersects(a, b map[ssa.Value]bool) bool {
	for v := range a {
		if b[v] {
			return true
		}
	}
	return false
}

func intersectsNonConst(a, b map[ssa.Value]bool) bool {
	for v := range a {
		if !b[v] {
			continue
		}
		switch v.(type) {
		case *ssa.Const, *ssa.Builtin, *ssa.Function, *ssa.Global:
			continue
		}
		return true
	}
	return false
}
