package rules

import (
	"fmt"
	"go/types"

	"golang.org/x/tools/go/ssa"

	"knutlint/core"
)

// originSet collects the backward slice of v as a set.
func originSet(p *core.Prog, v ssa.Value, depth int) map[ssa.Value]bool {
	set := map[ssa.Value]bool{}
	w := &core.Walker{P: p, CallDepth: depth, Visit: func(x ssa.Value) bool {
		set[x] = true
		return true
	}}
	w.Origin(v)
	return set
}

// RuleDRecursion — a function that reads a file named by its parameter and
// can reach itself again with a path derived from that file's contents
// (include directives) recurses without bound on a file that includes itself
// unless each recursive call is guarded by a membership test between the new
// path and a structure that grows along the recursion. DESIGN.md D-recursion.
func RuleDRecursion(c *core.Ctx) {
	const rule = "D-recursion"
	p := c.P
	li := loaderCycle(c)
	if len(li.readers) == 0 {
		// no function that reads a file named by a parameter can reach itself:
		// nothing recurses on input-derived paths
		c.Ob(rule, "module:no recursive file loader", 0, "", core.Discharged, "no function of lib/syntax that reads a file named by a parameter lies on a call cycle")
		c.Floor(rule, 1)
		return
	}
	sites := li.growthSites(p)
	skip := map[ssa.Instruction]bool{}
	for _, site := range sites {
		fn, ins := site.caller, site.call
		key := fmt.Sprintf("%s:recursive call from %s", core.FuncName(li.readers[0]), core.FuncName(fn))
		newPath := site.pathArg
		newPathOrigin := originSet(p, newPath, 1)
		var verdicts []string
		ok2 := false
		for ci, prm := range site.callee.Params {
			if !li.carries(p, prm, "chain", 0) || ci >= len(ins.Common().Args) {
				continue
			}
			chainArg := ins.Common().Args[ci]
			chainOrigin := originSet(p, chainArg, 1)
			// (a) grows: the chain argument is built by append from the activation's own
			// chain and its own path
			grows := false
			var ownChain *ssa.Parameter
			for v := range chainOrigin {
				cl, ok := v.(*ssa.Call)
				if !ok {
					continue
				}
				if b, ok := cl.Call.Value.(*ssa.Builtin); !ok || b.Name() != "append" || len(cl.Call.Args) < 2 {
					continue
				}
				var base *ssa.Parameter
				for x := range originSet(p, cl.Call.Args[0], 1) {
					if q, ok := x.(*ssa.Parameter); ok && li.carries(p, q, "chain", 0) {
						base = q
					}
				}
				addsOwnPath := false
				for x := range originSet(p, cl.Call.Args[1], 1) {
					if q, ok := x.(*ssa.Parameter); ok && li.carries(p, q, "path", 0) {
						addsOwnPath = true
					}
				}
				if base != nil && (addsOwnPath || intersects(originSet(p, cl.Call.Args[1], 1), newPathOrigin)) {
					grows, ownChain = true, base
				}
			}
			// (a'') grows through a helper of the module that is given the activation's
			// own chain and its own path and returns the new chain (extend(chain, file))
			for v := range chainOrigin {
				cl, ok := v.(*ssa.Call)
				if !ok || grows {
					continue
				}
				callee := cl.Call.StaticCallee()
				if callee == nil || !p.InModule(callee) || callee.Blocks == nil {
					continue
				}
				var base *ssa.Parameter
				ownPath := false
				for _, a := range cl.Call.Args {
					for x := range originSet(p, a, 1) {
						if q, ok := x.(*ssa.Parameter); ok {
							if li.carries(p, q, "chain", 0) {
								base = q
							}
							if li.carries(p, q, "path", 0) {
								ownPath = true
							}
						}
					}
				}
				// the helper stores both into what it returns: its result depends on both parameters
				if base != nil && ownPath {
					grows, ownChain = true, base
				}
			}
			// (a') grows, linked form: the chain argument is a fresh node that holds the
			// activation's own path and points to its own chain
			for v := range chainOrigin {
				al, ok := v.(*ssa.Alloc)
				if !ok || al.Referrers() == nil {
					continue
				}
				var parent *ssa.Parameter
				ownPath := false
				for _, r := range *al.Referrers() {
					fa, ok := r.(*ssa.FieldAddr)
					if !ok {
						continue
					}
					for _, st := range core.StoresTo(fa) {
						for x := range originSet(p, st.Val, 1) {
							if q, ok := x.(*ssa.Parameter); ok {
								if li.carries(p, q, "chain", 0) {
									parent = q
								}
								if li.carries(p, q, "path", 0) {
									ownPath = true
								}
							}
						}
						if intersects(originSet(p, st.Val, 1), newPathOrigin) {
							ownPath = true
						}
					}
				}
				if parent != nil && ownPath {
					grows, ownChain = true, parent
				}
			}
			if !grows {
				verdicts = append(verdicts, fmt.Sprintf("parameter %s is passed on but is not extended with the current path", prm.Name()))
				continue
			}
			// (b) guarded: an If in the caller (or an enclosing function) whose condition
			// depends on both the new path and the chain, one branch of which cannot
			// reach the call
			guarded := false
			for f := fn; f != nil && !guarded; f = f.Parent() {
				for _, b := range f.Blocks {
					iff, isIf := b.Instrs[len(b.Instrs)-1].(*ssa.If)
					if !isIf {
						continue
					}
					co := originSet(p, iff.Cond, 2)
					dependsChain := co[ownChain] || intersectsNonConst(co, chainOrigin)
					dependsPath := intersectsNonConst(co, newPathOrigin)
					if !dependsChain || !dependsPath {
						continue
					}
					if !readsElementOf(p, co, chainOrigin, ownChain) || dependsOnCycleCall(co, li) {
						continue
					}
					if f == fn {
						r0 := b.Succs[0] == ins.Block() || core.BlockReaches(b.Succs[0], ins.Block(), nil)
						r1 := b.Succs[1] == ins.Block() || core.BlockReaches(b.Succs[1], ins.Block(), nil)
						if r0 != r1 {
							guarded = true
						}
					} else {
						guarded = true // the closure itself is created under the test
					}
				}
			}
			if guarded {
				ok2 = true
				verdicts = []string{fmt.Sprintf("the recursive call passes %s extended by the current path and is control-dependent on a test between the new path and that chain", prm.Name())}
				break
			}
			verdicts = append(verdicts, fmt.Sprintf("parameter %s grows along the recursion but no test between it and the new path guards the call", prm.Name()))
		}
		if ok2 {
			skip[ins] = true
			c.Ob(rule, key, ins.Pos(), core.FuncName(fn), core.Discharged, verdicts[0])
			continue
		}
		detail := "the loader reads the file named by a parameter and is re-entered with a path derived from that file's contents; no ancestor/visited structure bounds the recursion, so a file that includes itself (directly or through others) spawns parses until the process dies"
		for _, v := range verdicts {
			detail += "; " + v
		}
		c.Ob(rule, key, ins.Pos(), core.FuncName(fn), core.Violated, detail)
	}
	// every cycle through a reader passes a guarded site
	for _, r := range li.readers {
		key := core.FuncName(r) + ":every cycle passes a guarded call"
		reach := p.ReachLexicalAvoiding(skip, r)
		again := ""
		for f := range reach {
			n := p.CG.Nodes[f]
			if n == nil {
				continue
			}
			for _, e := range n.Out {
				if e.Callee.Func == r && !(e.Site != nil && skip[e.Site]) && (f != r || e.Site != nil) {
					if f == r && e.Site == nil {
						continue
					}
					// the initial, non-recursive entry is not reachable from r itself
					again = core.FuncName(f)
				}
			}
		}
		if len(sites) == 0 {
			c.Ob(rule, key, r.Pos(), core.FuncName(r), core.Violated, "the loader lies on a call cycle but no call computes a new path from the parsed file: the shape of the recursion is not known to this rule")
		} else if again != "" {
			c.Ob(rule, key, r.Pos(), core.FuncName(r), core.Violated, "with the guarded calls removed, "+core.FuncName(r)+" can still reach itself (through "+again+"): some path of the recursion is not bounded by the ancestor test")
		} else {
			c.Ob(rule, key, r.Pos(), core.FuncName(r), core.Discharged, "with the guarded calls removed the loader cannot reach itself")
		}
	}
	c.Floor(rule, 1)
}

// RuleDLoaderReject — the recursive loader refuses a file only because it
// cannot be read or parsed, or because it closes an include cycle: every error
// value that a function of the loader constructs itself (rather than passes
// on) is returned under the ancestor test — a condition that reads the chain
// of ancestors. Any other constructed error makes the acceptance of a journal
// depend on its layout in files.
func RuleDLoaderReject(c *core.Ctx) {
	const rule = "D-loader-reject"
	p := c.P
	li := loaderCycle(c)
	if len(li.readers) == 0 {
		c.Ob(rule, "module:no recursive file loader", 0, "", core.Discharged, "no recursive loader")
		c.Floor(rule, 1)
		return
	}
	n := 0
	for _, fn := range li.list {
		for _, b := range fn.Blocks {
			ret, ok := b.Instrs[len(b.Instrs)-1].(*ssa.Return)
			if !ok {
				continue
			}
			for _, rv := range ret.Results {
				if !core.IsErrorType(rv.Type()) {
					continue
				}
				constructed := false
				for prod := range errProducers(rv, map[ssa.Value]bool{}) {
					switch x := prod.(type) {
					case *ssa.MakeInterface:
						constructed = true
					case *ssa.Call:
						if callee := x.Call.StaticCallee(); callee != nil && callee.Pkg != nil && (callee.Pkg.Pkg.Path() == "fmt" || callee.Pkg.Pkg.Path() == "errors") {
							constructed = true
						}
					}
				}
				if !constructed {
					continue
				}
				n++
				key := fmt.Sprintf("%s:constructed error %d is the include-cycle error", core.FuncName(fn), successReturnIndex(fn, b))
				underChain := false
				for _, cb := range fn.Blocks {
					iff, ok := cb.Instrs[len(cb.Instrs)-1].(*ssa.If)
					if !ok || core.IsLoopExitTest(cb, b) {
						continue
					}
					inside := false
					for _, s := range cb.Succs {
						if len(s.Preds) == 1 && s.Dominates(b) {
							inside = true
						}
					}
					if !inside {
						continue
					}
					// the condition reads an element of the chain (a membership test),
					// not merely its length or its being empty
					isChain := func(x ssa.Value) bool {
						for v := range originSet(p, x, 2) {
							if prm := paramRoot(v); prm != nil && li.carries(p, prm, "chain", 0) {
								return true
							}
							if q, ok := v.(*ssa.Parameter); ok && li.carries(p, q, "chain", 0) {
								return true
							}
						}
						return false
					}
					for v := range originSet(p, iff.Cond, 2) {
						switch v := v.(type) {
						case *ssa.IndexAddr:
							underChain = underChain || isChain(v.X)
						case *ssa.Index:
							underChain = underChain || isChain(v.X)
						case *ssa.Lookup:
							underChain = underChain || isChain(v.X)
						case *ssa.Range:
							underChain = underChain || isChain(v.X)
						case *ssa.Call:
							if callee := v.Call.StaticCallee(); callee != nil && len(v.Call.Args) >= 1 {
								name := core.BaseName(callee)
								if name == "Contains" || name == "Index" || name == "ContainsFunc" || name == "IndexFunc" || name == "Has" {
									underChain = underChain || isChain(v.Call.Args[0])
								}
								for i, a := range v.Call.Args {
									if membershipHelper(p, callee, i) && isChain(a) {
										underChain = true
									}
								}
							}
						}
					}
				}
				if underChain {
					c.Ob(rule, key, ret.Pos(), core.FuncName(fn), core.Discharged, "returned under a membership test on the chain of ancestors")
				} else {
					c.Ob(rule, key, ret.Pos(), core.FuncName(fn), core.Violated, "the loader builds and returns an error of its own that is not the include-cycle test: a journal is rejected for a reason that depends on how it is split into files")
				}
			}
		}
	}
	if n == 0 {
		c.Ob(rule, "recursive loader:constructed errors", 0, "", core.Violated, "the loader constructs no error: the include-cycle test is gone")
	}
	c.Floor(rule, 1)
}

func dependsOnCycleCall(co map[ssa.Value]bool, li *loaderInfo) bool {
	for v := range co {
		if c, ok := v.(*ssa.Call); ok && li.cycle[c.Call.StaticCallee()] {
			return true
		}
	}
	return false
}

// readsElementOf: the slice co contains an element or key read (index, lookup,
// range) of a container in chain.
func readsElementOf(p *core.Prog, co, chain map[ssa.Value]bool, prm *ssa.Parameter) bool {
	inChain := func(x ssa.Value) bool {
		if x == prm || chain[x] {
			switch x.(type) {
			case *ssa.Const, *ssa.Builtin, *ssa.Function, *ssa.Global:
				return false
			}
			return true
		}
		return intersectsNonConst(originSet(p, x, 0), map[ssa.Value]bool{prm: true}) || chainContainer(originSet(p, x, 0), chain)
	}
	for v := range co {
		switch v := v.(type) {
		case *ssa.IndexAddr:
			if inChain(v.X) {
				return true
			}
		case *ssa.Index:
			if inChain(v.X) {
				return true
			}
		case *ssa.Lookup:
			if inChain(v.X) {
				return true
			}
		case *ssa.Range:
			if inChain(v.X) {
				return true
			}
		case *ssa.Call:
			// slices.Contains(chain, x), slices.Index(chain, x), a set's Has(x)
			if callee := v.Call.StaticCallee(); callee != nil && len(v.Call.Args) >= 1 {
				name := core.BaseName(callee)
				if callee.Pkg != nil && callee.Pkg.Pkg.Path() == "slices" && (name == "Contains" || name == "Index" || name == "ContainsFunc" || name == "IndexFunc") && inChain(v.Call.Args[0]) {
					return true
				}
				if (name == "Has" || name == "Contains") && inChain(v.Call.Args[0]) {
					return true
				}
				for i, a := range v.Call.Args {
					if inChain(a) && membershipHelper(p, callee, i) {
						return true
					}
				}
			}
		}
	}
	return false
}

// chainContainer: a slice- or map-typed value of the slice a is in chain.
func chainContainer(a, chain map[ssa.Value]bool) bool {
	for v := range a {
		if !chain[v] {
			continue
		}
		switch v.Type().Underlying().(type) {
		case *types.Slice, *types.Map:
			return true
		}
	}
	return false
}

func dependsOnCallTo(co map[ssa.Value]bool, g *ssa.Function) bool {
	for v := range co {
		if c, ok := v.(*ssa.Call); ok && c.Call.StaticCallee() == g {
			return true
		}
	}
	return false
}

func intersects(a, b map[ssa.Value]bool) bool {
	for v := range a {
		if b[v] {
			return true
		}
	}
	return false
}

func intersectsNonConst(a, b map[ssa.Value]bool) bool {
	for v := range a {
		if !b[v] {
			continue
		}
		switch v.(type) {
		case *ssa.Const, *ssa.Builtin, *ssa.Function, *ssa.Global:
			continue
		}
		return true
	}
	return false
}
