package rules

import (
	"fmt"
	"go/token"
	"go/types"
	"sort"
	"strings"

	"golang.org/x/tools/go/ssa"

	"knutlint/core"
)

// RuleKAllPostings — the transcoder writes every posting of every
// transaction exactly once, with its Value when a valuation is given: the
// loop over Transaction.Postings in the transaction writer has no condition
// that skips an element, and the amount written is Posting.Value on the
// valuation branch.
func RuleKAllPostings(c *core.Ctx) {
	const rule = "K-all-postings"
	p := c.P
	postings := p.Field(pkgTransaction, "Transaction", "Postings")
	valueF := p.Field(pkgPosting, "Posting", "Value")
	if postings == nil || valueF == nil {
		c.Anchor(rule, "Transaction.Postings / Posting.Value")
		return
	}
	n := 0
	postingWriters := map[*ssa.Function]bool{}
	for _, fn := range p.SrcFuncs() {
		if core.PkgPathOf(fn) != pkgBeancount {
			continue
		}
		// loops over t.Postings in this function
		for h, body := range loopsOf(fn) {
			overPostings := false
			for _, ins := range h.Instrs {
				if bo, ok := ins.(*ssa.BinOp); ok && bo.Op == token.LSS {
					if call, ok := bo.Y.(*ssa.Call); ok {
						if b, ok := call.Call.Value.(*ssa.Builtin); ok && b.Name() == "len" {
							if f, _ := containerRoot(call.Call.Args[0]); f == postings {
								overPostings = true
							}
						}
					}
				}
			}
			if !overPostings {
				continue
			}
			// the per-posting writer: a module call in the body that takes the element
			elems := map[ssa.Value]bool{}
			for b := range body {
				for _, ins := range b.Instrs {
					if ia, ok := ins.(*ssa.IndexAddr); ok && ia.Referrers() != nil {
						if f, _ := containerRoot(ia.X); f == postings {
							for _, r := range *ia.Referrers() {
								if ld, ok := r.(*ssa.UnOp); ok && ld.Op == token.MUL {
									elems[ld] = true
								}
							}
						}
					}
				}
			}
			var writes []*ssa.Call
			for b := range body {
				for _, ins := range b.Instrs {
					if call, ok := ins.(*ssa.Call); ok && call.Call.StaticCallee() != nil && core.PkgPathOf(call.Call.StaticCallee()) == pkgBeancount {
						for _, a := range call.Call.Args {
							if elems[a] || elems[core.Strip(a)] {
								writes = append(writes, call)
							}
						}
					}
				}
			}
			if len(writes) == 0 {
				continue // e.g. the loop that looks for valuation accounts to open
			}
			for _, w := range writes {
				postingWriters[w.Call.StaticCallee()] = true
			}
			n++
			key := core.FuncName(fn) + ":every posting is written"
			var bad []string
			for _, w := range writes {
				for b := range body {
					iff, isIf := b.Instrs[len(b.Instrs)-1].(*ssa.If)
					if !isIf || b == h {
						continue
					}
					if ctl, _ := core.Controls(b, w.Block()); !ctl {
						continue
					}
					if bo, ok := iff.Cond.(*ssa.BinOp); ok && (core.IsNilConst(bo.X) || core.IsNilConst(bo.Y)) {
						continue // error test
					}
					bad = append(bad, describeValue(p, iff.Cond))
				}
			}
			if len(bad) == 0 {
				c.Ob(rule, key, core.NearPos(h.Instrs[len(h.Instrs)-1]), core.FuncName(fn), core.Discharged, "no condition inside the loop over the postings skips an element")
			} else {
				c.Ob(rule, key, core.NearPos(h.Instrs[len(h.Instrs)-1]), core.FuncName(fn), core.Violated, "whether a posting is written depends on "+strings.Join(uniq(bad), "; ")+": a transaction can be emitted with one half of a pair missing, so its postings no longer sum to zero")
			}
		}
	}
	// the amount written on the valuation branch is Posting.Value: the function
	// that is handed each posting, or a helper of the package it calls, reads it
	{
		var wp *ssa.Function
		usesValue := false
		seen := map[*ssa.Function]bool{}
		var visit func(f *ssa.Function, depth int)
		visit = func(f *ssa.Function, depth int) {
			if f == nil || seen[f] || f.Blocks == nil || depth > 2 {
				return
			}
			seen[f] = true
			core.EachInstr(f, func(ins ssa.Instruction) {
				switch x := ins.(type) {
				case *ssa.FieldAddr:
					if core.FieldOf(x) == valueF {
						usesValue = true
					}
				case *ssa.Field:
					if core.FieldOf(x) == valueF {
						usesValue = true
					}
				case *ssa.Call:
					if callee := x.Call.StaticCallee(); callee != nil && core.PkgPathOf(callee) == pkgBeancount {
						visit(callee, depth+1)
					}
				}
			})
		}
		var fns []*ssa.Function
		for f := range postingWriters {
			fns = append(fns, f)
		}
		sort.Slice(fns, func(i, j int) bool { return fns[i].String() < fns[j].String() })
		for _, f := range fns {
			if wp == nil {
				wp = f
			}
			visit(f, 0)
		}
		if wp == nil {
			c.Anchor(rule, "the function of lib/journal/beancount that is handed each posting")
		} else {
			key := core.FuncName(wp) + ":writes Posting.Value"
			if usesValue {
				c.Ob(rule, key, wp.Pos(), core.FuncName(wp), core.Discharged, "the amount in the valuation commodity is the posting's Value (pairs carry exact negatives: C01)")
			} else {
				c.Ob(rule, key, wp.Pos(), core.FuncName(wp), core.Violated, "the transcoder does not write Posting.Value")
			}
		}
	}
	if n == 0 {
		c.Ob(rule, "beancount:loop over Transaction.Postings", 0, "", core.Undecided, "no loop over a transaction's postings that writes them was found in the transcoder")
	}
	c.Floor(rule, 2)
}

// RuleKTranscodeOrder — within a day the transcoder emits opens, then
// transactions, then closes; days come from the sorted journal.
func RuleKTranscodeOrder(c *core.Ctx) {
	const rule = "K-transcode-order"
	p := c.P
	// the function of the transcoder that visits the per-kind slices of a day
	var fn *ssa.Function
	for _, cand := range p.SrcFuncs() {
		if core.PkgPathOf(cand) != pkgBeancount {
			continue
		}
		r := kindReads(p, cand, nil)
		if len(r["Openings"]) > 0 && len(r["Transactions"]) > 0 && len(r["Closings"]) > 0 {
			if fn == nil || cand.String() < fn.String() {
				fn = cand
			}
		}
	}
	if fn == nil {
		c.Anchor(rule, "the function of lib/journal/beancount that visits a day's Openings, Transactions and Closings")
		return
	}
	reads := kindReads(p, fn, nil)
	// the loop over the days: its header must be avoided (next day)
	var dayHeader *ssa.BasicBlock
	size := 0
	for h, body := range loopsOf(fn) {
		if len(body) > size {
			dayHeader, size = h, len(body)
		}
	}
	if dayHeader == nil || len(reads["Openings"]) == 0 || len(reads["Transactions"]) == 0 || len(reads["Closings"]) == 0 {
		c.Anchor(rule, "the per-day loops of beancount.Transcode over Openings, Transactions and Closings")
		return
	}
	avoid := map[*ssa.BasicBlock]bool{dayHeader: true}
	order := []string{"Openings", "Transactions", "Closings"}
	for i := 0; i < len(order); i++ {
		for j := i + 1; j < len(order); j++ {
			bad := ""
			for _, later := range reads[order[j]] {
				for _, earlier := range reads[order[i]] {
					if later.Block() == earlier.Block() {
						if core.InstrIndex(later) < core.InstrIndex(earlier) {
							bad = "same block, wrong order"
						}
						continue
					}
					if core.BlockReaches(later.Block(), earlier.Block(), avoid) {
						bad = fmt.Sprintf("a path within one day leads from the %s loop to the %s loop", order[j], order[i])
					}
				}
			}
			key := fmt.Sprintf("%s:%s before %s", core.FuncName(fn), order[i], order[j])
			if bad == "" {
				c.Ob(rule, key, fn.Pos(), core.FuncName(fn), core.Discharged, "within a day, no path from the "+order[j]+" loop back to the "+order[i]+" loop")
			} else {
				c.Ob(rule, key, fn.Pos(), core.FuncName(fn), core.Violated, bad+": an account could be used before its open directive or after its close on the same day")
			}
		}
	}
	c.Floor(rule, 3)
}

// RuleFValuationOpen — the transcoder synthesises open directives for the
// generated valuation accounts: the predicate by which it recognises such an
// account must accept the names Registry.ValuationAccountFor builds.
func RuleFValuationOpen(c *core.Ctx) {
	const rule = "F-valuation-open"
	p := c.P
	tr := p.Func(pkgBeancount, "Transcode")
	vaf := p.Func(pkgAccount, "Registry.ValuationAccountFor")
	if tr == nil || vaf == nil {
		c.Anchor(rule, "beancount.Transcode / account.Registry.ValuationAccountFor")
		return
	}
	// root used by ValuationAccountFor: the constant handed to MustGet whose segments start the new path
	root := ""
	core.EachInstr(vaf, func(ins ssa.Instruction) {
		if call, ok := ins.(*ssa.Call); ok && call.Call.StaticCallee() != nil && call.Call.StaticCallee().Name() == "MustGet" {
			if s, ok := core.ConstString(call.Call.Args[1]); ok && root == "" {
				root = s
			}
		}
	})
	// prefix tested by the transcoder
	var prefixes []string
	var pos token.Pos
	core.EachInstr(tr, func(ins ssa.Instruction) {
		if call, ok := ins.(*ssa.Call); ok && call.Call.StaticCallee() != nil && call.Call.StaticCallee().String() == "strings.HasPrefix" {
			if s, ok := core.ConstString(call.Call.Args[1]); ok {
				prefixes = append(prefixes, s)
				pos = call.Pos()
			}
		}
	})
	key := "beancount.Transcode:generated valuation accounts are recognised"
	switch {
	case root == "":
		c.Ob(rule, key, vaf.Pos(), core.FuncName(vaf), core.Undecided, "could not determine the constant root of the accounts ValuationAccountFor builds")
	case len(prefixes) == 0:
		c.Ob(rule, key, tr.Pos(), core.FuncName(tr), core.Violated, "the transcoder has no test that recognises generated valuation accounts: they are used without an open directive")
	default:
		ok := false
		for _, pf := range prefixes {
			if strings.HasPrefix(root+":", pf) || strings.HasPrefix(pf, root+":") && pf == root+":" {
				ok = true
			}
		}
		if ok {
			c.Ob(rule, key, pos, core.FuncName(tr), core.Discharged, fmt.Sprintf("prefix test %q accepts accounts under %q", prefixes, root))
		} else {
			c.Ob(rule, key, pos, core.FuncName(tr), core.Violated, fmt.Sprintf("Registry.ValuationAccountFor builds accounts under %q, but the transcoder opens generated accounts only when their name starts with %q: the valuation accounts are used by postings without ever being opened", root+":", prefixes))
		}
	}
	c.Floor(rule, 1)
}

// RuleKEmitAll — the transcoder's writers emit every element they are given:
//
//	(a) in a loop over Journal.Days, Day.Openings, Day.Closings,
//	    Day.Transactions or Transaction.Postings, a call that writes the
//	    loop's own element (the element is an argument) is not
//	    control-dependent on any test other than an error test;
//	(b) a function of the transcoder that takes the writer returns without an
//	    error only after its outermost element loops: every return that is
//	    not the true branch of an error test is dominated by a call that
//	    receives the writer and by the header of each outermost element loop.
//
// (a) with an element dropped the output is not the journal's set of
// directives (an account used after its close, a missing transaction); (b) a
// writer that declines to write and reports success loses the element
// silently.
func RuleKEmitAll(c *core.Ctx) {
	const rule = "K-emit-all"
	p := c.P
	tracked := map[string]bool{}
	for _, f := range []struct{ pkg, typ, field string }{
		{pkgJournal, "Journal", "Days"}, {pkgJournal, "Day", "Openings"}, {pkgJournal, "Day", "Closings"},
		{pkgJournal, "Day", "Transactions"}, {pkgTransaction, "Transaction", "Postings"},
	} {
		if fv := p.Field(f.pkg, f.typ, f.field); fv != nil {
			tracked[p.FieldRef(fv)] = true
		} else {
			c.Anchor(rule, f.typ+"."+f.field)
			return
		}
	}
	n := 0
	for _, fn := range p.SrcFuncs() {
		if core.PkgPathOf(fn) != pkgBeancount || fn.Parent() != nil {
			continue
		}
		// writer parameter (or a receiver that holds the writer in a field)
		w := writerRoot(fn)
		if w == nil || fn.Signature.Results().Len() == 0 {
			continue
		}
		loops := loopsOf(fn)
		type eloop struct {
			h     *ssa.BasicBlock
			body  map[*ssa.BasicBlock]bool
			field string
			elem  map[ssa.Value]bool
		}
		var els []eloop
		for h, body := range loops {
			field := ""
			var ranged ssa.Value
			for _, ins := range h.Instrs {
				if bo, ok := ins.(*ssa.BinOp); ok && bo.Op == token.LSS {
					if call, ok := bo.Y.(*ssa.Call); ok {
						if b, ok := call.Call.Value.(*ssa.Builtin); ok && b.Name() == "len" {
							if f, _ := containerRoot(call.Call.Args[0]); f != nil && tracked[p.FieldRef(f)] {
								field, ranged = p.FieldRef(f), call.Call.Args[0]
							}
						}
					}
				}
			}
			if field == "" {
				continue
			}
			// the element: loads of &ranged[i] in the body
			elem := map[ssa.Value]bool{}
			for b := range body {
				for _, ins := range b.Instrs {
					if ia, ok := ins.(*ssa.IndexAddr); ok && ia.X == ranged {
						for _, r := range *ia.Referrers() {
							if ld, ok := r.(*ssa.UnOp); ok && ld.Op == token.MUL {
								elem[ld] = true
							}
						}
					}
				}
			}
			els = append(els, eloop{h, body, field, elem})
		}
		sort.Slice(els, func(i, j int) bool { return els[i].h.Index < els[j].h.Index })
		// (a)
		for _, el := range els {
			var writes []*ssa.Call
			for b := range el.body {
				for _, ins := range b.Instrs {
					call, ok := ins.(*ssa.Call)
					if !ok {
						continue
					}
					takesElem := false
					for _, a := range call.Call.Args {
						if el.elem[core.Strip(a)] || el.elem[a] {
							takesElem = true
						}
						if mi, ok := a.(*ssa.MakeInterface); ok && el.elem[mi.X] {
							takesElem = true
						}
					}
					if takesElem && callWrites(p, call, w) {
						// a helper that only derives other things to write from the element
						// (the opens of the valuation accounts a transaction uses) is not the
						// write of the element
						if h := localHelper(call); h != nil {
							passes := false
							for i, a := range call.Call.Args {
								isElem := el.elem[core.Strip(a)] || el.elem[a]
								if mi, ok := a.(*ssa.MakeInterface); ok && el.elem[mi.X] {
									isElem = true
								}
								if isElem && i < len(h.Params) && (writesItsParam(h, i, 0) || alwaysWrites(p, h)) {
									passes = true
								}
							}
							if !passes {
								continue
							}
						}
						writes = append(writes, call)
					}
				}
			}
			if len(writes) == 0 {
				continue
			}
			n++
			key := fmt.Sprintf("%s:every element of %s is written", core.FuncName(fn), el.field)
			var bad []string
			for _, wr := range writes {
				for b := range el.body {
					iff, isIf := b.Instrs[len(b.Instrs)-1].(*ssa.If)
					if !isIf || b == el.h {
						continue
					}
					if ctl, _ := core.Controls(b, wr.Block()); !ctl {
						continue
					}
					if isErrTest(iff.Cond) {
						continue
					}
					bad = append(bad, describeValue(p, iff.Cond))
				}
			}
			// the write may be a local function (literal or helper of the package) that
			// takes the element: it must write on each of its own success paths
			for _, wr := range writes {
				var helper *ssa.Function
				if f := core.FuncValue(wr.Call.Value); f != nil && f.Blocks != nil && core.PkgPathOf(f) == pkgBeancount {
					helper = f
				} else if f := wr.Call.StaticCallee(); f != nil && f.Blocks != nil && core.PkgPathOf(f) == pkgBeancount {
					helper = f
				} else if ld, ok := wr.Call.Value.(*ssa.UnOp); ok {
					if al, ok := ld.X.(*ssa.Alloc); ok {
						for _, st := range core.AllStoresToCell(al) {
							if f := core.FuncValue(st.Val); f != nil && f.Blocks != nil {
								helper = f
							}
						}
					}
				}
				if helper == nil {
					continue
				}
				if why := returnsWithoutWriting(p, helper); why != "" {
					bad = append(bad, "the helper "+core.FuncName(helper)+" that is given the element "+why)
				}
			}
			if len(bad) == 0 {
				c.Ob(rule, key, core.NearPos(writes[0]), core.FuncName(fn), core.Discharged, "the write of the loop's element depends on no test other than error tests")
			} else {
				c.Ob(rule, key, core.NearPos(writes[0]), core.FuncName(fn), core.Violated, "whether an element of "+el.field+" is written depends on "+strings.Join(uniq(bad), "; ")+": the ledger no longer contains every directive of the journal")
			}
		}
		// (b)
		var outer []eloop
		for _, el := range els {
			nested := false
			for h, body := range loops {
				if h != el.h && body[el.h] {
					nested = true // inside another loop (tracked or not): cannot dominate the function's returns
				}
			}
			if !nested {
				outer = append(outer, el)
			}
		}
		var writeBlocks []*ssa.BasicBlock
		core.EachInstr(fn, func(ins ssa.Instruction) {
			if call, ok := ins.(*ssa.Call); ok && callWrites(p, call, w) {
				writeBlocks = append(writeBlocks, call.Block())
			}
		})
		for _, b := range fn.Blocks {
			ret, ok := b.Instrs[len(b.Instrs)-1].(*ssa.Return)
			if !ok {
				continue
			}
			// error return: the block is entered only through the true edge of an error test
			if len(b.Preds) == 1 {
				if iff, ok := b.Preds[0].Instrs[len(b.Preds[0].Instrs)-1].(*ssa.If); ok && isErrTest(iff.Cond) && b.Preds[0].Succs[0] == b {
					continue
				}
			}
			n++
			key := fmt.Sprintf("%s:success return %d follows the writes", core.FuncName(fn), successReturnIndex(fn, b))
			var missing []string
			dominatedByWrite := false
			for _, wb := range writeBlocks {
				if wb == b || wb.Dominates(b) {
					dominatedByWrite = true
				}
			}
			// a loop over the elements to write counts as "the writes" of a function
			// whose output is conditional per element (judged element by element by (a))
			for _, el := range els {
				if el.h.Dominates(b) {
					dominatedByWrite = true
				}
			}
			// … also when that loop is nested in a loop over a slice the function was
			// handed (the transactions of a day)
			for h, body := range loops {
				if !h.Dominates(b) {
					continue
				}
				for _, el := range els {
					if body[el.h] {
						dominatedByWrite = true
					}
				}
				for _, wb := range writeBlocks {
					if body[wb] {
						dominatedByWrite = true
					}
				}
			}
			if !dominatedByWrite {
				missing = append(missing, "no call that receives the writer precedes it on every path")
			}
			for _, el := range outer {
				if !el.h.Dominates(b) {
					missing = append(missing, "the loop over "+el.field+" is not on every path to it")
				}
			}
			if len(missing) == 0 {
				c.Ob(rule, key, ret.Pos(), core.FuncName(fn), core.Discharged, "every path to this return passes the writes and the element loops")
			} else {
				c.Ob(rule, key, ret.Pos(), core.FuncName(fn), core.Violated, "the writer can report success without having written: "+strings.Join(missing, "; "))
			}
		}
	}
	c.Floor(rule, 6)
}

// localHelper: the function of the transcoder's package (a declared function
// or a local function literal) that a call invokes, nil for anything else.
func localHelper(call *ssa.Call) *ssa.Function {
	var h *ssa.Function
	if f := call.Call.StaticCallee(); f != nil {
		h = f
	} else if f := core.FuncValue(call.Call.Value); f != nil {
		h = f
	} else if ld, ok := call.Call.Value.(*ssa.UnOp); ok {
		if al, ok := ld.X.(*ssa.Alloc); ok {
			for _, st := range core.AllStoresToCell(al) {
				if f := core.FuncValue(st.Val); f != nil {
					h = f
				}
			}
		}
	}
	if h == nil {
		h = capturedFunc(call.Call.Value)
	}
	if h == nil || h.Blocks == nil || core.PkgPathOf(h) != pkgBeancount {
		return nil
	}
	return h
}

// writesItsParam: h hands its parameter idx itself (not something read out of
// it) to a call that takes a writer or a printer, or to another helper of the
// package that does.
func writesItsParam(h *ssa.Function, idx int, depth int) bool {
	if idx >= len(h.Params) || depth > 3 {
		return false
	}
	prm := h.Params[idx]
	found := false
	for _, g := range core.WithAnon(h) {
		core.EachInstr(g, func(ins ssa.Instruction) {
			call, ok := ins.(*ssa.Call)
			if !ok || found {
				return
			}
			for i, a := range call.Call.Args {
				v := core.Strip(a)
				if mi, ok := a.(*ssa.MakeInterface); ok {
					v = core.Strip(mi.X)
				}
				// the parameter, also through a spill or a capture
				isPrm := v == ssa.Value(prm)
				if ld, ok := v.(*ssa.UnOp); ok {
					if al, ok := ld.X.(*ssa.Alloc); ok {
						for _, st := range core.StoresTo(al) {
							if core.Strip(st.Val) == ssa.Value(prm) {
								isPrm = true
							}
						}
					}
				}
				if !isPrm {
					continue
				}
				if h2 := localHelper(call); h2 != nil {
					if writesItsParam(h2, i, depth+1) {
						found = true
					}
					continue
				}
				// a call outside the package that also gets a writer / is a printer method
				for _, b := range call.Call.Args {
					t := b.Type()
					if implementsWriter(t) {
						found = true
					}
					if pt, ok := t.Underlying().(*types.Pointer); ok && isPrinterType(pt) {
						found = true
					}
				}
			}
		})
	}
	return found
}

// alwaysWrites: fn calls something that takes a writer or a printer, and every
// return that is not an error return is dominated by such a call.
func alwaysWrites(p *core.Prog, fn *ssa.Function) bool {
	any := false
	var writeBlocks []*ssa.BasicBlock
	core.EachInstr(fn, func(ins ssa.Instruction) {
		call, ok := ins.(ssa.CallInstruction)
		if !ok {
			return
		}
		cc := call.Common()
		vals := append([]ssa.Value{}, cc.Args...)
		if cc.IsInvoke() {
			vals = append(vals, cc.Value)
		}
		for _, a := range vals {
			t := a.Type()
			if mi, ok := a.(*ssa.MakeInterface); ok {
				t = mi.X.Type()
			}
			if implementsWriter(t) {
				any = true
				writeBlocks = append(writeBlocks, ins.Block())
			} else if pt, ok := t.Underlying().(*types.Pointer); ok && isPrinterType(pt) {
				any = true
				writeBlocks = append(writeBlocks, ins.Block())
			}
		}
	})
	if !any {
		return false
	}
	for _, b := range fn.Blocks {
		if _, ok := b.Instrs[len(b.Instrs)-1].(*ssa.Return); !ok {
			continue
		}
		if len(b.Preds) == 1 {
			if iff, ok := b.Preds[0].Instrs[len(b.Preds[0].Instrs)-1].(*ssa.If); ok && isErrTest(iff.Cond) && b.Preds[0].Succs[0] == b {
				continue
			}
		}
		dominated := false
		for _, wb := range writeBlocks {
			if wb == b || wb.Dominates(b) {
				dominated = true
			}
		}
		if !dominated {
			return false
		}
	}
	return true
}

// returnsWithoutWriting: fn has a return that is not an error return and is
// not dominated by a call that writes (a call with an io.Writer or a printer
// as receiver or argument).
func returnsWithoutWriting(p *core.Prog, fn *ssa.Function) string {
	writeLike := func(call ssa.CallInstruction) bool {
		cc := call.Common()
		vals := append([]ssa.Value{}, cc.Args...)
		if cc.IsInvoke() {
			vals = append(vals, cc.Value)
		}
		for _, a := range vals {
			t := a.Type()
			if mi, ok := a.(*ssa.MakeInterface); ok {
				t = mi.X.Type()
			}
			if implementsWriter(t) {
				return true
			}
			if pt, ok := t.Underlying().(*types.Pointer); ok {
				if n, ok := types.Unalias(pt.Elem()).(*types.Named); ok && n.Obj().Name() == "Printer" && n.Obj().Pkg() != nil && strings.HasPrefix(n.Obj().Pkg().Path(), core.Module) {
					return true
				}
			}
		}
		return false
	}
	var writeBlocks []*ssa.BasicBlock
	core.EachInstr(fn, func(ins ssa.Instruction) {
		if call, ok := ins.(ssa.CallInstruction); ok && writeLike(call) {
			writeBlocks = append(writeBlocks, ins.Block())
		}
	})
	if len(writeBlocks) == 0 {
		return ""
	}
	// only a helper that writes the very value it is given is "the writer of the
	// element"; one that derives other things to write from it (the opens of the
	// valuation accounts a transaction uses) writes them as needed
	writesParam := false
	core.EachInstr(fn, func(ins ssa.Instruction) {
		call, ok := ins.(ssa.CallInstruction)
		if !ok || !writeLike(call) {
			return
		}
		for _, a := range call.Common().Args {
			v := core.Strip(a)
			if mi, ok := a.(*ssa.MakeInterface); ok {
				v = core.Strip(mi.X)
			}
			if _, isPrm := v.(*ssa.Parameter); isPrm && !implementsWriter(v.Type()) {
				if pt, ok := v.Type().Underlying().(*types.Pointer); !ok || !isPrinterType(pt) {
					writesParam = true
				}
			}
		}
	})
	if !writesParam {
		return ""
	}
	for _, b := range fn.Blocks {
		ret, ok := b.Instrs[len(b.Instrs)-1].(*ssa.Return)
		if !ok {
			continue
		}
		if len(b.Preds) == 1 {
			if iff, ok := b.Preds[0].Instrs[len(b.Preds[0].Instrs)-1].(*ssa.If); ok && isErrTest(iff.Cond) && b.Preds[0].Succs[0] == b {
				continue
			}
		}
		dominated := false
		for _, wb := range writeBlocks {
			if wb == b || wb.Dominates(b) {
				dominated = true
			}
		}
		if !dominated {
			return "can return at " + p.Pos(ret.Pos()) + " without having written it"
		}
	}
	return ""
}

func isPrinterType(pt *types.Pointer) bool {
	n, ok := types.Unalias(pt.Elem()).(*types.Named)
	return ok && n.Obj().Name() == "Printer"
}

func implementsWriter(t types.Type) bool {
	ms := types.NewMethodSet(t)
	for i := 0; i < ms.Len(); i++ {
		if f, ok := ms.At(i).Obj().(*types.Func); ok && f.Name() == "Write" {
			sig := f.Type().(*types.Signature)
			if sig.Params().Len() == 1 && sig.Results().Len() == 2 {
				return true
			}
		}
	}
	return false
}

// successReturnIndex numbers the non-error returns of fn in block order (a
// stable key that does not depend on line numbers).
func successReturnIndex(fn *ssa.Function, b *ssa.BasicBlock) int {
	k := 0
	for _, x := range fn.Blocks {
		if _, ok := x.Instrs[len(x.Instrs)-1].(*ssa.Return); ok {
			k++
			if x == b {
				return k
			}
		}
	}
	return k
}

// isErrTest: cond is `x != nil` / `x == nil` on an error-typed operand.
func isErrTest(cond ssa.Value) bool {
	bo, ok := cond.(*ssa.BinOp)
	if !ok || (bo.Op != token.NEQ && bo.Op != token.EQL) {
		return false
	}
	if !(core.IsNilConst(bo.X) || core.IsNilConst(bo.Y)) {
		return false
	}
	v := bo.X
	if core.IsNilConst(v) {
		v = bo.Y
	}
	return types.TypeString(v.Type(), nil) == "error"
}

// callWrites: the call receives the writer w, a value built from it (a
// printer created by printer.New(w)), as an argument or receiver.
func callWrites(p *core.Prog, call *ssa.Call, w *ssa.Parameter) bool {
	var derivedN func(v ssa.Value, depth int) bool
	derivedN = func(v ssa.Value, depth int) bool {
		v = core.Strip(v)
		if v == w {
			return true
		}
		if depth > 3 {
			return false
		}
		switch x := v.(type) {
		case *ssa.Call:
			for _, a := range x.Call.Args {
				if core.Strip(a) == w {
					return true
				}
			}
		case *ssa.MakeInterface:
			return derivedN(x.X, depth+1)
		case *ssa.UnOp:
			if x.Op == token.MUL {
				return derivedN(x.X, depth+1)
			}
		case *ssa.Alloc:
			// a local that holds a value built from the writer (p := printer.New(w))
			for _, st := range core.AllStoresToCell(x) {
				if derivedN(st.Val, depth+1) {
					return true
				}
			}
			// a local struct one of whose fields holds the writer (a state object)
			if x.Referrers() != nil {
				for _, r := range *x.Referrers() {
					if fa, ok := r.(*ssa.FieldAddr); ok {
						for _, st := range core.StoresTo(fa) {
							if derivedN(st.Val, depth+1) {
								return true
							}
						}
					}
				}
			}
		case *ssa.FieldAddr:
			// a field of the receiver that holds the writer (or a printer on it)
			return derivedN(x.X, depth+1)
		}
		return false
	}
	derived := func(v ssa.Value) bool { return derivedN(v, 0) }
	if call.Call.IsInvoke() && derived(call.Call.Value) {
		return true
	}
	// a local function literal that captures the writer (or something built from it)
	if !call.Call.IsInvoke() {
		var mc *ssa.MakeClosure
		switch x := call.Call.Value.(type) {
		case *ssa.MakeClosure:
			mc = x
		case *ssa.UnOp:
			if al, ok := x.X.(*ssa.Alloc); ok {
				for _, st := range core.AllStoresToCell(al) {
					if m, ok := st.Val.(*ssa.MakeClosure); ok {
						mc = m
					}
				}
			}
		}
		if mc != nil {
			var closureWrites func(m *ssa.MakeClosure, depth int) bool
			closureWrites = func(m *ssa.MakeClosure, depth int) bool {
				for _, b := range m.Bindings {
					if derived(b) {
						return true
					}
					if depth >= 2 {
						continue
					}
					// a captured local function that writes (paragraph := func(d) error {…})
					var inner *ssa.MakeClosure
					switch y := b.(type) {
					case *ssa.MakeClosure:
						inner = y
					case *ssa.Alloc:
						for _, st := range core.AllStoresToCell(y) {
							if m2, ok := st.Val.(*ssa.MakeClosure); ok {
								inner = m2
							}
						}
					}
					if inner != nil && closureWrites(inner, depth+1) {
						return true
					}
				}
				return false
			}
			if closureWrites(mc, 0) {
				return true
			}
		}
	}
	for _, a := range call.Call.Args {
		if derived(a) {
			return true
		}
	}
	return false
}


// writerRoot: the parameter through which fn reaches the output — a parameter
// of type io.Writer, or a receiver whose struct has an io.Writer field (a
// state object that carries the writer).
func writerRoot(fn *ssa.Function) *ssa.Parameter {
	for _, prm := range fn.Params {
		if types.TypeString(prm.Type(), nil) == "io.Writer" {
			return prm
		}
	}
	// a parameter (the receiver first) that carries the writer: a struct with an
	// io.Writer field (a state object, a writer wrapper)
	for i, prm := range fn.Params {
		if i > 0 && fn.Signature.Recv() != nil && false {
			break
		}
		t := prm.Type()
		if pt, ok := t.Underlying().(*types.Pointer); ok {
			t = pt.Elem()
		}
		if st, ok := t.Underlying().(*types.Struct); ok {
			for k := 0; k < st.NumFields(); k++ {
				if types.TypeString(st.Field(k).Type(), nil) == "io.Writer" {
					return prm
				}
			}
		}
	}
	return nil
}
