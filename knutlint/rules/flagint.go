package rules

import (
	"fmt"
	"go/token"
	"go/types"
	"sort"
	"strings"

	"golang.org/x/tools/go/ssa"

	"knutlint/core"
)

// RuleDFlagInt — an integer parsed from the command line and later used as a
// slice bound or index must be checked for negativity where it is parsed.
// Sources: results of strconv.Atoi/ParseInt stored into a struct field, and
// fields whose address is handed to pflag's Int*Var. Sinks: Slice bounds and
// Index/IndexAddr indices anywhere in the module whose backward slice
// (through arithmetic, phis, and up to 3 levels of callee return values)
// contains a load of such a field. DESIGN.md D-flagint.
func RuleDFlagInt(c *core.Ctx) {
	const rule = "D-flagint"
	p := c.P

	type source struct {
		field  *types.Var
		stores []*ssa.Store // stores of the parsed value into the field
		intVar bool
		where  token.Pos
	}
	sources := map[*types.Var]*source{}
	get := func(fv *types.Var, pos token.Pos) *source {
		s := sources[fv]
		if s == nil {
			s = &source{field: fv, where: pos}
			sources[fv] = s
		}
		return s
	}

	for _, fn := range p.SrcFuncs() {
		core.EachInstr(fn, func(ins ssa.Instruction) {
			switch x := ins.(type) {
			case *ssa.Store:
				fa, ok := x.Addr.(*ssa.FieldAddr)
				if !ok {
					return
				}
				if b, ok := x.Val.Type().Underlying().(*types.Basic); !ok || b.Info()&types.IsInteger == 0 {
					return
				}
				if fromStrconv(x.Val, map[ssa.Value]bool{}) {
					s := get(core.FieldOf(fa), x.Pos())
					s.stores = append(s.stores, x)
				}
			case ssa.CallInstruction:
				obj := core.CalleeObj(x)
				if obj == nil || obj.Pkg() == nil || obj.Pkg().Path() != "github.com/spf13/pflag" {
					return
				}
				if !strings.HasPrefix(obj.Name(), "Int") || !strings.Contains(obj.Name(), "Var") {
					return
				}
				for _, a := range x.Common().Args {
					if fa, ok := a.(*ssa.FieldAddr); ok {
						s := get(core.FieldOf(fa), x.Pos())
						s.intVar = true
					}
				}
			}
		})
	}

	// sinks
	type sink struct {
		pos  token.Pos
		fn   *ssa.Function
		what string
	}
	sinks := map[*types.Var][]sink{}
	for _, fn := range p.SrcFuncs() {
		core.EachInstr(fn, func(ins ssa.Instruction) {
			var bounds []ssa.Value
			what := ""
			switch x := ins.(type) {
			case *ssa.Slice:
				bounds = []ssa.Value{x.Low, x.High, x.Max}
				what = "slice bound"
			case *ssa.IndexAddr:
				bounds = []ssa.Value{x.Index}
				what = "index"
			case *ssa.Index:
				bounds = []ssa.Value{x.Index}
				what = "index"
			default:
				return
			}
			hit := map[*types.Var]bool{}
			for _, b := range bounds {
				if b == nil {
					continue
				}
				if _, isConst := b.(*ssa.Const); isConst {
					continue
				}
				w := &core.Walker{P: p, CallDepth: 3, Visit: func(v ssa.Value) bool {
					switch y := v.(type) {
					case *ssa.FieldAddr:
						if fv := core.FieldOf(y); sources[fv] != nil {
							hit[fv] = true
						}
						return false
					case *ssa.Field:
						if fv := core.FieldOf(y); sources[fv] != nil {
							hit[fv] = true
						}
						return false
					case *ssa.Call:
						// len(x), cap(x): the result is a length, not the flag
						if bi, ok := y.Call.Value.(*ssa.Builtin); ok && (bi.Name() == "len" || bi.Name() == "cap") {
							return false
						}
					case *ssa.Lookup, *ssa.Index, *ssa.IndexAddr:
						// element values are not followed into the container's origin
					}
					return true
				}}
				w.Origin(b)
			}
			for fv := range hit {
				sinks[fv] = append(sinks[fv], sink{ins.Pos(), fn, what})
			}
		})
	}

	var fields []*types.Var
	for fv := range sources {
		fields = append(fields, fv)
	}
	sort.Slice(fields, func(i, j int) bool { return p.FieldRef(fields[i]) < p.FieldRef(fields[j]) })
	for _, fv := range fields {
		s := sources[fv]
		sk := sinks[fv]
		ref := p.FieldRef(fv)
		if len(sk) == 0 {
			c.Ob(rule, "field "+ref+":no bound use", s.where, "", core.Info, "command-line integer never reaches a slice bound or index")
			continue
		}
		var uses []string
		for _, k := range sk {
			uses = append(uses, fmt.Sprintf("%s in %s at %s", k.what, core.FuncName(k.fn), p.Pos(k.pos)))
		}
		sort.Strings(uses)
		if s.intVar {
			c.Ob(rule, "field "+ref+":IntVar", s.where, "", core.Violated,
				"integer flag bound with pflag Int*Var (no validation hook) reaches "+strings.Join(uses, "; "))
			continue
		}
		for _, st := range s.stores {
			key := fmt.Sprintf("field %s:store in %s", ref, core.FuncName(st.Parent()))
			if guardedNonNegative(p, st, st.Val) {
				c.Ob(rule, key, st.Pos(), core.FuncName(st.Parent()), core.Discharged,
					"the parsed integer is rejected when negative before it is stored; it is used as "+strings.Join(uses, "; "))
			} else {
				c.Ob(rule, key, st.Pos(), core.FuncName(st.Parent()), core.Violated,
					"strconv result stored without a dominating `< 0` rejection; a negative value panics at "+strings.Join(uses, "; "))
			}
		}
	}
	c.Floor(rule, 2)
}

func fromStrconv(v ssa.Value, seen map[ssa.Value]bool) bool {
	if seen[v] {
		return false
	}
	seen[v] = true
	switch x := v.(type) {
	case *ssa.Phi:
		for _, e := range x.Edges {
			if fromStrconv(e, seen) {
				return true
			}
		}
	case *ssa.Convert:
		return fromStrconv(x.X, seen)
	case *ssa.Extract:
		return fromStrconv(x.Tuple, seen)
	case *ssa.UnOp:
		if x.Op == token.MUL {
			if a, ok := x.X.(*ssa.Alloc); ok {
				for _, s := range core.AllStoresToCell(a) {
					if fromStrconv(s.Val, seen) {
						return true
					}
				}
			}
			// an element of a local array / slice: any element stored into it
			if ia, ok := x.X.(*ssa.IndexAddr); ok {
				if a, ok := ia.X.(*ssa.Alloc); ok && a.Referrers() != nil {
					for _, r := range *a.Referrers() {
						if ia2, ok := r.(*ssa.IndexAddr); ok {
							for _, s := range core.StoresTo(ia2) {
								if fromStrconv(s.Val, seen) {
									return true
								}
							}
						}
					}
				}
			}
		}
	case *ssa.Call:
		if callee := x.Call.StaticCallee(); callee != nil && callee.Pkg != nil && callee.Pkg.Pkg.Path() == "strconv" {
			switch callee.Name() {
			case "Atoi", "ParseInt":
				return true
			}
		}
		// a helper of the module that returns a parsed integer
		if callee := x.Call.StaticCallee(); callee != nil && callee.Blocks != nil && callee.Pkg != nil && strings.HasPrefix(callee.Pkg.Pkg.Path(), core.Module) && len(seen) < 100 {
			found := false
			core.EachInstr(callee, func(ins ssa.Instruction) {
				if ret, ok := ins.(*ssa.Return); ok && !found {
					for _, rv := range ret.Results {
						if b, ok := rv.Type().Underlying().(*types.Basic); ok && b.Info()&types.IsInteger != 0 && fromStrconv(rv, seen) {
							found = true
						}
					}
				}
			})
			return found
		}
	}
	return false
}

// guardedNonNegative: a test `v < 0` (or `v >= 0`, `0 > v`, `0 <= v`) on the
// same value dominates `at` on its non-negative edge. Phis are looked
// through: the test may be on the phi or on every incoming value.
func guardedNonNegative(p *core.Prog, at ssa.Instruction, v ssa.Value) bool {
	if n, ok := core.ConstInt(v); ok {
		return n >= 0
	}
	// the result of a module helper that validates before it returns: every return
	// of the helper hands back, at that position, a value that is non-negative there
	{
		idx := 0
		var call *ssa.Call
		switch x := v.(type) {
		case *ssa.Extract:
			call, _ = x.Tuple.(*ssa.Call)
			idx = x.Index
		case *ssa.Call:
			call = x
		}
		if call != nil {
			if callee := call.Call.StaticCallee(); callee != nil && callee.Blocks != nil && p.InModule(callee) && callee != at.Parent() {
				all, any := true, false
				core.EachInstr(callee, func(ins ssa.Instruction) {
					ret, ok := ins.(*ssa.Return)
					if !ok || idx >= len(ret.Results) {
						return
					}
					// returns that carry a non-nil error do not deliver a value
					for _, rv := range ret.Results {
						if core.IsErrorType(rv.Type()) && !core.IsNilConst(rv) {
							if _, isPhi := rv.(*ssa.Phi); !isPhi {
								return
							}
						}
					}
					any = true
					if !guardedNonNegative(p, ret, ret.Results[idx]) {
						all = false
					}
				})
				if all && any {
					return true
				}
			}
		}
	}
	fn := at.Parent()
	for _, b := range fn.Blocks {
		iff, ok := b.Instrs[len(b.Instrs)-1].(*ssa.If)
		if !ok {
			continue
		}
		bo, ok := iff.Cond.(*ssa.BinOp)
		if !ok {
			continue
		}
		x, y, op := bo.X, bo.Y, bo.Op
		if _, isC := x.(*ssa.Const); isC {
			x, y = y, x
			switch op {
			case token.LSS:
				op = token.GTR
			case token.GTR:
				op = token.LSS
			case token.LEQ:
				op = token.GEQ
			case token.GEQ:
				op = token.LEQ
			}
		}
		k, ok := core.ConstInt(y)
		if !ok || !p.SameExpr(x, v) {
			continue
		}
		var safe *ssa.BasicBlock
		switch {
		case op == token.LSS && k <= 0, op == token.LEQ && k < 0: // x < 0 true => negative
			safe = b.Succs[1]
		case op == token.GEQ && k >= 0, op == token.GTR && k >= -1: // x >= 0 true => fine
			safe = b.Succs[0]
		default:
			continue
		}
		if core.EdgeDominates(b, safe, at.Block()) {
			return true
		}
	}
	if phi, ok := v.(*ssa.Phi); ok {
		for _, e := range phi.Edges {
			if !guardedNonNegative(p, at, e) {
				return false
			}
		}
		return true
	}
	return false
}
