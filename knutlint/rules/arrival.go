package rules

import (
	"fmt"
	"go/types"
	"sort"

	"golang.org/x/tools/go/ssa"

	"knutlint/core"
)

// spawnedClosure reports whether fn (a closure) or one of its enclosing
// closures is started concurrently: it is the operand of a `go` statement or
// an argument of a call to a method named Go (conc pools, errgroup).
func spawnedClosure(fn *ssa.Function) (bool, string) {
	for f := fn; f != nil && f.Parent() != nil; f = f.Parent() {
		parent := f.Parent()
		spawned := ""
		core.EachInstr(parent, func(ins ssa.Instruction) {
			mc, ok := ins.(*ssa.MakeClosure)
			if !ok || mc.Fn != f || mc.Referrers() == nil {
				return
			}
			for _, r := range *mc.Referrers() {
				switch x := r.(type) {
				case *ssa.Go:
					spawned = "go statement in " + core.FuncName(parent)
				case ssa.CallInstruction:
					if callee := x.Common().StaticCallee(); callee != nil && callee.Name() == "Go" {
						spawned = callee.String() + " in " + core.FuncName(parent)
					}
				}
			}
		})
		if spawned != "" {
			return true, spawned
		}
	}
	return false, ""
}

// RuleAArrival — the order in which the directives of the files reach the
// journal builder must not depend on goroutine scheduling: in the stage that
// feeds the builder, every push of a batch of directives is sequential code of
// the producer (not inside a goroutine spawned per file) and hands over the
// elements of a slice that was sorted before. DESIGN.md section 2.A (U3).
func RuleAArrival(c *core.Ctx) {
	const rule = "A-arrival"
	p := c.P
	pushFn := p.Func(pkgCpr, "Push")
	addFn := p.Func(pkgJournal, "Builder.Add")
	fromModel := p.Func(pkgJournal, "FromModelStream")
	if pushFn == nil || addFn == nil || fromModel == nil {
		c.Anchor(rule, "cpr.Push / journal.Builder.Add / journal.FromModelStream")
		return
	}
	// 1. the consumer: Builder.Add is called sequentially on the batch
	var consumers []*ssa.Function
	for fn := range p.ReachLexical(fromModel) {
		if core.PkgPathOf(fn) == pkgJournal && fn != addFn {
			consumers = append(consumers, fn)
		}
	}
	sort.Slice(consumers, func(i, j int) bool { return consumers[i].String() < consumers[j].String() })
	for _, fn := range consumers {
		core.EachInstr(fn, func(ins ssa.Instruction) {
			call, ok := ins.(ssa.CallInstruction)
			if !ok || call.Common().StaticCallee() != addFn {
				return
			}
			if sp, how := spawnedClosure(fn); sp {
				c.Ob(rule, "consumer:"+core.FuncName(fn), ins.Pos(), core.FuncName(fn), core.Violated, "Builder.Add is called from a concurrently started closure ("+how+")")
			} else {
				c.Ob(rule, "consumer:"+core.FuncName(fn), ins.Pos(), core.FuncName(fn), core.Discharged, "the builder adds the directives of each batch sequentially, in channel order")
			}
		})
	}
	// 2. the producers: pushes of []model.Directive
	n := 0
	for _, fn := range p.SrcFuncs() {
		core.EachInstr(fn, func(ins ssa.Instruction) {
			call, ok := ins.(*ssa.Call)
			if !ok {
				return
			}
			callee := call.Call.StaticCallee()
			if callee == nil || (callee != pushFn && callee.Origin() != pushFn) {
				return
			}
			// element type of the channel
			ch, ok := call.Call.Args[1].Type().Underlying().(*types.Chan)
			if !ok {
				return
			}
			sl, ok := ch.Elem().Underlying().(*types.Slice)
			if !ok || types.TypeString(sl.Elem(), nil) != pkgModel+".Directive" {
				return
			}
			n++
			key := fmt.Sprintf("producer:%s:Push of []Directive", core.FuncName(fn))
			if sp, how := spawnedClosure(fn); sp {
				c.Ob(rule, key, call.Pos(), core.FuncName(fn), core.Violated,
					"a file's directives are pushed to the journal builder from a goroutine started per file ("+how+"): batches arrive in scheduling order, and the order of same-day directives of different files (which knut print emits as they arrived, and in which same-day prices overwrite each other) differs from run to run")
				return
			}
			// the pushed values must be elements of a slice sorted before
			sorted := false
			w := &core.Walker{P: p, Visit: func(v ssa.Value) bool {
				var base ssa.Value
				// the batches come out of a helper of the package that sorts them
				// (collected.sorted()): every return of it follows a total-order sort call
				if cl, ok := v.(*ssa.Call); ok {
					if g := cl.Call.StaticCallee(); g != nil && g.Blocks != nil && core.PkgPathOf(g) == core.PkgPathOf(fn) {
						var sortCall *ssa.Call
						core.EachInstr(g, func(s ssa.Instruction) {
							if sc, ok := s.(*ssa.Call); ok {
								if cs := sc.Call.StaticCallee(); cs != nil {
									if _, isSort := sortSpecOf(cs); isSort {
										sortCall = sc
									}
								}
							}
						})
						if sortCall != nil {
							all := true
							core.EachInstr(g, func(s ssa.Instruction) {
								if ret, ok := s.(*ssa.Return); ok && !core.Dominates(sortCall, ret) {
									all = false
								}
							})
							if all {
								sorted = true
								return false
							}
						}
					}
				}
				switch x := v.(type) {
				case *ssa.IndexAddr:
					base = x.X
				case *ssa.Index:
					base = x.X
				}
				if base != nil {
					core.EachInstr(fn, func(s ssa.Instruction) {
						sc, ok := s.(*ssa.Call)
						if !ok {
							return
						}
						if cs := sc.Call.StaticCallee(); cs != nil {
							if spec, isSort := sortSpecOf(cs); isSort && p.SameExpr(core.Strip(sc.Call.Args[spec.slice]), base) && core.Dominates(sc, call) {
								sorted = true
							}
						}
					})
				}
				return !sorted
			}}
			for _, a := range call.Call.Args[2:] {
				w.Origin(a)
			}
			if sorted {
				c.Ob(rule, key, call.Pos(), core.FuncName(fn), core.Discharged, "batches are handed over sequentially from a slice that is sorted (by file path) before the first push")
			} else {
				c.Ob(rule, key, call.Pos(), core.FuncName(fn), core.Violated, "batches are pushed sequentially but not from a sorted collection: their order is the order in which the concurrent parses finished")
			}
		})
	}
	c.Floor(rule, 2)
}

// RuleKAddCommutes — the journal builder accumulates directives in a way that
// does not depend on the order in which they are added (C05: where a
// directive stands in the files does not matter). Builder.Add is analysed as
// the body of an unordered iteration over the directives (receiver = outer
// state, directive = element) with the effect classes of family A; in
// addition no error return of Add may depend on state accumulated from
// earlier calls, and no entry is ever deleted from a builder map (deletion
// makes an insert-if-absent test depend on what arrived in between).
func RuleKAddCommutes(c *core.Ctx) {
	const rule = "K-add-commutes"
	p := c.P
	add := p.Func(pkgJournal, "Builder.Add")
	builderT := p.NamedType(pkgJournal, "Builder")
	if add == nil || builderT == nil || len(add.Params) < 2 {
		c.Anchor(rule, "journal.Builder.Add")
		return
	}
	oa := newOrderAnalysis(c)
	res := oa.analyseCallee(add, []vclass{clsOuter, clsElem})
	fname := core.FuncName(add)
	key := fname + ":effects commute"
	bad := 0
	seen := map[string]bool{}
	for _, e := range res.effects {
		k2 := key + ":" + e.kind + " " + e.symbol
		if seen[k2] {
			continue
		}
		seen[k2] = true
		if reason, ok := orderExceptions[originName(e.fn)+":"+e.kind+" "+e.symbol]; ok {
			c.Ob(rule, k2, e.pos, fname, core.Discharged, "reviewed exception: "+reason)
			continue
		}
		bad++
		v := core.Violated
		if e.kind == "unknown-call" {
			v = core.Undecided
		}
		c.Ob(rule, k2, e.pos, fname, v, "directives reach the builder in file order, which must not matter: "+e.detail+" [in "+originName(e.fn)+"]")
	}
	if bad == 0 {
		c.Ob(rule, key, add.Pos(), fname, core.Discharged, "appends to the per-kind bags, get-or-create of the day, running minimum and maximum: all order-free")
	}
	// functions of the builder reachable from Add
	reach := p.ReachLexical(add)
	isBuilderField := func(fv *types.Var) bool {
		st, ok := builderT.Underlying().(*types.Struct)
		if !ok || fv == nil {
			return false
		}
		for i := 0; i < st.NumFields(); i++ {
			if st.Field(i) == fv {
				return true
			}
		}
		return false
	}
	// (a) no error depends on accumulated state
	nret := 0
	for fn := range reach {
		if core.PkgPathOf(fn) != pkgJournal {
			continue
		}
		for _, b := range fn.Blocks {
			ret, ok := b.Instrs[len(b.Instrs)-1].(*ssa.Return)
			if !ok {
				continue
			}
			isErr := false
			for _, rv := range ret.Results {
				if core.IsErrorType(rv.Type()) && !core.IsNilConst(rv) {
					isErr = true
				}
			}
			if !isErr {
				continue
			}
			nret++
			k := fmt.Sprintf("%s:error return %d does not depend on earlier directives", core.FuncName(fn), successReturnIndex(fn, b))
			why := ""
			for _, cb := range fn.Blocks {
				iff, ok := cb.Instrs[len(cb.Instrs)-1].(*ssa.If)
				if !ok {
					continue
				}
				if ctl, _ := core.Controls(cb, b); !ctl {
					continue
				}
				for v := range originSet(p, iff.Cond, 1) {
					if fa, ok := v.(*ssa.FieldAddr); ok && isBuilderField(core.FieldOf(fa)) {
						why = "the condition " + describeValue(p, iff.Cond) + " reads " + p.FieldRef(core.FieldOf(fa))
					}
				}
			}
			if why == "" {
				c.Ob(rule, k, ret.Pos(), core.FuncName(fn), core.Discharged, "controlled only by the directive itself")
			} else {
				c.Ob(rule, k, ret.Pos(), core.FuncName(fn), core.Violated, "a directive is rejected depending on which directives were added before it ("+why+"): the same journal is accepted or rejected depending on the layout of its files")
			}
		}
	}
	// (b) nothing is deleted from the builder's maps
	for _, fn := range p.SrcFuncs() {
		if !p.InModule(fn) {
			continue
		}
		core.EachInstr(fn, func(ins ssa.Instruction) {
			call, ok := ins.(ssa.CallInstruction)
			if !ok {
				return
			}
			b, ok := call.Common().Value.(*ssa.Builtin)
			if !ok || b.Name() != "delete" {
				return
			}
			if f, _ := containerRoot(call.Common().Args[0]); isBuilderField(f) {
				c.Ob(rule, core.FuncName(fn)+":delete from "+p.FieldRef(f), ins.Pos(), core.FuncName(fn), core.Violated, "an entry is deleted from a map of the journal builder: what a later directive finds there depends on what arrived in between")
			}
		})
	}
	c.Floor(rule, 2)
}
