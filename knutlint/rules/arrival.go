package rules

import (
	"fmt"
	"go/types"

	"golang.org/x/tools/go/ssa"

	"knutlint/core"
)

// spawnedClosure reports whether fn (a closure) or one of its enclosing
// closures is started concurrently: it is the operand of a `go` statement or
// an argument of a call to a method named Go (conc pools, errgroup).
func spawnedClosure(fn *ssa.Function) (bool, string) {
	for f := fn; f != nil && f.Parent() != nil; f = f.Parent() {
		parent := f.Parent()
		spawned := ""
		core.EachInstr(parent, func(ins ssa.Instruction) {
			mc, ok := ins.(*ssa.MakeClosure)
			if !ok || mc.Fn != f || mc.Referrers() == nil {
				return
			}
			for _, r := range *mc.Referrers() {
				switch x := r.(type) {
				case *ssa.Go:
					spawned = "go statement in " + core.FuncName(parent)
				case ssa.CallInstruction:
					if callee := x.Common().StaticCallee(); callee != nil && callee.Name() == "Go" {
						spawned = callee.String() + " in " + core.FuncName(parent)
					}
				}
			}
		})
		if spawned != "" {
			return true, spawned
		}
	}
	return false, ""
}

// RuleAArrival — the order in which the directives of the files reach the
// journal builder must not depend on goroutine scheduling: in the stage that
// feeds the builder, every push of a batch of directives is sequential code of
// the producer (not inside a goroutine spawned per file) and hands over the
// elements of a slice that was sorted before. DESIGN.md section 2.A (U3).
func RuleAArrival(c *core.Ctx) {
	const rule = "A-arrival"
	p := c.P
	pushFn := p.Func(pkgCpr, "Push")
	addFn := p.Func(pkgJournal, "Builder.Add")
	fromModel := p.Func(pkgJournal, "FromModelStream")
	if pushFn == nil || addFn == nil || fromModel == nil {
		c.Anchor(rule, "cpr.Push / journal.Builder.Add / journal.FromModelStream")
		return
	}
	// 1. the consumer: Builder.Add is called sequentially on the batch
	for _, fn := range core.WithAnon(fromModel) {
		core.EachInstr(fn, func(ins ssa.Instruction) {
			call, ok := ins.(ssa.CallInstruction)
			if !ok || call.Common().StaticCallee() != addFn {
				return
			}
			if sp, how := spawnedClosure(fn); sp {
				c.Ob(rule, "consumer:"+core.FuncName(fn), ins.Pos(), core.FuncName(fn), core.Violated, "Builder.Add is called from a concurrently started closure ("+how+")")
			} else {
				c.Ob(rule, "consumer:"+core.FuncName(fn), ins.Pos(), core.FuncName(fn), core.Discharged, "the builder adds the directives of each batch sequentially, in channel order")
			}
		})
	}
	// 2. the producers: pushes of []model.Directive
	n := 0
	for _, fn := range p.SrcFuncs() {
		core.EachInstr(fn, func(ins ssa.Instruction) {
			call, ok := ins.(*ssa.Call)
			if !ok {
				return
			}
			callee := call.Call.StaticCallee()
			if callee == nil || (callee != pushFn && callee.Origin() != pushFn) {
				return
			}
			// element type of the channel
			ch, ok := call.Call.Args[1].Type().Underlying().(*types.Chan)
			if !ok {
				return
			}
			sl, ok := ch.Elem().Underlying().(*types.Slice)
			if !ok || types.TypeString(sl.Elem(), nil) != pkgModel+".Directive" {
				return
			}
			n++
			key := fmt.Sprintf("producer:%s:Push of []Directive", core.FuncName(fn))
			if sp, how := spawnedClosure(fn); sp {
				c.Ob(rule, key, call.Pos(), core.FuncName(fn), core.Violated,
					"a file's directives are pushed to the journal builder from a goroutine started per file ("+how+"): batches arrive in scheduling order, and the order of same-day directives of different files (which knut print emits as they arrived, and in which same-day prices overwrite each other) differs from run to run")
				return
			}
			// the pushed values must be elements of a slice sorted before
			sorted := false
			w := &core.Walker{P: p, Visit: func(v ssa.Value) bool {
				var base ssa.Value
				switch x := v.(type) {
				case *ssa.IndexAddr:
					base = x.X
				case *ssa.Index:
					base = x.X
				}
				if base != nil {
					core.EachInstr(fn, func(s ssa.Instruction) {
						sc, ok := s.(*ssa.Call)
						if !ok {
							return
						}
						if cs := sc.Call.StaticCallee(); cs != nil {
							if spec, isSort := sortSpecOf(cs); isSort && p.SameExpr(core.Strip(sc.Call.Args[spec.slice]), base) && core.Dominates(sc, call) {
								sorted = true
							}
						}
					})
				}
				return !sorted
			}}
			for _, a := range call.Call.Args[2:] {
				w.Origin(a)
			}
			if sorted {
				c.Ob(rule, key, call.Pos(), core.FuncName(fn), core.Discharged, "batches are handed over sequentially from a slice that is sorted (by file path) before the first push")
			} else {
				c.Ob(rule, key, call.Pos(), core.FuncName(fn), core.Violated, "batches are pushed sequentially but not from a sorted collection: their order is the order in which the concurrent parses finished")
			}
		})
	}
	c.Floor(rule, 2)
}
