package rules

import (
	"fmt"
	"go/constant"
	"go/types"
	"strings"

	"golang.org/x/tools/go/ssa"

	"knutlint/core"
)

// RuleKKVKeys — the writer's and the reader's keys agree. Importers read the
// key/value header of a statement into a map[string]string and look values up
// under constant keys. Where the keys are stored through a chain of pure
// string functions of the input (TrimSpace, TrimSuffix(":"), ToLower, …), a
// constant used for a lookup can only ever be found if it is a fixed point of
// that chain: the chain is evaluated on the constant (constant folding of
// strings functions), and f(c) = c is demanded for at least one store site of
// the package. A chain that contains a function this rule does not evaluate
// decides nothing.
func RuleKKVKeys(c *core.Ctx) {
	const rule = "K-kv-keys"
	p := c.P
	type chain []*ssa.Call // outermost first
	isStringMap := func(t types.Type) bool {
		m, ok := t.Underlying().(*types.Map)
		if !ok {
			return false
		}
		kb, ok1 := m.Key().Underlying().(*types.Basic)
		return ok1 && kb.Kind() == types.String
	}
	// evaluate one strings function on a constant receiver string
	apply := func(call *ssa.Call, s string) (string, bool) {
		callee := call.Call.StaticCallee()
		if callee == nil || callee.Pkg == nil || callee.Pkg.Pkg.Path() != "strings" {
			return "", false
		}
		arg := func(i int) (string, bool) {
			if i >= len(call.Call.Args) {
				return "", false
			}
			if cst, ok := call.Call.Args[i].(*ssa.Const); ok && cst.Value != nil && cst.Value.Kind() == constant.String {
				return constant.StringVal(cst.Value), true
			}
			return "", false
		}
		switch callee.Name() {
		case "TrimSpace":
			return strings.TrimSpace(s), true
		case "ToLower":
			return strings.ToLower(s), true
		case "ToUpper":
			return strings.ToUpper(s), true
		case "TrimSuffix":
			if a, ok := arg(1); ok {
				return strings.TrimSuffix(s, a), true
			}
		case "TrimPrefix":
			if a, ok := arg(1); ok {
				return strings.TrimPrefix(s, a), true
			}
		case "Trim":
			if a, ok := arg(1); ok {
				return strings.Trim(s, a), true
			}
		case "TrimLeft":
			if a, ok := arg(1); ok {
				return strings.TrimLeft(s, a), true
			}
		case "TrimRight":
			if a, ok := arg(1); ok {
				return strings.TrimRight(s, a), true
			}
		case "ReplaceAll":
			a, ok1 := arg(1)
			b, ok2 := arg(2)
			if ok1 && ok2 {
				return strings.ReplaceAll(s, a, b), true
			}
		}
		return "", false
	}
	byPkg := map[string][]*ssa.Function{}
	for _, fn := range p.SrcFuncs() {
		pkg := core.PkgPathOf(fn)
		if strings.HasPrefix(pkg, pkgImporter+"/") {
			byPkg[pkg] = append(byPkg[pkg], fn)
		}
	}
	n := 0
	for pkg, fns := range byPkg {
		short := strings.TrimPrefix(pkg, pkgImporter+"/")
		// store sites: identity (the raw input) or a chain of strings functions
		var chains []chain
		identity := false
		unknown := false
		var lookups []*ssa.Lookup
		for _, fn := range fns {
			core.EachInstr(fn, func(ins ssa.Instruction) {
				switch x := ins.(type) {
				case *ssa.MapUpdate:
					if !isStringMap(x.Map.Type()) {
						return
					}
					if _, isConst := x.Key.(*ssa.Const); isConst {
						return
					}
					var ch chain
					v := x.Key
					for {
						call, ok := v.(*ssa.Call)
						if !ok {
							break
						}
						callee := call.Call.StaticCallee()
						if callee == nil || callee.Pkg == nil || callee.Pkg.Pkg.Path() != "strings" || len(call.Call.Args) == 0 {
							unknown = true
							return
						}
						ch = append(ch, call)
						v = call.Call.Args[0]
					}
					if len(ch) == 0 {
						identity = true
					} else {
						chains = append(chains, ch)
					}
				case *ssa.Lookup:
					if isStringMap(x.X.Type()) {
						if cst, ok := x.Index.(*ssa.Const); ok && cst.Value != nil && cst.Value.Kind() == constant.String {
							lookups = append(lookups, x)
						}
					}
				}
			})
		}
		if len(lookups) == 0 || (len(chains) == 0 && !identity) {
			continue
		}
		for _, lk := range lookups {
			key := constant.StringVal(lk.Index.(*ssa.Const).Value)
			n++
			okey := fmt.Sprintf("importer %s:lookup of %q can find a stored key", short, key)
			switch {
			case identity || unknown:
				c.Ob(rule, okey, lk.Pos(), core.FuncName(lk.Parent()), core.Discharged, "keys are stored as they are read (or through a function this rule does not evaluate)")
			default:
				found, decided := false, true
				got := ""
				for _, ch := range chains {
					s := key
					ok := true
					for i := len(ch) - 1; i >= 0; i-- {
						var r bool
						s, r = apply(ch[i], s)
						if !r {
							ok = false
							break
						}
					}
					if !ok {
						decided = false
						continue
					}
					got = s
					if s == key {
						found = true
					}
				}
				switch {
				case found || !decided:
					c.Ob(rule, okey, lk.Pos(), core.FuncName(lk.Parent()), core.Discharged, "the key is a fixed point of the normalisation applied to stored keys")
				default:
					c.Ob(rule, okey, lk.Pos(), core.FuncName(lk.Parent()), core.Violated, fmt.Sprintf("keys are stored after normalisation, under which %q becomes %q: a lookup of %q never finds anything, and the importer silently falls back to its default", key, got, key))
				}
			}
		}
	}
	if n == 0 {
		c.Ob(rule, "importers:constant lookups in string-keyed maps", 0, "", core.Discharged, "no importer looks a constant key up in a map it fills from the input")
	}
	c.Floor(rule, 1)
}
