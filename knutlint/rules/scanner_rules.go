package rules

import (
	"fmt"
	"go/token"
	"go/types"
	"strings"

	"golang.org/x/tools/go/ssa"

	"knutlint/core"
)

// RuleCOffset — the scanner position: Scanner.offset is written only by
// Advance (offset += currentLen) and Backtrack; after each such write the
// current rune is re-decoded from text[offset:] (or set to EOF with length 0)
// on every path; Backtrack is called only with the start of a scope.
func RuleCOffset(c *core.Ctx) {
	const rule = "C-offset"
	p := c.P
	offsetF := p.Field(pkgScanner, "Scanner", "offset")
	curF := p.Field(pkgScanner, "Scanner", "current")
	lenF := p.Field(pkgScanner, "Scanner", "currentLen")
	textF := p.Field(pkgScanner, "Scanner", "text")
	adv := p.Func(pkgScanner, "Scanner.Advance")
	back := p.Func(pkgScanner, "Scanner.Backtrack")
	startF := p.Field(pkgScanner, "Scope", "Start")
	if offsetF == nil || curF == nil || lenF == nil || textF == nil || adv == nil || back == nil || startF == nil {
		c.Anchor(rule, "scanner.Scanner.{offset,current,currentLen,text,Advance,Backtrack} / Scope.Start")
		return
	}
	for _, fn := range p.SrcFuncs() {
		core.EachInstr(fn, func(ins ssa.Instruction) {
			st, ok := ins.(*ssa.Store)
			if !ok {
				return
			}
			fa, ok := st.Addr.(*ssa.FieldAddr)
			if !ok || core.FieldOf(fa) != offsetF {
				return
			}
			key := core.FuncName(fn) + ":store to Scanner.offset"
			if fn != adv && fn != back {
				c.Ob(rule, key, st.Pos(), core.FuncName(fn), core.Violated, "the scanner position is written outside Advance and Backtrack: ranges computed from it are no longer tied to consumed input")
				return
			}
			var problems []string
			if fn == adv {
				bo, ok := st.Val.(*ssa.BinOp)
				isLoad := func(v ssa.Value, f *types.Var) bool {
					ld, ok := v.(*ssa.UnOp)
					if !ok {
						return false
					}
					a, ok := ld.X.(*ssa.FieldAddr)
					return ok && core.FieldOf(a) == f
				}
				if !ok || bo.Op != token.ADD || !((isLoad(bo.X, offsetF) && isLoad(bo.Y, lenF)) || (isLoad(bo.Y, offsetF) && isLoad(bo.X, lenF))) {
					problems = append(problems, "Advance does not move the position by exactly the length of the current rune")
				}
			}
			// every return reachable from the store passes stores to current and currentLen with decoded or EOF values
			for _, f := range []*types.Var{curF, lenF} {
				isGood := func(i2 ssa.Instruction) bool {
					s2, ok := i2.(*ssa.Store)
					if !ok {
						return false
					}
					a, ok := s2.Addr.(*ssa.FieldAddr)
					if !ok || core.FieldOf(a) != f {
						return false
					}
					if n, isC := core.ConstInt(s2.Val); isC {
						return (f == lenF && n == 0) || (f == curF && n == -1)
					}
					ex, ok := s2.Val.(*ssa.Extract)
					if !ok {
						return false
					}
					call, ok := ex.Tuple.(*ssa.Call)
					if !ok || call.Call.StaticCallee() == nil || call.Call.StaticCallee().String() != "unicode/utf8.DecodeRuneInString" {
						return false
					}
					// argument: text[offset:]
					sl, ok := call.Call.Args[0].(*ssa.Slice)
					if !ok || sl.High != nil {
						return false
					}
					okText, okLow := false, false
					for v := range originSet(p, sl.X, 0) {
						if a, ok := v.(*ssa.FieldAddr); ok && core.FieldOf(a) == textF {
							okText = true
						}
					}
					for v := range originSet(p, sl.Low, 0) {
						if a, ok := v.(*ssa.FieldAddr); ok && core.FieldOf(a) == offsetF {
							okLow = true
						}
					}
					return okText && okLow
				}
				// reachable returns from the store without passing a good store
				good := map[*ssa.BasicBlock]bool{}
				for _, b := range fn.Blocks {
					for _, i2 := range b.Instrs {
						if isGood(i2) {
							good[b] = true
						}
					}
				}
				if good[st.Block()] {
					// same block: must come after the store
					okAfter := false
					for _, i2 := range st.Block().Instrs[core.InstrIndex(st)+1:] {
						if isGood(i2) {
							okAfter = true
						}
					}
					if okAfter {
						continue
					}
				}
				reach := core.ReachableBlocks(st.Block(), good)
				for b := range reach {
					if _, isRet := b.Instrs[len(b.Instrs)-1].(*ssa.Return); isRet && !good[b] {
						problems = append(problems, "after the position changes, Scanner."+f.Name()+" is not re-decoded from text[offset:] (or set to the EOF values) on every path")
					}
				}
			}
			if len(problems) == 0 {
				c.Ob(rule, key, st.Pos(), core.FuncName(fn), core.Discharged, "position change followed by a re-decode of the current rune on every path")
			} else {
				c.Ob(rule, key, st.Pos(), core.FuncName(fn), core.Violated, strings.Join(uniq(problems), "; "))
			}
		})
		// callers of Backtrack
		core.EachInstr(fn, func(ins ssa.Instruction) {
			call, ok := ins.(*ssa.Call)
			if !ok || call.Call.StaticCallee() != back {
				return
			}
			key := core.FuncName(fn) + ":argument of Backtrack"
			isStart := false
			switch x := core.Strip(call.Call.Args[1]).(type) {
			case *ssa.UnOp:
				if fa, ok := x.X.(*ssa.FieldAddr); ok && core.FieldOf(fa) == startF {
					isStart = true
				}
			case *ssa.Field:
				isStart = core.FieldOf(x) == startF
			}
			if isStart {
				c.Ob(rule, key, call.Pos(), core.FuncName(fn), core.Discharged, "backtracks to the start of a scope opened by this very call")
			} else {
				c.Ob(rule, key, call.Pos(), core.FuncName(fn), core.Violated, "Backtrack is called with something other than a Scope.Start: the position can move outside the text or before consumed input of an enclosing scope")
			}
		})
	}
	c.Floor(rule, 3)
}

// RuleCRange — ranges are made by the scanner: the Start/End of a
// directives.Range are written only in Scope.Range, Scanner.Advance (error
// positions), Range.Extend and bayes.inferAccount (the synthetic account);
// whole ranges are only copied.
func RuleCRange(c *core.Ctx) {
	const rule = "C-range"
	p := c.P
	startF := p.Field(pkgDirectives, "Range", "Start")
	endF := p.Field(pkgDirectives, "Range", "End")
	if startF == nil || endF == nil {
		c.Anchor(rule, "directives.Range.Start/End")
		return
	}
	offsetF := p.Field(pkgScanner, "Scanner", "offset")
	scopeStart := p.Field(pkgScanner, "Scope", "Start")
	// a bound is a position if it is, through phis only, one of: the scanner's
	// offset, a scope's start, a bound of an existing range, the constant 0, or
	// the length of a text — never arithmetic on those
	var isPosition func(v ssa.Value, seen map[ssa.Value]bool) (bool, string)
	isPosition = func(v ssa.Value, seen map[ssa.Value]bool) (bool, string) {
		v = core.Strip(v)
		if seen[v] {
			return true, ""
		}
		seen[v] = true
		switch x := v.(type) {
		case *ssa.Const:
			if k, ok := core.ConstInt(x); ok && k == 0 {
				return true, ""
			}
			return false, "the constant " + x.String()
		case *ssa.UnOp:
			if x.Op == token.MUL {
				if fa, ok := x.X.(*ssa.FieldAddr); ok {
					switch core.FieldOf(fa) {
					case offsetF, scopeStart, startF, endF:
						return true, ""
					}
				}
				if al, ok := x.X.(*ssa.Alloc); ok {
					for _, st := range core.AllStoresToCell(al) {
						if ok, why := isPosition(st.Val, seen); !ok {
							return false, why
						}
					}
					return true, ""
				}
			}
		case *ssa.Field:
			switch core.FieldOf(x) {
			case startF, endF, scopeStart:
				return true, ""
			}
		case *ssa.Phi:
			for _, e := range x.Edges {
				if ok, why := isPosition(e, seen); !ok {
					return false, why
				}
			}
			return true, ""
		case *ssa.Call:
			if b, ok := x.Call.Value.(*ssa.Builtin); ok && b.Name() == "len" {
				if bt, ok := x.Call.Args[0].Type().Underlying().(*types.Basic); ok && bt.Kind() == types.String {
					return true, ""
				}
			}
			if callee := x.Call.StaticCallee(); callee != nil && callee.Blocks != nil && p.InModule(callee) && callee.Signature.Results().Len() == 1 && len(seen) < 50 {
				// a getter: judged by what it returns
				all, why := true, ""
				core.EachInstr(callee, func(ins ssa.Instruction) {
					if ret, ok := ins.(*ssa.Return); ok && all {
						if ok2, w := isPosition(ret.Results[0], seen); !ok2 {
							all, why = false, w
						}
					}
				})
				if all {
					return true, ""
				}
				return false, why
			}
			if b, ok := x.Call.Value.(*ssa.Builtin); ok && (b.Name() == "min" || b.Name() == "max") {
				for _, a := range x.Call.Args {
					if ok, why := isPosition(a, seen); !ok {
						return false, why
					}
				}
				return true, ""
			}
		}
		return false, describeValue(p, v)
	}
	n := 0
	for _, fn := range p.SrcFuncs() {
		if !p.InModule(fn) {
			continue
		}
		core.EachInstr(fn, func(ins ssa.Instruction) {
			st, ok := ins.(*ssa.Store)
			if !ok {
				return
			}
			fa, ok := st.Addr.(*ssa.FieldAddr)
			if !ok {
				return
			}
			fv := core.FieldOf(fa)
			if fv != startF && fv != endF {
				return
			}
			n++
			name := core.FuncName(fn)
			key := name + ":store to Range." + fv.Name()
			if ok, why := isPosition(st.Val, map[ssa.Value]bool{}); ok {
				c.Ob(rule, key, st.Pos(), name, core.Discharged, "the bound is a scanner position, a scope start, a bound of an existing range, 0 or the length of a text (no arithmetic)")
			} else {
				c.Ob(rule, key, st.Pos(), name, core.Violated, "a range bound is computed ("+why+") instead of being taken from the scanner's position or an existing range: the range need not lie within the text, within its parent, or cover what was consumed")
			}
		})
	}
	c.Floor(rule, 4)
}

// RuleCIndex — index safety of the text accesses in scanner and directives:
// every slice or index of Scanner.text / Range.Text has bounds of the
// reviewed forms, which the scanner invariant 0 <= Start <= End <= offset <=
// len(text) (rules C-offset, C-range) keeps in range, or is dominated by an
// explicit comparison with the length.
func RuleCIndex(c *core.Ctx) {
	const rule = "C-index"
	p := c.P
	textS := p.Field(pkgScanner, "Scanner", "text")
	textR := p.Field(pkgDirectives, "Range", "Text")
	offsetF := p.Field(pkgScanner, "Scanner", "offset")
	startF := p.Field(pkgDirectives, "Range", "Start")
	endF := p.Field(pkgDirectives, "Range", "End")
	if textS == nil || textR == nil || offsetF == nil || startF == nil || endF == nil {
		c.Anchor(rule, "Scanner.text / Range.Text / offset / Start / End")
		return
	}
	isText := func(v ssa.Value) bool {
		switch x := core.Strip(v).(type) {
		case *ssa.UnOp:
			if fa, ok := x.X.(*ssa.FieldAddr); ok {
				return core.FieldOf(fa) == textS || core.FieldOf(fa) == textR
			}
		case *ssa.Field:
			return core.FieldOf(x) == textS || core.FieldOf(x) == textR
		}
		return false
	}
	fieldLoad := func(v ssa.Value, fs ...*types.Var) bool {
		if v == nil {
			return false
		}
		var fv *types.Var
		switch x := core.Strip(v).(type) {
		case *ssa.UnOp:
			if fa, ok := x.X.(*ssa.FieldAddr); ok {
				fv = core.FieldOf(fa)
			}
		case *ssa.Field:
			fv = core.FieldOf(x)
		}
		for _, f := range fs {
			if fv == f {
				return true
			}
		}
		return false
	}
	n := 0
	for _, fn := range p.SrcFuncs() {
		pkg := core.PkgPathOf(fn)
		if pkg != pkgScanner && pkg != pkgDirectives && pkg != pkgParser {
			continue
		}
		core.EachInstr(fn, func(ins ssa.Instruction) {
			switch x := ins.(type) {
			case *ssa.Slice:
				if !isText(x.X) {
					return
				}
				n++
				key := fmt.Sprintf("%s:slice of text [%s:%s]", core.FuncName(fn), boundDesc(p, x.Low), boundDesc(p, x.High))
				lowOK := x.Low == nil || fieldLoad(x.Low, offsetF, startF) || isLineBound(p, x.Low, "firstOfLine")
				highOK := x.High == nil || fieldLoad(x.High, endF) || isLineBound(p, x.High, "lastOfLine")
				if !highOK && x.High != nil {
					// guarded by High <= len(text)?
					highOK = guardedByLen(p, x, x.High)
				}
				if lowOK && highOK {
					c.Ob(rule, key, core.NearPos(x), core.FuncName(fn), core.Discharged, "bounds are the scanner position / a range's own Start and End / line boundaries found by bounded scans")
				} else {
					c.Ob(rule, key, core.NearPos(x), core.FuncName(fn), core.Violated, "a slice of the input text has a bound that is neither a scanner position, a range bound, nor checked against the length of the text: on some input (e.g. near the end of the file) it is out of range and the parser panics")
				}
			case *ssa.Index:
				// string index text[i]
				if !isText(x.X) {
					return
				}
				n++
				key := fmt.Sprintf("%s:index of text [%s]", core.FuncName(fn), boundDesc(p, x.Index))
				if indexGuarded(p, x, x.Index) {
					c.Ob(rule, key, core.NearPos(x), core.FuncName(fn), core.Discharged, "the index is compared with 0 / the length of the text by a dominating loop condition")
				} else {
					c.Ob(rule, key, core.NearPos(x), core.FuncName(fn), core.Violated, "an index into the input text is not dominated by a comparison with the text's bounds")
				}
			}
		})
	}
	c.Floor(rule, 4)
}

func boundDesc(p *core.Prog, v ssa.Value) string {
	if v == nil {
		return ""
	}
	return describeValue(p, v)
}

func isLineBound(p *core.Prog, v ssa.Value, name string) bool {
	for x := range originSet(p, v, 0) {
		if call, ok := x.(*ssa.Call); ok && call.Call.StaticCallee() != nil && call.Call.StaticCallee().Name() == name {
			return true
		}
	}
	return false
}

// guardedByLen: a dominating test `v <= len(text)` / `v < len(text)`.
func guardedByLen(p *core.Prog, at ssa.Instruction, v ssa.Value) bool {
	fn := at.Parent()
	for _, b := range fn.Blocks {
		iff, ok := b.Instrs[len(b.Instrs)-1].(*ssa.If)
		if !ok {
			continue
		}
		bo, ok := iff.Cond.(*ssa.BinOp)
		if !ok {
			continue
		}
		isLen := func(x ssa.Value) bool {
			call, ok := x.(*ssa.Call)
			if !ok {
				return false
			}
			bi, ok := call.Call.Value.(*ssa.Builtin)
			return ok && bi.Name() == "len"
		}
		var safe *ssa.BasicBlock
		switch {
		case (bo.Op == token.LEQ || bo.Op == token.LSS) && p.SameExpr(bo.X, v) && isLen(bo.Y):
			safe = b.Succs[0]
		case (bo.Op == token.GTR || bo.Op == token.GEQ) && p.SameExpr(bo.X, v) && isLen(bo.Y):
			safe = b.Succs[1]
		case (bo.Op == token.GEQ || bo.Op == token.GTR) && isLen(bo.X) && p.SameExpr(bo.Y, v):
			safe = b.Succs[0]
		}
		if safe != nil && core.EdgeDominates(b, safe, at.Block()) {
			return true
		}
	}
	return false
}

// indexGuarded: text[i] with a dominating `i < len(text)`, or text[i-1] with
// a dominating `i > 0`.
func indexGuarded(p *core.Prog, at ssa.Instruction, idx ssa.Value) bool {
	fn := at.Parent()
	base, minus := idx, false
	if bo, ok := idx.(*ssa.BinOp); ok && bo.Op == token.SUB {
		if k, ok := core.ConstInt(bo.Y); ok && k == 1 {
			base, minus = bo.X, true
		}
	}
	for _, b := range fn.Blocks {
		iff, ok := b.Instrs[len(b.Instrs)-1].(*ssa.If)
		if !ok {
			continue
		}
		bo, ok := iff.Cond.(*ssa.BinOp)
		if !ok || bo.X != base {
			continue
		}
		okShape := false
		if minus {
			k, isC := core.ConstInt(bo.Y)
			okShape = bo.Op == token.GTR && isC && k == 0
		} else {
			if call, isCall := bo.Y.(*ssa.Call); isCall {
				if bi, isB := call.Call.Value.(*ssa.Builtin); isB && bi.Name() == "len" && bo.Op == token.LSS {
					okShape = true
				}
			}
		}
		if okShape && (b.Succs[0] == at.Block() || b.Succs[0].Dominates(at.Block()) || b == at.Block()) {
			return true
		}
		// short-circuit: `pos > 0 && text[pos-1] != '\n'` evaluates the index in the block entered on the true edge
		if okShape && core.EdgeDominates(b, b.Succs[0], at.Block()) {
			return true
		}
	}
	return false
}

// RuleKTextIdentity — the ranges index the caller's text: the text handed to
// parser.New reaches Scanner.text unchanged.
func RuleKTextIdentity(c *core.Ctx) {
	const rule = "K-text-identity"
	p := c.P
	textS := p.Field(pkgScanner, "Scanner", "text")
	pnew := p.Func(pkgParser, "New")
	snew := p.Func(pkgScanner, "New")
	if textS == nil || pnew == nil || snew == nil {
		c.Anchor(rule, "Scanner.text / parser.New / scanner.New")
		return
	}
	// stores to Scanner.text: only in scanner.New, value = its text parameter
	for _, fn := range p.SrcFuncs() {
		core.EachInstr(fn, func(ins ssa.Instruction) {
			st, ok := ins.(*ssa.Store)
			if !ok {
				return
			}
			fa, ok := st.Addr.(*ssa.FieldAddr)
			if !ok || core.FieldOf(fa) != textS {
				return
			}
			key := core.FuncName(fn) + ":store to Scanner.text"
			if prm, ok := st.Val.(*ssa.Parameter); ok && fn == snew && prm == snew.Params[0] {
				c.Ob(rule, key, st.Pos(), core.FuncName(fn), core.Discharged, "the scanner keeps the text it was given")
			} else {
				c.Ob(rule, key, st.Pos(), core.FuncName(fn), core.Violated, "the scanner's text is not the text parameter of scanner.New unchanged")
			}
		})
	}
	// parser.New passes its text parameter straight to scanner.New
	found := false
	core.EachInstr(pnew, func(ins ssa.Instruction) {
		call, ok := ins.(*ssa.Call)
		if !ok || call.Call.StaticCallee() != snew {
			return
		}
		found = true
		key := core.FuncName(pnew) + ":text handed to the scanner"
		if prm, ok := call.Call.Args[0].(*ssa.Parameter); ok && prm == pnew.Params[0] {
			c.Ob(rule, key, call.Pos(), core.FuncName(pnew), core.Discharged, "parser.New hands its text parameter to scanner.New unchanged")
		} else {
			c.Ob(rule, key, call.Pos(), core.FuncName(pnew), core.Violated, "parser.New transforms the text before scanning ("+describeValue(p, call.Call.Args[0])+"): every range then indexes a copy, not the caller's input — offsets, gaps and error positions no longer match the file")
		}
	})
	if !found {
		c.Ob(rule, core.FuncName(pnew)+":text handed to the scanner", pnew.Pos(), core.FuncName(pnew), core.Undecided, "parser.New does not call scanner.New")
	}
	c.Floor(rule, 2)
}

// RuleKScopeFirst — the scope from which a parse function takes its node's
// range is opened before the function consumes anything. A parse function's
// *top scope* is the Scope variable that is assigned, in the entry block and
// before any consuming call, the result of Scanner.Scope(); every value ever
// assigned to that variable must be such a scope: the result of a Scope()
// call that no consuming call of the function can reach. A top scope
// re-assigned later (for instance to a scope opened after the annotations
// were read) leaves consumed text outside every node: the tree no longer
// covers the text, and the gaps between directives are no longer blank.
func RuleKScopeFirst(c *core.Ctx) {
	const rule = "K-scope-first"
	p := c.P
	pr := progressOf(c)
	scopeFn := p.Func(pkgScanner, "Scanner.Scope")
	scopeT := p.NamedType(pkgScanner, "Scope")
	if scopeFn == nil || scopeT == nil || pr.advance == nil {
		c.Anchor(rule, "scanner.Scanner.Scope / scanner.Scope")
		return
	}
	isScopeCall := func(v ssa.Value) *ssa.Call {
		call, ok := v.(*ssa.Call)
		if !ok {
			return nil
		}
		if callee := call.Call.StaticCallee(); callee != nil && (callee == scopeFn || (core.PkgPathOf(callee) == pkgParser && callee.Name() == "Scope")) {
			return call
		}
		return nil
	}
	consuming := func(ins ssa.Instruction) bool {
		call, ok := ins.(*ssa.Call)
		if !ok {
			return false
		}
		callee := call.Call.StaticCallee()
		if callee == nil {
			return false
		}
		if callee == pr.advance {
			return true
		}
		return pr.scope[callee] && pr.summary[callee] != pNone
	}
	n := 0
	for _, fn := range p.SrcFuncs() {
		if core.PkgPathOf(fn) != pkgParser || fn.Blocks == nil {
			continue
		}
		// consuming calls of fn
		var cons []ssa.Instruction
		core.EachInstr(fn, func(ins ssa.Instruction) {
			if consuming(ins) {
				cons = append(cons, ins)
			}
		})
		reachedByConsumption := func(at ssa.Instruction) ssa.Instruction {
			for _, cc := range cons {
				if cc.Block() == at.Block() {
					if core.InstrIndex(cc) < core.InstrIndex(at) {
						return cc
					}
					// a later call in the same block reaches `at` only around a loop
					for _, succ := range cc.Block().Succs {
						if core.BlockReaches(succ, at.Block(), nil) {
							return cc
						}
					}
					continue
				}
				if core.BlockReaches(cc.Block(), at.Block(), nil) {
					return cc
				}
			}
			return nil
		}
		// scope variables of the function, wherever they are declared
		var scopeAllocs []*ssa.Alloc
		core.EachInstr(fn, func(ins ssa.Instruction) {
			if al, ok := ins.(*ssa.Alloc); ok && isNamed(al.Type().Underlying().(*types.Pointer).Elem(), scopeT) {
				// a parameter spilled to a local is the caller's scope
				own := false
				for _, st := range core.StoresTo(al) {
					if _, isPrm := st.Val.(*ssa.Parameter); !isPrm {
						own = true
					}
				}
				if own {
					scopeAllocs = append(scopeAllocs, al)
				}
			}
		})
		anyTop := false
		for _, al := range scopeAllocs {
			for _, st := range core.StoresTo(al) {
				if st.Block() == fn.Blocks[0] && isScopeCall(st.Val) != nil && reachedByConsumption(isScopeCall(st.Val)) == nil {
					anyTop = true
				}
			}
		}
		if len(scopeAllocs) > 0 && !anyTop {
			// the function opens scopes, but none before it starts consuming: if one of
			// them yields a range that the function returns, text lies outside the node
			for _, al := range scopeAllocs {
				usedForRange := false
				if al.Referrers() != nil {
					for _, r := range *al.Referrers() {
						if call, ok := r.(*ssa.Call); ok {
							if callee := call.Call.StaticCallee(); callee != nil && callee.Name() == "Range" {
								usedForRange = true
							}
						}
					}
				}
				if !usedForRange {
					continue
				}
				n++
				key := fmt.Sprintf("%s:top scope %s is opened before anything is consumed", core.FuncName(fn), al.Comment)
				c.Ob(rule, key, al.Pos(), core.FuncName(fn), core.Violated, "the scope that yields this function's node range is not opened in the function's first block before every consuming call: text consumed before it lies outside the node, the tree does not cover the text")
			}
		}
		for _, ins := range fn.Blocks[0].Instrs {
			al, ok := ins.(*ssa.Alloc)
			if !ok || !isNamed(al.Type().Underlying().(*types.Pointer).Elem(), scopeT) {
				continue
			}
			stores := core.StoresTo(al)
			// top scope: a store in the entry block of a Scope() result, before any consuming call
			top := false
			for _, st := range stores {
				if st.Block() == fn.Blocks[0] && isScopeCall(st.Val) != nil && reachedByConsumption(isScopeCall(st.Val)) == nil {
					top = true
				}
			}
			if !top {
				continue
			}
			n++
			key := fmt.Sprintf("%s:top scope %s is opened before anything is consumed", core.FuncName(fn), al.Comment)
			bad := ""
			var check func(v ssa.Value, depth int)
			check = func(v ssa.Value, depth int) {
				if bad != "" || depth > 4 {
					return
				}
				if call := isScopeCall(v); call != nil {
					if cc := reachedByConsumption(call); cc != nil {
						bad = fmt.Sprintf("it is assigned a scope opened at %s, after the consuming call %s", p.Pos(call.Pos()), describeValue(p, cc.(ssa.Value)))
					}
					return
				}
				switch x := v.(type) {
				case *ssa.UnOp: // copy of another scope variable
					if other, ok := x.X.(*ssa.Alloc); ok && x.Op == token.MUL {
						for _, st := range core.StoresTo(other) {
							check(st.Val, depth+1)
						}
						return
					}
				case *ssa.Phi:
					for _, e := range x.Edges {
						check(e, depth+1)
					}
					return
				case *ssa.Parameter:
					return // the caller's scope
				}
				bad = "it is assigned " + describeValue(p, v)
			}
			for _, st := range stores {
				check(st.Val, 0)
			}
			if bad == "" {
				c.Ob(rule, key, al.Pos(), core.FuncName(fn), core.Discharged, "every value assigned to it is a Scope() result that no consuming call reaches")
			} else {
				c.Ob(rule, key, al.Pos(), core.FuncName(fn), core.Violated, "the scope that yields this function's node range does not start where the function starts consuming: "+bad+"; text consumed before that lies outside the node")
			}
		}
	}
	c.Floor(rule, 10)
}

// RuleCConstIndex — no constant index or constant slice bound on a slice of
// unknown length in the parser packages: `x[k]`, `x[k:]`, `x[:k]` with a
// constant k on a slice or string panic when the operand is shorter. Every
// such access in lib/syntax/{parser,scanner,directives} is dominated by a
// test of len(x) that guarantees the needed length, or x has a constant
// length by construction (array, literal, make with a constant size). The
// accesses of the scanned text itself are the subject of C-index.
func RuleCConstIndex(c *core.Ctx) {
	const rule = "C-const-index"
	p := c.P
	inScope := map[string]bool{pkgParser: true, pkgScanner: true, pkgDirectives: true}
	lenGuard := func(at ssa.Instruction, x ssa.Value, need int64) bool {
		fn := at.Parent()
		for _, b := range fn.Blocks {
			iff, ok := b.Instrs[len(b.Instrs)-1].(*ssa.If)
			if !ok {
				continue
			}
			bo, ok := iff.Cond.(*ssa.BinOp)
			if !ok {
				continue
			}
			l, k, op := bo.X, bo.Y, bo.Op
			if _, isC := l.(*ssa.Const); isC {
				l, k = k, l
				switch op {
				case token.LSS:
					op = token.GTR
				case token.GTR:
					op = token.LSS
				case token.LEQ:
					op = token.GEQ
				case token.GEQ:
					op = token.LEQ
				}
			}
			call, ok := l.(*ssa.Call)
			if !ok {
				continue
			}
			if bi, ok := call.Call.Value.(*ssa.Builtin); !ok || bi.Name() != "len" || !p.SameExpr(call.Call.Args[0], x) {
				continue
			}
			n, ok := core.ConstInt(k)
			if !ok {
				continue
			}
			// the edge on which len(x) >= need
			var succ *ssa.BasicBlock
			switch {
			case op == token.GTR && n+1 >= need, op == token.GEQ && n >= need:
				succ = b.Succs[0]
			case op == token.NEQ && n == 0 && need <= 1:
				succ = b.Succs[0]
			case op == token.LSS && n >= need, op == token.LEQ && n+1 >= need:
				succ = b.Succs[1]
			case op == token.EQL && n == 0 && need <= 1:
				succ = b.Succs[1]
			case op == token.EQL && n >= need:
				succ = b.Succs[0]
			}
			if succ != nil && core.EdgeDominates(b, succ, at.Block()) {
				return true
			}
		}
		return false
	}
	constLen := func(x ssa.Value) (int64, bool) {
		switch y := core.Strip(x).(type) {
		case *ssa.Slice:
			if al, ok := y.X.(*ssa.Alloc); ok {
				if arr, ok := al.Type().Underlying().(*types.Pointer).Elem().Underlying().(*types.Array); ok && y.Low == nil && y.High == nil {
					return arr.Len(), true
				}
			}
		case *ssa.MakeSlice:
			if n, ok := core.ConstInt(y.Len); ok {
				return n, true
			}
		case *ssa.Const:
			if s, ok := core.ConstString(y); ok {
				return int64(len(s)), true
			}
		}
		return 0, false
	}
	n := 0
	for _, fn := range p.SrcFuncs() {
		if !inScope[core.PkgPathOf(fn)] {
			continue
		}
		core.EachInstr(fn, func(ins ssa.Instruction) {
			var x ssa.Value
			var need int64
			what := ""
			switch y := ins.(type) {
			case *ssa.Slice:
				if _, isArr := y.X.Type().Underlying().(*types.Pointer); isArr {
					return // slice of an array: bounds are checked against a constant length by the compiler
				}
				if y.Low != nil {
					if k, ok := core.ConstInt(y.Low); ok && k > 0 {
						x, need, what = y.X, k, fmt.Sprintf("x[%d:]", k)
					}
				}
				if y.High != nil {
					if k, ok := core.ConstInt(y.High); ok && k > need {
						x, need, what = y.X, k, fmt.Sprintf("x[:%d]", k)
					}
				}
			case *ssa.IndexAddr:
				if _, isArr := y.X.Type().Underlying().(*types.Pointer); isArr {
					return
				}
				if k, ok := core.ConstInt(y.Index); ok {
					x, need, what = y.X, k+1, fmt.Sprintf("x[%d]", k)
				}
			case *ssa.Index:
				if _, isArr := y.X.Type().Underlying().(*types.Array); isArr {
					return
				}
				if k, ok := core.ConstInt(y.Index); ok {
					x, need, what = y.X, k+1, fmt.Sprintf("x[%d]", k)
				}
			}
			if x == nil {
				return
			}
			n++
			key := fmt.Sprintf("%s:%s on %s", core.FuncName(fn), what, describeValue(p, x))
			if l, ok := constLen(x); ok && l >= need {
				c.Ob(rule, key, ins.Pos(), core.FuncName(fn), core.Discharged, "the operand has a constant length that suffices")
				return
			}
			if lenGuard(ins, x, need) {
				c.Ob(rule, key, ins.Pos(), core.FuncName(fn), core.Discharged, fmt.Sprintf("dominated by a test that guarantees len >= %d", need))
				return
			}
			c.Ob(rule, key, ins.Pos(), core.FuncName(fn), core.Violated, fmt.Sprintf("%s needs len >= %d and nothing guarantees it: an input for which the operand is shorter (an empty list) makes the parser panic instead of returning a syntax error", what, need))
		})
	}
	c.Ob(rule, "parser packages:constant indices and bounds", 0, "", core.Discharged, fmt.Sprintf("%d constant index / slice-bound accesses on slices or strings of unknown length examined", n))
	c.Floor(rule, 1)
}
