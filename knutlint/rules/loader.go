package rules

import (
	"fmt"
	"sort"

	"golang.org/x/tools/go/ssa"

	"knutlint/core"
)

// isPushCall: a call to cpr.Push (any instantiation).
func isPushCall(p *core.Prog, ins ssa.Instruction) *ssa.Call {
	call, ok := ins.(*ssa.Call)
	if !ok {
		return nil
	}
	callee := call.Call.StaticCallee()
	if callee == nil || core.PkgPathOf(callee) != pkgCpr || core.BaseName(callee) != "Push" {
		return nil
	}
	return call
}

// pushesOf returns the Push calls in fn that hand over value v.
func pushesOf(p *core.Prog, fn *ssa.Function, v ssa.Value) []*ssa.Call {
	var res []*ssa.Call
	core.EachInstr(fn, func(ins ssa.Instruction) {
		call := isPushCall(p, ins)
		if call == nil {
			return
		}
		for _, a := range call.Call.Args[2:] {
			if originSet(p, a, 0)[v] {
				res = append(res, call)
				return
			}
		}
	})
	return res
}

// pushOnceAfter decides: after `anchor` succeeds, value v is pushed exactly
// once on every path to a return.
func pushOnceAfter(p *core.Prog, fn *ssa.Function, anchor ssa.Instruction, v ssa.Value) (bool, string) {
	pushes := pushesOf(p, fn, v)
	if len(pushes) == 0 {
		return false, "the value is never pushed"
	}
	if len(pushes) > 1 {
		return false, fmt.Sprintf("the value is pushed at %d places (%s, %s): it would be delivered more than once", len(pushes), p.Pos(pushes[0].Pos()), p.Pos(pushes[1].Pos()))
	}
	push := pushes[0]
	if core.ReachableBlocks(push.Block(), nil)[push.Block()] {
		return false, "the push lies on a cycle: the value could be delivered more than once"
	}
	if !core.Dominates(anchor, push) {
		return false, "the push is not dominated by the producing call"
	}
	// every return reachable from the anchor that does not pass the push must be an error return
	avoid := map[*ssa.BasicBlock]bool{push.Block(): true}
	reach := core.ReachableBlocks(anchor.Block(), avoid)
	reach[anchor.Block()] = true
	delete(reach, push.Block())
	for b := range reach {
		ret, ok := b.Instrs[len(b.Instrs)-1].(*ssa.Return)
		if !ok {
			continue
		}
		if b == anchor.Block() && core.InstrIndex(ret) < core.InstrIndex(anchor) {
			continue
		}
		isErr := false
		for _, rv := range ret.Results {
			if core.IsErrorType(rv.Type()) && !core.IsNilConst(rv) {
				isErr = true
			}
		}
		if !isErr {
			return false, "the return at " + p.Pos(core.NearPos(ret)) + " reports success without the value having been pushed: the value is lost"
		}
		// the error must be the anchor's own error (dominated by err != nil): accept any non-nil error value
	}
	return true, ""
}

// RuleDPushOnce — nothing is lost or duplicated between the stages: every
// parsed file is pushed exactly once by the goroutine that parsed it, and
// every stage of cpr.Seq pushes each item exactly once after its function
// succeeded.
func RuleDPushOnce(c *core.Ctx) {
	const rule = "D-push-once"
	p := c.P
	seq := p.Func(pkgCpr, "Seq")
	li := loaderCycle(c)
	if len(li.readers) == 0 || seq == nil {
		c.Anchor(rule, "the recursive file loader of lib/syntax / cpr.Seq")
		return
	}
	isReader := map[*ssa.Function]bool{}
	for _, r := range li.readers {
		isReader[r] = true
	}
	n := 0
	for _, fn := range p.SrcFuncs() {
		if core.PkgPathOf(fn) != pkgSyntax {
			continue
		}
		core.EachInstr(fn, func(ins ssa.Instruction) {
			call, ok := ins.(*ssa.Call)
			if !ok || !isReader[call.Call.StaticCallee()] {
				return
			}
			n++
			key := core.FuncName(fn) + ":file parsed by the loader is pushed once"
			var file ssa.Value
			if call.Referrers() != nil {
				for _, r := range *call.Referrers() {
					if ex, ok := r.(*ssa.Extract); ok && ex.Index == 0 {
						file = ex
					}
				}
			}
			if file == nil {
				c.Ob(rule, key, call.Pos(), core.FuncName(fn), core.Violated, "the parsed file returned by the loader is discarded: its directives never reach the journal")
				return
			}
			ok2, why := pushOnceAfter(p, fn, call, file)
			if ok2 {
				c.Ob(rule, key, call.Pos(), core.FuncName(fn), core.Discharged, "exactly one cpr.Push of the parsed file on every success path")
			} else {
				c.Ob(rule, key, call.Pos(), core.FuncName(fn), core.Violated, why)
			}
		})
	}
	// cpr.Seq stages: the per-item callback calls f(t) and pushes t
	// (the callback is a closure of Seq itself or of a helper of the package that
	// Seq reaches, e.g. a `stage` constructor)
	seqFns := map[*ssa.Function]bool{}
	var seqList []*ssa.Function
	for _, top := range append(p.Instances(seq.Object()), seq) {
		for fn := range p.ReachLexical(top) {
			if core.PkgPathOf(fn) == pkgCpr && !seqFns[fn] {
				seqFns[fn] = true
				seqList = append(seqList, fn)
			}
		}
	}
	sort.Slice(seqList, func(i, j int) bool { return seqList[i].String() < seqList[j].String() })
	seenStage := map[string]bool{}
	for _, top := range []int{0} {
		_ = top
		for _, fn := range seqList {
			if fn.Parent() == nil || len(fn.Params) != 1 || seenStage[originName(fn)] {
				continue
			}
			// a dynamic call of a captured function with the item as argument
			var fcall *ssa.Call
			core.EachInstr(fn, func(ins ssa.Instruction) {
				call, ok := ins.(*ssa.Call)
				if !ok || call.Call.IsInvoke() || call.Call.StaticCallee() != nil {
					return
				}
				if _, isBuiltin := call.Call.Value.(*ssa.Builtin); isBuiltin {
					return
				}
				if len(call.Call.Args) == 1 && call.Call.Args[0] == ssa.Value(fn.Params[0]) {
					fcall = call
				}
			})
			if fcall == nil {
				continue
			}
			seenStage[originName(fn)] = true
			n++
			key := originName(fn) + ":item is pushed once after f(item)"
			ok2, why := pushOnceAfter(p, fn, fcall, fn.Params[0])
			if ok2 {
				c.Ob(rule, key, fcall.Pos(), originName(fn), core.Discharged, "exactly one cpr.Push of the item on every success path after f(item)")
			} else {
				c.Ob(rule, key, fcall.Pos(), originName(fn), core.Violated, "a stage of cpr.Seq: "+why)
			}
		}
	}
	c.Floor(rule, 2)
}

// RuleDIncludePath — include paths are resolved relative to the including
// file: the path handed to the recursive parse is
// Join(Dir(<the callee's own file parameter>), <text of the include directive>).
func RuleDIncludePath(c *core.Ctx) {
	const rule = "D-include-path"
	p := c.P
	li := loaderCycle(c)
	if len(li.readers) == 0 {
		c.Anchor(rule, "the recursive file loader of lib/syntax (a function that reads the file named by a parameter and can reach itself)")
		return
	}
	includePath := p.Field(pkgDirectives, "Include", "IncludePath")
	n := 0
	for _, site := range li.growthSites(p) {
		fn := site.caller
		n++
		key := core.FuncName(fn) + ":path of the recursive parse"
		arg := site.pathArg
		var join *ssa.Call
		for v := range originSet(p, arg, 0) {
			if cl, ok := v.(*ssa.Call); ok {
				if callee := cl.Call.StaticCallee(); callee != nil && callee.Pkg != nil && callee.Name() == "Join" &&
					(callee.Pkg.Pkg.Path() == "path" || callee.Pkg.Pkg.Path() == "path/filepath") {
					join = cl
				}
			}
		}
		if join == nil {
			c.Ob(rule, key, site.call.Pos(), core.FuncName(fn), core.Violated, "the included file's path is not built with path.Join/filepath.Join")
			continue
		}
		// elements of the variadic Join: first must be Dir(file of this activation), a later one the include text
		o := originSet(p, join.Call.Args[0], 0)
		dirOK, textOK := false, false
		for v := range o {
			cl, ok := v.(*ssa.Call)
			if !ok {
				continue
			}
			callee := cl.Call.StaticCallee()
			if callee == nil {
				continue
			}
			if callee.Name() == "Dir" && callee.Pkg != nil && (callee.Pkg.Pkg.Path() == "path" || callee.Pkg.Pkg.Path() == "path/filepath") {
				// the argument must be the file parameter of this activation itself (through
				// captured variables, single-assignment cells and pass-through parameters),
				// not an element of some container the parameter was put into
				if prm := paramRoot(cl.Call.Args[0]); prm != nil && li.carries(p, prm, "path", 0) {
					dirOK = true
				}
			}
			if core.PkgPathOf(callee) == pkgDirectives && callee.Name() == "Extract" {
				for w := range originSet(p, cl.Call.Args[0], 0) {
					if fa, ok := w.(*ssa.FieldAddr); ok && core.FieldOf(fa) == includePath {
						textOK = true
					}
					if f, ok := w.(*ssa.Field); ok && core.FieldOf(f) == includePath {
						textOK = true
					}
				}
			}
		}
		switch {
		case !dirOK:
			c.Ob(rule, key, site.call.Pos(), core.FuncName(fn), core.Violated, "the include path is not joined with Dir(<file being parsed by this very activation>): includes in sub-directories resolve against the wrong directory")
		case !textOK:
			c.Ob(rule, key, site.call.Pos(), core.FuncName(fn), core.Violated, "the include path does not come from the include directive's quoted string")
		default:
			c.Ob(rule, key, site.call.Pos(), core.FuncName(fn), core.Discharged, "path = Join(Dir(file parameter of this activation), include text)")
		}
	}
	if n == 0 {
		c.Ob(rule, "recursive loader:recursive call", li.readers[0].Pos(), core.FuncName(li.readers[0]), core.Undecided, "no call inside the loader's cycle computes a new path")
	}
	c.Floor(rule, 1)
}

// fileReadParam: the index of the string parameter of fn that names a file fn
// reads — it flows into os.ReadFile/Open/OpenFile in fn or, through an
// argument, in a module helper fn calls (three levels). -1 if none.
func fileReadParam(p *core.Prog, fn *ssa.Function, depth int) int {
	return fileReadParamAvoiding(p, fn, depth, nil)
}

// fileReadParamAvoiding is fileReadParam that does not look into the helpers
// in avoid (used to tell the function that reads from those that merely pass
// the path on to it).
func fileReadParamAvoiding(p *core.Prog, fn *ssa.Function, depth int, avoid map[*ssa.Function]bool) int {
	if fn == nil || fn.Blocks == nil || depth > 3 {
		return -1
	}
	res := -1
	core.EachInstr(fn, func(ins ssa.Instruction) {
		call, ok := ins.(ssa.CallInstruction)
		if !ok {
			return
		}
		callee := call.Common().StaticCallee()
		if callee == nil {
			return
		}
		argIdx := -1
		if callee.Pkg != nil && callee.Pkg.Pkg.Path() == "os" {
			switch callee.Name() {
			case "ReadFile", "Open", "OpenFile":
				argIdx = 0
			}
		} else if p.InModule(callee) && callee != fn && !avoid[callee] {
			argIdx = fileReadParamAvoiding(p, callee, depth+1, avoid)
		}
		if argIdx < 0 || argIdx >= len(call.Common().Args) {
			return
		}
		for v := range originSet(p, call.Common().Args[argIdx], 0) {
			if prm, ok := v.(*ssa.Parameter); ok && prm.Parent() == fn {
				for i, q := range fn.Params {
					if q == prm {
						res = i
					}
				}
			}
		}
	})
	return res
}

// RuleKPathIdentity — the path a parsed file carries (File.Path, the key by
// which the batches of concurrently parsed files are put into a fixed order,
// and the name error messages show) is the path the file was read from: in
// lib/syntax, a function that reads a file and creates a parser for its text
// hands the parser the very value it handed to os.ReadFile. A shortened or
// otherwise derived name makes two different files compare equal.
func RuleKPathIdentity(c *core.Ctx) {
	const rule = "K-path-identity"
	p := c.P
	newParser := p.Func(pkgParser, "New")
	if newParser == nil {
		c.Anchor(rule, "parser.New")
		return
	}
	n := 0
	for _, fn := range p.SrcFuncs() {
		if core.PkgPathOf(fn) != pkgSyntax {
			continue
		}
		var read, mk []*ssa.Call
		core.EachInstr(fn, func(ins ssa.Instruction) {
			call, ok := ins.(*ssa.Call)
			if !ok {
				return
			}
			callee := call.Call.StaticCallee()
			if callee == nil {
				return
			}
			if callee == newParser {
				mk = append(mk, call)
			}
			if callee.Pkg != nil && callee.Pkg.Pkg.Path() == "os" && (callee.Name() == "ReadFile" || callee.Name() == "Open") {
				read = append(read, call)
			}
		})
		if len(read) == 0 || len(mk) == 0 {
			continue
		}
		for _, m := range mk {
			n++
			key := core.FuncName(fn) + ":the parser is given the path that was read"
			ok := false
			for _, r := range read {
				if len(m.Call.Args) >= 2 && p.SameExpr(core.Strip(m.Call.Args[1]), core.Strip(r.Call.Args[0])) {
					ok = true
				}
			}
			if ok {
				c.Ob(rule, key, m.Pos(), core.FuncName(fn), core.Discharged, "parser.New receives the argument of the file read")
			} else {
				c.Ob(rule, key, m.Pos(), core.FuncName(fn), core.Violated, "the parser is created with "+describeValue(p, m.Call.Args[1])+" as the file's path, which is not the path the file was read from: files in different directories can carry the same path, and the order in which their directives are merged then depends on the schedule")
			}
		}
	}
	c.Floor(rule, 1)
}
