package rules

import (
	"fmt"
	"go/token"
	"go/types"

	"golang.org/x/tools/go/ssa"

	"knutlint/core"
)

// expandFn locates the accrual expansion: the function in package
// transaction that calls decimal QuoRem.
func expandFn(c *core.Ctx) (*ssa.Function, *ssa.Call) {
	var fn *ssa.Function
	var q *ssa.Call
	for _, f := range c.P.SrcFuncs() {
		if core.PkgPathOf(f) != pkgTransaction {
			continue
		}
		core.EachInstr(f, func(ins ssa.Instruction) {
			if call, ok := ins.(*ssa.Call); ok {
				if callee := call.Call.StaticCallee(); callee != nil && core.PkgPathOf(callee) == pkgDecimal && callee.Name() == "QuoRem" {
					fn, q = f, call
				}
			}
		})
	}
	return fn, q
}

// RuleKRemainder — the accrued amount is split as amount, rem :=
// q.QuoRem(n, digits): n is the size of the very partition whose end dates
// the parts are booked on, and the remainder is added to exactly one part
// (the branch adding it is taken when the range index equals the constant 0).
func RuleKRemainder(c *core.Ctx) {
	const rule = "K-remainder"
	p := c.P
	fn, q := expandFn(c)
	if fn == nil {
		c.Anchor(rule, "the accrual expansion (a function in lib/model/transaction calling decimal QuoRem)")
		return
	}
	fname := core.FuncName(fn)
	var amount, rem ssa.Value
	if q.Referrers() != nil {
		for _, r := range *q.Referrers() {
			if ex, ok := r.(*ssa.Extract); ok {
				if ex.Index == 0 {
					amount = ex
				} else {
					rem = ex
				}
			}
		}
	}
	// the partition behind the divisor
	var part ssa.Value
	for v := range originSet(p, q.Call.Args[1], 0) {
		if cl, ok := v.(*ssa.Call); ok && cl.Call.StaticCallee() != nil && originName(cl.Call.StaticCallee()) == "(lib/common/date.Partition).Size" {
			part = cl.Call.Args[0]
		}
	}
	key := fname + ":divisor and parts come from one partition"
	if part == nil {
		c.Ob(rule, key, q.Pos(), fname, core.Violated, "the divisor of the split is not the Size() of a partition")
		return
	}
	// the loop over EndDates of the same partition
	var dates *ssa.Call
	core.EachInstr(fn, func(ins ssa.Instruction) {
		if cl, ok := ins.(*ssa.Call); ok && cl.Call.StaticCallee() != nil && originName(cl.Call.StaticCallee()) == "(lib/common/date.Partition).EndDates" && core.Dominates(q, cl) {
			dates = cl
		}
	})
	if dates == nil || !p.SameExpr(dates.Call.Args[0], part) {
		c.Ob(rule, key, q.Pos(), fname, core.Violated, "the parts are not booked on the EndDates() of the partition whose Size() divides the amount: the number of parts and the divisor can differ")
		return
	}
	c.Ob(rule, key, q.Pos(), fname, core.Discharged, "QuoRem divides by Size() of the partition whose EndDates() the parts are booked on")
	// the remainder
	key = fname + ":remainder added to exactly one part"
	if amount == nil || rem == nil {
		c.Ob(rule, key, q.Pos(), fname, core.Violated, "quotient or remainder of the split is discarded")
		return
	}
	var adds []*ssa.Call
	core.EachInstr(fn, func(ins ssa.Instruction) {
		cl, ok := ins.(*ssa.Call)
		if !ok || cl.Call.StaticCallee() == nil || core.PkgPathOf(cl.Call.StaticCallee()) != pkgDecimal || cl.Call.StaticCallee().Name() != "Add" {
			return
		}
		a0, a1 := core.Strip(cl.Call.Args[0]), core.Strip(cl.Call.Args[1])
		if (a0 == amount && a1 == rem) || (a0 == rem && a1 == amount) {
			adds = append(adds, cl)
		}
	})
	if len(adds) != 1 {
		c.Ob(rule, key, q.Pos(), fname, core.Violated, fmt.Sprintf("expected exactly one amount.Add(rem), found %d: the parts do not sum to the accrued amount", len(adds)))
		return
	}
	add := adds[0]
	// the innermost loop containing the Add: the loop over the parts
	var partsLoop map[*ssa.BasicBlock]bool
	for _, body := range loopsOf(fn) {
		if body[add.Block()] && (partsLoop == nil || len(body) < len(partsLoop)) {
			partsLoop = body
		}
	}
	if partsLoop == nil {
		c.Ob(rule, key, add.Pos(), fname, core.Violated, "the remainder is not added inside the loop over the parts")
		return
	}
	// controlling condition: range index == 0
	ok := false
	why := "the branch that adds the remainder is not controlled by `index == 0` of the loop over the parts"
	for _, b := range fn.Blocks {
		iff, isIf := b.Instrs[len(b.Instrs)-1].(*ssa.If)
		if !isIf || !partsLoop[b] {
			continue
		}
		ctl, idx := core.Controls(b, add.Block())
		if !ctl {
			continue
		}
		bo, isBo := iff.Cond.(*ssa.BinOp)
		if !isBo {
			continue
		}
		// skip loop headers and error tests
		if bo.Op == token.LSS {
			continue
		}
		if core.IsNilConst(bo.X) || core.IsNilConst(bo.Y) {
			continue
		}
		k, isConst := core.ConstInt(bo.Y)
		if bo.Op == token.EQL && isConst && k == 0 && idx == 0 && isRangeIndex(bo.X) {
			ok = true
			continue
		}
		if _, isCall := iff.Cond.(*ssa.Call); isCall {
			continue
		}
		why = "the branch that adds the remainder is controlled by " + describeValue(p, iff.Cond) + " rather than by `index == 0`: for some inputs no part, or more than one, receives the remainder"
		ok = false
		break
	}
	// conditions that are calls (IsIE etc.) are the leg selection, not part selection; but a call condition inside the parts loop is suspicious
	for _, b := range fn.Blocks {
		iff, isIf := b.Instrs[len(b.Instrs)-1].(*ssa.If)
		if !isIf || !partsLoop[b] {
			continue
		}
		if ctl, _ := core.Controls(b, add.Block()); !ctl {
			continue
		}
		if cl, isCall := iff.Cond.(*ssa.Call); isCall {
			if callee := cl.Call.StaticCallee(); callee != nil && core.PkgPathOf(callee) == pkgAccount {
				continue
			}
			ok = false
			why = "the branch that adds the remainder is controlled by the call " + describeValue(p, cl) + ": whether a part receives the remainder depends on runtime dates, not on its position"
		}
	}
	// the per-part quantity must be amount or amount+rem
	if ok {
		c.Ob(rule, key, add.Pos(), fname, core.Discharged, "the remainder is added in the iteration with index 0 only; all parts carry the quotient")
	} else {
		c.Ob(rule, key, add.Pos(), fname, core.Violated, why)
	}
	c.Floor(rule, 2)
}

func isRangeIndex(v ssa.Value) bool {
	if bo, ok := v.(*ssa.BinOp); ok && bo.Op == token.ADD {
		v = bo.X
	}
	phi, ok := v.(*ssa.Phi)
	return ok && len(phi.Comment) >= 10 && phi.Comment[:10] == "rangeindex"
}

// RuleKAccrualDates — legs that are kept carry the original transaction's
// date; the split legs carry the partition's end dates.
func RuleKAccrualDates(c *core.Ctx) {
	const rule = "K-accrual-dates"
	p := c.P
	fn, _ := expandFn(c)
	if fn == nil {
		c.Anchor(rule, "the accrual expansion")
		return
	}
	fname := core.FuncName(fn)
	tbT := p.NamedType(pkgTransaction, "Builder")
	txDate := p.Field(pkgTransaction, "Transaction", "Date")
	n := 0
	// emission sites: a transaction builder literal in the expansion itself, or a
	// call of a local helper whose literal takes its Date from a parameter
	type site struct {
		at      ssa.Instruction
		dateVal ssa.Value
	}
	var sites []site
	for _, g := range core.WithAnon(fn) {
		core.EachInstr(g, func(ins ssa.Instruction) {
			a, ok := ins.(*ssa.Alloc)
			if !ok {
				return
			}
			pt, ok := a.Type().Underlying().(*types.Pointer)
			if !ok || !isNamed(pt.Elem(), tbT) || a.Referrers() == nil {
				return
			}
			var dateVal ssa.Value
			for _, r := range *a.Referrers() {
				if fa, ok := r.(*ssa.FieldAddr); ok && core.FieldOf(fa).Name() == "Date" {
					for _, st := range core.StoresTo(fa) {
						dateVal = st.Val
					}
				}
			}
			if g == fn {
				sites = append(sites, site{a, dateVal})
				return
			}
			prm, isParam := dateVal.(*ssa.Parameter)
			if !isParam {
				sites = append(sites, site{a, dateVal})
				return
			}
			idx := -1
			for i, q := range g.Params {
				if q == prm {
					idx = i
				}
			}
			core.EachInstr(fn, func(cins ssa.Instruction) {
				call, ok := cins.(*ssa.Call)
				if !ok || idx < 0 {
					return
				}
				for _, callee := range p.Callees(call) {
					if callee == g && idx < len(call.Call.Args) {
						sites = append(sites, site{call, call.Call.Args[idx]})
					}
				}
			})
		})
	}
	// … or a helper of the package (function or method) that builds the
	// transaction from its parameters: each call of it in the expansion is a site
	nested := map[*ssa.Function]bool{}
	for _, g := range core.WithAnon(fn) {
		nested[g] = true
	}
	helperDateParam := func(g *ssa.Function) int {
		idx := -1
		core.EachInstr(g, func(ins ssa.Instruction) {
			a, ok := ins.(*ssa.Alloc)
			if !ok {
				return
			}
			pt, ok := a.Type().Underlying().(*types.Pointer)
			if !ok || !isNamed(pt.Elem(), tbT) || a.Referrers() == nil {
				return
			}
			for _, r := range *a.Referrers() {
				if fa, ok := r.(*ssa.FieldAddr); ok && core.FieldOf(fa).Name() == "Date" {
					for _, st := range core.StoresTo(fa) {
						if prm, ok := core.Strip(st.Val).(*ssa.Parameter); ok {
							idx = paramIndex(prm)
						}
					}
				}
			}
		})
		return idx
	}
	for _, g := range core.WithAnon(fn) {
		core.EachInstr(g, func(ins ssa.Instruction) {
			call, ok := ins.(*ssa.Call)
			if !ok {
				return
			}
			callee := call.Call.StaticCallee()
			if callee == nil || nested[callee] || callee.Blocks == nil || core.PkgPathOf(callee) != pkgTransaction {
				return
			}
			if idx := helperDateParam(callee); idx >= 0 && idx < len(call.Call.Args) {
				sites = append(sites, site{call, call.Call.Args[idx]})
			}
		})
	}
	for _, st := range sites {
		a, dateVal := st.at, st.dateVal
		// is this literal inside a loop over EndDates?
		inParts := false
		var fromDates bool
		if dateVal != nil {
			for v := range originSet(p, dateVal, 0) {
				if cl, ok := v.(*ssa.Call); ok && cl.Call.StaticCallee() != nil && originName(cl.Call.StaticCallee()) == "(lib/common/date.Partition).EndDates" {
					fromDates = true
				}
			}
		}
		// literal's block inside a loop whose bound is len(EndDates())
		for h, body := range loopsOf(fn) {
			if !body[a.Block()] {
				continue
			}
			for _, hi := range h.Instrs {
				if bo, ok := hi.(*ssa.BinOp); ok && bo.Op == token.LSS {
					for v := range originSet(p, bo.Y, 0) {
						if cl, ok := v.(*ssa.Call); ok && cl.Call.StaticCallee() != nil && originName(cl.Call.StaticCallee()) == "(lib/common/date.Partition).EndDates" {
							inParts = true
						}
					}
				}
			}
		}
		n++
		fromTx := false
		if dateVal != nil {
			for v := range originSet(p, dateVal, 0) {
				if fa, ok := v.(*ssa.FieldAddr); ok && core.FieldOf(fa) == txDate {
					fromTx = true
				}
			}
		}
		if inParts {
			key := fname + ":split legs dated at the period ends"
			if fromDates && !fromTx {
				c.Ob(rule, key, a.Pos(), fname, core.Discharged, "Date is the element of EndDates() of the iteration")
			} else {
				c.Ob(rule, key, a.Pos(), fname, core.Violated, "the parts of a split income/expense leg are not dated at the partition's end dates")
			}
		} else {
			key := fname + ":kept legs keep the original date"
			if fromTx && !fromDates {
				c.Ob(rule, key, a.Pos(), fname, core.Discharged, "Date is the original transaction's date")
			} else {
				c.Ob(rule, key, a.Pos(), fname, core.Violated, "a leg that is not split is not dated at the original transaction's date")
			}
		}
	}
	if n < 2 {
		c.Ob(rule, fname+":two builder literals", fn.Pos(), fname, core.Undecided, fmt.Sprintf("expected a kept-leg and a split-leg transaction builder, found %d", n))
	}
	c.Floor(rule, 2)
}
