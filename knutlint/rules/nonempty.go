package rules

import (
	"fmt"
	"go/types"
	"strings"

	"golang.org/x/tools/go/ssa"

	"knutlint/core"
)

// nonEmptySlice: v is a slice with at least one element on every path that
// reaches its use. Decided on the SSA value: a composite literal with elements,
// an append with explicit elements, an append one of whose operands is
// non-empty, a phi all of whose edges are, or the result of a function all of
// whose returns are.
func nonEmptySlice(v ssa.Value, seen map[ssa.Value]bool) bool {
	v = core.Strip(v)
	if seen[v] {
		return true // a cycle adds nothing: the other edges decide
	}
	seen[v] = true
	switch x := v.(type) {
	case *ssa.Slice:
		if x.Low != nil || x.High != nil {
			return false
		}
		if al, ok := x.X.(*ssa.Alloc); ok {
			if pt, ok := al.Type().Underlying().(*types.Pointer); ok {
				if at, ok := pt.Elem().Underlying().(*types.Array); ok {
					return at.Len() >= 1
				}
			}
		}
		return false
	case *ssa.Call:
		if b, ok := x.Call.Value.(*ssa.Builtin); ok && b.Name() == "append" && len(x.Call.Args) == 2 {
			return nonEmptySlice(x.Call.Args[1], seen) || nonEmptySlice(x.Call.Args[0], seen)
		}
		return nonEmptyResult(x, 0, seen)
	case *ssa.Extract:
		if call, ok := x.Tuple.(*ssa.Call); ok {
			return nonEmptyResult(call, x.Index, seen)
		}
		return false
	case *ssa.Phi:
		for _, e := range x.Edges {
			if !nonEmptySlice(e, seen) {
				return false
			}
		}
		return len(x.Edges) > 0
	}
	return false
}

// nonEmptyResult: result idx of a call to a function with a body is non-empty
// if every return of the callee returns a non-empty slice there; a parameter
// returned as it is stands for the caller's argument.
func nonEmptyResult(call *ssa.Call, idx int, seen map[ssa.Value]bool) bool {
	callee := call.Call.StaticCallee()
	if callee == nil || callee.Blocks == nil || len(seen) > 200 {
		return false
	}
	all, any := true, false
	core.EachInstr(callee, func(ins ssa.Instruction) {
		ret, ok := ins.(*ssa.Return)
		if !ok || idx >= len(ret.Results) {
			return
		}
		rv := core.Strip(ret.Results[idx])
		// an error return hands back nil together with a non-nil error: such a
		// result is not used by a caller that checks the error
		if cst, ok := rv.(*ssa.Const); ok && cst.Value == nil && len(ret.Results) > 1 {
			return
		}
		any = true
		if prm, ok := rv.(*ssa.Parameter); ok {
			for i, q := range callee.Params {
				if q == prm && i < len(call.Call.Args) {
					if !nonEmptySlice(call.Call.Args[i], seen) {
						all = false
					}
					return
				}
			}
		}
		if !nonEmptyIn(rv, call, callee, seen) {
			all = false
		}
	})
	return all && any
}

// nonEmptyIn judges a value of the callee's frame; parameters reached through
// appends and phis are replaced by the caller's arguments.
func nonEmptyIn(v ssa.Value, call *ssa.Call, callee *ssa.Function, seen map[ssa.Value]bool) bool {
	v = core.Strip(v)
	if prm, ok := v.(*ssa.Parameter); ok {
		for i, q := range callee.Params {
			if q == prm && i < len(call.Call.Args) {
				return nonEmptySlice(call.Call.Args[i], seen)
			}
		}
		return false
	}
	if seen[v] {
		return true
	}
	switch x := v.(type) {
	case *ssa.Call:
		if b, ok := x.Call.Value.(*ssa.Builtin); ok && b.Name() == "append" && len(x.Call.Args) == 2 {
			seen[v] = true
			return nonEmptyIn(x.Call.Args[1], call, callee, seen) || nonEmptyIn(x.Call.Args[0], call, callee, seen)
		}
	case *ssa.Phi:
		seen[v] = true
		for _, e := range x.Edges {
			if !nonEmptyIn(e, call, callee, seen) {
				return false
			}
		}
		return len(x.Edges) > 0
	}
	return nonEmptySlice(v, seen)
}

// RuleKTxNonempty — an importer never hands the journal a transaction without
// bookings (the printer would emit a bare header line, which knut's parser
// rejects): wherever an importer builds the postings of a transaction from a
// list of pair builders (`posting.Builders.Build`), that list has at least one
// element on every path, or the construction is guarded by a test of its
// length.
func RuleKTxNonempty(c *core.Ctx) {
	const rule = "K-tx-nonempty"
	p := c.P
	build := p.Func(pkgPosting, "Builders.Build")
	if build == nil {
		c.Anchor(rule, "posting.Builders.Build")
		return
	}
	n := 0
	for _, fn := range p.SrcFuncs() {
		pkg := core.PkgPathOf(fn)
		if !strings.HasPrefix(pkg, pkgImporter+"/") {
			continue
		}
		k := 0
		core.EachInstr(fn, func(ins ssa.Instruction) {
			call, ok := ins.(*ssa.Call)
			if !ok || call.Call.StaticCallee() != build || len(call.Call.Args) < 1 {
				return
			}
			n++
			k++
			key := fmt.Sprintf("%s:builder list %d is not empty", core.FuncName(fn), k)
			recv := call.Call.Args[0]
			if nonEmptySlice(recv, map[ssa.Value]bool{}) {
				c.Ob(rule, key, call.Pos(), core.FuncName(fn), core.Discharged, "a literal with elements or an append with explicit elements on every path")
				return
			}
			// guarded by a test of the list's length
			for _, b := range fn.Blocks {
				iff, ok := b.Instrs[len(b.Instrs)-1].(*ssa.If)
				if !ok {
					continue
				}
				if ctl, _ := core.Controls(b, call.Block()); !ctl {
					continue
				}
				for v := range originSet(p, iff.Cond, 0) {
					if lc, ok := v.(*ssa.Call); ok {
						if bi, ok := lc.Call.Value.(*ssa.Builtin); ok && bi.Name() == "len" && p.SameExpr(lc.Call.Args[0], recv) {
							c.Ob(rule, key, call.Pos(), core.FuncName(fn), core.Discharged, "built under a test of the list's length")
							return
						}
					}
				}
			}
			c.Ob(rule, key, call.Pos(), core.FuncName(fn), core.Violated, "the list of pair builders can be empty here (every append to it is conditional): the transaction is added without bookings, printed as a bare header line, and the imported journal does not parse")
		})
	}
	c.Floor(rule, 3)
}

// RuleKRangeText — `Range.Text` is the text of the whole file, not of the
// element; the element's text is `Text[Start:End]` (Extract). Outside the
// package that defines Range, a read of the field is used only to be sliced,
// indexed, measured or iterated — never compared, concatenated or handed to a
// function as if it were the element's content.
func RuleKRangeText(c *core.Ctx) {
	const rule = "K-range-text"
	p := c.P
	textField := p.Field(pkgDirectives, "Range", "Text")
	if textField == nil {
		c.Anchor(rule, "directives.Range.Text")
		return
	}
	n := 0
	var usesOK func(v ssa.Value, seen map[ssa.Value]bool) string
	usesOK = func(v ssa.Value, seen map[ssa.Value]bool) string {
		if seen[v] || v.Referrers() == nil {
			return ""
		}
		seen[v] = true
		for _, r := range *v.Referrers() {
			switch x := r.(type) {
			case *ssa.DebugRef:
			case *ssa.Slice:
				if x.X != v {
					return "used as a bound"
				}
			case *ssa.Index:
			case *ssa.Lookup:
			case *ssa.Range:
			case *ssa.Phi:
				if w := usesOK(x, seen); w != "" {
					return w
				}
			case *ssa.Call:
				if bi, ok := x.Call.Value.(*ssa.Builtin); ok && bi.Name() == "len" {
					continue
				}
				return "passed to " + describeCallee(x)
			case *ssa.Store:
				// kept in a field named Text of a file/range again (a copy of the tree)
				if fa, ok := x.Addr.(*ssa.FieldAddr); ok && x.Val == v && core.FieldOf(fa) != nil && core.FieldOf(fa).Name() == "Text" {
					continue
				}
				if al, ok := x.Addr.(*ssa.Alloc); ok && x.Val == v {
					// a local variable: its loads are judged
					if al.Referrers() != nil {
						for _, ar := range *al.Referrers() {
							if ld, ok := ar.(*ssa.UnOp); ok {
								if w := usesOK(ld, seen); w != "" {
									return w
								}
							}
						}
					}
					continue
				}
				return "stored"
			case *ssa.BinOp:
				return "compared or concatenated (" + x.Op.String() + ")"
			default:
				return fmt.Sprintf("used by %T", r)
			}
		}
		return ""
	}
	for _, fn := range p.SrcFuncs() {
		if !p.InModule(fn) || core.PkgPathOf(fn) == pkgDirectives {
			continue
		}
		k := 0
		core.EachInstr(fn, func(ins ssa.Instruction) {
			var val ssa.Value
			switch x := ins.(type) {
			case *ssa.Field:
				if core.FieldOf(x) == textField {
					val = x
				}
			case *ssa.UnOp:
				if fa, ok := x.X.(*ssa.FieldAddr); ok && core.FieldOf(fa) == textField {
					val = x
				}
			}
			if val == nil {
				return
			}
			n++
			k++
			key := fmt.Sprintf("%s:read %d of Range.Text is only sliced or measured", core.FuncName(fn), k)
			if w := usesOK(val, map[ssa.Value]bool{}); w != "" {
				c.Ob(rule, key, ins.Pos(), core.FuncName(fn), core.Violated, "Range.Text (the text of the whole file) is "+w+": the content of the element is Text[Start:End] (Extract)")
			} else {
				c.Ob(rule, key, ins.Pos(), core.FuncName(fn), core.Discharged, "sliced, indexed, measured or copied into another Text field")
			}
		})
	}
	c.Ob(rule, "module:reads of Range.Text outside lib/syntax/directives", 0, "", core.Discharged, fmt.Sprintf("%d reads examined", n))
	c.Floor(rule, 1)
}

func describeCallee(call *ssa.Call) string {
	if callee := call.Call.StaticCallee(); callee != nil {
		return core.FuncName(callee)
	}
	return "a function value"
}
