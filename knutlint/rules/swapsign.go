package rules

import (
	"fmt"
	"go/constant"
	"go/token"
	"go/types"

	"golang.org/x/tools/go/ssa"

	"knutlint/core"
)

// RuleKSwapSign — the normal form of a booking is stable. The pair builder
// exchanges credit and debit (and negates quantity and value) under a
// condition that touches quantity and value only through their signs, so the
// condition is a function on the nine sign states {-,0,+}². It is evaluated
// on all nine by executing the builder's control flow graph abstractly (the
// sign state is concrete, every branch is decided); the rule demands
//
//	exchange(s) ⇒ ¬exchange(−s)   for every sign state s,
//
// i.e. a booking that was exchanged is not exchanged again when the result is
// printed and read back. (0,0) is its own negation, so a booking without
// quantity and value is never exchanged. A condition that the interpreter
// cannot evaluate is reported as undecided.
func RuleKSwapSign(c *core.Ctx) {
	const rule = "K-swap-sign"
	p := c.P
	credit := p.Field(pkgPosting, "Builder", "Credit")
	debit := p.Field(pkgPosting, "Builder", "Debit")
	qf := p.Field(pkgPosting, "Builder", "Quantity")
	vf := p.Field(pkgPosting, "Builder", "Value")
	if credit == nil || debit == nil || qf == nil || vf == nil {
		c.Anchor(rule, "posting.Builder.{Credit,Debit,Quantity,Value}")
		return
	}
	n := 0
	for _, fn := range p.SrcFuncs() {
		if core.PkgPathOf(fn) != pkgPosting {
			continue
		}
		// the exchange: a block that is executed only under a condition and negates
		// the builder's quantity (the exchange of credit and debit goes with the
		// negation of quantity and value; the unconditional Neg that builds the
		// credit-side posting is in a block every path passes)
		var swap *ssa.BasicBlock
		readsBuilder := false
		core.EachInstr(fn, func(ins ssa.Instruction) {
			switch x := ins.(type) {
			case *ssa.FieldAddr:
				if f := core.FieldOf(x); f == credit || f == debit {
					readsBuilder = true
				}
			case *ssa.Field:
				if f := core.FieldOf(x); f == credit || f == debit {
					readsBuilder = true
				}
			}
		})
		if !readsBuilder {
			continue
		}
		for _, b := range fn.Blocks {
			for _, ins := range b.Instrs {
				call, ok := ins.(*ssa.Call)
				if !ok {
					continue
				}
				callee := call.Call.StaticCallee()
				if callee == nil || core.PkgPathOf(callee) != pkgDecimal || callee.Name() != "Neg" || len(call.Call.Args) != 1 {
					continue
				}
				fromQ := false
				for v := range originSet(p, call.Call.Args[0], 0) {
					switch x := v.(type) {
					case *ssa.FieldAddr:
						fromQ = fromQ || core.FieldOf(x) == qf
					case *ssa.Field:
						fromQ = fromQ || core.FieldOf(x) == qf
					}
				}
				if fromQ && blockIsConditional(fn, b) {
					swap = b
				}
			}
		}
		if swap == nil {
			continue
		}
		n++
		key := core.FuncName(fn) + ":an exchanged booking is not exchanged again"
		in := &signInterp{p: p, qf: qf, vf: vf}
		table := map[[2]int]bool{}
		bad := ""
		for _, sq := range []int{-1, 0, 1} {
			for _, sv := range []int{-1, 0, 1} {
				r, why := in.reaches(fn, swap, sq, sv)
				if why != "" {
					bad = why
				}
				table[[2]int{sq, sv}] = r
			}
		}
		if bad != "" {
			c.Ob(rule, key, fn.Pos(), core.FuncName(fn), core.Undecided, "the condition of the exchange could not be evaluated on the sign states: "+bad)
			continue
		}
		viol := ""
		for s, r := range table {
			if r && table[[2]int{-s[0], -s[1]}] {
				viol = fmt.Sprintf("(quantity %s, value %s)", signName(s[0]), signName(s[1]))
				if s[0] == 0 && s[1] == 0 {
					break
				}
			}
		}
		desc := ""
		for _, sq := range []int{-1, 0, 1} {
			for _, sv := range []int{-1, 0, 1} {
				if table[[2]int{sq, sv}] {
					desc += fmt.Sprintf(" (%s,%s)", signName(sq), signName(sv))
				}
			}
		}
		if viol != "" {
			c.Ob(rule, key, fn.Pos(), core.FuncName(fn), core.Violated, "credit and debit are exchanged for the sign state "+viol+" and again for its negation: the printed booking is exchanged once more when it is read back, print output is not a fixed point; exchanged states:"+desc)
		} else {
			c.Ob(rule, key, fn.Pos(), core.FuncName(fn), core.Discharged, "evaluated on the nine sign states of (quantity, value); exchanged exactly for:"+desc)
		}
	}
	if n == 0 {
		c.Ob(rule, "posting:exchange of credit and debit", 0, "", core.Discharged, "no function of lib/model/posting exchanges Builder.Credit and Builder.Debit")
	}
	c.Floor(rule, 1)
}

func signName(s int) string {
	switch {
	case s < 0:
		return "negative"
	case s > 0:
		return "positive"
	}
	return "zero"
}

type signInterp struct {
	p      *core.Prog
	qf, vf *types.Var
}

// reaches executes fn from its entry with the sign state (sq, sv) until it
// enters target (true) or returns (false).
func (in *signInterp) reaches(fn *ssa.Function, target *ssa.BasicBlock, sq, sv int) (bool, string) {
	if len(fn.Blocks) == 0 {
		return false, "no body"
	}
	var pred *ssa.BasicBlock
	b := fn.Blocks[0]
	for steps := 0; steps < 200; steps++ {
		if b == target {
			return true, ""
		}
		// a store to quantity or value before the exchange changes the state
		for _, ins := range b.Instrs {
			if st, ok := ins.(*ssa.Store); ok {
				if fa, ok := st.Addr.(*ssa.FieldAddr); ok && (core.FieldOf(fa) == in.qf || core.FieldOf(fa) == in.vf) {
					// the spill of a value receiver stores the whole struct, not a field: this is a field store
					return false, "quantity or value is assigned before the condition at " + in.p.Pos(st.Pos())
				}
			}
		}
		switch t := b.Instrs[len(b.Instrs)-1].(type) {
		case *ssa.If:
			v, why := in.evalBool(t.Cond, b, pred, sq, sv, 0)
			if why != "" {
				return false, why
			}
			pred = b
			if v {
				b = b.Succs[0]
			} else {
				b = b.Succs[1]
			}
		case *ssa.Jump:
			pred, b = b, b.Succs[0]
		default:
			return false, ""
		}
	}
	return false, "the control flow does not terminate within 200 steps"
}

// signOf: v is Builder.Quantity or Builder.Value (a load of the field of any
// builder value in scope).
func (in *signInterp) signOf(v ssa.Value, sq, sv int) (int, bool) {
	v = core.Strip(v)
	var f *types.Var
	switch x := v.(type) {
	case *ssa.Field:
		f = core.FieldOf(x)
	case *ssa.UnOp:
		if x.Op == token.MUL {
			if fa, ok := x.X.(*ssa.FieldAddr); ok {
				f = core.FieldOf(fa)
			}
		}
	}
	switch f {
	case in.qf:
		return sq, f != nil
	case in.vf:
		return sv, f != nil
	}
	return 0, false
}

func isDecimalZero(v ssa.Value) bool {
	v = core.Strip(v)
	if ld, ok := v.(*ssa.UnOp); ok && ld.Op == token.MUL {
		if g, ok := ld.X.(*ssa.Global); ok && g.Pkg != nil && g.Pkg.Pkg.Path() == "github.com/shopspring/decimal" && g.Name() == "Zero" {
			return true
		}
	}
	return false
}

func (in *signInterp) evalInt(v ssa.Value, sq, sv int, depth int) (int64, string) {
	v = core.Strip(v)
	switch x := v.(type) {
	case *ssa.Const:
		if x.Value != nil && x.Value.Kind() == constant.Int {
			if i, ok := constant.Int64Val(x.Value); ok {
				return i, ""
			}
		}
	case *ssa.Convert:
		return in.evalInt(x.X, sq, sv, depth+1)
	case *ssa.Call:
		callee := x.Call.StaticCallee()
		if callee != nil && callee.Pkg != nil && callee.Pkg.Pkg.Path() == "github.com/shopspring/decimal" && len(x.Call.Args) >= 1 {
			if s, ok := in.signOf(x.Call.Args[0], sq, sv); ok {
				switch callee.Name() {
				case "Sign":
					return int64(s), ""
				case "Cmp":
					if len(x.Call.Args) == 2 && isDecimalZero(x.Call.Args[1]) {
						return int64(s), ""
					}
				}
			}
		}
	}
	return 0, "an integer operand at " + in.p.Pos(v.Pos()) + " that is not a constant, Sign() or Cmp(decimal.Zero) of quantity or value"
}

func (in *signInterp) evalBool(v ssa.Value, cur, pred *ssa.BasicBlock, sq, sv int, depth int) (bool, string) {
	if depth > 20 {
		return false, "a condition nested too deeply"
	}
	v = core.Strip(v)
	switch x := v.(type) {
	case *ssa.Const:
		if x.Value != nil && x.Value.Kind() == constant.Bool {
			return constant.BoolVal(x.Value), ""
		}
	case *ssa.UnOp:
		if x.Op == token.NOT {
			r, why := in.evalBool(x.X, cur, pred, sq, sv, depth+1)
			return !r, why
		}
	case *ssa.Phi:
		// the value of a short-circuit expression: decided by the edge taken
		if x.Block() == cur && pred != nil {
			for i, pb := range cur.Preds {
				if pb == pred {
					return in.evalBool(x.Edges[i], pred, nil, sq, sv, depth+1)
				}
			}
		}
		return false, "a condition that merges paths at " + in.p.Pos(x.Pos())
	case *ssa.BinOp:
		switch x.Op {
		case token.LSS, token.LEQ, token.GTR, token.GEQ, token.EQL, token.NEQ:
			a, why := in.evalInt(x.X, sq, sv, depth+1)
			if why != "" {
				return false, why
			}
			b, why := in.evalInt(x.Y, sq, sv, depth+1)
			if why != "" {
				return false, why
			}
			switch x.Op {
			case token.LSS:
				return a < b, ""
			case token.LEQ:
				return a <= b, ""
			case token.GTR:
				return a > b, ""
			case token.GEQ:
				return a >= b, ""
			case token.EQL:
				return a == b, ""
			default:
				return a != b, ""
			}
		case token.AND, token.OR:
			a, why := in.evalBool(x.X, cur, pred, sq, sv, depth+1)
			if why != "" {
				return false, why
			}
			b, why := in.evalBool(x.Y, cur, pred, sq, sv, depth+1)
			if why != "" {
				return false, why
			}
			if x.Op == token.AND {
				return a && b, ""
			}
			return a || b, ""
		}
	case *ssa.Call:
		callee := x.Call.StaticCallee()
		if callee == nil {
			break
		}
		if callee.Pkg != nil && callee.Pkg.Pkg.Path() == "github.com/shopspring/decimal" && len(x.Call.Args) >= 1 {
			if s, ok := in.signOf(x.Call.Args[0], sq, sv); ok {
				zeroArg := len(x.Call.Args) == 2 && isDecimalZero(x.Call.Args[1])
				switch callee.Name() {
				case "IsNegative":
					return s < 0, ""
				case "IsZero":
					return s == 0, ""
				case "IsPositive":
					return s > 0, ""
				case "LessThan":
					if zeroArg {
						return s < 0, ""
					}
				case "LessThanOrEqual":
					if zeroArg {
						return s <= 0, ""
					}
				case "GreaterThan":
					if zeroArg {
						return s > 0, ""
					}
				case "GreaterThanOrEqual":
					if zeroArg {
						return s >= 0, ""
					}
				case "Equal", "Equals":
					if zeroArg {
						return s == 0, ""
					}
				}
			}
			return false, "a call of decimal." + callee.Name() + " at " + in.p.Pos(x.Pos()) + " that is not a sign test of quantity or value"
		}
		// a predicate of the module on the builder: execute it
		if in.p.InModule(callee) && callee.Blocks != nil && depth < 4 {
			return in.evalCallee(callee, sq, sv, depth+1)
		}
	}
	return false, "a condition at " + in.p.Pos(v.Pos()) + " that is not a sign test of quantity or value"
}

// evalCallee executes a boolean helper to its return.
func (in *signInterp) evalCallee(fn *ssa.Function, sq, sv int, depth int) (bool, string) {
	var pred *ssa.BasicBlock
	b := fn.Blocks[0]
	for steps := 0; steps < 200; steps++ {
		switch t := b.Instrs[len(b.Instrs)-1].(type) {
		case *ssa.If:
			v, why := in.evalBool(t.Cond, b, pred, sq, sv, depth+1)
			if why != "" {
				return false, why
			}
			pred = b
			if v {
				b = b.Succs[0]
			} else {
				b = b.Succs[1]
			}
		case *ssa.Jump:
			pred, b = b, b.Succs[0]
		case *ssa.Return:
			if len(t.Results) != 1 {
				return false, core.FuncName(fn) + " does not return one value"
			}
			return in.evalBool(t.Results[0], b, pred, sq, sv, depth+1)
		default:
			return false, core.FuncName(fn) + " ends in a panic"
		}
	}
	return false, core.FuncName(fn) + " does not terminate within 200 steps"
}

// blockIsConditional: some path from the entry to a return does not pass b.
func blockIsConditional(fn *ssa.Function, b *ssa.BasicBlock) bool {
	if len(fn.Blocks) == 0 || fn.Blocks[0] == b {
		return false
	}
	seen := map[*ssa.BasicBlock]bool{b: true}
	work := []*ssa.BasicBlock{fn.Blocks[0]}
	for len(work) > 0 {
		x := work[0]
		work = work[1:]
		if seen[x] {
			continue
		}
		seen[x] = true
		if _, ok := x.Instrs[len(x.Instrs)-1].(*ssa.Return); ok {
			return true
		}
		work = append(work, x.Succs...)
	}
	return false
}
