package rules

import (
	"go/types"
	"fmt"
	"go/token"
	"strings"

	"golang.org/x/tools/go/ssa"

	"knutlint/core"
)

// loopsContaining returns the headers of the natural loops of fn whose body
// contains block b.
func loopsContaining(fn *ssa.Function, b *ssa.BasicBlock) map[*ssa.BasicBlock]bool {
	res := map[*ssa.BasicBlock]bool{}
	for h, body := range loopsOf(fn) {
		if body[b] {
			res[h] = true
		}
	}
	return res
}

// RuleKPostingsFresh — a transaction owns its postings: the postings stored
// into a transaction builder come from a pair-builder call that is executed
// once per transaction built — every loop that contains the store also
// contains the Build call the postings come from. Postings built once and put
// into several transactions (of several days) are shared objects: the
// valuation stage writes Posting.Value of one day's transaction while a later
// stage reads the same object through the other day's transaction (a data
// race), and the value of the earlier day is overwritten.
func RuleKPostingsFresh(c *core.Ctx) {
	const rule = "K-postings-fresh"
	p := c.P
	postingsF := p.Field(pkgTransaction, "Builder", "Postings")
	if postingsF == nil {
		c.Anchor(rule, "transaction.Builder.Postings")
		return
	}
	builders := map[*ssa.Function]bool{}
	for _, n := range []string{"Builder.Build", "Builders.Build", "Create"} {
		if f := p.Func(pkgPosting, n); f != nil {
			builders[f] = true
		}
	}
	n := 0
	for _, fn := range p.SrcFuncs() {
		if !p.InModule(fn) {
			continue
		}
		core.EachInstr(fn, func(ins ssa.Instruction) {
			st, ok := ins.(*ssa.Store)
			if !ok {
				return
			}
			fa, ok := st.Addr.(*ssa.FieldAddr)
			if !ok || core.FieldOf(fa) != postingsF {
				return
			}
			storeLoops := loopsContaining(fn, st.Block())
			if len(storeLoops) == 0 {
				return // built once, stored once
			}
			n++
			key := core.FuncName(fn) + ":postings stored in a loop are built in that loop"
			bad := ""
			seen := map[ssa.Value]bool{}
			var visit func(v ssa.Value)
			visit = func(v ssa.Value) {
				v = core.Strip(v)
				if seen[v] || bad != "" {
					return
				}
				seen[v] = true
				switch x := v.(type) {
				case *ssa.Phi:
					for _, e := range x.Edges {
						visit(e)
					}
				case *ssa.UnOp:
					if al, ok := x.X.(*ssa.Alloc); ok && x.Op == token.MUL {
						for _, s := range core.AllStoresToCell(al) {
							visit(s.Val)
						}
					}
				case *ssa.Call:
					if b, ok := x.Call.Value.(*ssa.Builtin); ok && b.Name() == "append" {
						for _, a := range x.Call.Args {
							visit(a)
						}
						return
					}
					callee := x.Call.StaticCallee()
					if callee == nil || x.Parent() != fn {
						return
					}
					if builders[callee] || reachesAnyFunc(p, callee, builders, 0) {
						callLoops := loopsContaining(fn, x.Block())
						for h := range storeLoops {
							if !callLoops[h] {
								bad = fmt.Sprintf("the postings come from %s at %s, which is executed once, outside the loop at %s that stores them into one transaction per iteration", callee.Name(), p.Pos(x.Pos()), p.Pos(core.NearPos(h.Instrs[len(h.Instrs)-1])))
							}
						}
					}
				}
			}
			visit(st.Val)
			if bad == "" {
				c.Ob(rule, key, st.Pos(), core.FuncName(fn), core.Discharged, "every pair-builder call the postings come from lies in the same loops as the store")
			} else {
				c.Ob(rule, key, st.Pos(), core.FuncName(fn), core.Violated, bad+": several transactions share the same Posting objects (the valuation of one day overwrites the other's, and concurrent stages race on them)")
			}
		})
	}
	c.Floor(rule, 1)
}

func reachesAnyFunc(p *core.Prog, fn *ssa.Function, targets map[*ssa.Function]bool, depth int) bool {
	for t := range targets {
		if reachesFunc(p, fn, t, depth) {
			return true
		}
	}
	return false
}

// RuleKBuildersAll — the pair builders build every booking they are given:
// in posting.Builders.Build and posting.Create the loop over the builders
// (bookings) appends the pair of every element; no condition other than an
// error test decides whether an element is built. A skipped booking leaves a
// transaction with fewer (possibly no) postings than the statement row or
// the journal line had — a transaction without postings prints as a header
// line that knut's own parser rejects.
func RuleKBuildersAll(c *core.Ctx) {
	const rule = "K-builders-all"
	p := c.P
	build := p.Func(pkgPosting, "Builder.Build")
	if build == nil {
		c.Anchor(rule, "posting.Builder.Build")
		return
	}
	n := 0
	for _, name := range []string{"Builders.Build", "Create"} {
		fn := p.Func(pkgPosting, name)
		if fn == nil {
			c.Anchor(rule, "posting."+name)
			continue
		}
		fname := core.FuncName(fn)
		for h, body := range loopsOf(fn) {
			var calls []*ssa.Call
			for b := range body {
				for _, ins := range b.Instrs {
					if call, ok := ins.(*ssa.Call); ok {
						for _, callee := range p.Callees(call) {
							if reachesFunc(p, callee, build, 0) {
								calls = append(calls, call)
							}
						}
						// the element's pair builder appended to the list that is built after the loop
						if bi, ok := call.Call.Value.(*ssa.Builtin); ok && bi.Name() == "append" && len(call.Call.Args) == 2 {
							if sl, ok := call.Call.Args[1].Type().Underlying().(*types.Slice); ok && isNamed(sl.Elem(), p.NamedType(pkgPosting, "Builder")) {
								calls = append(calls, call)
							}
						}
					}
				}
			}
			if len(calls) == 0 {
				continue
			}
			n++
			key := fname + ":every element is built"
			var bad []string
			for _, call := range calls {
				for b := range body {
					iff, ok := b.Instrs[len(b.Instrs)-1].(*ssa.If)
					if !ok || b == h {
						continue
					}
					if ctl, _ := core.Controls(b, call.Block()); !ctl || isErrTest(iff.Cond) {
						continue
					}
					bad = append(bad, describeValue(p, iff.Cond))
				}
			}
			if len(bad) == 0 {
				c.Ob(rule, key, core.NearPos(h.Instrs[len(h.Instrs)-1]), fname, core.Discharged, "the pair of every element is built; only error tests lie in between")
			} else {
				c.Ob(rule, key, core.NearPos(h.Instrs[len(h.Instrs)-1]), fname, core.Violated, "whether an element's postings are built depends on "+strings.Join(uniq(bad), "; ")+": a booking can vanish, leaving a transaction with too few or no postings")
			}
		}
	}
	c.Floor(rule, 1)
}

// RuleDWriteLast — once a report function has started to write, it fails only
// because writing fails. In every function of the output packages that takes
// an io.Writer, an error return that a write call can reach returns an error
// produced by a call that receives the writer (or a value built from it); a
// validation that can fail after the first write leaves a partial report on
// stdout together with a non-zero exit status.
func RuleDWriteLast(c *core.Ctx) {
	const rule = "D-write-last"
	p := c.P
	// the writers of directive streams; the table renderers' only non-write error
	// is the unknown-cell-type default, excluded by F-cells
	outPkgs := map[string]bool{pkgJournal: true, pkgBeancount: true}
	n := 0
	for _, fn := range p.SrcFuncs() {
		if !outPkgs[core.PkgPathOf(fn)] || fn.Parent() != nil {
			continue
		}
		w := writerRoot(fn)
		if w == nil {
			continue
		}
		hasErr := false
		for i := 0; i < fn.Signature.Results().Len(); i++ {
			if core.IsErrorType(fn.Signature.Results().At(i).Type()) {
				hasErr = true
			}
		}
		if !hasErr {
			continue
		}
		var writes []*ssa.Call
		core.EachInstr(fn, func(ins ssa.Instruction) {
			if call, ok := ins.(*ssa.Call); ok && callWrites(p, call, w) {
				// a write reports failure; a constructor that merely keeps the writer does not
				res := call.Call.Signature().Results()
				if res.Len() > 0 && core.IsErrorType(res.At(res.Len()-1).Type()) {
					writes = append(writes, call)
				}
			}
		})
		if len(writes) == 0 {
			continue
		}
		n++
		fname := core.FuncName(fn)
		key := fname + ":after the first write only writing can fail"
		bad := ""
		for _, b := range fn.Blocks {
			ret, ok := b.Instrs[len(b.Instrs)-1].(*ssa.Return)
			if !ok {
				continue
			}
			for _, rv := range ret.Results {
				if !core.IsErrorType(rv.Type()) || core.IsNilConst(rv) {
					continue
				}
				// can a write precede this return?
				after := false
				for _, wc := range writes {
					if wc.Block() == b || core.BlockReaches(wc.Block(), b, nil) {
						after = true
					}
				}
				if !after {
					continue
				}
				for prod := range errProducers(rv, map[ssa.Value]bool{}) {
					switch x := prod.(type) {
					case *ssa.Call:
						if callWrites(p, x, w) {
							continue
						}
						bad = "the error of " + describeValue(p, x) + " (which does not write) is returned at " + p.Pos(core.NearPos(ret)) + " after output was written"
					case *ssa.Const, *ssa.Phi, *ssa.Extract:
						// nil, or an intermediate of the walk
					case *ssa.MakeInterface:
						bad = "an error built at " + p.Pos(core.NearPos(ret)) + " is returned after output was written"
					case *ssa.UnOp:
						// named result: judged where it is assigned; or the error a writer
						// wrapper remembers (a field of an object that carries the writer)
					default:
						bad = "an error built at " + p.Pos(core.NearPos(ret)) + " is returned after output was written"
					}
				}
			}
		}
		if bad == "" {
			c.Ob(rule, key, fn.Pos(), fname, core.Discharged, "every error returned after a write comes from a call that receives the writer")
		} else {
			c.Ob(rule, key, fn.Pos(), fname, core.Violated, bad+": the command fails with a partial report on stdout")
		}
	}
	c.Floor(rule, 3)
}
