package rules

import (
	"fmt"
	"go/token"
	"go/types"
	"sort"
	"strings"

	"golang.org/x/tools/go/ssa"

	"knutlint/core"
)

// orderScopeUses: commands whose output C06 (and C05/C09/C12/C15/C20) speak
// about. Importers are added by package.
var orderScopeUses = map[string]bool{
	"balance": true, "print": true, "check": true, "transcode": true, "infer": true, "format": true,
	"weights": true, "returns": true,
}

// orderExceptions — reviewed instances (DESIGN.md 2.A "frozen exception
// table"): key = function + symbol, value = the reason why the flagged effect
// is order-free after all. No wildcards.
var orderExceptions = map[string]string{
	"(*lib/journal.Builder).Add:overwrite variable param j.min": "running minimum guarded by j.min.After(t.Date); the stored d.Date is the date of the Day looked up for t.Date, i.e. the same instant",
	"lib/reports/balance.setAccounts:first-wins variable acc":   "acc is the parent path of a child's account; all children of one node share that parent path, so every candidate is the same interned account",
}

func originName(fn *ssa.Function) string {
	if o := fn.Origin(); o != nil {
		return core.FuncName(o)
	}
	// closures of instantiated generics: strip type arguments
	s := core.FuncName(fn)
	if i := strings.Index(s, "["); i >= 0 {
		if j := strings.LastIndex(s, "]"); j > i {
			s = s[:i] + s[j+1:]
		}
	}
	return s
}

type sliceTaint struct {
	why  string
	from ssa.Value
}

type orderFlow struct {
	oa            *orderAnalysis
	c             *core.Ctx
	rule          string
	scope         map[*ssa.Function]bool
	tainted       map[ssa.Value]string
	work          []ssa.Value
	fields        map[*types.Var]string
	fieldLoads    map[*types.Var][]ssa.Value
	callers       map[*ssa.Function][]ssa.CallInstruction
	doneIter      map[*ssa.BasicBlock]bool
	fieldTaintFns map[*types.Var][]*ssa.Function
	nIter, nSorts int
	sanDepth      int
}

func (of *orderFlow) taint(v ssa.Value, why string) {
	if v == nil {
		return
	}
	if _, ok := of.tainted[v]; ok {
		return
	}
	of.tainted[v] = why
	of.work = append(of.work, v)
}

// sortedBefore: use u of slice v is dominated by a total sort of v.
func (of *orderFlow) sortedBefore(v ssa.Value, u ssa.Instruction) bool {
	fn := u.Parent()
	ok := false
	core.EachInstr(fn, func(ins ssa.Instruction) {
		if ok {
			return
		}
		call, isCall := ins.(*ssa.Call)
		if !isCall {
			return
		}
		callee := call.Call.StaticCallee()
		if callee == nil {
			return
		}
		spec, isSort := sortSpecOf(callee)
		if !isSort || spec.slice >= len(call.Call.Args) {
			return
		}
		if !of.oa.p.SameExpr(core.Strip(call.Call.Args[spec.slice]), v) {
			return
		}
		if ins != u && core.Dominates(call, u) {
			ok = true
		}
	})
	return ok
}

func (of *orderFlow) inScope(fn *ssa.Function) bool {
	if of.scope[fn] {
		return true
	}
	// generic origins and their instantiations share a body
	if o := fn.Origin(); o != nil && of.scope[o] {
		return true
	}
	return false
}

// analyseIteration runs the region classifier on one unordered iteration and
// records obligations.
func (of *orderFlow) analyseIteration(it *iteration) {
	if of.doneIter[it.header] {
		return
	}
	of.doneIter[it.header] = true
	c, p := of.c, of.oa.p
	fname := originName(it.fn)
	what := it.what
	if !of.inScope(it.fn) {
		c.Ob(of.rule, fname+":"+what, it.pos, fname, core.Info, "unordered iteration not reachable from the listed commands (fetch, register, completion, debug String methods)")
		return
	}
	if of.isDayProcessorLoop(it) {
		c.Ob(of.rule, fname+":"+what, it.pos, fname, core.Info, "the day processor's loop over a per-kind slice: its callbacks are analysed per Journal.Process call, stage by stage (A-stage)")
		return
	}
	if why := of.sanitisedByProcess(it); why != "" {
		of.nIter++
		c.Ob(of.rule, fname+":"+what, it.pos, fname, core.Discharged, why)
		return
	}
	of.nIter++
	res := of.oa.analyseRegion(it.region())
	base := fname + ":" + what
	if len(res.effects) == 0 {
		detail := "every effect of the loop body is order-free (commutative exact accumulation, set insertion, element-local writes, appends to a bag)"
		if len(res.notes) > 0 {
			detail += "; " + strings.Join(uniq(res.notes), "; ")
		}
		c.Ob(of.rule, base, it.pos, fname, core.Discharged, detail)
	}
	seenSym := map[string]bool{}
	for _, e := range res.effects {
		key := base + ":" + e.kind + " " + e.symbol
		if seenSym[key] {
			continue
		}
		seenSym[key] = true
		exKey := originName(e.fn) + ":" + e.kind + " " + e.symbol
		if reason, ok := orderExceptions[exKey]; ok {
			c.Ob(of.rule, key, e.pos, fname, core.Discharged, "reviewed exception: "+reason)
			continue
		}
		v := core.Violated
		if e.kind == "unknown-call" {
			v = core.Undecided
		}
		src := what
		if it.why != "" {
			src += " (" + it.why + ")"
		}
		c.Ob(of.rule, key, e.pos, fname, v, src+": "+e.detail+" [in "+originName(e.fn)+" at "+p.Pos(e.pos)+"]")
	}
	for _, t := range res.taints {
		switch {
		case t.phi != nil:
			of.taint(t.phi, "filled in "+what+" in "+fname)
		case t.val != nil:
			of.taint(t.val, "filled cell by cell in "+what+" in "+fname)
		case t.field != nil:
			of.fieldTaintFns[t.field] = append(of.fieldTaintFns[t.field], t.fn)
			of.taintField(t.field, "appended to in "+what+" in "+originName(t.fn))
		case t.cell != nil:
			of.taintCell(t.cell, "appended to in "+what+" in "+originName(t.fn))
		}
	}
}

func (of *orderFlow) taintField(fv *types.Var, why string) {
	if _, ok := of.fields[fv]; ok {
		return
	}
	of.fields[fv] = why
	for _, ld := range of.fieldLoads[fv] {
		of.taint(ld, "field "+of.oa.p.FieldRef(fv)+" "+why)
	}
}

func (of *orderFlow) taintCell(cell ssa.Value, why string) {
	var visit func(addr ssa.Value)
	seen := map[ssa.Value]bool{}
	visit = func(addr ssa.Value) {
		if seen[addr] || addr.Referrers() == nil {
			return
		}
		seen[addr] = true
		for _, r := range *addr.Referrers() {
			switch x := r.(type) {
			case *ssa.UnOp:
				if x.Op == token.MUL {
					of.taint(x, why)
				}
			case *ssa.MakeClosure:
				fn := x.Fn.(*ssa.Function)
				for i, b := range x.Bindings {
					if b == addr && i < len(fn.FreeVars) {
						visit(fn.FreeVars[i])
					}
				}
			}
		}
	}
	// walk up to the defining cell when given a free variable
	if fv, ok := cell.(*ssa.FreeVar); ok {
		fn := fv.Parent()
		for i, f := range fn.FreeVars {
			if f != fv || fn.Parent() == nil {
				continue
			}
			core.EachInstr(fn.Parent(), func(ins ssa.Instruction) {
				if mc, ok := ins.(*ssa.MakeClosure); ok && mc.Fn == fn && i < len(mc.Bindings) {
					of.taintCell(mc.Bindings[i], why)
				}
			})
		}
	}
	visit(cell)
}

func (of *orderFlow) run() {
	p := of.oa.p
	c := of.c
	for len(of.work) > 0 {
		v := of.work[len(of.work)-1]
		of.work = of.work[:len(of.work)-1]
		why := of.tainted[v]
		if v.Referrers() == nil {
			continue
		}
		fn := v.Parent()
		// loops over v in this function
		for _, it := range sliceRangesOver(p, fn, func(s ssa.Value) (bool, string) {
			if s != v {
				return false, ""
			}
			return true, why
		}) {
			if of.sortedBefore(v, it.header.Instrs[len(it.header.Instrs)-1]) {
				continue
			}
			of.analyseIteration(it)
		}
		if of.isDayProcessorValue(v) {
			// the day processor hands the per-kind slices of its day to the callbacks
			// of one stage, directly or through helper methods: that dispatch is
			// modelled stage by stage (A-stage), not as a flow of the slice
			continue
		}
		for _, r := range *v.Referrers() {
			if of.sortedBefore(v, r) {
				continue
			}
			if of.loadSanitisedByProcess(v, fn, r) != "" {
				continue // sorted by a stage of a Process call that dominates this use
			}
			fname := originName(r.Parent())
			switch x := r.(type) {
			case *ssa.Phi:
				of.taint(x, why)
			case *ssa.ChangeType:
				of.taint(x, why)
			case *ssa.Slice:
				of.taint(x, why)
			case *ssa.Return:
				// function returns an unordered slice: callers' results
				callee := x.Parent()
				idx := -1
				for i, res := range x.Results {
					if res == v {
						idx = i
					}
				}
				condParam := of.sortedIfParamNonNil(v, x)
				nilOnly := returnOnlyIfParamNil(x)
				for _, site := range of.callersOf(callee) {
					val, ok := site.(ssa.Value)
					if !ok {
						continue
					}
					if nilOnly >= 0 && nilOnly < len(site.Common().Args) && core.FuncValue(site.Common().Args[nilOnly]) != nil {
						// this return is taken only when the comparator parameter is nil, and
						// this caller passes a function: it receives the sorted result instead
						continue
					}
					if condParam >= 0 && condParam < len(site.Common().Args) && core.FuncValue(site.Common().Args[condParam]) != nil {
						// the callee sorts v whenever this comparator argument is non-nil,
						// and this caller passes a function: the comparator is judged by A-sort
						of.checkSortVia(callee, v, site, why)
						continue
					}
					w := "returned unordered by " + originName(callee) + " (" + why + ")"
					if callee.Signature.Results().Len() == 1 {
						of.taint(val, w)
					} else if val.Referrers() != nil {
						for _, rr := range *val.Referrers() {
							if ex, ok := rr.(*ssa.Extract); ok && ex.Index == idx {
								of.taint(ex, w)
							}
						}
					}
				}
			case *ssa.Store:
				if x.Val != v {
					continue
				}
				switch a := x.Addr.(type) {
				case *ssa.FieldAddr:
					of.taintField(core.FieldOf(a), "assigned an unordered slice in "+fname+" ("+why+")")
				case *ssa.Alloc, *ssa.FreeVar, *ssa.Global:
					of.taintCell(a, why)
				case *ssa.IndexAddr:
					// stored as an element of another slice/array (variadic argument): follow the container
					if al, ok := a.X.(*ssa.Alloc); ok && al.Referrers() != nil {
						for _, rr := range *al.Referrers() {
							if sl, ok := rr.(*ssa.Slice); ok {
								_ = sl
							}
						}
					}
				}
			case *ssa.Index, *ssa.IndexAddr:
				// handled by loops above; constant index is order-sensitive
				var idx ssa.Value
				if ia, ok := x.(*ssa.IndexAddr); ok {
					idx = ia.Index
				} else {
					idx = x.(*ssa.Index).Index
				}
				if _, isConst := idx.(*ssa.Const); isConst && of.inScope(r.Parent()) {
					c.Ob(of.rule, fname+":index into unordered slice", core.NearPos(r), fname, core.Violated,
						"a fixed element of an unordered slice is selected ("+why+")")
				}
			case ssa.CallInstruction:
				cc := x.Common()
				if b, ok := cc.Value.(*ssa.Builtin); ok {
					switch b.Name() {
					case "len", "cap":
					case "append":
						if val, ok := x.(ssa.Value); ok {
							of.taint(val, why)
						}
					case "copy":
						if len(cc.Args) == 2 && cc.Args[1] == v {
							of.taint(cc.Args[0], why)
						}
					}
					continue
				}
				for _, callee := range p.Callees(x) {
					if spec, ok := sortSpecOf(callee); ok {
						args := cc.Args
						if spec.slice < len(args) && (args[spec.slice] == v || core.Strip(args[spec.slice]) == v) {
							of.checkSort(x, callee, spec, why)
						}
						continue
					}
					args := cc.Args
					off := 0
					if cc.IsInvoke() {
						off = 1
					}
					for i, a := range args {
						if a != v {
							continue
						}
						if callee.Blocks == nil || !p.InModule(callee) {
							if externalPure(callee) {
								// e.g. strings.Join(unordered): result text depends on order
								if callee.Pkg != nil && callee.Pkg.Pkg.Path() == "strings" && callee.Name() == "Join" && of.inScope(r.Parent()) {
									c.Ob(of.rule, fname+":strings.Join of unordered slice", core.NearPos(r), fname, core.Violated,
										"an unordered slice is joined into text ("+why+")")
								}
								continue
							}
							if of.inScope(r.Parent()) {
								c.Ob(of.rule, fname+":unordered slice passed to "+shortFn(callee), core.NearPos(r), fname, core.Undecided,
									"an unordered slice ("+why+") is handed to external function "+shortFn(callee)+" whose use of the order is unknown")
							}
							continue
						}
						if i+off < len(callee.Params) {
							of.taint(callee.Params[i+off], why+", passed to "+originName(callee))
						}
					}
				}
			case *ssa.MakeInterface:
				of.taint(x, why) // e.g. the `any` argument of sort.Slice
			case *ssa.MakeClosure:
				if of.inScope(r.Parent()) {
					c.Ob(of.rule, fname+":unordered slice escapes", core.NearPos(r), fname, core.Undecided,
						"an unordered slice ("+why+") is converted to an interface or captured by a closure; its later uses are not tracked")
				}
			}
		}
	}
}

func (of *orderFlow) callersOf(fn *ssa.Function) []ssa.CallInstruction {
	res := of.callers[fn]
	if o := fn.Origin(); o != nil {
		// instantiations are called, the origin is not
	}
	return res
}

// checkSort: a sort that receives unordered data must use a comparator that
// is total for what is later printed. Each comparator the sort may receive
// (resolved through up to 3 caller levels) is judged on its own.
func (of *orderFlow) checkSort(call ssa.CallInstruction, callee *ssa.Function, spec sortSpec, why string) {
	c := of.c
	fn := call.Parent()
	fname := originName(fn)
	if core.PkgPathOf(fn) == pkgCompare {
		// compare.Sort's own sort.Slice call wraps the caller's comparator:
		// the obligation is carried by the caller of compare.Sort.
		return
	}
	if !of.inScope(fn) {
		return
	}
	of.nSorts++
	if spec.cmp < 0 {
		c.Ob("A-sort", fname+":natural-order sort", call.Pos(), fname, core.Discharged, "sort by the natural order of a basic type (total)")
		return
	}
	elem := sliceElemType(core.Strip(call.Common().Args[spec.slice]).Type())
	alts := of.oa.comparatorAlts(call.Common().Args[spec.cmp], 3, fname)
	if len(alts) == 0 {
		c.Ob("A-sort", fname+":sort with unresolved comparator", call.Pos(), fname, core.Undecided,
			"the comparator of this sort could not be resolved to a function within 3 caller levels")
		return
	}
	for _, alt := range alts {
		if alt.siteFn != nil && !of.inScope(alt.siteFn) {
			continue // comparator supplied by a command outside the listed ones
		}
		verdict, detail := of.comparatorTotal(alt.funcs, elem)
		if verdict != core.Discharged {
			if ok, why := of.keyIdentity(alt, elem); ok {
				verdict, detail = core.Discharged, why
			}
		}
		key := fmt.Sprintf("%s:sort of %s by %s", alt.site, typeShort(elem), originName(alt.funcs[0]))
		if ex, ok := orderExceptions[alt.site+":sort by "+originName(alt.funcs[0])]; ok && verdict != core.Discharged {
			c.Ob("A-sort", key, call.Pos(), fname, core.Discharged, "reviewed exception: "+ex)
			continue
		}
		c.Ob("A-sort", key, alt.pos, alt.site, verdict, detail+" [sorted in "+fname+"; data: "+why+"]")
	}
}

func sliceElemType(t types.Type) types.Type {
	if s, ok := t.Underlying().(*types.Slice); ok {
		return s.Elem()
	}
	return t
}

func typeShort(t types.Type) string {
	return types.TypeString(t, func(p *types.Package) string {
		return p.Name()
	})
}

// comparatorTotal decides whether the comparator (given by the functions it
// may denote, including wrapped comparators) is total for elements of type
// elem: it compares an identity key of the element, or it reads every field
// the journal printer prints for that element type.
func (of *orderFlow) comparatorTotal(funcs []*ssa.Function, elem types.Type) (core.Verdict, string) {
	p := of.oa.p
	read := map[string]bool{}
	seen := map[*ssa.Function]bool{}
	for _, f := range funcs {
		of.oa.fieldsRead(f, seen, read)
	}
	// basic element types: any comparison of the values themselves is total if it is a known total comparator
	switch u := elem.Underlying().(type) {
	case *types.Basic:
		// … if the comparator compares the values themselves: a comparator of the
		// module that compares something looked up or computed from them (a count
		// per name, a length) leaves distinct values with equal keys in input order
		for f := range seen {
			if !p.InModule(f) || f.Blocks == nil {
				continue
			}
			if bad := basicOperandTransformed(p, f); bad != "" {
				return core.Violated, "comparator " + originName(f) + " does not compare the elements themselves but " + bad + ": distinct elements can compare equal, and ties keep the unspecified input order"
			}
		}
		if u.Info()&types.IsFloat != 0 {
			return core.Discharged, "elements are numbers compared by value"
		}
		return core.Discharged, "elements are basic values compared by value"
	}
	if n, ok := types.Unalias(elem).(*types.Named); ok && n.Obj().Pkg() != nil && n.Obj().Pkg().Path() == "time" && n.Obj().Name() == "Time" {
		return core.Discharged, "elements are time.Time values compared by value"
	}
	// branch discipline: the comparator must be lexicographic, and it must
	// compare the keys themselves, not a (possibly non-injective) function of them
	for f := range seen {
		if !p.InModule(f) {
			continue
		}
		if bad := transformedOperand(p, f); bad != "" {
			return core.Violated, "comparator " + originName(f) + " compares a transformed key (" + bad + "): distinct keys can compare equal, and ties keep the unspecified input order"
		}
		if bad := nonLexicographicBranch(p, f); bad != "" {
			return core.Violated, "comparator " + originName(f) + " is not a lexicographic chain (" + bad + "): equality of the compared keys cannot be concluded from a result of Equal"
		}
	}
	var reads []string
	for k := range read {
		reads = append(reads, k)
	}
	sort.Strings(reads)
	for _, k := range sortedKeys(identityFields) {
		all := true
		for _, part := range strings.Split(k, "+") {
			if !read[part] {
				all = false
			}
		}
		if all && identityApplies(k, elem) {
			return core.Discharged, "comparator reads identity key " + k + " (" + identityFields[k] + ")"
		}
	}
	// printed ⊆ compared
	printed, printer := of.printedFields(elem)
	if printer == "" {
		return core.Violated, "comparator reads {" + strings.Join(reads, ", ") + "}: no identity key of " + typeShort(elem) + " among them, and no printer is known for that type to compare against — ties are left in the unspecified input order"
	}
	var missing []string
	for _, f := range printed {
		if !read[f] {
			missing = append(missing, f)
		}
	}
	if len(missing) == 0 {
		return core.Discharged, "comparator reads every field that " + printer + " prints (" + strings.Join(printed, ", ") + ")"
	}
	return core.Violated, "comparator does not read " + strings.Join(missing, ", ") + ", which " + printer + " prints: elements that differ only there compare equal and keep their unspecified input order"
}

// identityApplies: the identity key belongs to the element type (directly, or
// the element is a pointer to / struct of that type).
func identityApplies(key string, elem types.Type) bool {
	owner := strings.Split(strings.Split(key, "+")[0], ".")[0]
	t := elem
	if pt, ok := t.Underlying().(*types.Pointer); ok {
		t = pt.Elem()
	}
	if n, ok := types.Unalias(t).(*types.Named); ok {
		return n.Obj().Name() == owner
	}
	return false
}

// nonLexicographicBranch returns a description of the first branch in a
// comparator that is not of the forms: result-of-comparison (!= | ==) Equal,
// a.f (!= | ==) b.f, index-loop condition.
func nonLexicographicBranch(p *core.Prog, f *ssa.Function) string {
	if f.Blocks == nil {
		return ""
	}
	allowed := branchExceptions[originName(f)]
	for _, b := range f.Blocks {
		iff, ok := b.Instrs[len(b.Instrs)-1].(*ssa.If)
		if !ok {
			continue
		}
		switch cnd := iff.Cond.(type) {
		case *ssa.BinOp:
			switch cnd.Op {
			case token.EQL, token.NEQ, token.LSS, token.GTR, token.LEQ, token.GEQ:
				_, cx := cnd.X.(*ssa.Const)
				_, cy := cnd.Y.(*ssa.Const)
				switch {
				case !cx && !cy:
					continue // projection of a against projection of b, or a loop bound
				case cx && isComparisonResult(cnd.Y), cy && isComparisonResult(cnd.X):
					continue // o != Equal
				case cx && core.IsNilConst(cnd.X), cy && core.IsNilConst(cnd.Y):
					continue // nil-ness of a compared projection
				}
			}
		case *ssa.Call:
			// t1.Equal(t2), t1.Before(t2), d1.LessThan(d2) ...
			if callee := cnd.Call.StaticCallee(); callee != nil && !p.InModule(callee) && len(cnd.Call.Args) == 2 {
				continue
			}
		}
		if _, ok := allowed[describeValue(p, iff.Cond)]; ok {
			continue
		}
		if isRootLevelTest(p, iff.Cond, 0) {
			continue
		}
		return "branch at " + p.Pos(core.NearPos(iff)) + " on " + describeValue(p, iff.Cond)
	}
	return ""
}

// isRootLevelTest: cond tests that an account is a first-level account
// (Level() == 1), directly or through a module helper that is a conjunction of
// such tests. Reviewed once for all comparators: first-level accounts are the
// five roots, which are in bijection with the account types (account.types), so
// a branch that compares the types of two root accounts is total on its
// domain; every other pair falls through to the rest of the comparator, which
// still has to read an identity key.
func isRootLevelTest(p *core.Prog, cond ssa.Value, depth int) bool {
	switch x := cond.(type) {
	case *ssa.Extract:
		// the boolean result of a helper (o, ok := compareTopLevel(a, b))
		if call, ok := x.Tuple.(*ssa.Call); ok {
			return isRootLevelTest(p, call, depth)
		}
		return false
	case *ssa.UnOp:
		if x.Op == token.NOT {
			return isRootLevelTest(p, x.X, depth)
		}
		return false
	case *ssa.BinOp:
		if x.Op != token.EQL && x.Op != token.NEQ {
			return false
		}
		call, k := x.X, x.Y
		if _, isC := call.(*ssa.Const); isC {
			call, k = k, call
		}
		cl, ok := call.(*ssa.Call)
		n, okN := core.ConstInt(k)
		if !ok || !okN || n != 1 || cl.Call.StaticCallee() == nil {
			return false
		}
		callee := cl.Call.StaticCallee()
		return core.PkgPathOf(callee) == pkgAccount && callee.Name() == "Level"
	case *ssa.Call:
		callee := x.Call.StaticCallee()
		if callee == nil || callee.Blocks == nil || !p.InModule(callee) || depth > 1 {
			return false
		}
		// every branch condition of the helper is a root-level test and it returns only
		// booleans derived from them
		okAll, any := true, false
		for _, b := range callee.Blocks {
			switch t := b.Instrs[len(b.Instrs)-1].(type) {
			case *ssa.If:
				any = true
				if !isRootLevelTest(p, t.Cond, depth+1) {
					okAll = false
				}
			case *ssa.Return:
				for _, rv := range t.Results {
					if b, isBool := rv.Type().Underlying().(*types.Basic); !isBool || b.Kind() != types.Bool {
						continue // the comparison result that accompanies the flag
					}
					switch r := rv.(type) {
					case *ssa.Const, *ssa.Phi:
					case *ssa.BinOp:
						any = true
						if !isRootLevelTest(p, r, depth+1) {
							okAll = false
						}
					default:
						okAll = false
					}
				}
			}
		}
		return okAll && any
	}
	return false
}

// branchExceptions — reviewed branches inside comparators (function ->
// condition -> reason). Only the branch is excused; the comparator still has
// to read an identity key or every printed field.
var branchExceptions = map[string]map[string]string{}

// isComparisonResult: v is the int result of a two-argument comparison call
// (possibly through a phi of such results).
func isComparisonResult(v ssa.Value) bool {
	switch x := v.(type) {
	case *ssa.Call:
		if b, ok := x.Type().Underlying().(*types.Basic); !ok || b.Info()&types.IsInteger == 0 {
			return false
		}
		n := len(x.Call.Args)
		return n >= 2
	case *ssa.Phi:
		for _, e := range x.Edges {
			if !isComparisonResult(e) {
				return false
			}
		}
		return true
	}
	return false
}

// printedFields: the fields the journal printer reads for element type elem
// (resolved through the type switch of Printer.PrintDirective).
func (of *orderFlow) printedFields(elem types.Type) ([]string, string) {
	p := of.oa.p
	pd := p.Func(pkgJPrinter, "Printer.PrintDirective")
	if pd == nil {
		return nil, ""
	}
	t := elem
	var target *ssa.Function
	core.EachInstr(pd, func(ins ssa.Instruction) {
		call, ok := ins.(*ssa.Call)
		if !ok {
			return
		}
		callee := call.Call.StaticCallee()
		if callee == nil || len(call.Call.Args) < 2 {
			return
		}
		if types.Identical(call.Call.Args[1].Type(), t) {
			target = callee
		}
	})
	if target == nil {
		// model.Balance is printed inside printAssertion
		if n, ok := types.Unalias(elem).(*types.Named); ok && n.Obj().Name() == "Balance" && n.Obj().Pkg().Path() == pkgAssertion {
			return []string{"Balance.Account", "Balance.Commodity", "Balance.Quantity"}, "journal/printer.printAssertion"
		}
		return nil, ""
	}
	read := map[string]bool{}
	of.oa.fieldsRead(target, map[*ssa.Function]bool{}, read)
	var res []string
	for k := range read {
		if strings.HasPrefix(k, "Printer.") || strings.HasPrefix(k, "?.") {
			continue
		}
		// fields of interned objects below the element are covered by the identity of those objects
		switch strings.Split(k, ".")[0] {
		case "Account", "Commodity", "Decimal":
			continue
		}
		res = append(res, k)
	}
	sort.Strings(res)
	return res, originName(target)
}

// RuleAOrder — family A driver: every range over a map and every loop over a
// slice derived from one, in the code reachable from the listed commands.
func RuleAOrder(c *core.Ctx) {
	const rule = "A-order"
	p := c.P
	oa := newOrderAnalysis(c)
	var entries []*ssa.Function
	for _, cmd := range core.Commands(c) {
		if cmd.Run == nil {
			continue
		}
		if orderScopeUses[cmd.Use] || core.IsImporterCmd(cmd) {
			entries = append(entries, cmd.Run)
		}
	}
	if len(entries) < 15 {
		c.Anchor(rule, fmt.Sprintf("command entries (found %d, expected 8 commands + 11 importers)", len(entries)))
		return
	}
	scope := p.ReachLexical(entries...)
	of := &orderFlow{oa: oa, c: c, rule: rule, scope: scope, tainted: map[ssa.Value]string{}, fields: map[*types.Var]string{},
		fieldLoads: map[*types.Var][]ssa.Value{}, callers: map[*ssa.Function][]ssa.CallInstruction{}, doneIter: map[*ssa.BasicBlock]bool{},
		fieldTaintFns: map[*types.Var][]*ssa.Function{}}
	var all []*ssa.Function
	for _, fn := range p.SrcFuncs() {
		all = append(all, fn)
	}
	for _, fn := range all {
		core.EachInstr(fn, func(ins ssa.Instruction) {
			switch x := ins.(type) {
			case *ssa.UnOp:
				if x.Op == token.MUL {
					if fa, ok := x.X.(*ssa.FieldAddr); ok {
						fv := core.FieldOf(fa)
						of.fieldLoads[fv] = append(of.fieldLoads[fv], x)
					}
				}
			case *ssa.Field:
				fv := core.FieldOf(x)
				of.fieldLoads[fv] = append(of.fieldLoads[fv], x)
			case ssa.CallInstruction:
				for _, callee := range p.Callees(x) {
					if p.InModule(callee) {
						of.callers[callee] = append(of.callers[callee], x)
					}
				}
			}
		})
	}
	for _, fn := range all {
		if fn.Origin() != nil && fn.Origin() != fn {
			// instantiation: analysed (types are concrete), keyed by origin name
		} else if fn.TypeParams().Len() > 0 {
			continue // uninstantiated generic body: its instances are analysed
		}
		for _, it := range mapRanges(p, fn) {
			of.analyseIteration(it)
		}
	}
	of.analyseArrivalCallbacks()
	of.run()
	of.analysePipelines()
	of.run()
	c.Note("%s: %d unordered iterations analysed in scope, %d sorts of unordered data checked, %d unordered slice values, %d unordered fields",
		rule, of.nIter, of.nSorts, len(of.tainted), len(of.fields))
	for fv, why := range of.fields {
		c.Ob(rule, "unordered field "+p.FieldRef(fv), token.NoPos, "", core.Info, why)
	}
	c.Floor(rule, 15)
	c.Floor("A-sort", 5)
}

// keyIdentity: a sort of amounts.Key values obtained from m.Index(cmp). The
// comparator is total on those keys if every key ever inserted into m is
// built by a constructor (amounts.DateCommodityKey, AccountCommodityKey, ...)
// that sets only fields the comparator reads.
func (of *orderFlow) keyIdentity(alt cmpAlt, elem types.Type) (bool, string) {
	p := of.oa.p
	keyT := p.NamedType(pkgAmounts, "Key")
	if keyT == nil || !isNamed(elem, keyT) || alt.via == nil {
		return false, ""
	}
	callee := alt.via.Common().StaticCallee()
	if callee == nil || originName(callee) != "(lib/amounts.Amounts).Index" {
		return false, ""
	}
	m := alt.via.Common().Args[0]
	read := map[string]bool{}
	seen := map[*ssa.Function]bool{}
	for _, f := range alt.funcs {
		of.oa.fieldsRead(f, seen, read)
	}
	// the map: a struct field or a captured/local map value
	var isSameMap func(v ssa.Value) bool
	switch x := core.Strip(m).(type) {
	case *ssa.UnOp:
		fa, ok := x.X.(*ssa.FieldAddr)
		if !ok {
			return false, ""
		}
		fv := core.FieldOf(fa)
		isSameMap = func(v ssa.Value) bool {
			ld, ok := core.Strip(v).(*ssa.UnOp)
			if !ok {
				return false
			}
			fa2, ok := ld.X.(*ssa.FieldAddr)
			return ok && core.FieldOf(fa2) == fv
		}
	default:
		return false, ""
	}
	addFn := p.Func(pkgAmounts, "Amounts.Add")
	writers := 0
	var bad []string
	checkKey := func(k ssa.Value, pos token.Pos) {
		writers++
		call, ok := core.Strip(k).(*ssa.Call)
		if !ok {
			bad = append(bad, "key at "+p.Pos(pos)+" is not built by a key constructor")
			return
		}
		ctor := call.Call.StaticCallee()
		if ctor == nil || core.PkgPathOf(ctor) != pkgAmounts {
			bad = append(bad, "key at "+p.Pos(pos)+" is not built by an amounts key constructor")
			return
		}
		for _, f := range keyFieldsSet(p, ctor) {
			if !read[f] {
				bad = append(bad, ctor.Name()+" sets "+f+", which the comparator does not read")
			}
		}
	}
	for _, fn := range p.SrcFuncs() {
		core.EachInstr(fn, func(ins ssa.Instruction) {
			switch x := ins.(type) {
			case *ssa.MapUpdate:
				if isSameMap(x.Map) {
					checkKey(x.Key, x.Pos())
				}
			case *ssa.Call:
				if x.Call.StaticCallee() == addFn && isSameMap(x.Call.Args[0]) {
					checkKey(x.Call.Args[1], x.Pos())
				}
			}
		})
	}
	if writers == 0 || len(bad) > 0 {
		return false, ""
	}
	return true, fmt.Sprintf("elements are keys of %s; every key inserted into that map (%d sites) is built by a constructor that sets only fields the comparator reads", describeValue(p, m), writers)
}

// keyFieldsSet: the Key fields a constructor function stores into its result.
func keyFieldsSet(p *core.Prog, ctor *ssa.Function) []string {
	var res []string
	core.EachInstr(ctor, func(ins ssa.Instruction) {
		if st, ok := ins.(*ssa.Store); ok {
			if fa, ok := st.Addr.(*ssa.FieldAddr); ok {
				res = append(res, p.FieldRef(core.FieldOf(fa)))
			}
		}
	})
	return res
}

// sortedIfParamNonNil: in the function returning slice v at ret, v is sorted
// by a call that executes exactly when a function-typed parameter is non-nil
// (`if cmp != nil { sort(v, cmp) }`). Returns that parameter's index or -1.
// returnOnlyIfParamNil: the return is control-dependent on `param == nil`
// (taken on the nil side only); returns the parameter's index, -1 otherwise.
func returnOnlyIfParamNil(ret *ssa.Return) int {
	fn := ret.Parent()
	for _, b := range fn.Blocks {
		iff, ok := b.Instrs[len(b.Instrs)-1].(*ssa.If)
		if !ok {
			continue
		}
		ctl, side := core.Controls(b, ret.Block())
		if !ctl {
			continue
		}
		bo, ok := iff.Cond.(*ssa.BinOp)
		if !ok || (bo.Op != token.EQL && bo.Op != token.NEQ) {
			continue
		}
		v := bo.X
		if core.IsNilConst(v) {
			v = bo.Y
		} else if !core.IsNilConst(bo.Y) {
			continue
		}
		prm, ok := v.(*ssa.Parameter)
		if !ok {
			continue
		}
		nilSide := 0
		if bo.Op == token.NEQ {
			nilSide = 1
		}
		if side != nilSide {
			continue
		}
		for i, q := range fn.Params {
			if q == prm {
				return i
			}
		}
	}
	return -1
}

func (of *orderFlow) sortedIfParamNonNil(v ssa.Value, ret *ssa.Return) int {
	fn := ret.Parent()
	res := -1
	core.EachInstr(fn, func(ins ssa.Instruction) {
		call, ok := ins.(*ssa.Call)
		if !ok || res >= 0 {
			return
		}
		callee := call.Call.StaticCallee()
		if callee == nil {
			return
		}
		spec, isSort := sortSpecOf(callee)
		if !isSort || spec.cmp < 0 || !of.oa.p.SameExpr(call.Call.Args[spec.slice], v) {
			return
		}
		b := call.Block()
		if len(b.Preds) != 1 {
			return
		}
		pred := b.Preds[0]
		iff, ok := pred.Instrs[len(pred.Instrs)-1].(*ssa.If)
		if !ok || !pred.Dominates(ret.Block()) {
			return
		}
		for _, f := range core.DecodeCond(iff) {
			prm, isParam := f.X.(*ssa.Parameter)
			if f.Kind != "nil" || !isParam {
				continue
			}
			nonNil := pred.Succs[1]
			if !f.ZeroOnTrue {
				nonNil = pred.Succs[0]
			}
			if nonNil != b || core.Strip(call.Call.Args[spec.cmp]) != ssa.Value(prm) {
				continue
			}
			for i, q := range fn.Params {
				if q == prm {
					res = i
				}
			}
		}
	})
	return res
}

// checkSortVia records the A-sort obligation for a conditional sort inside
// callee, for the comparator a particular call site passes.
func (of *orderFlow) checkSortVia(callee *ssa.Function, v ssa.Value, site ssa.CallInstruction, why string) {
	core.EachInstr(callee, func(ins ssa.Instruction) {
		call, ok := ins.(*ssa.Call)
		if !ok {
			return
		}
		c := call.Call.StaticCallee()
		if c == nil {
			return
		}
		if spec, isSort := sortSpecOf(c); isSort && spec.slice < len(call.Call.Args) && of.oa.p.SameExpr(call.Call.Args[spec.slice], v) {
			of.checkSort(call, c, spec, why)
		}
	})
}

// sortersOf: constructor functions of journal processors one of whose
// per-day callbacks sorts field fv of its Day parameter.
func (of *orderFlow) sortersOf(fv *types.Var) map[*ssa.Function]bool {
	res := map[*ssa.Function]bool{}
	p := of.oa.p
	for _, fn := range p.SrcFuncs() {
		if fn.Parent() == nil {
			continue
		}
		if len(fn.Params) != 1 {
			continue
		}
		core.EachInstr(fn, func(ins ssa.Instruction) {
			call, ok := ins.(*ssa.Call)
			if !ok {
				return
			}
			callee := call.Call.StaticCallee()
			if callee == nil {
				return
			}
			spec, isSort := sortSpecOf(callee)
			if !isSort {
				return
			}
			ld, ok := call.Call.Args[spec.slice].(*ssa.UnOp)
			if !ok {
				return
			}
			fa, ok := ld.X.(*ssa.FieldAddr)
			if !ok || core.FieldOf(fa) != fv || fa.X != ssa.Value(fn.Params[0]) {
				return
			}
			res[core.Outermost(fn)] = true
		})
	}
	return res
}

// sanitisedByProcess: the iteration ranges over a per-day slice field of the
// days of journal j, and a j.Process(...) call whose processors include a
// sorter of that field (and no later tainter) dominates the loop.
func (of *orderFlow) sanitisedByProcess(it *iteration) string {
	return of.loadSanitisedByProcess(it.source, it.fn, it.header.Instrs[len(it.header.Instrs)-1])
}

// loadSanitisedByProcess: v is a load of a tainted per-kind field of a day of
// journal j, and a j.Process(...) call whose stages leave that field totally
// sorted dominates the instruction `at` in fn.
func (of *orderFlow) loadSanitisedByProcess(v ssa.Value, fn *ssa.Function, at ssa.Instruction) string {
	ld, ok := v.(*ssa.UnOp)
	if !ok {
		return ""
	}
	fa, ok := ld.X.(*ssa.FieldAddr)
	if !ok {
		return ""
	}
	return of.daySanitisedAt(fa.X, core.FieldOf(fa), fn, at)
}

// daySanitisedAt: day is a *Day of journal j, and a j.Process(...) call whose
// stages leave the per-kind field fv of the days totally sorted dominates the
// instruction `at` in fn (or, when the day is a parameter of fn, dominates
// every call of fn).
func (of *orderFlow) daySanitisedAt(day ssa.Value, fv *types.Var, fn *ssa.Function, at ssa.Instruction) string {
	p := of.oa.p
	fa := struct{ X ssa.Value }{day}
	if _, tainted := of.fields[fv]; !tainted {
		return ""
	}
	processFn := p.Func(pkgJournal, "Journal.Process")
	daysField := p.Field(pkgJournal, "Journal", "Days")
	if processFn == nil || daysField == nil {
		return ""
	}
	// the journal the day comes from
	var journal ssa.Value
	var dayParam *ssa.Parameter
	w := &core.Walker{P: p, Visit: func(v ssa.Value) bool {
		if f, ok := v.(*ssa.FieldAddr); ok && core.FieldOf(f) == daysField {
			journal = f.X
			return false
		}
		if prm, ok := v.(*ssa.Parameter); ok && prm.Parent() == fn {
			dayParam = prm
		}
		return journal == nil
	}}
	w.Origin(fa.X)
	if journal == nil {
		// the day is a parameter: every caller must hand over a day of a journal whose
		// Process call (with the sorting stage) dominates the call
		if dayParam == nil || of.sanDepth > 2 {
			return ""
		}
		idx := -1
		for i, q := range fn.Params {
			if q == dayParam {
				idx = i
			}
		}
		sites := of.callersOf(fn)
		if idx < 0 || len(sites) == 0 {
			return ""
		}
		res := ""
		of.sanDepth++
		defer func() { of.sanDepth-- }()
		for _, site := range sites {
			args := site.Common().Args
			if idx >= len(args) {
				return ""
			}
			// a pseudo load of the same field on the caller's day value
			why := of.daySanitisedAt(args[idx], fv, site.Parent(), site)
			if why == "" {
				return ""
			}
			res = why
		}
		return res
	}
	sorters := of.sortersOf(fv)
	result := ""
	core.EachInstr(fn, func(ins ssa.Instruction) {
		call, ok := ins.(*ssa.Call)
		if !ok || call.Call.StaticCallee() != processFn || !p.SameExpr(call.Call.Args[0], journal) {
			return
		}
		if !core.Dominates(call, at) {
			return
		}
		// processors handed over, in order
		procs, _ := processorList(call.Call.Args[1], 0)
		sorted := false
		var names []string
		for _, pv := range procs {
			c, ok := pv.(*ssa.Call)
			if !ok {
				// a processor literal built in place: not a sorter; could it taint? its closures are analysed on their own
				continue
			}
			ctor := c.Call.StaticCallee()
			if ctor == nil {
				sorted = false
				continue
			}
			if sorters[ctor] {
				sorted = true
				names = append(names, originName(ctor))
				continue
			}
			// a later stage that appends to the field in an unordered loop un-sorts it
			if strings.Contains(of.fields[fv], originName(ctor)+"$") {
				sorted = false
			}
		}
		if sorted {
			result = "the days' " + p.FieldRef(fv) + " are sorted by processor " + strings.Join(names, ", ") + " in the " + originName(processFn) + " call at " + p.Pos(call.Pos()) + ", which dominates this loop (comparator judged by A-sort)"
		}
	})
	return result
}

// dayKindCallbacks: which Processor callbacks receive the elements of which
// per-kind slice of Day.
var dayKindCallbacks = map[string][]string{
	"Prices":       {"Price"},
	"Openings":     {"Open"},
	"Transactions": {"Transaction", "Posting"},
	"Assertions":   {"Assertion", "Balance"},
	"Closings":     {"Close"},
}

func (of *orderFlow) isDayProcessorLoop(it *iteration) bool {
	p := of.oa.p
	proc := p.Func(pkgJournal, "Processor.Process")
	if proc == nil || it.fn != proc {
		return false
	}
	ld, ok := it.source.(*ssa.UnOp)
	if !ok {
		return false
	}
	fa, ok := ld.X.(*ssa.FieldAddr)
	if !ok {
		return false
	}
	_, isKind := dayKindCallbacks[core.FieldOf(fa).Name()]
	return isKind && fa.X == ssa.Value(proc.Params[1])
}

// isDayProcessorValue: v is the load of a per-kind slice of the day parameter
// of Processor.Process.
func (of *orderFlow) isDayProcessorValue(v ssa.Value) bool {
	proc := of.oa.p.Func(pkgJournal, "Processor.Process")
	ld, ok := v.(*ssa.UnOp)
	if !ok || proc == nil || ld.Parent() != proc || len(proc.Params) < 2 {
		return false
	}
	fa, ok := ld.X.(*ssa.FieldAddr)
	if !ok {
		return false
	}
	_, isKind := dayKindCallbacks[core.FieldOf(fa).Name()]
	return isKind && fa.X == ssa.Value(proc.Params[1])
}

// analysePipelines: for every Journal.Process call, walk the stages in order
// and track, per per-kind slice of Day, whether some earlier stage (or this
// stage's DayStart) appended to it in an unordered iteration. The callbacks
// that receive the elements of such a slice are analysed as the bodies of an
// unordered iteration; a stage whose DayEnd sorts the slice resets the state.
func (of *orderFlow) analysePipelines() {
	c, p := of.c, of.oa.p
	const rule = "A-stage"
	n := 0
	for _, pl := range pipelines(c) {
		if !of.inScope(pl.fn) {
			continue
		}
		fname := originName(pl.fn)
		if !pl.resolved {
			c.Ob(rule, fname+":Process call", pl.call.Pos(), fname, core.Undecided, "processor list could not be resolved: "+pl.why)
			continue
		}
		for kind, cbs := range dayKindCallbacks {
			fv := p.Field(pkgJournal, "Day", kind)
			if fv == nil {
				c.Anchor(rule, "journal.Day."+kind)
				continue
			}
			taintFns := map[*ssa.Function]bool{}
			for _, f := range of.fieldTaintFns[fv] {
				taintFns[f] = true
			}
			sorters := of.sortersOf(fv)
			unordered := ""
			for _, st := range pl.stages {
				// taint by this stage's DayStart (runs before the day's loops)
				for name, cb := range st.callbacks {
					if name == "DayEnd" {
						continue
					}
					for _, f := range core.WithAnon(cb) {
						if taintFns[f] {
							unordered = st.name() + " (" + name + ")"
						}
					}
				}
				if unordered != "" {
					for _, cbName := range cbs {
						cb := st.callbacks[cbName]
						if cb == nil {
							continue
						}
						n++
						classes := make([]vclass, len(cb.Params))
						for i := range classes {
							classes[i] = clsElem
						}
						// a bound method's receiver is shared state
						if cb.Signature.Recv() != nil && len(classes) > 0 {
							classes[0] = clsOuter
						}
						res := of.oa.analyseCallee(cb, classes)
						key := fname + ":stage " + st.name() + "." + cbName + " over Day." + kind
						if len(res.effects) == 0 {
							c.Ob(rule, key, cb.Pos(), fname, core.Discharged, "Day."+kind+" is a bag here (appended to in map order by stage "+unordered+"); the callback's effects are order-free")
							continue
						}
						seen := map[string]bool{}
						for _, e := range res.effects {
							k2 := key + ":" + e.kind + " " + e.symbol
							if seen[k2] {
								continue
							}
							seen[k2] = true
							if reason, ok := orderExceptions[originName(e.fn)+":"+e.kind+" "+e.symbol]; ok {
								c.Ob(rule, k2, e.pos, fname, core.Discharged, "reviewed exception: "+reason)
								continue
							}
							v := core.Violated
							if e.kind == "unknown-call" {
								v = core.Undecided
							}
							c.Ob(rule, k2, e.pos, fname, v, "Day."+kind+" reaches this stage in an order that depends on map iteration (appended to by stage "+unordered+"): "+e.detail+" [in "+originName(e.fn)+" at "+p.Pos(e.pos)+"]")
						}
						for _, t := range res.taints {
							if t.field != nil {
								of.fieldTaintFns[t.field] = append(of.fieldTaintFns[t.field], t.fn)
								of.taintField(t.field, "appended to per element of the unordered Day."+kind+" in "+originName(t.fn))
							}
						}
					}
				}
				// taint by DayEnd, sort by DayEnd
				if cb := st.callbacks["DayEnd"]; cb != nil {
					for _, f := range core.WithAnon(cb) {
						if taintFns[f] {
							unordered = st.name() + " (DayEnd)"
						}
					}
				}
				if st.ctor != nil && sorters[st.ctor] {
					unordered = ""
				}
			}
		}
	}
	c.Note("A-stage: %d stage callbacks analysed as bodies of an unordered iteration", n)
}

// primitive comparison callees: functions whose arguments are the compared keys.
func isPrimitiveComparison(callee *ssa.Function) bool {
	if callee == nil {
		return false
	}
	o := core.OriginOf(callee)
	pkg := core.PkgPathOf(o)
	switch pkg {
	case pkgCompare:
		switch o.Name() {
		case "Ordered", "Time", "Decimal":
			return true
		}
	case "cmp":
		return o.Name() == "Compare" || o.Name() == "Less"
	case "strings":
		return o.Name() == "Compare"
	case pkgDecimal:
		switch o.Name() {
		case "Cmp", "Equal", "LessThan", "GreaterThan", "LessThanOrEqual", "GreaterThanOrEqual":
			return true
		}
	case "time":
		switch o.Name() {
		case "Before", "After", "Equal", "Compare":
			return true
		}
	}
	return false
}

// transformedOperand: some operand of a primitive comparison inside fn is the
// result of a call that is neither a getter (a module function returning a
// field of its receiver/argument), len/cap, nor another comparison.
func transformedOperand(p *core.Prog, fn *ssa.Function) string {
	if fn.Blocks == nil {
		return ""
	}
	bad := ""
	check := func(v ssa.Value, where ssa.Instruction) {
		v = core.Strip(v)
		call, ok := v.(*ssa.Call)
		if !ok || bad != "" {
			return
		}
		if b, ok := call.Call.Value.(*ssa.Builtin); ok {
			if b.Name() == "len" || b.Name() == "cap" {
				return
			}
		}
		callee := call.Call.StaticCallee()
		if callee != nil && p.InModule(callee) && isGetter(callee) {
			return
		}
		if callee != nil && isPrimitiveComparison(callee) {
			return
		}
		if callee != nil && p.InModule(callee) && isComparisonResult(call) {
			return
		}
		bad = describeValue(p, v) + " at " + p.Pos(core.NearPos(where))
	}
	core.EachInstr(fn, func(ins ssa.Instruction) {
		switch x := ins.(type) {
		case *ssa.Call:
			if isPrimitiveComparison(x.Call.StaticCallee()) {
				for _, a := range x.Call.Args {
					check(a, x)
				}
			}
		case *ssa.BinOp:
			switch x.Op {
			case token.LSS, token.GTR, token.LEQ, token.GEQ, token.EQL, token.NEQ:
				_, cx := x.X.(*ssa.Const)
				_, cy := x.Y.(*ssa.Const)
				if !cx && !cy {
					check(x.X, x)
					check(x.Y, x)
				}
			}
		}
	})
	return bad
}

// basicOperandTransformed: in a comparator over basic values, an operand of a
// primitive comparison that is not one of the comparator's own parameters (or
// a constant, or the result of another comparison).
func basicOperandTransformed(p *core.Prog, fn *ssa.Function) string {
	bad := ""
	check := func(v ssa.Value, where ssa.Instruction) {
		if bad != "" {
			return
		}
		v = core.Strip(v)
		for {
			if cv, ok := v.(*ssa.Convert); ok {
				v = core.Strip(cv.X)
				continue
			}
			break
		}
		switch x := v.(type) {
		case *ssa.Parameter, *ssa.Const:
			return
		case *ssa.Call:
			if callee := x.Call.StaticCallee(); callee != nil && (isPrimitiveComparison(callee) || (p.InModule(callee) && isComparisonResult(x))) {
				return
			}
		case *ssa.UnOp:
			// a parameter spilled to a local
			if al, ok := x.X.(*ssa.Alloc); ok && x.Op == token.MUL {
				if st := core.StoresTo(al); len(st) == 1 {
					if _, isPrm := core.Strip(st[0].Val).(*ssa.Parameter); isPrm {
						return
					}
				}
			}
		}
		bad = describeValue(p, v) + " at " + p.Pos(core.NearPos(where))
	}
	core.EachInstr(fn, func(ins ssa.Instruction) {
		switch x := ins.(type) {
		case *ssa.Call:
			if isPrimitiveComparison(x.Call.StaticCallee()) {
				for _, a := range x.Call.Args {
					check(a, x)
				}
			}
		case *ssa.BinOp:
			switch x.Op {
			case token.LSS, token.GTR, token.LEQ, token.GEQ, token.EQL, token.NEQ:
				_, cx := x.X.(*ssa.Const)
				_, cy := x.Y.(*ssa.Const)
				if !cx && !cy {
					check(x.X, x)
					check(x.Y, x)
				}
			}
		}
	})
	return bad
}

// isGetter: every return of fn yields a field (or a field of a field) of a
// parameter, unchanged.
func isGetter(fn *ssa.Function) bool {
	if fn.Blocks == nil {
		return false
	}
	ok, any := true, false
	core.EachInstr(fn, func(ins ssa.Instruction) {
		ret, isRet := ins.(*ssa.Return)
		if !isRet {
			return
		}
		for _, rv := range ret.Results {
			any = true
			v := core.Strip(rv)
			for {
				switch x := v.(type) {
				case *ssa.UnOp:
					if x.Op == token.MUL {
						v = x.X
						continue
					}
				case *ssa.FieldAddr:
					v = x.X
					continue
				case *ssa.Field:
					v = x.X
					continue
				case *ssa.Parameter:
					return
				case *ssa.Alloc:
					// spilled value receiver
					sts := core.StoresTo(x)
					if len(sts) == 1 {
						v = sts[0].Val
						continue
					}
				}
				ok = false
				return
			}
		}
	})
	return ok && any
}

// analyseArrivalCallbacks (U4): the files of a journal are parsed
// concurrently and arrive on the channel of syntax.ParseFileRecursively in
// scheduling order. The per-file callback of every cpr.ForEach over that
// channel is the body of an unordered iteration.
func (of *orderFlow) analyseArrivalCallbacks() {
	c, p := of.c, of.oa.p
	pfr := p.Func(pkgSyntax, "ParseFileRecursively")
	if pfr == nil {
		c.Anchor(of.rule, "syntax.ParseFileRecursively")
		return
	}
	n := 0
	for _, fn := range p.SrcFuncs() {
		core.EachInstr(fn, func(ins ssa.Instruction) {
			call, ok := ins.(*ssa.Call)
			if !ok {
				return
			}
			callee := call.Call.StaticCallee()
			if callee == nil || core.PkgPathOf(callee) != pkgCpr || core.BaseName(callee) != "ForEach" {
				return
			}
			fromLoader := false
			for _, root := range of.chanRoots(call.Call.Args[1], 3) {
				if cl, ok := root.(*ssa.Call); ok && cl.Call.StaticCallee() == pfr {
					fromLoader = true
				}
			}
			if !fromLoader {
				return
			}
			cb := core.FuncValueDeep(call.Call.Args[2])
			fname := originName(fn)
			key := fname + ":per-file callback over the loader's channel"
			if cb == nil {
				c.Ob(of.rule, key, call.Pos(), fname, core.Undecided, "the per-file callback is not a function literal")
				return
			}
			if !of.inScope(fn) {
				return
			}
			n++
			classes := make([]vclass, len(cb.Params))
			for i := range classes {
				classes[i] = clsElem
			}
			res := of.oa.analyseCallee(cb, classes)
			if len(res.effects) == 0 {
				c.Ob(of.rule, key, call.Pos(), fname, core.Discharged, "files arrive in scheduling order; the per-file callback's effects are order-free (counts, set inserts, appends to a bag that is sorted before use)")
			}
			seen := map[string]bool{}
			for _, e := range res.effects {
				k2 := key + ":" + e.kind + " " + e.symbol
				if seen[k2] {
					continue
				}
				seen[k2] = true
				if reason, ok := orderExceptions[originName(e.fn)+":"+e.kind+" "+e.symbol]; ok {
					c.Ob(of.rule, k2, e.pos, fname, core.Discharged, "reviewed exception: "+reason)
					continue
				}
				v := core.Violated
				if e.kind == "unknown-call" {
					v = core.Undecided
				}
				c.Ob(of.rule, k2, e.pos, fname, v, "the included files are parsed concurrently and arrive in scheduling order: "+e.detail+" [in "+originName(e.fn)+" at "+p.Pos(e.pos)+"]")
			}
			for _, t := range res.taints {
				switch {
				case t.field != nil:
					of.fieldTaintFns[t.field] = append(of.fieldTaintFns[t.field], t.fn)
					of.taintField(t.field, "appended to per arriving file in "+originName(t.fn))
				case t.cell != nil:
					of.taintCell(t.cell, "appended to per arriving file in "+originName(t.fn))
				}
			}
		})
	}
	c.Note("A-order: %d per-file callbacks over the loader's channel analysed", n)
}

// chanRoots resolves a channel value to the call(s) that created it, through
// tuple extraction, captured variables, single-assignment cells and
// parameters (callers' arguments, depth-limited). Arguments of the creating
// call are not followed.
func (of *orderFlow) chanRoots(v ssa.Value, depth int) []ssa.Value {
	v = core.Strip(v)
	if ex, ok := v.(*ssa.Extract); ok {
		return []ssa.Value{ex.Tuple}
	}
	_, root := containerRoot(v)
	if root == nil {
		return nil
	}
	switch x := root.(type) {
	case *ssa.Extract:
		return []ssa.Value{x.Tuple}
	case *ssa.Call:
		return []ssa.Value{x}
	case *ssa.Parameter:
		if depth <= 0 {
			return nil
		}
		var res []ssa.Value
		for _, site := range of.callers[x.Parent()] {
			for i, q := range x.Parent().Params {
				if q == x && i < len(site.Common().Args) {
					res = append(res, of.chanRoots(site.Common().Args[i], depth-1)...)
				}
			}
		}
		return res
	}
	return []ssa.Value{root}
}
