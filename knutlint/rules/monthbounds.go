package rules

import (
	"fmt"
	"go/constant"
	"go/token"
	"go/types"
	"sort"

	"golang.org/x/tools/go/ssa"

	"knutlint/core"
)

// RuleKMonthBounds — monthly, quarterly and yearly periods end where the
// calendar month, quarter and year end. The functions of lib/common/date that
// map (date, interval) to a date are executed abstractly with the date's month
// class (1..12) and the interval concrete, its year and day symbolic. A
// result of the form Date(d.Year(), m, k) (m an integer derived from
// d.Month(), k a constant), possibly moved by AddDate with constant
// arguments, is normalised to "first day of month M" or "last day of month
// M"; for the twelve month classes the results must be the first days (or
// the last days) of the month, quarter or year that contains the date — the
// period length is the one the interval's name states, where the name is
// Monthly, Quarterly or Yearly, and any of 1, 3, 12 otherwise.
func RuleKMonthBounds(c *core.Ctx) {
	const rule = "K-month-bounds"
	p := c.P
	intervalObj, _ := p.Lookup(pkgDate, "Interval").(*types.TypeName)
	if intervalObj == nil {
		c.Anchor(rule, "date.Interval")
		return
	}
	var intervals []int64
	names := map[int64]string{}
	if tp := p.Package(pkgDate); tp != nil {
		for _, n := range tp.Scope().Names() {
			if cst, ok := tp.Scope().Lookup(n).(*types.Const); ok && types.Identical(cst.Type(), intervalObj.Type()) {
				if v, ok := constant.Int64Val(cst.Val()); ok {
					intervals = append(intervals, v)
					names[v] = n
				}
			}
		}
	}
	sort.Slice(intervals, func(i, j int) bool { return intervals[i] < intervals[j] })
	lengths := map[string]int64{"Monthly": 1, "Quarterly": 3, "Yearly": 12}
	for _, fn := range p.SrcFuncs() {
		if core.PkgPathOf(fn) != pkgDate || fn.Parent() != nil || len(fn.Params) != 2 {
			continue
		}
		sig := fn.Signature
		if sig.Results().Len() != 1 || !isTimeType(sig.Results().At(0).Type()) || !isTimeType(fn.Params[0].Type()) || !types.Identical(fn.Params[1].Type(), intervalObj.Type()) {
			continue
		}
		for _, iv := range intervals {
			res := map[int64]calDate{}
			bad := ""
			for m := int64(1); m <= 12; m++ {
				ex := newCalExec(p, fn, iv, m)
				d, ok, why := ex.run(fn)
				if why != "" {
					bad = why
				}
				if ok {
					res[m] = d
				}
			}
			allSelf := true
			for _, d := range res {
				if d.kind != calSelf {
					allSelf = false
				}
			}
			if (len(res) == 0 || allSelf) && bad == "" {
				continue // not a month-based result for this interval (Once, Daily: the date itself; Weekly)
			}
			key := fmt.Sprintf("%s:%s:the result is a boundary of the date's own period", core.FuncName(fn), names[iv])
			if bad != "" {
				c.Ob(rule, key, fn.Pos(), core.FuncName(fn), core.Undecided, "the date built from the month could not be evaluated: "+bad)
				continue
			}
			var cand []int64
			if l, ok := lengths[names[iv]]; ok {
				cand = []int64{l}
			} else {
				cand = []int64{1, 3, 12}
			}
			verdict := ""
			for _, g := range cand {
				start, end := true, true
				for m := int64(1); m <= 12; m++ {
					d, ok := res[m]
					first := g*((m-1)/g) + 1
					if !ok || !(d.year == 0 && d.month == first && d.kind == calFirst) {
						start = false
					}
					if !ok || !(d.year == 0 && d.month == first+g-1 && d.kind == calLast) {
						end = false
					}
				}
				if start {
					verdict = fmt.Sprintf("for each of the twelve months the result is the first day of the %d-month period that contains the date", g)
				}
				if end {
					verdict = fmt.Sprintf("for each of the twelve months the result is the last day of the %d-month period that contains the date", g)
				}
			}
			if verdict != "" {
				c.Ob(rule, key, fn.Pos(), core.FuncName(fn), core.Discharged, verdict)
				continue
			}
			desc := ""
			for m := int64(1); m <= 12; m++ {
				if d, ok := res[m]; ok {
					desc += fmt.Sprintf(" %d→%s", m, d)
				} else {
					desc += fmt.Sprintf(" %d→?", m)
				}
			}
			c.Ob(rule, key, fn.Pos(), core.FuncName(fn), core.Violated, "the results per month of the date ("+desc+" ) are neither the first nor the last days of the date's own "+names[iv]+" period: periods straddle a calendar boundary or do not contain their dates")
		}
	}
	c.Floor(rule, 4)
}

const (
	calFirst = iota
	calLast
	calOther
	calSelf // the date's own (symbolic) day of the month
)

// calDate: a day relative to the symbolic year Y of the date: year offset,
// month 1..12, and first / last / n-th day of that month.
type calDate struct {
	year, month int64
	kind        int
	day         int64
}

func (d calDate) String() string {
	y := "Y"
	if d.year != 0 {
		y = fmt.Sprintf("Y%+d", d.year)
	}
	switch d.kind {
	case calFirst:
		return fmt.Sprintf("%s-%02d-first", y, d.month)
	case calLast:
		return fmt.Sprintf("%s-%02d-last", y, d.month)
	case calSelf:
		return fmt.Sprintf("%s-%02d-(its own day)", y, d.month)
	}
	return fmt.Sprintf("%s-%02d-%02d", y, d.month, d.day)
}

func normCal(year, month, day int64) (calDate, bool) {
	// months outside 1..12 roll over into the year, as time.Date does
	y := year + floorDiv(month-1, 12)
	m := floorMod(month-1, 12) + 1
	switch {
	case day == 1:
		return calDate{year: y, month: m, kind: calFirst, day: 1}, true
	case day == 0:
		// the day before the first: last day of the previous month
		pm := m - 1
		py := y
		if pm == 0 {
			pm, py = 12, y-1
		}
		return calDate{year: py, month: pm, kind: calLast}, true
	case day == 31 && (m == 1 || m == 3 || m == 5 || m == 7 || m == 8 || m == 10 || m == 12):
		return calDate{year: y, month: m, kind: calLast, day: 31}, true
	case day == 30 && (m == 4 || m == 6 || m == 9 || m == 11):
		return calDate{year: y, month: m, kind: calLast, day: 30}, true
	case day >= 2 && day <= 28:
		return calDate{year: y, month: m, kind: calOther, day: day}, true
	}
	return calDate{}, false // depends on the length of the month
}

func floorDiv(a, b int64) int64 {
	q := a / b
	if (a%b != 0) && ((a < 0) != (b < 0)) {
		q--
	}
	return q
}

func floorMod(a, b int64) int64 { return a - floorDiv(a, b)*b }

type calExec struct {
	p       *core.Prog
	date    *ssa.Parameter
	ivParam *ssa.Parameter
	iv      int64
	month   int64
	vals    map[ssa.Value]int64
	isYear  map[ssa.Value]bool // the value is the date's year plus yoff
	yoff    map[ssa.Value]int64
	dayLin  map[ssa.Value][2]int64 // the value is a·d.Day() + b
	usesM   map[ssa.Value]bool
	depth   int
}

func newCalExec(p *core.Prog, fn *ssa.Function, iv, month int64) *calExec {
	return &calExec{p: p, date: fn.Params[0], ivParam: fn.Params[1], iv: iv, month: month, vals: map[ssa.Value]int64{}, isYear: map[ssa.Value]bool{}, yoff: map[ssa.Value]int64{}, dayLin: map[ssa.Value][2]int64{}, usesM: map[ssa.Value]bool{}}
}

// run executes fn to its return and interprets the returned date.
func (ex *calExec) run(fn *ssa.Function) (calDate, bool, string) {
	var pred *ssa.BasicBlock
	b := fn.Blocks[0]
	for steps := 0; steps < 500; steps++ {
		for _, ins := range b.Instrs {
			v, ok := ins.(ssa.Value)
			if !ok {
				continue
			}
			if phi, ok := ins.(*ssa.Phi); ok {
				for i, pb := range b.Preds {
					if pb == pred {
						e := core.Strip(phi.Edges[i])
						if x, ok := ex.get(e); ok {
							ex.vals[phi] = x
							ex.usesM[phi] = ex.usesM[e]
						}
						if ex.isYear[e] {
							ex.isYear[phi] = true
							ex.yoff[phi] = ex.yoff[e]
						}
					}
				}
				continue
			}
			ex.eval(v)
		}
		switch t := b.Instrs[len(b.Instrs)-1].(type) {
		case *ssa.If:
			cv, ok := ex.cond(t.Cond)
			if !ok {
				return calDate{}, false, ""
			}
			pred = b
			if cv {
				b = b.Succs[0]
			} else {
				b = b.Succs[1]
			}
		case *ssa.Jump:
			pred, b = b, b.Succs[0]
		case *ssa.Return:
			if len(t.Results) != 1 {
				return calDate{}, false, ""
			}
			return ex.dateValue(t.Results[0], 0)
		default:
			return calDate{}, false, ""
		}
	}
	return calDate{}, false, "the control flow does not terminate within 500 steps"
}

func (ex *calExec) isDate(v ssa.Value) bool {
	v = core.Strip(v)
	if v == ex.date {
		return true
	}
	if ld, ok := v.(*ssa.UnOp); ok && ld.Op == token.MUL {
		if al, ok := ld.X.(*ssa.Alloc); ok {
			if st := core.StoresTo(al); len(st) == 1 && core.Strip(st[0].Val) == ex.date {
				return true
			}
		}
	}
	return false
}

// dateValue interprets a time.Time value: time.Date(Y, m, k, consts…, UTC) —
// directly or through a module helper that forwards year, month and day —,
// a sibling function applied to the date, or AddDate with constants of one of
// these.
func (ex *calExec) dateValue(v ssa.Value, depth int) (calDate, bool, string) {
	v = core.Strip(v)
	if depth > 6 {
		return calDate{}, false, ""
	}
	if ex.isDate(v) {
		return calDate{year: 0, month: ex.month, kind: calSelf}, true, ""
	}
	call, ok := v.(*ssa.Call)
	if !ok {
		return calDate{}, false, ""
	}
	callee := call.Call.StaticCallee()
	if callee == nil {
		return calDate{}, false, ""
	}
	args := call.Call.Args
	isTimePkg := callee.Pkg != nil && callee.Pkg.Pkg.Path() == "time"
	switch {
	case isTimePkg && callee.Name() == "Date" && callee.Signature.Recv() == nil && len(args) == 8:
		return ex.ymd(args[0], args[1], args[2], call)
	case isTimePkg && callee.Name() == "AddDate" && len(args) == 4:
		base, ok, why := ex.dateValue(args[0], depth+1)
		if !ok || why != "" {
			return calDate{}, false, why
		}
		var n [3]int64
		for i, a := range args[1:] {
			x, ok := ex.get(a)
			if lin, isLin := ex.dayLin[core.Strip(a)]; !ok && isLin && i == 2 && base.kind == calSelf && lin[0] == -1 {
				// d.AddDate(y, m, k - d.Day()): the k-th day of the date's month, then years and months
				y, yok := ex.get(args[1])
				mo, mok := ex.get(args[2])
				if !yok || !mok {
					return calDate{}, false, ""
				}
				nb, nok := normCal(base.year, base.month, lin[1])
				if !nok {
					return calDate{}, false, fmt.Sprintf("day %d of the date's month at %s depends on the length of the month", lin[1], ex.p.Pos(call.Pos()))
				}
				if nb.kind == calLast && (y != 0 || mo != 0) {
					return calDate{}, false, "AddDate with months at " + ex.p.Pos(call.Pos()) + " is applied to the last day of a month"
				}
				return addCal(nb, y, mo, 0, ex.p.Pos(call.Pos()))
			}
			if !ok {
				if ex.dependsOnMonth(a, 0) {
					return calDate{}, false, "the argument of AddDate at " + ex.p.Pos(call.Pos()) + " depends on the month through an operation this rule does not evaluate"
				}
				return calDate{}, false, ""
			}
			n[i] = x
		}
		return addCal(base, n[0], n[1], n[2], ex.p.Pos(call.Pos()))
	case ex.p.InModule(callee) && callee.Blocks != nil && len(callee.Params) == 3 && len(args) == 3 && !isTimeType(callee.Params[0].Type()):
		// a helper like date.Date(year, month, day) that forwards to time.Date
		var ret *ssa.Return
		cnt := 0
		core.EachInstr(callee, func(ins ssa.Instruction) {
			if r, ok := ins.(*ssa.Return); ok {
				ret, cnt = r, cnt+1
			}
		})
		if cnt != 1 || len(ret.Results) != 1 {
			return calDate{}, false, ""
		}
		inner, ok := core.Strip(ret.Results[0]).(*ssa.Call)
		if !ok {
			return calDate{}, false, ""
		}
		ic := inner.Call.StaticCallee()
		if ic == nil || ic.Pkg == nil || ic.Pkg.Pkg.Path() != "time" || ic.Name() != "Date" || len(inner.Call.Args) != 8 {
			return calDate{}, false, ""
		}
		// which caller argument reaches year, month, day
		pick := func(a ssa.Value) ssa.Value {
			a = core.Strip(a)
			if cv, ok := a.(*ssa.Convert); ok {
				a = core.Strip(cv.X)
			}
			for i, prm := range callee.Params {
				if a == prm {
					return args[i]
				}
			}
			return nil
		}
		y, m, d := pick(inner.Call.Args[0]), pick(inner.Call.Args[1]), pick(inner.Call.Args[2])
		if y == nil || m == nil || d == nil {
			return calDate{}, false, ""
		}
		return ex.ymd(y, m, d, call)
	case core.PkgPathOf(callee) == pkgDate && callee.Blocks != nil && len(callee.Params) == 2 && len(args) == 2 && isTimeType(callee.Params[0].Type()) && ex.isDate(args[0]):
		if ex.depth > 3 {
			return calDate{}, false, ""
		}
		if iv2, ok := ex.get(args[1]); ok {
			sub := newCalExec(ex.p, callee, iv2, ex.month)
			sub.depth = ex.depth + 1
			return sub.run(callee)
		}
	}
	return calDate{}, false, ""
}

func (ex *calExec) ymd(y, m, d ssa.Value, at *ssa.Call) (calDate, bool, string) {
	ys := core.Strip(y)
	if cv, ok := ys.(*ssa.Convert); ok {
		ys = core.Strip(cv.X)
	}
	mv, mok := ex.get(m)
	dv, dok := ex.get(d)
	if !ex.isYear[ys] {
		if mok && ex.usesM[core.Strip(m)] {
			return calDate{}, false, "the year of the date built at " + ex.p.Pos(at.Pos()) + " is not the year of the date itself"
		}
		return calDate{}, false, ""
	}
	if !mok || !dok {
		if ex.dependsOnMonth(m, 0) || ex.dependsOnMonth(d, 0) {
			return calDate{}, false, "the month or day of the date built at " + ex.p.Pos(at.Pos()) + " depends on the month through an operation this rule does not evaluate"
		}
		return calDate{}, false, ""
	}
	cd, ok := normCal(ex.yoff[ys], mv, dv)
	if !ok {
		return calDate{}, false, fmt.Sprintf("day %d of month %d at %s depends on the length of the month", dv, mv, ex.p.Pos(at.Pos()))
	}
	return cd, true, ""
}

// addCal applies AddDate(y, m, d) as time does: years and months first (the
// day of the month is kept), then days.
func addCal(b calDate, y, m, d int64, at string) (calDate, bool, string) {
	if b.kind == calSelf {
		if y == 0 && m == 0 && d == 0 {
			return b, true, ""
		}
		return calDate{}, false, "" // the date moved by constants: not a period boundary this rule knows
	}
	if y != 0 || m != 0 {
		switch b.kind {
		case calFirst:
			nb, _ := normCal(b.year+y, b.month+m, 1)
			b = nb
		case calOther:
			nb, _ := normCal(b.year+y, b.month+m, b.day)
			b = nb
		default:
			return calDate{}, false, "AddDate with months at " + at + " is applied to the last day of a month: the result depends on the lengths of the months"
		}
	}
	switch {
	case d == 0:
		return b, true, ""
	case b.kind == calFirst && d == -1:
		nb, _ := normCal(b.year, b.month, 0)
		return nb, true, ""
	case b.kind == calLast && d == 1:
		nb, _ := normCal(b.year, b.month+1, 1)
		return nb, true, ""
	case b.kind == calFirst && d >= 1 && d <= 27:
		return calDate{year: b.year, month: b.month, kind: calOther, day: 1 + d}, true, ""
	case b.kind == calOther && b.day+d >= 1 && b.day+d <= 28:
		nb, _ := normCal(b.year, b.month, b.day+d)
		return nb, true, ""
	}
	return calDate{}, false, fmt.Sprintf("AddDate by %d days at %s: the result depends on the lengths of the months", d, at)
}

func (ex *calExec) dependsOnMonth(v ssa.Value, depth int) bool {
	if depth > 10 {
		return false
	}
	v = core.Strip(v)
	if call, ok := v.(*ssa.Call); ok {
		if callee := call.Call.StaticCallee(); callee != nil && callee.Name() == "Month" && callee.Pkg != nil && callee.Pkg.Pkg.Path() == "time" {
			return true
		}
	}
	if ins, ok := v.(ssa.Instruction); ok {
		for _, op := range ins.Operands(nil) {
			if op != nil && *op != nil && ex.dependsOnMonth(*op, depth+1) {
				return true
			}
		}
	}
	return false
}

func (ex *calExec) get(v ssa.Value) (int64, bool) {
	v = core.Strip(v)
	if cst, ok := v.(*ssa.Const); ok {
		if cst.Value != nil && cst.Value.Kind() == constant.Int {
			return constant.Int64Val(cst.Value)
		}
		return 0, false
	}
	if v == ex.ivParam {
		return ex.iv, true
	}
	x, ok := ex.vals[v]
	return x, ok
}

func (ex *calExec) eval(v ssa.Value) {
	set := func(x int64, uses bool) {
		ex.vals[v] = x
		ex.usesM[v] = uses
	}
	switch x := v.(type) {
	case *ssa.Convert:
		in := core.Strip(x.X)
		if a, ok := ex.get(in); ok {
			set(a, ex.usesM[in])
		}
		if ex.isYear[in] {
			ex.isYear[v] = true
			ex.yoff[v] = ex.yoff[in]
		}
		if l, ok := ex.dayLin[in]; ok {
			ex.dayLin[v] = l
		}
	case *ssa.UnOp:
		if l, ok := ex.dayLin[core.Strip(x.X)]; ok && x.Op == token.SUB {
			ex.dayLin[v] = [2]int64{-l[0], -l[1]}
		}
		if x.Op == token.SUB {
			if a, ok := ex.get(x.X); ok {
				set(-a, ex.usesM[core.Strip(x.X)])
			}
		}
	case *ssa.BinOp:
		a, ok1 := ex.get(x.X)
		b, ok2 := ex.get(x.Y)
		// a·Day + b
		{
			xs, ys := core.Strip(x.X), core.Strip(x.Y)
			lx, isLx := ex.dayLin[xs]
			ly, isLy := ex.dayLin[ys]
			if !isLx && ok1 {
				lx, isLx = [2]int64{0, a}, true
			}
			if !isLy && ok2 {
				ly, isLy = [2]int64{0, b}, true
			}
			if isLx && isLy && (lx[0] != 0 || ly[0] != 0) {
				switch x.Op {
				case token.ADD:
					ex.dayLin[v] = [2]int64{lx[0] + ly[0], lx[1] + ly[1]}
				case token.SUB:
					ex.dayLin[v] = [2]int64{lx[0] - ly[0], lx[1] - ly[1]}
				}
				return
			}
		}
		// year ± constant stays a year
		if xs, ys := core.Strip(x.X), core.Strip(x.Y); ex.isYear[xs] && ok2 && (x.Op == token.ADD || x.Op == token.SUB) {
			ex.isYear[v] = true
			if x.Op == token.ADD {
				ex.yoff[v] = ex.yoff[xs] + b
			} else {
				ex.yoff[v] = ex.yoff[xs] - b
			}
			return
		} else if ex.isYear[ys] && ok1 && x.Op == token.ADD {
			ex.isYear[v] = true
			ex.yoff[v] = ex.yoff[ys] + a
			return
		}
		if !ok1 || !ok2 {
			return
		}
		uses := ex.usesM[core.Strip(x.X)] || ex.usesM[core.Strip(x.Y)]
		switch x.Op {
		case token.ADD:
			set(a+b, uses)
		case token.SUB:
			set(a-b, uses)
		case token.MUL:
			set(a*b, uses)
		case token.QUO:
			if b != 0 {
				set(a/b, uses)
			}
		case token.REM:
			if b != 0 {
				set(a%b, uses)
			}
		}
	case *ssa.Call:
		callee := x.Call.StaticCallee()
		if callee == nil || callee.Pkg == nil || callee.Pkg.Pkg.Path() != "time" || len(x.Call.Args) != 1 || !ex.isDate(x.Call.Args[0]) {
			return
		}
		switch callee.Name() {
		case "Month":
			set(ex.month, true)
		case "Year":
			ex.isYear[v] = true
		case "Day":
			ex.dayLin[v] = [2]int64{1, 0}
		}
	}
}

func (ex *calExec) cond(v ssa.Value) (bool, bool) {
	v = core.Strip(v)
	switch x := v.(type) {
	case *ssa.UnOp:
		if x.Op == token.NOT {
			r, ok := ex.cond(x.X)
			return !r, ok
		}
	case *ssa.BinOp:
		a, ok1 := ex.get(x.X)
		b, ok2 := ex.get(x.Y)
		if !ok1 || !ok2 {
			return false, false
		}
		switch x.Op {
		case token.EQL:
			return a == b, true
		case token.NEQ:
			return a != b, true
		case token.LSS:
			return a < b, true
		case token.LEQ:
			return a <= b, true
		case token.GTR:
			return a > b, true
		case token.GEQ:
			return a >= b, true
		}
	}
	return false, false
}
