package rules

import (
	"fmt"
	"go/constant"
	"go/types"
	"sort"

	"knutlint/core"
)

// RuleKMonthBounds — monthly, quarterly and yearly periods end where the
// calendar month, quarter and year end. The functions of lib/common/date that
// map (date, interval) to a date are executed abstractly with the date's month
// class (1..12) and the interval concrete, its year and day symbolic. A
// result of the form Date(d.Year(), m, k) (m an integer derived from
// d.Month(), k a constant), possibly moved by AddDate with constant
// arguments, is normalised to "first day of month M" or "last day of month
// M"; for the twelve month classes the results must be the first days (or
// the last days) of the month, quarter or year that contains the date — the
// period length is the one the interval's name states, where the name is
// Monthly, Quarterly or Yearly, and any of 1, 3, 12 otherwise.
func RuleKMonthBounds(c *core.Ctx) {
	const rule = "K-month-bounds"
	p := c.P
	intervalObj, _ := p.Lookup(pkgDate, "Interval").(*types.TypeName)
	if intervalObj == nil {
		c.Anchor(rule, "date.Interval")
		return
	}
	var intervals []int64
	names := map[int64]string{}
	if tp := p.Package(pkgDate); tp != nil {
		for _, n := range tp.Scope().Names() {
			if cst, ok := tp.Scope().Lookup(n).(*types.Const); ok && types.Identical(cst.Type(), intervalObj.Type()) {
				if v, ok := constant.Int64Val(cst.Val()); ok {
					intervals = append(intervals, v)
					names[v] = n
				}
			}
		}
	}
	sort.Slice(intervals, func(i, j int) bool { return intervals[i] < intervals[j] })
	lengths := map[string]int64{"Monthly": 1, "Quarterly": 3, "Yearly": 12}
	for _, fn := range p.SrcFuncs() {
		if core.PkgPathOf(fn) != pkgDate || fn.Parent() != nil || len(fn.Params) != 2 {
			continue
		}
		sig := fn.Signature
		if sig.Results().Len() != 1 || !isTimeType(sig.Results().At(0).Type()) || !isTimeType(fn.Params[0].Type()) || !types.Identical(fn.Params[1].Type(), intervalObj.Type()) {
			continue
		}
		for _, iv := range intervals {
			res := map[int64]calDate{}
			bad := ""
			for m := int64(1); m <= 12; m++ {
				r, why := runDateFunc(p, fn, iv, -1, m)
				if why != "" {
					bad = why
				}
				if r.kind == aDate && (r.cal.kind != calSelf || r.dayOff == 0) {
					res[m] = r.cal
				}
			}
			allSelf := true
			for _, d := range res {
				if d.kind != calSelf {
					allSelf = false
				}
			}
			if (len(res) == 0 || allSelf) && bad == "" {
				continue // not a month-based result for this interval (Once, Daily: the date itself; Weekly)
			}
			key := fmt.Sprintf("%s:%s:the result is a boundary of the date's own period", core.FuncName(fn), names[iv])
			if bad != "" {
				c.Ob(rule, key, fn.Pos(), core.FuncName(fn), core.Undecided, "the date built from the month could not be evaluated: "+bad)
				continue
			}
			var cand []int64
			if l, ok := lengths[names[iv]]; ok {
				cand = []int64{l}
			} else {
				cand = []int64{1, 3, 12}
			}
			verdict := ""
			for _, g := range cand {
				start, end := true, true
				for m := int64(1); m <= 12; m++ {
					d, ok := res[m]
					first := g*((m-1)/g) + 1
					if !ok || !(d.year == 0 && d.month == first && d.kind == calFirst) {
						start = false
					}
					if !ok || !(d.year == 0 && d.month == first+g-1 && d.kind == calLast) {
						end = false
					}
				}
				if start {
					verdict = fmt.Sprintf("for each of the twelve months the result is the first day of the %d-month period that contains the date", g)
				}
				if end {
					verdict = fmt.Sprintf("for each of the twelve months the result is the last day of the %d-month period that contains the date", g)
				}
			}
			if verdict != "" {
				c.Ob(rule, key, fn.Pos(), core.FuncName(fn), core.Discharged, verdict)
				continue
			}
			desc := ""
			for m := int64(1); m <= 12; m++ {
				if d, ok := res[m]; ok {
					desc += fmt.Sprintf(" %d→%s", m, d)
				} else {
					desc += fmt.Sprintf(" %d→?", m)
				}
			}
			c.Ob(rule, key, fn.Pos(), core.FuncName(fn), core.Violated, "the results per month of the date ("+desc+" ) are neither the first nor the last days of the date's own "+names[iv]+" period: periods straddle a calendar boundary or do not contain their dates")
		}
	}
	c.Floor(rule, 4)
}

const (
	calFirst = iota
	calLast
	calOther
	calSelf // the date's own (symbolic) day of the month
)

// calDate: a day relative to the symbolic year Y of the date: year offset,
// month 1..12, and first / last / n-th day of that month.
type calDate struct {
	year, month int64
	kind        int
	day         int64
}

func (d calDate) String() string {
	y := "Y"
	if d.year != 0 {
		y = fmt.Sprintf("Y%+d", d.year)
	}
	switch d.kind {
	case calFirst:
		return fmt.Sprintf("%s-%02d-first", y, d.month)
	case calLast:
		return fmt.Sprintf("%s-%02d-last", y, d.month)
	case calSelf:
		return fmt.Sprintf("%s-%02d-(its own day)", y, d.month)
	}
	return fmt.Sprintf("%s-%02d-%02d", y, d.month, d.day)
}

func normCal(year, month, day int64) (calDate, bool) {
	// months outside 1..12 roll over into the year, as time.Date does
	y := year + floorDiv(month-1, 12)
	m := floorMod(month-1, 12) + 1
	switch {
	case day == 1:
		return calDate{year: y, month: m, kind: calFirst, day: 1}, true
	case day == 0:
		// the day before the first: last day of the previous month
		pm := m - 1
		py := y
		if pm == 0 {
			pm, py = 12, y-1
		}
		return calDate{year: py, month: pm, kind: calLast}, true
	case day == 31 && (m == 1 || m == 3 || m == 5 || m == 7 || m == 8 || m == 10 || m == 12):
		return calDate{year: y, month: m, kind: calLast, day: 31}, true
	case day == 30 && (m == 4 || m == 6 || m == 9 || m == 11):
		return calDate{year: y, month: m, kind: calLast, day: 30}, true
	case day >= 2 && day <= 28:
		return calDate{year: y, month: m, kind: calOther, day: day}, true
	}
	return calDate{}, false // depends on the length of the month
}

func floorDiv(a, b int64) int64 {
	q := a / b
	if (a%b != 0) && ((a < 0) != (b < 0)) {
		q--
	}
	return q
}

func floorMod(a, b int64) int64 { return a - floorDiv(a, b)*b }

// addCal applies AddDate(y, m, d) as time does: years and months first (the
// day of the month is kept), then days.
func addCal(b calDate, y, m, d int64, at string) (calDate, bool, string) {
	if b.kind == calSelf {
		if y == 0 && m == 0 && d == 0 {
			return b, true, ""
		}
		return calDate{}, false, "" // the date moved by constants: not a period boundary this rule knows
	}
	if y != 0 || m != 0 {
		switch b.kind {
		case calFirst:
			nb, _ := normCal(b.year+y, b.month+m, 1)
			b = nb
		case calOther:
			nb, _ := normCal(b.year+y, b.month+m, b.day)
			b = nb
		default:
			return calDate{}, false, "AddDate with months at " + at + " is applied to the last day of a month: the result depends on the lengths of the months"
		}
	}
	switch {
	case d == 0:
		return b, true, ""
	case b.kind == calFirst && d == -1:
		nb, _ := normCal(b.year, b.month, 0)
		return nb, true, ""
	case b.kind == calLast && d == 1:
		nb, _ := normCal(b.year, b.month+1, 1)
		return nb, true, ""
	case b.kind == calFirst && d >= 1 && d <= 27:
		return calDate{year: b.year, month: b.month, kind: calOther, day: 1 + d}, true, ""
	case b.kind == calOther && b.day+d >= 1 && b.day+d <= 28:
		nb, _ := normCal(b.year, b.month, b.day+d)
		return nb, true, ""
	}
	return calDate{}, false, fmt.Sprintf("AddDate by %d days at %s: the result depends on the lengths of the months", d, at)
}

