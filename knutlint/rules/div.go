package rules

import (
	"fmt"
	"go/token"
	"go/types"
	"strings"

	"golang.org/x/tools/go/ssa"

	"knutlint/core"
)

// decimal methods that panic on a zero divisor (shopspring/decimal v1.3.1):
// argument index of the divisor in the SSA call (0 = receiver).
var decimalDivisors = map[string]int{
	"Div": 1, "DivRound": 1, "QuoRem": 1, "Mod": 1,
}

// RuleDDiv — every decimal division has a divisor that is a non-zero
// constant or is guarded by a dominating zero test (DESIGN.md D-div).
// Integer and float divisions by non-constants in module code are covered
// too (integer division by zero panics; float division does not and is
// reported as info only).
func RuleDDiv(c *core.Ctx) {
	const rule = "D-div"
	p := c.P
	for _, fn := range p.SrcFuncs() {
		core.EachInstr(fn, func(ins ssa.Instruction) {
			switch x := ins.(type) {
			case *ssa.Call:
				callee := x.Call.StaticCallee()
				if callee == nil || core.PkgPathOf(callee) != pkgDecimal {
					return
				}
				idx, ok := decimalDivisors[callee.Name()]
				if !ok || callee.Signature.Recv() == nil || idx >= len(x.Call.Args) {
					return
				}
				div := x.Call.Args[idx]
				key := fmt.Sprintf("%s:%s(divisor %s)", core.FuncName(fn), callee.Name(), describeValue(p, div))
				ok2, why := nonZeroDivisor(p, x, div)
				v := core.Violated
				if ok2 {
					v = core.Discharged
				}
				c.Ob(rule, key, x.Pos(), core.FuncName(fn), v, why)
			case *ssa.BinOp:
				if x.Op != token.QUO && x.Op != token.REM {
					return
				}
				if _, isConst := x.Y.(*ssa.Const); isConst {
					return
				}
				if isFloat(x.Y.Type()) {
					return // float division never panics
				}
				key := fmt.Sprintf("%s:int %s(divisor %s)", core.FuncName(fn), x.Op, describeValue(p, x.Y))
				if g, _ := p.Guarded(x, x.Y, "zero"); g {
					c.Ob(rule, key, x.Pos(), core.FuncName(fn), core.Discharged, "integer divisor guarded by a dominating zero test")
					return
				}
				if isLenPlusConst(x.Y) {
					c.Ob(rule, key, x.Pos(), core.FuncName(fn), core.Discharged, "divisor is len(..)+k with k>0")
					return
				}
				c.Ob(rule, key, x.Pos(), core.FuncName(fn), core.Violated, "integer division by a value with no dominating zero test")
			}
		})
	}
	c.Floor(rule, 2)
}

func isLenPlusConst(v ssa.Value) bool {
	bo, ok := v.(*ssa.BinOp)
	if !ok || bo.Op != token.ADD {
		return false
	}
	n, ok := core.ConstInt(bo.Y)
	if !ok || n <= 0 {
		return false
	}
	call, ok := bo.X.(*ssa.Call)
	if !ok {
		return false
	}
	b, ok := call.Call.Value.(*ssa.Builtin)
	return ok && b.Name() == "len"
}

// nonZeroDivisor decides whether the decimal divisor div is provably non-zero
// at call site at.
func nonZeroDivisor(p *core.Prog, at ssa.Instruction, div ssa.Value) (bool, string) {
	// 1. guarded directly: if div.IsZero() { return } dominates
	if ok, iff := p.Guarded(at, div, "zero"); ok {
		return true, "divisor guarded by the zero test at " + p.Pos(iff.Cond.Pos())
	}
	// 2. load of a package-level variable whose only store is a non-zero constant constructor
	if u, ok := div.(*ssa.UnOp); ok && u.Op == token.MUL {
		if g, ok := u.X.(*ssa.Global); ok {
			if ok, why := globalNonZeroDecimal(p, g); ok {
				return true, why
			}
			return false, "divisor is package variable " + g.Name() + " which is not a write-once non-zero constant"
		}
	}
	// 3. constructed from an integer: NewFromInt(int64(X)) is zero iff X is zero
	if call, ok := div.(*ssa.Call); ok {
		if callee := call.Call.StaticCallee(); callee != nil && core.PkgPathOf(callee) == pkgDecimal {
			switch callee.Name() {
			case "NewFromInt", "NewFromInt32":
				x := call.Call.Args[0]
				for {
					if cv, ok := x.(*ssa.Convert); ok {
						x = cv.X
						continue
					}
					break
				}
				if n, ok := core.ConstInt(x); ok {
					if n != 0 {
						return true, "divisor is the non-zero constant " + fmt.Sprint(n)
					}
					return false, "divisor is the constant zero"
				}
				if ok, iff := p.Guarded(at, x, "zero"); ok {
					return true, "divisor is NewFromInt(n) and n is guarded by the zero test at " + p.Pos(iff.Cond.Pos())
				}
				return false, "divisor is NewFromInt(" + describeValue(p, x) + ") and no dominating test excludes zero"
			}
		}
	}
	return false, "no dominating zero test on the divisor and it is not a non-zero constant"
}

// globalNonZeroDecimal: g is stored exactly once (in the package initialiser)
// with decimal.NewFromInt(k≠0) or RequireFromString/"k" of a non-zero literal.
func globalNonZeroDecimal(p *core.Prog, g *ssa.Global) (bool, string) {
	var stores []*ssa.Store
	for fn := range p.AllFuncs {
		if fn.Pkg != g.Pkg && !p.InModule(fn) {
			continue
		}
		core.EachInstr(fn, func(ins ssa.Instruction) {
			if st, ok := ins.(*ssa.Store); ok && st.Addr == g {
				stores = append(stores, st)
			}
		})
	}
	if len(stores) != 1 || stores[0].Parent().Name() != "init" {
		return false, ""
	}
	call, ok := stores[0].Val.(*ssa.Call)
	if !ok {
		return false, ""
	}
	callee := call.Call.StaticCallee()
	if callee == nil || core.PkgPathOf(callee) != pkgDecimal || len(call.Call.Args) == 0 {
		return false, ""
	}
	switch callee.Name() {
	case "NewFromInt", "NewFromInt32":
		if n, ok := core.ConstInt(call.Call.Args[0]); ok && n != 0 {
			return true, fmt.Sprintf("divisor is package variable %s, written once as NewFromInt(%d)", g.Name(), n)
		}
	case "RequireFromString":
		if s, ok := core.ConstString(call.Call.Args[0]); ok && strings.Trim(s, "0.-+") != "" {
			return true, fmt.Sprintf("divisor is package variable %s, written once as RequireFromString(%q)", g.Name(), s)
		}
	}
	return false, ""
}

// describeValue renders an SSA value for keys and messages without
// positions or register names.
func describeValue(p *core.Prog, v ssa.Value) string {
	return describeDepth(p, v, 3)
}

func describeDepth(p *core.Prog, v ssa.Value, d int) string {
	if d == 0 {
		return "…"
	}
	switch x := v.(type) {
	case *ssa.Const:
		return x.String()
	case *ssa.Parameter:
		return "param " + x.Name()
	case *ssa.FreeVar:
		return "captured " + x.Name()
	case *ssa.Global:
		return "var " + x.Name()
	case *ssa.Alloc:
		if x.Comment != "" {
			return "local " + x.Comment
		}
		return "local"
	case *ssa.Convert:
		return describeDepth(p, x.X, d)
	case *ssa.ChangeType:
		return describeDepth(p, x.X, d)
	case *ssa.MakeInterface:
		return describeDepth(p, x.X, d)
	case *ssa.UnOp:
		if x.Op == token.MUL {
			return describeDepth(p, x.X, d)
		}
		return x.Op.String() + describeDepth(p, x.X, d-1)
	case *ssa.FieldAddr:
		return describeDepth(p, x.X, d-1) + "." + core.FieldOf(x).Name()
	case *ssa.Field:
		return describeDepth(p, x.X, d-1) + "." + core.FieldOf(x).Name()
	case *ssa.Extract:
		return describeDepth(p, x.Tuple, d) + fmt.Sprintf("#%d", x.Index)
	case *ssa.Call:
		name := ""
		if callee := x.Call.StaticCallee(); callee != nil {
			name = callee.Name()
		} else if x.Call.IsInvoke() {
			name = x.Call.Method.Name()
		} else if b, ok := x.Call.Value.(*ssa.Builtin); ok {
			name = b.Name()
		} else {
			name = "call"
		}
		var args []string
		for _, a := range x.Call.Args {
			args = append(args, describeDepth(p, a, d-1))
		}
		return name + "(" + strings.Join(args, ",") + ")"
	case *ssa.Phi:
		return "phi " + x.Comment
	case *ssa.Lookup:
		return describeDepth(p, x.X, d-1) + "[…]"
	case *ssa.Index:
		return describeDepth(p, x.X, d-1) + "[…]"
	case *ssa.IndexAddr:
		return describeDepth(p, x.X, d-1) + "[…]"
	case *ssa.BinOp:
		return describeDepth(p, x.X, d-1) + x.Op.String() + describeDepth(p, x.Y, d-1)
	case *ssa.Slice:
		return describeDepth(p, x.X, d-1) + "[:]"
	}
	return fmt.Sprintf("%T", v)
}

func isFloat(t interface{ Underlying() types.Type }) bool {
	b, ok := t.Underlying().(*types.Basic)
	return ok && b.Info()&types.IsFloat != 0
}
