package rules

import (
	"fmt"
	"go/types"

	"golang.org/x/tools/go/ssa"

	"knutlint/core"
)

// RuleCSparse — amounts.Amounts is a sparse map in which an absent key means
// zero (Amounts.Add, Amount, Plus, Minus, SumIntoBy all read it through the
// defaulting index expression, and SumIntoBy deletes zero entries). A
// comma-ok lookup whose ok result reaches a branch therefore distinguishes
// two representations of the same amount. DESIGN.md C-sparse.
func RuleCSparse(c *core.Ctx) {
	const rule = "C-sparse"
	p := c.P
	amountsT := p.NamedType(pkgAmounts, "Amounts")
	if amountsT == nil {
		c.Anchor(rule, "type lib/amounts.Amounts")
		return
	}
	plain, commaok := 0, 0
	for _, fn := range p.SrcFuncs() {
		core.EachInstr(fn, func(ins ssa.Instruction) {
			lk, ok := ins.(*ssa.Lookup)
			if !ok {
				return
			}
			if !isNamed(lk.X.Type(), amountsT) && !isNamed(core.Strip(lk.X).Type(), amountsT) {
				return
			}
			if !lk.CommaOk {
				plain++
				return
			}
			commaok++
			key := fmt.Sprintf("%s:comma-ok lookup on Amounts %s", core.FuncName(fn), describeValue(p, lk.X))
			// does the ok component reach a branch?
			branches := false
			if lk.Referrers() != nil {
				for _, r := range *lk.Referrers() {
					ex, ok := r.(*ssa.Extract)
					if !ok || ex.Index != 1 {
						continue
					}
					if reachesBranch(ex, map[ssa.Value]bool{}) {
						branches = true
					}
				}
			}
			if branches {
				c.Ob(rule, key, lk.Pos(), core.FuncName(fn), core.Violated,
					"the presence bit of a sparse Amounts entry decides a branch: a position that was never booked (absent) and one that nets to zero (present, or deleted by SumIntoBy) are the same amount but are treated differently")
			} else {
				c.Ob(rule, key, lk.Pos(), core.FuncName(fn), core.Discharged, "presence bit is not used in a branch")
			}
		})
	}
	// the convention itself: Amounts.Add must read through the defaulting index
	add := p.Func(pkgAmounts, "Amounts.Add")
	if add == nil {
		c.Anchor(rule, "method lib/amounts.Amounts.Add")
		return
	}
	okAdd := false
	core.EachInstr(add, func(ins ssa.Instruction) {
		if lk, ok := ins.(*ssa.Lookup); ok && !lk.CommaOk {
			okAdd = true
		}
	})
	v := core.Discharged
	if !okAdd {
		v = core.Undecided
	}
	c.Ob(rule, "lib/amounts.Amounts.Add:defaulting read", add.Pos(), core.FuncName(add), v,
		fmt.Sprintf("Amounts.Add reads the old value with the defaulting index expression (absent = zero); %d plain and %d comma-ok lookups on Amounts values in the module", plain, commaok))
	c.Floor(rule, 1)
}

func isNamed(t types.Type, n *types.Named) bool {
	if t == nil || n == nil {
		return false
	}
	if nt, ok := types.Unalias(t).(*types.Named); ok {
		return nt.Obj() == n.Obj()
	}
	return false
}

// reachesBranch: v (a bool) flows into an If, possibly through !, &&/|| phis
// and comparisons.
func reachesBranch(v ssa.Value, seen map[ssa.Value]bool) bool {
	if seen[v] {
		return false
	}
	seen[v] = true
	if v.Referrers() == nil {
		return false
	}
	for _, r := range *v.Referrers() {
		switch x := r.(type) {
		case *ssa.If:
			return true
		case *ssa.UnOp:
			if reachesBranch(x, seen) {
				return true
			}
		case *ssa.BinOp:
			if reachesBranch(x, seen) {
				return true
			}
		case *ssa.Phi:
			if reachesBranch(x, seen) {
				return true
			}
		}
	}
	return false
}
