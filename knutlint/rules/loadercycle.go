package rules

import (
	"go/token"
	"go/types"
	"sort"

	"golang.org/x/tools/go/ssa"

	"knutlint/core"
)

// The recursive file loader, located by shape: the functions of package
// lib/syntax that lie on a call cycle together with a function that reads the
// file named by one of its parameters (a *reader*). Today that is parseRec and
// its two closures; after a restructuring it may be a loader type with
// load/parse/include methods.
type loaderInfo struct {
	readers []*ssa.Function
	cycle   map[*ssa.Function]bool
	list    []*ssa.Function // cycle, sorted
}

func loaderCycle(c *core.Ctx) *loaderInfo {
	return core.Memo(c, "loaderCycle", func() *loaderInfo {
		p := c.P
		li := &loaderInfo{cycle: map[*ssa.Function]bool{}}
		var cands []*ssa.Function
		for _, fn := range p.SrcFuncs() {
			if core.PkgPathOf(fn) == pkgSyntax && fn.Parent() == nil && fileReadParam(p, fn, 0) >= 0 {
				cands = append(cands, fn)
			}
		}
		sort.Slice(cands, func(i, j int) bool { return cands[i].String() < cands[j].String() })
		for _, g := range cands {
			from := p.ReachLexical(g)
			onCycle := false
			for f := range from {
				if core.PkgPathOf(f) != pkgSyntax || f == g {
					continue
				}
				if p.ReachLexical(f)[g] {
					li.cycle[f] = true
					onCycle = true
				}
			}
			// direct self-recursion through a closure counts through the closure above;
			// a plain self call:
			core.EachInstr(g, func(ins ssa.Instruction) {
				if call, ok := ins.(ssa.CallInstruction); ok && call.Common().StaticCallee() == g {
					onCycle = true
				}
			})
			if onCycle {
				li.cycle[g] = true
				li.readers = append(li.readers, g)
			}
		}
		// the readers proper: those whose parameter reaches the file read without
		// going through another function of the cycle
		var readers []*ssa.Function
		for _, r := range li.readers {
			if fileReadParamAvoiding(p, r, 0, li.cycle) >= 0 {
				readers = append(readers, r)
			}
		}
		if len(readers) > 0 {
			li.readers = readers
		}
		for f := range li.cycle {
			li.list = append(li.list, f)
		}
		sort.Slice(li.list, func(i, j int) bool { return li.list[i].String() < li.list[j].String() })
		return li
	})
}

// paramRoot: v is, through captured variables and single-assignment cells, a
// parameter of a function; returns it.
func paramRoot(v ssa.Value) *ssa.Parameter {
	if _, root := containerRoot(v); root != nil {
		if prm, ok := root.(*ssa.Parameter); ok {
			return prm
		}
	}
	if prm, ok := core.Strip(v).(*ssa.Parameter); ok {
		return prm
	}
	return nil
}

func paramIndex(prm *ssa.Parameter) int {
	for i, q := range prm.Parent().Params {
		if q == prm {
			return i
		}
	}
	return -1
}

// carries reports whether parameter prm of a cycle function carries, unchanged,
// the value of kind "path" (the file being parsed) or "chain" (the list of
// ancestors) of the current activation: it is the reader's own file parameter,
// or every call of its function from within the cycle passes a carrying value
// at that position. For "chain" the base case is any []string parameter of a
// reader.
func (li *loaderInfo) carries(p *core.Prog, prm *ssa.Parameter, kind string, depth int) bool {
	if prm == nil || depth > 4 {
		return false
	}
	fn := prm.Parent()
	if !li.cycle[fn] {
		return false
	}
	idx := paramIndex(prm)
	for _, r := range li.readers {
		if fn == r {
			if kind == "path" && fileReadParamAvoiding(p, r, 0, li.cycle) == idx {
				return true
			}
			if kind == "chain" && isChainType(prm.Type()) {
				return true
			}
		}
	}
	// passed through to a carrying parameter of a callee in the cycle
	found := false
	core.EachInstr(fn, func(ins ssa.Instruction) {
		call, ok := ins.(ssa.CallInstruction)
		if !ok || found {
			return
		}
		callee := call.Common().StaticCallee()
		if callee == nil || !li.cycle[callee] || callee == fn {
			return
		}
		for i, a := range call.Common().Args {
			if paramRoot(a) == prm && i < len(callee.Params) && li.carries(p, callee.Params[i], kind, depth+1) {
				found = true
			}
		}
	})
	if found {
		return true
	}
	// handed down: every call of fn from within the cycle passes a carrying value
	ncalls, all := 0, true
	for _, caller := range li.list {
		core.EachInstr(caller, func(ins ssa.Instruction) {
			call, ok := ins.(ssa.CallInstruction)
			if !ok || call.Common().StaticCallee() != fn {
				return
			}
			ncalls++
			args := call.Common().Args
			if idx >= len(args) {
				all = false
				return
			}
			q := paramRoot(args[idx])
			if q == nil || q == prm || !li.carries(p, q, kind, depth+1) {
				all = false
			}
		})
	}
	if ncalls > 0 && all {
		return true
	}
	// closures of fn that capture the parameter and pass it on
	for _, an := range fn.AnonFuncs {
		if !li.cycle[an] {
			continue
		}
		core.EachInstr(an, func(ins ssa.Instruction) {
			call, ok := ins.(ssa.CallInstruction)
			if !ok || found {
				return
			}
			callee := call.Common().StaticCallee()
			if callee == nil || !li.cycle[callee] {
				return
			}
			for i, a := range call.Common().Args {
				if paramRoot(a) == prm && i < len(callee.Params) && li.carries(p, callee.Params[i], kind, depth+1) {
					found = true
				}
			}
		})
	}
	return found
}

// growthSite: a call between two functions of the cycle at which the path is
// not passed through but computed (the included file).
type growthSite struct {
	call    ssa.CallInstruction
	caller  *ssa.Function
	callee  *ssa.Function
	pathArg ssa.Value
	pathIdx int
}

func (li *loaderInfo) growthSites(p *core.Prog) []growthSite {
	var res []growthSite
	for _, fn := range li.list {
		core.EachInstr(fn, func(ins ssa.Instruction) {
			call, ok := ins.(ssa.CallInstruction)
			if !ok {
				return
			}
			callee := call.Common().StaticCallee()
			if callee == nil || !li.cycle[callee] {
				return
			}
			for i, a := range call.Common().Args {
				if i >= len(callee.Params) || !li.carries(p, callee.Params[i], "path", 0) {
					continue
				}
				if prm := paramRoot(a); prm != nil && li.carries(p, prm, "path", 0) {
					continue // passed through
				}
				if _, isConst := a.(*ssa.Const); isConst {
					continue
				}
				res = append(res, growthSite{call, fn, callee, a, i})
			}
		})
	}
	return res
}

// isChainType: a list of file names that can grow along the recursion — a
// slice of strings, or a pointer to a linked node (a struct with a string
// field and a pointer to its own type).
func isChainType(t types.Type) bool {
	if sl, ok := t.Underlying().(*types.Slice); ok {
		if b, ok := sl.Elem().Underlying().(*types.Basic); ok && b.Kind() == types.String {
			return true
		}
	}
	if pt, ok := t.Underlying().(*types.Pointer); ok {
		if st, ok := pt.Elem().Underlying().(*types.Struct); ok {
			hasStr, hasNext := false, false
			for i := 0; i < st.NumFields(); i++ {
				ft := st.Field(i).Type()
				if b, ok := ft.Underlying().(*types.Basic); ok && b.Kind() == types.String {
					hasStr = true
				}
				if types.Identical(ft, t) {
					hasNext = true
				}
			}
			return hasStr && hasNext
		}
	}
	return false
}

// membershipHelper: fn (a function of the module returning bool) compares
// something it reads out of its parameter i — an element, a field, also of
// the nodes reached from it — with another of its parameters: `contains`.
func membershipHelper(p *core.Prog, fn *ssa.Function, i int) bool {
	if fn == nil || fn.Blocks == nil || i >= len(fn.Params) || !onlyBoolResults(fn) {
		return false
	}
	container := fn.Params[i]
	found := false
	core.EachInstr(fn, func(ins ssa.Instruction) {
		bo, ok := ins.(*ssa.BinOp)
		if !ok || found || (bo.Op != token.EQL && bo.Op != token.NEQ) {
			return
		}
		reads := func(v ssa.Value) bool {
			for x := range originSet(p, v, 0) {
				switch y := x.(type) {
				case *ssa.Field, *ssa.FieldAddr, *ssa.Index, *ssa.IndexAddr, *ssa.Lookup, *ssa.Range, *ssa.Next:
					for z := range originSet(p, y.(ssa.Value), 0) {
						if z == ssa.Value(container) {
							return true
						}
					}
				}
			}
			return false
		}
		other := func(v ssa.Value) bool {
			for x := range originSet(p, v, 0) {
				if prm, ok := x.(*ssa.Parameter); ok && prm != container {
					return true
				}
			}
			return false
		}
		if (reads(bo.X) && other(bo.Y)) || (reads(bo.Y) && other(bo.X)) {
			found = true
		}
	})
	return found
}
