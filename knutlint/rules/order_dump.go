package rules

import (
	"fmt"
	"go/types"
	"os"
	"strings"

	"golang.org/x/tools/go/ssa"

	"knutlint/core"
)

// RuleDumpMapRanges (development aid): list every range-over-map.
func RuleDumpMapRanges(c *core.Ctx) {
	p := c.P
	seen := map[string]bool{}
	for _, fn := range p.SrcFuncs() {
		core.EachInstr(fn, func(ins ssa.Instruction) {
			r, ok := ins.(*ssa.Range)
			if !ok {
				return
			}
			if _, isMap := r.X.Type().Underlying().(*types.Map); !isMap {
				return
			}
			pos := p.Pos(core.NearPos(r))
			if seen[pos] {
				return
			}
			seen[pos] = true
			c.Ob("dump", fmt.Sprintf("%s:%s", core.FuncName(fn), types.TypeString(r.X.Type(), nil)), core.NearPos(r), core.FuncName(fn), core.Info, describeValue(p, r.X))
		})
	}
}

// RuleDumpPath (development aid): KNUTLINT_PATH=<substring of function name>
// prints a call path from the listed command entries to that function.
func RuleDumpPath(c *core.Ctx) {
	target := os.Getenv("KNUTLINT_PATH")
	var entries []*ssa.Function
	for _, cmd := range core.Commands(c) {
		if cmd.Run != nil && (orderScopeUses[cmd.Use] || core.IsImporterCmd(cmd)) {
			entries = append(entries, cmd.Run)
		}
	}
	for _, fn := range c.P.SrcFuncs() {
		if target != "" && strings.Contains(core.FuncName(fn), target) {
			fmt.Println("PATH to", core.FuncName(fn))
			for _, s := range c.P.CallPath(entries, fn) {
				fmt.Println("   ", s)
			}
		}
	}
}
