package rules

import (
	"fmt"
	"go/token"
	"go/types"
	"sort"
	"strings"

	"golang.org/x/tools/go/ssa"

	"knutlint/core"
)

// ---------------------------------------------------------------------------
// I — lock discipline

type guarded struct {
	pkg, typ string
	fields   []string
	mutex    string
	ctors    map[string]bool // constructors: the object is not shared yet
}

var guardedTable = []guarded{
	{pkgAccount, "Registry", []string{"index", "accounts", "swaps"}, "mutex", map[string]bool{"lib/model/account.NewRegistry": true}},
	{pkgCommodity, "Registry", []string{"index"}, "mutex", map[string]bool{"lib/model/commodity.NewCommodities": true}},
}

type lockState struct{ r, w bool }

// lockStates computes, for every instruction of fn, whether the mutex field
// `mutex` of receiver is held (must analysis; deferred unlocks keep the lock
// until return).
func lockStates(p *core.Prog, fn *ssa.Function, mutexF *types.Var) map[ssa.Instruction]lockState {
	isMutexCall := func(ins ssa.Instruction) (string, bool) {
		call, ok := ins.(ssa.CallInstruction)
		if !ok {
			return "", false
		}
		callee := call.Common().StaticCallee()
		if callee == nil || core.PkgPathOf(callee) != "sync" {
			return "", false
		}
		if len(call.Common().Args) == 0 {
			return "", false
		}
		fa, ok := call.Common().Args[0].(*ssa.FieldAddr)
		if !ok || core.FieldOf(fa) != mutexF {
			return "", false
		}
		_, isDefer := ins.(*ssa.Defer)
		if isDefer {
			return "defer " + callee.Name(), true
		}
		return callee.Name(), true
	}
	in := map[*ssa.BasicBlock]*lockState{}
	res := map[ssa.Instruction]lockState{}
	work := []*ssa.BasicBlock{fn.Blocks[0]}
	in[fn.Blocks[0]] = &lockState{}
	for len(work) > 0 {
		b := work[len(work)-1]
		work = work[:len(work)-1]
		s := *in[b]
		for _, ins := range b.Instrs {
			res[ins] = s
			if name, ok := isMutexCall(ins); ok {
				switch name {
				case "Lock":
					s.w = true
				case "RLock":
					s.r = true
				case "Unlock":
					s.w = false
				case "RUnlock":
					s.r = false
				}
			}
		}
		for _, succ := range b.Succs {
			old := in[succ]
			if old == nil {
				n := s
				in[succ] = &n
				work = append(work, succ)
				continue
			}
			merged := lockState{r: old.r && s.r, w: old.w && s.w}
			if merged != *old {
				*old = merged
				work = append(work, succ)
			}
		}
	}
	return res
}

// RuleILocks — every access to a mutex-guarded field of the registries
// happens with the mutex held (exclusively for writes), except in the
// constructors; helpers that touch a guarded field without locking are called
// only with the lock held.
func RuleILocks(c *core.Ctx) {
	const rule = "I-locks"
	p := c.P
	n := 0
	for _, g := range guardedTable {
		mutexF := p.Field(g.pkg, g.typ, g.mutex)
		if mutexF == nil {
			c.Anchor(rule, g.pkg+"."+g.typ+"."+g.mutex)
			continue
		}
		fields := map[*types.Var]bool{}
		for _, f := range g.fields {
			fv := p.Field(g.pkg, g.typ, f)
			if fv == nil {
				c.Anchor(rule, g.pkg+"."+g.typ+"."+f)
				continue
			}
			fields[fv] = true
		}
		// helpers that access without holding: must be called with the lock held
		needsLock := map[*ssa.Function]string{} // function -> "r" | "w"
		for _, fn := range p.SrcFuncs() {
			if core.PkgPathOf(fn) != g.pkg || g.ctors[core.FuncName(fn)] {
				continue
			}
			states := lockStates(p, fn, mutexF)
			core.EachInstr(fn, func(ins ssa.Instruction) {
				fa, ok := ins.(*ssa.FieldAddr)
				if !ok || !fields[core.FieldOf(fa)] || fa.Referrers() == nil {
					return
				}
				// classify the uses of the field's value
				for _, r := range *fa.Referrers() {
					var accesses []ssa.Instruction
					write := false
					switch x := r.(type) {
					case *ssa.Store:
						if x.Addr == ssa.Value(fa) {
							accesses, write = []ssa.Instruction{x}, true
						}
					case *ssa.UnOp:
						// the loaded map / pointer: its lookups, updates and the calls it is handed to
						if x.Referrers() != nil {
							for _, rr := range *x.Referrers() {
								switch y := rr.(type) {
								case *ssa.MapUpdate:
									accesses = append(accesses, y)
									write = true
								case *ssa.Lookup:
									accesses = append(accesses, y)
								case *ssa.Range:
									accesses = append(accesses, y)
								case ssa.CallInstruction:
									accesses = append(accesses, y)
								case *ssa.Phi:
									// traversal of the tree rooted in the field
									accesses = append(accesses, y)
								}
							}
						}
					}
					for _, a := range accesses {
						n++
						st := states[a]
						kind := "read"
						if write {
							kind = "write"
						}
						if _, isMU := a.(*ssa.MapUpdate); isMU {
							kind = "write"
						}
						key := fmt.Sprintf("%s:%s of %s.%s", core.FuncName(fn), kind, g.typ, core.FieldOf(fa).Name())
						held := st.w || (kind == "read" && st.r)
						if held {
							c.Ob(rule, key, core.NearPos(a), core.FuncName(fn), core.Discharged, "mutex held")
							continue
						}
						// unexported helper: obligation moves to its callers
						if fn.Object() != nil && !fn.Object().Exported() && fn.Parent() == nil {
							need := "r"
							if kind == "write" {
								need = "w"
							}
							if needsLock[fn] != "w" {
								needsLock[fn] = need
							}
							continue
						}
						c.Ob(rule, key, core.NearPos(a), core.FuncName(fn), core.Violated, fmt.Sprintf("%s of the guarded field %s.%s without holding %s (%s): concurrent file parsing and processing stages use the registry at the same time — a data race on the map", kind, g.typ, core.FieldOf(fa).Name(), g.mutex, map[string]string{"read": "RLock or Lock", "write": "Lock"}[kind]))
					}
				}
			})
		}
		// no re-entry: sync.RWMutex is not reentrant — a function that holds the
		// mutex (in either mode) and calls a function of the package that acquires
		// it again blocks on itself for ever
		acquires := map[*ssa.Function]bool{}
		for _, fn := range p.SrcFuncs() {
			if core.PkgPathOf(fn) != g.pkg {
				continue
			}
			core.EachInstr(fn, func(ins ssa.Instruction) {
				call, ok := ins.(ssa.CallInstruction)
				if !ok {
					return
				}
				callee := call.Common().StaticCallee()
				if callee == nil || core.PkgPathOf(callee) != "sync" || len(call.Common().Args) == 0 {
					return
				}
				if fa, ok := call.Common().Args[0].(*ssa.FieldAddr); ok && core.FieldOf(fa) == mutexF && (callee.Name() == "Lock" || callee.Name() == "RLock") {
					acquires[fn] = true
				}
			})
		}
		// transitively, through functions of the package
		for changed := true; changed; {
			changed = false
			for _, fn := range p.SrcFuncs() {
				if core.PkgPathOf(fn) != g.pkg || acquires[fn] {
					continue
				}
				core.EachInstr(fn, func(ins ssa.Instruction) {
					if call, ok := ins.(ssa.CallInstruction); ok {
						if callee := call.Common().StaticCallee(); callee != nil && acquires[callee] && !acquires[fn] {
							acquires[fn] = true
							changed = true
						}
					}
				})
			}
		}
		for _, fn := range p.SrcFuncs() {
			if core.PkgPathOf(fn) != g.pkg {
				continue
			}
			states := lockStates(p, fn, mutexF)
			core.EachInstr(fn, func(ins ssa.Instruction) {
				call, ok := ins.(ssa.CallInstruction)
				if !ok {
					return
				}
				if _, isDefer := ins.(*ssa.Defer); isDefer {
					return
				}
				callee := call.Common().StaticCallee()
				if callee == nil || !acquires[callee] {
					return
				}
				st := states[ins]
				if !st.r && !st.w {
					return
				}
				n++
				c.Ob(rule, fmt.Sprintf("%s:no call of %s while the mutex is held", core.FuncName(fn), callee.Name()), ins.Pos(), core.FuncName(fn), core.Violated,
					"the function holds "+g.typ+"."+g.mutex+" here and calls "+core.FuncName(callee)+", which acquires it again: sync.RWMutex is not reentrant, the goroutine blocks on itself and the command never returns")
			})
		}
		for helper, need := range needsLock {
			node := p.CG.Nodes[helper]
			if node == nil || len(node.In) == 0 {
				c.Ob(rule, core.FuncName(helper)+":unlocked helper is unused", helper.Pos(), core.FuncName(helper), core.Discharged, "helper touches guarded state without locking but has no caller")
				continue
			}
			for _, e := range node.In {
				caller := e.Caller.Func
				if !p.InModule(caller) || g.ctors[core.FuncName(caller)] {
					continue
				}
				st := lockStates(p, caller, mutexF)[e.Site]
				key := fmt.Sprintf("%s:calls %s with the lock held", core.FuncName(caller), helper.Name())
				if st.w || (need == "r" && st.r) {
					c.Ob(rule, key, e.Site.Pos(), core.FuncName(caller), core.Discharged, "the helper accesses guarded state without locking; this caller holds the mutex")
				} else {
					c.Ob(rule, key, e.Site.Pos(), core.FuncName(caller), core.Violated, "the helper "+helper.Name()+" accesses guarded state without locking and this caller does not hold the mutex")
				}
			}
		}
	}
	c.Floor(rule, 8)
}

// ---------------------------------------------------------------------------
// B2 — field-write ownership of interned objects

// RuleB2 — interned objects are immutable after they are handed out:
// Account.{accountType,name,segments} are written only while the registry
// creates the account (under its lock); Commodity.name only in
// commodity.Registry.Get; no element of an account's segment slice is ever
// assigned; Commodity.IsCurrency is written only by code no command reaches.
func RuleB2(c *core.Ctx) {
	const rule = "B2"
	p := c.P
	owner := map[*types.Var]string{}
	// every field of the two interned struct types, enumerated from the type
	// (a field added later is covered without touching this rule): the value
	// receiver methods of Account and Commodity copy the whole struct without a
	// lock, so a write after publication races with them whatever lock it holds
	isCurrency := p.Field(pkgCommodity, "Commodity", "IsCurrency")
	segments := p.Field(pkgAccount, "Account", "segments")
	for _, tn := range []struct{ pkg, typ, owner string }{
		{pkgAccount, "Account", "(*lib/model/account.Registry).getOrCreatePath"},
		{pkgCommodity, "Commodity", "(*lib/model/commodity.Registry).Get"},
	} {
		nt := p.NamedType(tn.pkg, tn.typ)
		if nt == nil {
			continue
		}
		if st, ok := nt.Underlying().(*types.Struct); ok {
			for i := 0; i < st.NumFields(); i++ {
				if st.Field(i) != isCurrency {
					owner[st.Field(i)] = tn.owner
				}
			}
		}
	}
	if len(owner) < 4 || isCurrency == nil || segments == nil {
		c.Anchor(rule, "account.Account.{accountType,name,segments} / commodity.Commodity.{name,IsCurrency}")
		return
	}
	var entries []*ssa.Function
	for _, cmd := range core.Commands(c) {
		if cmd.Run != nil {
			entries = append(entries, cmd.Run)
		}
	}
	reach := p.ReachLexical(entries...)
	for _, fn := range p.SrcFuncs() {
		core.EachInstr(fn, func(ins ssa.Instruction) {
			st, ok := ins.(*ssa.Store)
			if !ok {
				return
			}
			switch a := st.Addr.(type) {
			case *ssa.FieldAddr:
				fv := core.FieldOf(a)
				if want, ok := owner[fv]; ok {
					key := fmt.Sprintf("%s:store to %s", core.FuncName(fn), p.FieldRef(fv))
					_ = want
					// the object is under construction: a fresh allocation of this very
					// function (the composite literal), not yet handed to anyone
					if al, isAlloc := a.X.(*ssa.Alloc); isAlloc && al.Parent() == fn {
						c.Ob(rule, key, st.Pos(), core.FuncName(fn), core.Discharged, "written while the registry creates the object (a fresh allocation of this function), before it is published")
					} else {
						c.Ob(rule, key, st.Pos(), core.FuncName(fn), core.Violated, "a field of an interned object is written outside the registry's constructor path: every holder of the object (other accounts' reports, concurrent stages) sees the change")
					}
				}
				if fv == isCurrency {
					key := fmt.Sprintf("%s:store to Commodity.IsCurrency", core.FuncName(fn))
					if reach[fn] {
						c.Ob(rule, key, st.Pos(), core.FuncName(fn), core.Violated, "Commodity.IsCurrency of an interned commodity is written by code a command reaches")
					} else {
						c.Ob(rule, key, st.Pos(), core.FuncName(fn), core.Discharged, "writer not reachable from any command")
					}
				}
			case *ssa.IndexAddr:
				// element store into a slice that is an account's segments
				isSeg := false
				if f, root := containerRoot(a.X); f == segments {
					isSeg = true
				} else if cl, ok := root.(*ssa.Call); ok && cl.Call.StaticCallee() != nil && originName(cl.Call.StaticCallee()) == "(*lib/model/account.Account).Segments" {
					isSeg = true
				} else if sl, ok := root.(*ssa.Slice); ok {
					if f2, r2 := containerRoot(sl.X); f2 == segments {
						isSeg = true
					} else if cl, ok := r2.(*ssa.Call); ok && cl.Call.StaticCallee() != nil && originName(cl.Call.StaticCallee()) == "(*lib/model/account.Account).Segments" {
						isSeg = true
					}
				}
				if isSeg {
					c.Ob(rule, core.FuncName(fn)+":element store into Account.segments", st.Pos(), core.FuncName(fn), core.Violated, "an element of an interned account's segment slice is overwritten")
				}
			}
		})
	}
	c.Floor(rule, 4)
}

// ---------------------------------------------------------------------------
// K-chan — channel protocol

// RuleKChan — channels made by cpr.Produce/FanIn are closed by a defer in
// the worker; blocking channel operations in lib/ occur only inside
// cpr.Push/Pop (select with ctx.Done()), or as a receive that is dominated by
// a successful Wait; the pool of cpr.Seq cancels on error; in a pool that
// does not, a consumer stage fails only where the table says it cannot.
func RuleKChan(c *core.Ctx) {
	const rule = "K-chan"
	p := c.P
	var entries []*ssa.Function
	for _, cmd := range core.Commands(c) {
		if cmd.Run != nil {
			entries = append(entries, cmd.Run)
		}
	}
	reach := p.ReachLexical(entries...)
	// (1) constructors
	for _, name := range []string{"Produce", "FanIn"} {
		fn := p.Func(pkgCpr, name)
		if fn == nil {
			c.Anchor(rule, "cpr."+name)
			continue
		}
		var ch *ssa.MakeChan
		core.EachInstr(fn, func(ins ssa.Instruction) {
			if mc, ok := ins.(*ssa.MakeChan); ok {
				ch = mc
			}
		})
		key := "cpr." + name + ":channel closed by the worker"
		if ch == nil {
			c.Ob(rule, key, fn.Pos(), core.FuncName(fn), core.Violated, "no channel is made")
			continue
		}
		closed := false
		closedBy := func(owner *ssa.Function, chVal ssa.Value) bool {
			res := false
			for _, cl := range core.WithAnon(owner) {
				if cl == owner {
					continue
				}
				core.EachInstr(cl, func(ins ssa.Instruction) {
					d, ok := ins.(*ssa.Defer)
					if !ok {
						return
					}
					if b, ok := d.Call.Value.(*ssa.Builtin); ok && b.Name() == "close" {
						if _, root := containerRoot(d.Call.Args[0]); root == chVal {
							// the defer must be unconditional: in the entry block
							if d.Block() == cl.Blocks[0] {
								res = true
							}
						}
					}
				})
			}
			return res
		}
		closed = closedBy(fn, ch)
		// or the channel is handed to a helper of the package whose worker closes it
		if !closed && ch.Referrers() != nil {
			for _, r := range *ch.Referrers() {
				var call ssa.CallInstruction
				switch x := r.(type) {
				case ssa.CallInstruction:
					call = x
				case *ssa.ChangeType:
					if x.Referrers() != nil {
						for _, rr := range *x.Referrers() {
							if cc, ok := rr.(ssa.CallInstruction); ok {
								call = cc
							}
						}
					}
				}
				if call == nil {
					continue
				}
				callee := call.Common().StaticCallee()
				if callee == nil || core.PkgPathOf(callee) != pkgCpr {
					continue
				}
				if o := callee.Origin(); o != nil && len(callee.AnonFuncs) == 0 {
					callee = o
				}
				for i, a := range call.Common().Args {
					if (a == ssa.Value(ch) || core.Strip(a) == ssa.Value(ch)) && i < len(callee.Params) && closedBy(callee, callee.Params[i]) {
						closed = true
					}
				}
			}
		}
		if closed {
			c.Ob(rule, key, ch.Pos(), core.FuncName(fn), core.Discharged, "deferred close in the entry block of the worker: the channel is closed on every exit, so consumers terminate")
		} else {
			c.Ob(rule, key, ch.Pos(), core.FuncName(fn), core.Violated, "the worker does not close its channel on every exit (no unconditional defer close): the consumer of the channel waits forever")
		}
	}
	// (2) blocking operations
	for _, fn := range p.SrcFuncs() {
		if !strings.HasPrefix(core.PkgPathOf(fn), core.Module+"/lib/") {
			continue
		}
		core.EachInstr(fn, func(ins ssa.Instruction) {
			what := ""
			switch x := ins.(type) {
			case *ssa.Send:
				what = "send"
			case *ssa.UnOp:
				if x.Op == token.ARROW {
					what = "receive"
				}
			case *ssa.Select:
				what = "select"
			case *ssa.Range:
				if _, isChan := x.X.Type().Underlying().(*types.Chan); isChan {
					what = "range over channel"
				}
			}
			if what == "" {
				return
			}
			name := originName(fn)
			key := fmt.Sprintf("%s:%s", name, what)
			if !reach[fn] && !reach[core.OriginOf(fn)] && !instancesReach(p, reach, fn) {
				c.Ob(rule, key, core.NearPos(ins), name, core.Info, "not reachable from any command")
				return
			}
			switch {
			case what == "select" && (name == "lib/common/cpr.Push" || name == "lib/common/cpr.Pop"):
				sel := ins.(*ssa.Select)
				hasDone := false
				for _, st := range sel.States {
					if call, ok := st.Chan.(*ssa.Call); ok && call.Call.IsInvoke() && call.Call.Method.Name() == "Done" {
						hasDone = true
					}
				}
				if hasDone && sel.Blocking {
					c.Ob(rule, key, core.NearPos(ins), name, core.Discharged, "blocking select with a ctx.Done() case: cancellation unblocks it")
				} else {
					c.Ob(rule, key, core.NearPos(ins), name, core.Violated, "the select in "+name+" has no ctx.Done() case: a cancelled pipeline stays blocked")
				}
			case what == "receive":
				// dominated by a successful Wait
				ok := false
				core.EachInstr(fn, func(i2 ssa.Instruction) {
					call, isCall := i2.(*ssa.Call)
					if !isCall {
						return
					}
					callee := call.Call.StaticCallee()
					if callee == nil || callee.Name() != "Wait" {
						return
					}
					for _, e := range errValues(call) {
						for _, sb := range core.ErrSuccessBlocks(e) {
							if sb == ins.Block() || sb.Dominates(ins.Block()) {
								ok = true
							}
						}
					}
				})
				if ok {
					c.Ob(rule, key, core.NearPos(ins), name, core.Discharged, "receive from a buffered result channel after all workers returned without error (the value has been pushed)")
				} else {
					c.Ob(rule, key, core.NearPos(ins), name, core.Violated, "a bare channel receive that is not dominated by a successful Wait: it can block forever when a stage failed")
				}
			default:
				c.Ob(rule, key, core.NearPos(ins), name, core.Violated, "a blocking channel "+what+" outside cpr.Push/cpr.Pop: it is not unblocked by cancellation")
			}
		})
	}
	// (3) pools
	for _, fn := range p.SrcFuncs() {
		if !p.InModule(fn) {
			continue
		}
		core.EachInstr(fn, func(ins ssa.Instruction) {
			call, ok := ins.(*ssa.Call)
			if !ok {
				return
			}
			callee := call.Call.StaticCallee()
			if callee == nil || !strings.HasPrefix(core.PkgPathOf(callee), "github.com/sourcegraph/conc/pool") || callee.Name() != "Wait" {
				return
			}
			// the builder chain behind the pool value
			cancels := false
			for v := range originSet(p, call.Call.Args[0], 0) {
				if cl, ok := v.(*ssa.Call); ok && cl.Call.StaticCallee() != nil && cl.Call.StaticCallee().Name() == "WithCancelOnError" {
					cancels = true
				}
			}
			name := originName(fn)
			key := name + ":pool cancels on error or consumers cannot fail early"
			if !reach[fn] && !instancesReach(p, reach, fn) {
				return
			}
			if cancels {
				c.Ob(rule, key, call.Pos(), name, core.Discharged, "pool built WithCancelOnError: a failing stage cancels the context, which unblocks every Push/Pop")
				return
			}
			if name == "lib/common/cpr.Seq" {
				c.Ob(rule, key, call.Pos(), name, core.Violated, "the pool that runs the stages of cpr.Seq does not cancel on error: when a stage fails, its upstream stage blocks forever pushing into a channel nobody reads")
				return
			}
			// consumers of channels among the workers of this pool: their per-item callbacks may fail only through reviewed calls
			bad := ""
			core.EachInstr(fn, func(i2 ssa.Instruction) {
				goCall, ok := i2.(*ssa.Call)
				if !ok || goCall.Call.StaticCallee() == nil || goCall.Call.StaticCallee().Name() != "Go" || len(goCall.Call.Args) < 2 {
					return
				}
				for _, worker := range workerFuncs(p, goCall.Call.Args[1]) {
					for _, wf := range core.WithAnon(worker) {
						core.EachInstr(wf, func(i3 ssa.Instruction) {
							fe, ok := i3.(*ssa.Call)
							if !ok || fe.Call.StaticCallee() == nil || core.BaseName(fe.Call.StaticCallee()) != "ForEach" || core.PkgPathOf(fe.Call.StaticCallee()) != pkgCpr {
								return
							}
							cb := core.FuncValue(fe.Call.Args[2])
							if cb == nil {
								return
							}
							core.EachInstr(cb, func(i4 ssa.Instruction) {
								ret, ok := i4.(*ssa.Return)
								if !ok {
									return
								}
								for _, rv := range ret.Results {
									if !core.IsErrorType(rv.Type()) || core.IsNilConst(rv) {
										continue
									}
									// where does the error come from?
									for v := range errProducers(rv, map[ssa.Value]bool{}) {
										if cl, ok := v.(*ssa.Call); ok && cl.Call.StaticCallee() != nil {
											n := originName(cl.Call.StaticCallee())
											switch n {
											case "(*lib/journal.Builder).Add":
												// fails only for an unknown directive type: excluded by F-directive-types
											case "lib/common/cpr.Push":
											default:
												if p.InModule(cl.Call.StaticCallee()) {
													bad = "the per-item callback of " + originName(wf) + " can fail through " + n
												}
											}
										}
									}
								}
							})
						})
					}
				}
			})
			if bad == "" {
				c.Ob(rule, key, call.Pos(), name, core.Discharged, "the pool does not cancel on error, but no consumer stage can fail before it has drained its input (Builder.Add cannot fail: F-directive-types)")
			} else {
				c.Ob(rule, key, call.Pos(), name, core.Violated, "the pool does not cancel on error and "+bad+" before the input channel is drained: the upstream stage then blocks forever")
			}
		})
	}
	c.Floor(rule, 5)
}

// instancesReach: some instantiation of the generic function fn is reachable.
func instancesReach(p *core.Prog, reach map[*ssa.Function]bool, fn *ssa.Function) bool {
	top := core.Outermost(fn)
	if top.Object() == nil {
		return false
	}
	for _, inst := range p.Instances(core.OriginOf(top).Object()) {
		if reach[inst] {
			return true
		}
	}
	return false
}

// workerFuncs resolves a worker value handed to pool.Go to functions: a
// closure, or the second result of a cpr.Produce/FanIn-style constructor call
// (followed into the callee's returned closure).
func workerFuncs(p *core.Prog, v ssa.Value) []*ssa.Function {
	if f := core.FuncValue(v); f != nil {
		return []*ssa.Function{f}
	}
	var res []*ssa.Function
	if ex, ok := core.Strip(v).(*ssa.Extract); ok {
		if call, ok := ex.Tuple.(*ssa.Call); ok {
			for _, callee := range p.Callees(call) {
				if callee.Blocks == nil || !p.InModule(callee) {
					continue
				}
				res = append(res, core.WithAnon(callee)...)
				// the function literal handed to Produce/FanIn inside the callee
				core.EachInstr(callee, func(ins ssa.Instruction) {
					if c2, ok := ins.(*ssa.Call); ok {
						for _, a := range c2.Call.Args {
							if f := core.FuncValue(a); f != nil {
								res = append(res, core.WithAnon(f)...)
							}
						}
					}
				})
			}
		}
	}
	return res
}

// ---------------------------------------------------------------------------
// G3 — stage isolation

// RuleG3 — the stages of one Journal.Process call run concurrently (one
// goroutine per stage, days flowing through): two stages must not share
// mutable state. The objects handed to more than one stage constructor of a
// call are of reviewed, synchronised or immutable types only.
func RuleG3(c *core.Ctx) {
	const rule = "G3"
	p := c.P
	okShared := func(t types.Type) string {
		s := types.TypeString(types.Unalias(t), nil)
		switch {
		case strings.HasSuffix(s, "/lib/model/registry.Registry"), strings.HasSuffix(s, "/lib/model/account.Registry"), strings.HasSuffix(s, "/lib/model/commodity.Registry"):
			return "registry: internally synchronised (rule I-locks), hands out immutable objects (B1, B2)"
		case strings.HasSuffix(s, "/lib/model/commodity.Commodity"), strings.HasSuffix(s, "/lib/model/account.Account"):
			return "interned, immutable object"
		case strings.HasSuffix(s, "/lib/journal.Builder"):
			return "the builder is used by the constructors only (before processing starts), not by the callbacks"
		}
		return ""
	}
	n := 0
	for _, pl := range pipelines(c) {
		if !pl.resolved {
			continue
		}
		fname := core.FuncName(pl.fn)
		type arg struct {
			v     ssa.Value
			stage *stage
		}
		var args []arg
		for _, st := range pl.stages {
			if st.call == nil {
				continue
			}
			for _, a := range st.call.Call.Args {
				a = core.Strip(a)
				switch a.Type().Underlying().(type) {
				case *types.Pointer, *types.Map, *types.Slice, *types.Chan:
					args = append(args, arg{a, st})
				}
			}
		}
		shared := map[string]bool{}
		for i := range args {
			for j := i + 1; j < len(args); j++ {
				if args[i].stage == args[j].stage || !p.SameExpr(args[i].v, args[j].v) {
					continue
				}
				t := args[i].v.Type()
				if pt, ok := t.Underlying().(*types.Pointer); ok {
					t = pt.Elem()
				}
				key := fmt.Sprintf("%s:%s shared by stages %s and %s", fname, typeShort(t), args[i].stage.name(), args[j].stage.name())
				if shared[key] {
					continue
				}
				shared[key] = true
				n++
				if why := okShared(t); why != "" {
					// the builder: callbacks must not use it
					if strings.HasSuffix(types.TypeString(t, nil), "/lib/journal.Builder") {
						used := false
						for _, st := range []*stage{args[i].stage, args[j].stage} {
							for _, cb := range st.funcs() {
								core.EachInstr(cb, func(ins ssa.Instruction) {
									for _, op := range ins.Operands(nil) {
										if *op != nil && isPtrToNamed((*op).Type(), "Builder") {
											used = true
										}
									}
								})
							}
						}
						if used {
							c.Ob(rule, key, pl.call.Pos(), fname, core.Violated, "the journal builder is shared by two stages and used inside their callbacks, which run concurrently")
							continue
						}
					}
					c.Ob(rule, key, pl.call.Pos(), fname, core.Discharged, why)
				} else if w := writesThrough(p, t, args[i].stage, args[j].stage); w == "" {
					c.Ob(rule, key, pl.call.Pos(), fname, core.Discharged, "shared configuration object: no callback of either stage stores into it")
				} else {
					c.Ob(rule, key, pl.call.Pos(), fname, core.Violated, w+"; "+"an object of type "+typeShort(t)+" is handed to two stages of one Process call; the stages run concurrently and the type is not known to be synchronised or immutable")
				}
			}
		}
		if len(shared) == 0 {
			n++
			c.Ob(rule, fname+":no shared mutable arguments", pl.call.Pos(), fname, core.Discharged, "the stage constructors of this call share no pointer, map or slice argument")
		}
	}
	c.Floor(rule, 5)
	_ = sort.Strings
}

// errProducers: the values an error result is made of, through phis, tuple
// extraction and interface conversion only (call arguments are not followed).
func errProducers(v ssa.Value, seen map[ssa.Value]bool) map[ssa.Value]bool {
	if seen[v] {
		return seen
	}
	seen[v] = true
	switch x := v.(type) {
	case *ssa.Phi:
		for _, e := range x.Edges {
			errProducers(e, seen)
		}
	case *ssa.Extract:
		errProducers(x.Tuple, seen)
	case *ssa.MakeInterface:
		errProducers(x.X, seen)
	}
	return seen
}

// writesThrough: a callback of one of the stages stores into a field of an
// object of type t.
func writesThrough(p *core.Prog, t types.Type, stages ...*stage) string {
	for _, st := range stages {
		for _, fn := range st.funcs() {
			bad := ""
			core.EachInstr(fn, func(ins ssa.Instruction) {
				s, ok := ins.(*ssa.Store)
				if !ok {
					return
				}
				fa, ok := s.Addr.(*ssa.FieldAddr)
				if !ok {
					return
				}
				if pt, ok := fa.X.Type().Underlying().(*types.Pointer); ok && types.Identical(types.Unalias(pt.Elem()), types.Unalias(t)) {
					bad = "stage " + st.name() + " stores into " + p.FieldRef(core.FieldOf(fa)) + " of the shared object in " + core.FuncName(fn)
				}
			})
			if bad != "" {
				return bad
			}
		}
	}
	return ""
}

// ---------------------------------------------------------------------------
// I-recheck — interning is atomic

// RuleIRecheck — a registry publishes a freshly allocated object into a
// guarded map only after a membership test made under the same exclusive
// acquisition of the mutex: between the Lock() and the insertion there is a
// test (comma-ok lookup of a guarded map, or a boolean-returning call on a
// guarded container) whose "found" branch cannot reach the insertion. With
// the test made only under the read lock (released before Lock), two
// goroutines that miss at the same time both insert: one name, two objects —
// and everything keyed by the interned pointer (positions, prices, the
// checker's accounts) splits in two.
func RuleIRecheck(c *core.Ctx) {
	const rule = "I-recheck"
	p := c.P
	n := 0
	for _, g := range guardedTable {
		mutexF := p.Field(g.pkg, g.typ, g.mutex)
		if mutexF == nil {
			c.Anchor(rule, g.pkg+"."+g.typ+"."+g.mutex)
			continue
		}
		fields := map[*types.Var]bool{}
		for _, f := range g.fields {
			if fv := p.Field(g.pkg, g.typ, f); fv != nil {
				fields[fv] = true
			}
		}
		guardedValue := func(v ssa.Value) bool {
			f, _ := containerRoot(v)
			return f != nil && fields[f]
		}
		// helpers that insert without locking: function -> index of the inserted parameter
		helpers := map[*ssa.Function]bool{}
		for _, fn := range p.SrcFuncs() {
			if core.PkgPathOf(fn) != g.pkg || fn.Parent() != nil {
				continue
			}
			takesLock := false
			core.EachInstr(fn, func(ins ssa.Instruction) {
				if call, ok := ins.(ssa.CallInstruction); ok {
					if callee := call.Common().StaticCallee(); callee != nil && core.PkgPathOf(callee) == "sync" && callee.Name() == "Lock" {
						takesLock = true
					}
				}
			})
			if takesLock {
				continue
			}
			core.EachInstr(fn, func(ins ssa.Instruction) {
				if mu, ok := ins.(*ssa.MapUpdate); ok && guardedValue(mu.Map) {
					for v := range originSet(p, mu.Value, 0) {
						if _, isParam := v.(*ssa.Parameter); isParam {
							helpers[fn] = true
						}
					}
				}
			})
		}
		var fresh func(v ssa.Value) bool
		fresh = func(v ssa.Value) bool {
			for x := range originSet(p, v, 0) {
				if al, ok := x.(*ssa.Alloc); ok && al.Heap {
					if _, isStruct := al.Type().Underlying().(*types.Pointer).Elem().Underlying().(*types.Struct); isStruct {
						return true
					}
				}
			}
			// a load of a location into which the same function stores a fresh object
			if ld, ok := v.(*ssa.UnOp); ok && ld.Op == token.MUL {
				found := false
				core.EachInstr(ld.Parent(), func(ins ssa.Instruction) {
					if st, ok := ins.(*ssa.Store); ok && st.Addr != ld.X && p.SameExpr(st.Addr, ld.X) {
						if _, isAlloc := st.Val.(*ssa.Alloc); isAlloc {
							found = true
						}
					} else if ok && st.Addr == ld.X {
						if _, isAlloc := st.Val.(*ssa.Alloc); isAlloc {
							found = true
						}
					}
				})
				return found
			}
			return false
		}
		for _, fn := range p.SrcFuncs() {
			if core.PkgPathOf(fn) != g.pkg || g.ctors[core.FuncName(fn)] || helpers[fn] {
				continue
			}
			// exclusive acquisitions in fn
			var locks []ssa.Instruction
			core.EachInstr(fn, func(ins ssa.Instruction) {
				call, ok := ins.(*ssa.Call)
				if !ok {
					return
				}
				callee := call.Call.StaticCallee()
				if callee == nil || core.PkgPathOf(callee) != "sync" || callee.Name() != "Lock" || len(call.Call.Args) == 0 {
					return
				}
				if fa, ok := call.Call.Args[0].(*ssa.FieldAddr); ok && core.FieldOf(fa) == mutexF {
					locks = append(locks, call)
				}
			})
			core.EachInstr(fn, func(ins ssa.Instruction) {
				var inserted ssa.Value
				what := ""
				switch x := ins.(type) {
				case *ssa.MapUpdate:
					if guardedValue(x.Map) {
						f, _ := containerRoot(x.Map)
						inserted, what = x.Value, "insert into "+p.FieldRef(f)
					}
				case *ssa.Call:
					if callee := x.Call.StaticCallee(); callee != nil && helpers[callee] {
						for _, a := range x.Call.Args[1:] {
							if fresh(a) {
								inserted = a
							}
						}
						what = "insert through " + callee.Name()
					}
				}
				// a parameter of a function that takes the lock itself: fresh if some caller
				// hands over a freshly allocated object
				if inserted != nil && !fresh(inserted) && len(locks) > 0 {
					callerFresh := false
					for v := range originSet(p, inserted, 0) {
						prm, ok := v.(*ssa.Parameter)
						if !ok || prm.Parent() != fn {
							continue
						}
						idx := paramIndex(prm)
						if n := p.CG.Nodes[fn]; n != nil {
							for _, e := range n.In {
								if e.Site == nil || !p.InModule(e.Caller.Func) {
									continue
								}
								args := e.Site.Common().Args
								if idx < len(args) && fresh(args[idx]) {
									callerFresh = true
									inserted = prm
									what += " (the object is allocated by the caller " + core.FuncName(e.Caller.Func) + ")"
								}
							}
						}
					}
					if !callerFresh {
						return
					}
				} else if inserted == nil || !fresh(inserted) {
					return
				}
				n++
				key := fmt.Sprintf("%s:%s of a new object follows a membership test under the same Lock", core.FuncName(fn), what)
				ok := false
				for _, l := range locks {
					if !core.Dominates(l, ins) {
						continue
					}
					// a test between l and ins
					for _, b := range fn.Blocks {
						iff, isIf := b.Instrs[len(b.Instrs)-1].(*ssa.If)
						if !isIf || !core.Dominates(l, iff) || !b.Dominates(ins.Block()) {
							continue
						}
						isTest := false
						for v := range originSet(p, iff.Cond, 0) {
							switch t := v.(type) {
							case *ssa.Lookup:
								if t.CommaOk && guardedValue(t.X) {
									isTest = true
								}
							case *ssa.Call:
								if t.Call.IsInvoke() {
									continue
								}
								for _, a := range t.Call.Args {
									if guardedValue(a) {
										isTest = true
									}
								}
							}
						}
						if !isTest {
							continue
						}
						if ctl, _ := core.Controls(b, ins.Block()); ctl {
							ok = true
						}
					}
				}
				if ok {
					c.Ob(rule, key, ins.Pos(), core.FuncName(fn), core.Discharged, "membership re-tested after Lock(); the found branch does not reach the insertion")
				} else {
					c.Ob(rule, key, ins.Pos(), core.FuncName(fn), core.Violated, "a freshly allocated object is inserted under the write lock without re-testing membership under that lock: two goroutines that missed under the read lock both insert, so one name gets two objects and everything keyed by the interned pointer splits")
				}
			})
		}
	}
	c.Floor(rule, 2)
}
