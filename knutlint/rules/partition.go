package rules

import (
	"fmt"
	"go/constant"
	"go/token"
	"go/types"

	"golang.org/x/tools/go/ssa"

	"knutlint/core"
)

// Rules for C11 (reporting periods partition the window). They decide the
// *construction* of the partition — which value feeds which — not the
// calendar arithmetic inside StartOf/EndOf or time.AddDate.

func isTimeMethod(v ssa.Value, name string) *ssa.Call {
	call, ok := v.(*ssa.Call)
	if !ok {
		return nil
	}
	callee := call.Call.StaticCallee()
	if callee == nil || callee.Pkg == nil || callee.Pkg.Pkg.Path() != "time" || callee.Name() != name {
		return nil
	}
	return call
}

func constInt(v ssa.Value, want int64) bool {
	k, ok := v.(*ssa.Const)
	return ok && k.Value != nil && k.Int64() == want
}

// loadOfParamField: v is a load of field `field` of the local copy of
// parameter prm (go/ssa spills a struct parameter whose fields are addressed).
func loadOfParamField(v ssa.Value, prm *ssa.Parameter, field string) bool {
	ld, ok := v.(*ssa.UnOp)
	if !ok || ld.Op != token.MUL {
		return false
	}
	fa, ok := ld.X.(*ssa.FieldAddr)
	if !ok || core.FieldOf(fa) == nil || core.FieldOf(fa).Name() != field {
		return false
	}
	al, ok := fa.X.(*ssa.Alloc)
	if !ok {
		return false
	}
	sts := core.StoresTo(al)
	return len(sts) == 1 && sts[0].Val == ssa.Value(prm)
}

// RuleKPartChain — NewPartition builds consecutive, boundary-aligned periods
// that cover the window, backwards from its end:
//
//	(chain)    the End of the period appended in an iteration is the loop
//	           variable `end`, whose first value is the window's End and
//	           whose next value is AddDate(0, 0, -1) of the very Start that
//	           was stored in the period appended in this iteration;
//	(boundary) that Start is StartOf(end, interval) for the function's own
//	           interval parameter, replaced by the window's Start exactly
//	           when it lies before it (clipping);
//	(cover)    the loop is left only when end lies before the window's Start
//	           or when `last` periods were produced: counter starts at 0,
//	           grows by one per appended period, and the test is
//	           counter >= last && last > 0;
//	(order)    the periods, produced latest first, are reversed before they
//	           are stored in the Partition.
func RuleKPartChain(c *core.Ctx) {
	const rule = "K-part-chain"
	p := c.P
	ctor := p.Func(pkgDate, "NewPartition")
	startOf := p.Func(pkgDate, "StartOf")
	periodT := p.NamedType(pkgDate, "Period")
	intervalT := p.NamedType(pkgDate, "Interval")
	if ctor == nil || startOf == nil || periodT == nil || intervalT == nil {
		c.Anchor(rule, "date.NewPartition / date.StartOf / date.Period / date.Interval")
		return
	}
	// the function that builds the periods: NewPartition itself or a helper of the
	// package it calls — the one with a Period literal inside a loop
	var fn *ssa.Function
	for cand := range p.ReachLexical(ctor) {
		if core.PkgPathOf(cand) != pkgDate || cand == startOf {
			continue
		}
		found := false
		for _, body := range loopsOf(cand) {
			for b := range body {
				for _, ins := range b.Instrs {
					if al, ok := ins.(*ssa.Alloc); ok && isNamed(al.Type().Underlying().(*types.Pointer).Elem(), periodT) {
						found = true
					}
				}
			}
		}
		if found && (fn == nil || cand.String() < fn.String()) {
			fn = cand
		}
	}
	if fn == nil {
		c.Ob(rule, core.FuncName(ctor)+":period construction", ctor.Pos(), core.FuncName(ctor), core.Undecided, "no function reachable from NewPartition builds Period values inside a loop: the construction of the partition has a shape this rule does not know")
		return
	}
	var window, interval, last *ssa.Parameter
	for _, prm := range fn.Params {
		switch {
		case isNamed(prm.Type(), periodT):
			window = prm
		case isNamed(prm.Type(), intervalT):
			interval = prm
		default:
			if b, ok := prm.Type().Underlying().(*types.Basic); ok && b.Info()&types.IsInteger != 0 {
				last = prm
			}
		}
	}
	if window == nil || interval == nil || last == nil {
		c.Anchor(rule, "the (window Period, interval Interval, last int) parameters of "+core.FuncName(fn))
		return
	}
	fname := core.FuncName(fn)
	loops := loopsOf(fn)
	// the period literal appended inside a loop
	type lit struct {
		alloc      *ssa.Alloc
		start, end ssa.Value
		header     *ssa.BasicBlock
		body       map[*ssa.BasicBlock]bool
	}
	var lits []lit
	for h, body := range loops {
		for b := range body {
			for _, ins := range b.Instrs {
				al, ok := ins.(*ssa.Alloc)
				if !ok || !isNamed(al.Type().Underlying().(*types.Pointer).Elem(), periodT) {
					continue
				}
				l := lit{alloc: al, header: h, body: body}
				for _, r := range *al.Referrers() {
					fa, ok := r.(*ssa.FieldAddr)
					if !ok {
						continue
					}
					for _, st := range core.StoresTo(fa) {
						switch core.FieldOf(fa).Name() {
						case "Start":
							l.start = st.Val
						case "End":
							l.end = st.Val
						}
					}
				}
				if l.start != nil && l.end != nil {
					lits = append(lits, l)
				}
			}
		}
	}
	if len(lits) != 1 {
		c.Ob(rule, fname+":period construction", fn.Pos(), fname, core.Undecided, fmt.Sprintf("expected one Period literal built inside a loop, found %d: the construction of the partition has a shape this rule does not know", len(lits)))
		return
	}
	l := lits[0]
	ob := func(key string, ok bool, good, bad string, at token.Pos) {
		if ok {
			c.Ob(rule, fname+":"+key, at, fname, core.Discharged, good)
		} else {
			c.Ob(rule, fname+":"+key, at, fname, core.Violated, bad)
		}
	}
	// (chain)
	endPhi, _ := l.end.(*ssa.Phi)
	chainOK, why := false, "the End of the appended period is not a loop variable"
	if endPhi != nil && endPhi.Block() == l.header {
		why = ""
		for i, e := range endPhi.Edges {
			pred := l.header.Preds[i]
			if l.body[pred] {
				call := isTimeMethod(e, "AddDate")
				if call == nil || len(call.Call.Args) != 4 || call.Call.Args[0] != l.start ||
					!constInt(call.Call.Args[1], 0) || !constInt(call.Call.Args[2], 0) || !constInt(call.Call.Args[3], -1) {
					why = "the next end is " + describeValue(p, e) + ", not the day before the Start stored in the period just appended"
				}
			} else if !loadOfParamField(e, window, "End") {
				why = "the first end is " + describeValue(p, e) + ", not the window's End"
			}
		}
		chainOK = why == ""
	}
	ob("chain: each period ends the day before the next one starts, the last one at the window's end", chainOK,
		"End = loop variable end; first value period.End; next value AddDate(0,0,-1) of the Start stored in the same iteration",
		"the periods are not chained: "+why+" — periods can overlap or leave days uncovered", l.alloc.Pos())
	// (boundary)
	boundOK, why2 := false, ""
	checkStartOf := func(v ssa.Value) bool {
		call, ok := v.(*ssa.Call)
		return ok && call.Call.StaticCallee() == startOf && len(call.Call.Args) == 2 && call.Call.Args[0] == l.end && call.Call.Args[1] == ssa.Value(interval)
	}
	switch s := l.start.(type) {
	case *ssa.Call:
		boundOK = checkStartOf(s)
		why2 = "Start is " + describeValue(p, s)
		if boundOK {
			boundOK, why2 = false, "Start is never clipped at the window's Start"
		}
	case *ssa.Phi:
		var so ssa.Value
		clipEdge := -1
		for i, e := range s.Edges {
			if checkStartOf(e) {
				so = e
			} else if loadOfParamField(e, window, "Start") {
				clipEdge = i
			} else {
				why2 = "Start can be " + describeValue(p, e)
			}
		}
		if so != nil && clipEdge >= 0 && why2 == "" {
			// the clip edge is taken exactly when StartOf(...) is before the window's Start
			clipBlock := s.Block().Preds[clipEdge]
			if len(clipBlock.Preds) == 1 {
				if iff, ok := clipBlock.Preds[0].Instrs[len(clipBlock.Preds[0].Instrs)-1].(*ssa.If); ok && clipBlock.Preds[0].Succs[0] == clipBlock {
					if call := isTimeMethod(iff.Cond, "Before"); call != nil && call.Call.Args[0] == so && loadOfParamField(call.Call.Args[1], window, "Start") {
						boundOK = true
					}
				}
			}
			if !boundOK {
				why2 = "the window's Start replaces StartOf(end, interval) under a condition other than StartOf(...).Before(period.Start)"
			}
		} else if why2 == "" {
			why2 = "Start is not StartOf(end, interval) clipped at the window's Start"
		}
	default:
		why2 = "Start is " + describeValue(p, l.start)
	}
	ob("boundary: a period starts at StartOf(its end, interval), clipped at the window's start", boundOK,
		"Start = StartOf(end, interval), replaced by period.Start exactly when it lies before it",
		why2+": a period can straddle a calendar boundary or start outside the window", l.alloc.Pos())
	// (cover) exits of the loop: the window's start is reached, or a limit that
	// depends only on `last` and on the number of periods produced so far
	coverOK, why3 := true, ""
	var counter *ssa.Phi
	sawBefore, sawCount, sawLast := false, false, false
	var periodsPhi *ssa.Phi
	for _, ins := range l.header.Instrs {
		if ph, ok := ins.(*ssa.Phi); ok {
			if sl, ok := ph.Type().Underlying().(*types.Slice); ok && isNamed(sl.Elem(), periodT) {
				periodsPhi = ph
			}
		}
	}
	isCount := func(v ssa.Value) bool {
		if ph, ok := v.(*ssa.Phi); ok && ph.Block() == l.header {
			if b, ok := ph.Type().Underlying().(*types.Basic); ok && b.Info()&types.IsInteger != 0 {
				counter = ph
				return true
			}
		}
		if call, ok := v.(*ssa.Call); ok {
			if b, ok := call.Call.Value.(*ssa.Builtin); ok && b.Name() == "len" && periodsPhi != nil && call.Call.Args[0] == ssa.Value(periodsPhi) {
				return true
			}
		}
		return false
	}
	classify := func(cond ssa.Value) string {
		if u, ok := cond.(*ssa.UnOp); ok && u.Op == token.NOT {
			cond = u.X
		}
		switch x := cond.(type) {
		case *ssa.Call:
			if call := isTimeMethod(x, "Before"); call != nil && call.Call.Args[0] == l.end && loadOfParamField(call.Call.Args[1], window, "Start") {
				return "before"
			}
		case *ssa.BinOp:
			switch x.Op {
			case token.GEQ, token.GTR, token.LSS, token.LEQ:
			default:
				return ""
			}
			ops := []ssa.Value{x.X, x.Y}
			cnt, lst, zero := false, false, false
			for _, o := range ops {
				switch {
				case isCount(o):
					cnt = true
				case o == ssa.Value(last):
					lst = true
				case constInt(o, 0):
					zero = true
				}
			}
			if cnt && lst {
				return "count"
			}
			if lst && zero {
				return "last"
			}
		}
		return ""
	}
	for b := range l.body {
		iff, ok := b.Instrs[len(b.Instrs)-1].(*ssa.If)
		if !ok {
			continue
		}
		exits := !l.body[b.Succs[0]] || !l.body[b.Succs[1]]
		kind := classify(iff.Cond)
		if kind == "before" && exits {
			sawBefore = true
			continue
		}
		if kind == "count" {
			sawCount = true
			continue
		}
		if kind == "last" {
			sawLast = true
			continue
		}
		if exits {
			coverOK, why3 = false, "the loop is left on "+describeValue(p, iff.Cond)
		}
	}
	if coverOK && !sawBefore {
		coverOK, why3 = false, "no exit test end.Before(period.Start)"
	}
	if coverOK && sawCount != sawLast {
		coverOK, why3 = false, "the limit on the number of periods does not combine a test of `last` against zero with a comparison of the number of periods produced against `last`"
	}
	if coverOK && counter != nil {
		for i, e := range counter.Edges {
			if l.body[l.header.Preds[i]] {
				bo, ok := e.(*ssa.BinOp)
				if !ok || bo.Op != token.ADD || bo.X != ssa.Value(counter) || !constInt(bo.Y, 1) || bo.Block() != l.alloc.Block() {
					coverOK, why3 = false, "the period counter does not grow by one with every appended period"
				}
			} else if !constInt(e, 0) {
				coverOK, why3 = false, "the period counter does not start at zero"
			}
		}
	}
	ob("cover: periods are produced until the window's start or until `last` of them exist", coverOK,
		"exits: end.Before(period.Start); counter >= last && last > 0 with counter = 0, +1 per period",
		why3+": the partition stops early or runs past the window", l.alloc.Pos())
	// (limit) `last` > 0 keeps exactly that many periods: the loop is executed
	// abstractly with the window unbounded (the "end before window start" test
	// is never true), `last` concrete and the number of appended periods counted;
	// every integer in the loop is then concrete (counter, len of the list).
	if coverOK {
		simulate := func(lastV int64) (int64, bool, string) {
			vals := map[ssa.Value]int64{}
			var n int64
			get := func(v ssa.Value) (int64, bool) {
				v = core.Strip(v)
				if cst, ok := v.(*ssa.Const); ok && cst.Value != nil && cst.Value.Kind() == constant.Int {
					return constant.Int64Val(cst.Value)
				}
				if v == ssa.Value(last) {
					return lastV, true
				}
				x, ok := vals[v]
				return x, ok
			}
			var evalCond func(v ssa.Value) (bool, bool)
			evalCond = func(v ssa.Value) (bool, bool) {
				switch x := v.(type) {
				case *ssa.UnOp:
					if x.Op == token.NOT {
						r, ok := evalCond(x.X)
						return !r, ok
					}
				case *ssa.Call:
					if call := isTimeMethod(x, "Before"); call != nil && call.Call.Args[0] == l.end && loadOfParamField(call.Call.Args[1], window, "Start") {
						return false, true
					}
				case *ssa.BinOp:
					a, ok1 := get(x.X)
					b, ok2 := get(x.Y)
					if ok1 && ok2 {
						switch x.Op {
						case token.EQL:
							return a == b, true
						case token.NEQ:
							return a != b, true
						case token.LSS:
							return a < b, true
						case token.LEQ:
							return a <= b, true
						case token.GTR:
							return a > b, true
						case token.GEQ:
							return a >= b, true
						}
					}
				}
				return false, false
			}
			var pred *ssa.BasicBlock
			for _, pb := range l.header.Preds {
				if !l.body[pb] {
					pred = pb
				}
			}
			b := l.header
			for steps := 0; steps < 2000; steps++ {
				if b != l.header && !l.body[b] {
					return n, true, ""
				}
				if b == l.alloc.Block() {
					n++
					if n > 40 {
						return n, false, ""
					}
				}
				for _, ins := range b.Instrs {
					switch x := ins.(type) {
					case *ssa.Phi:
						for i, pb := range b.Preds {
							if pb == pred {
								if e, ok := get(x.Edges[i]); ok {
									vals[x] = e
								} else {
									delete(vals, x)
								}
							}
						}
					case *ssa.BinOp:
						a, ok1 := get(x.X)
						bb, ok2 := get(x.Y)
						if ok1 && ok2 {
							switch x.Op {
							case token.ADD:
								vals[x] = a + bb
							case token.SUB:
								vals[x] = a - bb
							case token.MUL:
								vals[x] = a * bb
							}
						}
					case *ssa.Call:
						if bi, ok := x.Call.Value.(*ssa.Builtin); ok && bi.Name() == "len" {
							if sl, ok := x.Call.Args[0].Type().Underlying().(*types.Slice); ok && isNamed(sl.Elem(), periodT) {
								// the list of periods: before the append of this iteration if read in the header
								vals[x] = n
							}
						}
					}
				}
				switch t := b.Instrs[len(b.Instrs)-1].(type) {
				case *ssa.If:
					cv, ok := evalCond(t.Cond)
					if !ok {
						// a test on dates (the clipping of the first period): both branches stay in the body
						if l.body[t.Block().Succs[1]] {
							cv = false
						} else {
							cv = true
						}
					}
					pred = b
					if cv {
						b = b.Succs[0]
					} else {
						b = b.Succs[1]
					}
				case *ssa.Jump:
					pred, b = b, b.Succs[0]
				default:
					return n, true, ""
				}
			}
			return n, false, "the loop does not settle within 2000 steps"
		}
		limitOK, why4 := true, ""
		for _, lv := range []int64{1, 2, 3, 4, 5, 6} {
			n, exited, w := simulate(lv)
			if w != "" {
				limitOK, why4 = false, w
			} else if !exited || n != lv {
				limitOK = false
				if exited {
					why4 = fmt.Sprintf("with last = %d and a window long enough the loop produces %d periods", lv, n)
				} else {
					why4 = fmt.Sprintf("with last = %d the loop is not left after %d periods", lv, n)
				}
				break
			}
		}
		if limitOK {
			for _, lv := range []int64{0, -1} {
				if n, exited, _ := simulate(lv); exited {
					limitOK, why4 = false, fmt.Sprintf("with last = %d (no limit) the loop is left after %d periods although the window is not exhausted", lv, n)
				}
			}
		}
		ob("limit: a positive `last` keeps exactly that many periods, zero or less keeps all", limitOK,
			"the loop executed with the window unbounded and last = 1..6 appends exactly `last` periods; with last = 0, -1 it is not left",
			why4+": --last n shows a different number of periods than n", l.alloc.Pos())
	}
	// (order) reversal before the periods are stored
	periodsF := p.Field(pkgDate, "Partition", "periods")
	revOK := false
	// the reversal is in the function that builds the periods or in one of the
	// package's functions between the constructor and it
	revFns := []*ssa.Function{fn}
	for cand := range p.ReachLexical(ctor) {
		if cand != fn && core.PkgPathOf(cand) == pkgDate && p.ReachLexical(cand)[fn] {
			revFns = append(revFns, cand)
		}
	}
	for _, rf := range revFns {
		core.EachInstr(rf, func(ins ssa.Instruction) {
			if call, ok := ins.(*ssa.Call); ok {
				if callee := call.Call.StaticCallee(); callee != nil && core.PkgPathOf(core.OriginOf(callee)) == "slices" && core.BaseName(callee) == "Reverse" {
					revOK = true
				}
			}
		})
		for h, body := range loopsOf(rf) {
			if rf == fn && h == l.header {
				continue
			}
			// a swap loop: two index phis i (+1) and j (-1), test i < j, stores a[i] = old a[j], a[j] = old a[i]
			iff, ok := h.Instrs[len(h.Instrs)-1].(*ssa.If)
			if !ok {
				continue
			}
			cmp, ok := iff.Cond.(*ssa.BinOp)
			if !ok || cmp.Op != token.LSS {
				continue
			}
			pi, ok1 := cmp.X.(*ssa.Phi)
			pj, ok2 := cmp.Y.(*ssa.Phi)
			if !ok1 || !ok2 {
				continue
			}
			step := func(ph *ssa.Phi, op token.Token) bool {
				for i, e := range ph.Edges {
					if body[h.Preds[i]] {
						bo, ok := e.(*ssa.BinOp)
						if !ok || bo.Op != op || bo.X != ssa.Value(ph) || !constInt(bo.Y, 1) {
							return false
						}
					}
				}
				return true
			}
			if !step(pi, token.ADD) || !step(pj, token.SUB) {
				continue
			}
			swaps := 0
			for b := range body {
				for _, ins := range b.Instrs {
					st, ok := ins.(*ssa.Store)
					if !ok {
						continue
					}
					ia, ok := st.Addr.(*ssa.IndexAddr)
					if !ok {
						continue
					}
					ld, ok := st.Val.(*ssa.UnOp)
					if !ok {
						continue
					}
					ib, ok := ld.X.(*ssa.IndexAddr)
					if !ok || ib.X != ia.X {
						continue
					}
					if (ia.Index == ssa.Value(pi) && ib.Index == ssa.Value(pj)) || (ia.Index == ssa.Value(pj) && ib.Index == ssa.Value(pi)) {
						swaps++
					}
				}
			}
			if swaps == 2 {
				revOK = true
			}
		}
	}
	// (span) the partition's span — what Contains tests, and what the window
	// filter therefore keeps — is the window it was asked for, not something
	// recomputed from the periods (with --last the periods cover only its tail,
	// while Align attributes the earlier dates to the first period)
	if spanF := p.Field(pkgDate, "Partition", "span"); spanF != nil {
		spanOK, sawSpan := true, false
		core.EachInstr(ctor, func(ins ssa.Instruction) {
			st, ok := ins.(*ssa.Store)
			if !ok {
				return
			}
			fa, ok := st.Addr.(*ssa.FieldAddr)
			if !ok || core.FieldOf(fa) != spanF {
				return
			}
			sawSpan = true
			v := core.Strip(st.Val)
			isParam := false
			if prm, ok := v.(*ssa.Parameter); ok && isNamed(prm.Type(), periodT) {
				isParam = true
			}
			if ld, ok := v.(*ssa.UnOp); ok && ld.Op == token.MUL {
				if al, ok := ld.X.(*ssa.Alloc); ok {
					sts := core.StoresTo(al)
					if len(sts) == 1 {
						if prm, ok := core.Strip(sts[0].Val).(*ssa.Parameter); ok && isNamed(prm.Type(), periodT) {
							isParam = true
						}
					}
				}
			}
			if !isParam {
				spanOK = false
			}
		})
		if sawSpan {
			if spanOK {
				c.Ob(rule, core.FuncName(ctor)+":span: the partition spans the window it was given", ctor.Pos(), core.FuncName(ctor), core.Discharged, "Partition.span is the window parameter itself")
			} else {
				c.Ob(rule, core.FuncName(ctor)+":span: the partition spans the window it was given", ctor.Pos(), core.FuncName(ctor), core.Violated, "Partition.span is not the window the constructor was given: Contains (used by the window filter) and Align (used by the reports) then disagree about dates before the first shown period")
			}
		}
	}
	// (contains) the membership test of the partition — what the window filter
	// uses — reads a field that holds the window itself
	{
		partT := p.NamedType(pkgDate, "Partition")
		windowFields := map[*types.Var]bool{}
		core.EachInstr(ctor, func(ins ssa.Instruction) {
			st, ok := ins.(*ssa.Store)
			if !ok {
				return
			}
			fa, ok := st.Addr.(*ssa.FieldAddr)
			if !ok || core.FieldOf(fa) == nil {
				return
			}
			v := core.Strip(st.Val)
			if ld, ok := v.(*ssa.UnOp); ok && ld.Op == token.MUL {
				if al, ok := ld.X.(*ssa.Alloc); ok {
					if sts := core.StoresTo(al); len(sts) == 1 {
						v = core.Strip(sts[0].Val)
					}
				}
			}
			if prm, ok := v.(*ssa.Parameter); ok && isNamed(prm.Type(), periodT) {
				windowFields[core.FieldOf(fa)] = true
			}
			// a component of the window (period.Start, period.End) kept in a field of its own
			// (the stored value is the component itself, not something computed from it)
			direct := core.Strip(st.Val)
			if ld, ok := direct.(*ssa.UnOp); ok && ld.Op == token.MUL {
				direct = ld.X
			}
			for _, x := range []ssa.Value{direct} {
				var base ssa.Value
				switch y := x.(type) {
				case *ssa.FieldAddr:
					base = y.X
				case *ssa.Field:
					base = y.X
				}
				if base == nil {
					continue
				}
				if prm, ok := core.Strip(base).(*ssa.Parameter); ok && isNamed(prm.Type(), periodT) {
					windowFields[core.FieldOf(fa)] = true
				}
				if al, ok := base.(*ssa.Alloc); ok {
					if sts := core.StoresTo(al); len(sts) == 1 {
						if prm, ok := core.Strip(sts[0].Val).(*ssa.Parameter); ok && isNamed(prm.Type(), periodT) {
							windowFields[core.FieldOf(fa)] = true
						}
					}
				}
			}
		})
		for _, m := range p.SrcFuncs() {
			if core.PkgPathOf(m) != pkgDate || m.Signature.Recv() == nil || partT == nil || !isNamed(derefType(m.Signature.Recv().Type()), partT) {
				continue
			}
			if len(m.Params) != 2 || !isTimeType(m.Params[1].Type()) || !onlyBoolResults(m) {
				continue
			}
			key := core.FuncName(m) + ":contains: membership is membership in the window"
			ok := false
			core.EachInstr(m, func(ins ssa.Instruction) {
				switch x := ins.(type) {
				case *ssa.FieldAddr:
					if windowFields[core.FieldOf(x)] {
						ok = true
					}
				case *ssa.Field:
					if windowFields[core.FieldOf(x)] {
						ok = true
					}
				}
			})
			if ok {
				c.Ob(rule, key, m.Pos(), core.FuncName(m), core.Discharged, "reads the field in which the constructor stores its window parameter")
			} else {
				c.Ob(rule, key, m.Pos(), core.FuncName(m), core.Violated, "the partition's membership test does not read the window the partition was built for (no field holds it, or another one is used): with --last the test accepts only the shown periods while Align still attributes earlier dates to the first of them")
			}
		}
	}
	stored := false
	for _, f := range []*ssa.Function{fn, ctor} {
		core.EachInstr(f, func(ins ssa.Instruction) {
			if st, ok := ins.(*ssa.Store); ok {
				if fa, ok := st.Addr.(*ssa.FieldAddr); ok && core.FieldOf(fa) == periodsF {
					stored = true
				}
			}
		})
	}
	ob("order: the periods, produced latest first, are reversed before they are stored", revOK && stored,
		"a swap loop (i up, j down, i < j) over the slice precedes the store into Partition.periods",
		"the periods are generated backwards from the window's end and no reversal was found before they are stored: StartDates/EndDates and the binary search of Align need ascending periods", fn.Pos())
	c.Floor(rule, 4)
}

// RuleKPartAlign — Align attributes a date to the end of the first period
// whose end is not before it: the index is sort.Search(len(periods), pred)
// with pred(i) = !periods[i].End.Before(d); the result is periods[index].End
// when index < len(periods) and the zero time otherwise, and no other
// condition decides the result.
func RuleKPartAlign(c *core.Ctx) {
	const rule = "K-part-align"
	p := c.P
	align := p.Func(pkgDate, "Partition.Align")
	periodsF := p.Field(pkgDate, "Partition", "periods")
	if align == nil || periodsF == nil || len(align.AnonFuncs) != 1 {
		c.Anchor(rule, "date.Partition.Align (one function literal)")
		return
	}
	cl := align.AnonFuncs[0]
	fname := core.FuncName(cl)
	isPeriods := func(v ssa.Value) bool {
		f, _ := containerRoot(v)
		return f == periodsF
	}
	var search *ssa.Call
	var index ssa.Value // the position found
	libSearch := false
	core.EachInstr(cl, func(ins ssa.Instruction) {
		if call, ok := ins.(*ssa.Call); ok {
			if callee := call.Call.StaticCallee(); callee != nil && callee.Pkg != nil && callee.Pkg.Pkg.Path() == "sort" && callee.Name() == "Search" {
				search, index = call, call
			}
			if callee := call.Call.StaticCallee(); callee != nil && core.PkgPathOf(core.OriginOf(callee)) == "slices" && core.BaseName(callee) == "BinarySearchFunc" {
				search, libSearch = call, true
				if call.Referrers() != nil {
					for _, r := range *call.Referrers() {
						if ex, ok := r.(*ssa.Extract); ok && ex.Index == 0 {
							index = ex
						}
					}
				}
			}
		}
	})
	if libSearch && search != nil && index != nil {
		// slices.BinarySearchFunc(periods, d, func(p Period, d time.Time) int { return p.End.Compare(d) })
		okArgs := isPeriods(search.Call.Args[0])
		okCmp := false
		if cmpFn := core.FuncValue(search.Call.Args[2]); cmpFn != nil && len(cmpFn.Params) == 2 && len(cmpFn.Blocks) == 1 {
			if ret, ok := cmpFn.Blocks[0].Instrs[len(cmpFn.Blocks[0].Instrs)-1].(*ssa.Return); ok && len(ret.Results) == 1 {
				if call := isTimeMethod(ret.Results[0], "Compare"); call != nil {
					recvEnd := false
					for v := range originSet(p, call.Call.Args[0], 0) {
						switch x := v.(type) {
						case *ssa.FieldAddr:
							recvEnd = recvEnd || core.FieldOf(x).Name() == "End"
						case *ssa.Field:
							recvEnd = recvEnd || core.FieldOf(x).Name() == "End"
						}
					}
					if recvEnd && core.Strip(call.Call.Args[1]) == ssa.Value(cmpFn.Params[1]) {
						okCmp = true
					}
				}
			}
		}
		if okArgs && okCmp {
			c.Ob(rule, fname+":binary search", search.Pos(), fname, core.Discharged, "slices.BinarySearchFunc(periods, d, (p, d) -> p.End.Compare(d)): the first period that does not end before d")
		} else {
			c.Ob(rule, fname+":binary search", search.Pos(), fname, core.Violated, "the binary search does not run over the periods with a comparison of each period's End with the date: a date is attributed to the wrong period")
		}
	}
	if search == nil {
		c.Ob(rule, fname+":binary search", cl.Pos(), fname, core.Undecided, "Align does not use sort.Search: its shape is not known to this rule")
		return
	}
	if !libSearch {
		// length argument
		okLen := false
		if call, ok := search.Call.Args[0].(*ssa.Call); ok {
			if b, ok := call.Call.Value.(*ssa.Builtin); ok && b.Name() == "len" && isPeriods(call.Call.Args[0]) {
				okLen = true
			}
		}
		// predicate
		okPred, whyPred := false, "the predicate is not a function literal"
		if pred := core.FuncValue(search.Call.Args[1]); pred != nil && len(pred.Params) == 1 {
			whyPred = "the predicate is not !periods[i].End.Before(d)"
			for _, b := range pred.Blocks {
				ret, ok := b.Instrs[len(b.Instrs)-1].(*ssa.Return)
				if !ok || len(ret.Results) != 1 {
					continue
				}
				not, ok := ret.Results[0].(*ssa.UnOp)
				if !ok || not.Op != token.NOT {
					continue
				}
				call := isTimeMethod(not.X, "Before")
				if call == nil {
					continue
				}
				// receiver: periods[i].End
				recvOK := false
				if ld, ok := call.Call.Args[0].(*ssa.UnOp); ok {
					if fa, ok := ld.X.(*ssa.FieldAddr); ok && core.FieldOf(fa).Name() == "End" {
						if ia, ok := fa.X.(*ssa.IndexAddr); ok && ia.Index == ssa.Value(pred.Params[0]) && isPeriods(ia.X) {
							recvOK = true
						}
					}
				}
				// argument: the date being aligned (the closure's parameter, captured)
				argOK := false
				for v := range originSet(p, call.Call.Args[1], 0) {
					if prm, ok := v.(*ssa.Parameter); ok && prm.Parent() == cl {
						argOK = true
					}
				}
				if recvOK && argOK && len(pred.Blocks) == 1 {
					okPred = true
				}
			}
		}
		if okLen && okPred {
			c.Ob(rule, fname+":binary search", search.Pos(), fname, core.Discharged, "sort.Search(len(periods), i -> !periods[i].End.Before(d))")
		} else {
			why := whyPred
			if !okLen {
				why = "the search does not run over len(periods)"
			}
			c.Ob(rule, fname+":binary search", search.Pos(), fname, core.Violated, why+": a date is attributed to the wrong period")
		}
	}
	// results
	for _, b := range cl.Blocks {
		ret, ok := b.Instrs[len(b.Instrs)-1].(*ssa.Return)
		if !ok || len(ret.Results) != 1 {
			continue
		}
		key := fmt.Sprintf("%s:result %d", fname, successReturnIndex(cl, b))
		// controlling conditions
		var conds []*ssa.If
		var sides []bool
		for _, cb := range cl.Blocks {
			iff, ok := cb.Instrs[len(cb.Instrs)-1].(*ssa.If)
			if !ok {
				continue
			}
			if ctl, side := core.Controls(cb, b); ctl {
				conds = append(conds, iff)
				sides = append(sides, side == 0)
			}
		}
		flipped := false
		inRange := func(iff *ssa.If) bool {
			bo, ok := iff.Cond.(*ssa.BinOp)
			if !ok || (bo.Op != token.LSS && bo.Op != token.GEQ) || bo.X != index {
				return false
			}
			flipped = bo.Op == token.GEQ
			call, ok := bo.Y.(*ssa.Call)
			if !ok {
				return false
			}
			bi, ok := call.Call.Value.(*ssa.Builtin)
			return ok && bi.Name() == "len" && isPeriods(call.Call.Args[0])
		}
		good := len(conds) == 1 && inRange(conds[0])
		if good && flipped {
			sides[0] = !sides[0]
		}
		isEnd := false
		if ld, ok := ret.Results[0].(*ssa.UnOp); ok {
			if fa, ok := ld.X.(*ssa.FieldAddr); ok && core.FieldOf(fa).Name() == "End" {
				if ia, ok := fa.X.(*ssa.IndexAddr); ok && ia.Index == index && isPeriods(ia.X) {
					isEnd = true
				}
			}
		}
		_, isZero := ret.Results[0].(*ssa.Const)
		switch {
		case good && isEnd && sides[0]:
			c.Ob(rule, key, ret.Pos(), fname, core.Discharged, "periods[index].End when index < len(periods)")
		case good && isZero && !sides[0]:
			c.Ob(rule, key, ret.Pos(), fname, core.Discharged, "the zero time when no period ends on or after the date")
		default:
			what := describeValue(p, ret.Results[0])
			c.Ob(rule, key, ret.Pos(), fname, core.Violated, "Align returns "+what+" under conditions other than index < len(periods): dates inside the window lose their column, or dates after it gain one")
		}
	}
	c.Floor(rule, 3)
}

// RuleKPartDates — StartDates and EndDates hand out the boundaries of all
// periods, in order: each ranges over Partition.periods and appends the
// Start (End) of every element unconditionally.
func RuleKPartDates(c *core.Ctx) {
	const rule = "K-part-dates"
	p := c.P
	periodsF := p.Field(pkgDate, "Partition", "periods")
	for _, spec := range []struct{ fn, field string }{{"Partition.StartDates", "Start"}, {"Partition.EndDates", "End"}} {
		fn := p.Func(pkgDate, spec.fn)
		if fn == nil || periodsF == nil {
			c.Anchor(rule, "date."+spec.fn)
			continue
		}
		fname := core.FuncName(fn)
		key := fname + ":every period's " + spec.field + ", in order"
		loops := loopsOf(fn)
		bad := ""
		if len(loops) != 1 {
			bad = fmt.Sprintf("expected one loop, found %d", len(loops))
		}
		for h, body := range loops {
			ranged := false
			for _, ins := range h.Instrs {
				if bo, ok := ins.(*ssa.BinOp); ok && bo.Op == token.LSS {
					if call, ok := bo.Y.(*ssa.Call); ok {
						if b, ok := call.Call.Value.(*ssa.Builtin); ok && b.Name() == "len" {
							if f, _ := containerRoot(call.Call.Args[0]); f == periodsF {
								ranged = true
							}
						}
					}
				}
			}
			if !ranged {
				bad = "the loop does not range over Partition.periods"
			}
			appends := 0
			for b := range body {
				for _, ins := range b.Instrs {
					call, ok := ins.(*ssa.Call)
					if !ok {
						continue
					}
					if bi, ok := call.Call.Value.(*ssa.Builtin); !ok || bi.Name() != "append" {
						continue
					}
					appends++
					fieldOK := false
					for v := range originSet(p, call.Call.Args[1], 0) {
						if fa, ok := v.(*ssa.FieldAddr); ok && core.FieldOf(fa).Name() == spec.field {
							fieldOK = true
						}
					}
					if !fieldOK {
						bad = "the appended value is not the period's " + spec.field
					}
					for cb := range body {
						if cb == h {
							continue
						}
						if iff, ok := cb.Instrs[len(cb.Instrs)-1].(*ssa.If); ok {
							if ctl, _ := core.Controls(cb, call.Block()); ctl {
								bad = "the append depends on " + describeValue(p, iff.Cond)
							}
						}
					}
				}
			}
			if appends != 1 && bad == "" {
				bad = fmt.Sprintf("expected one append per period, found %d", appends)
			}
		}
		if bad == "" {
			c.Ob(rule, key, fn.Pos(), fname, core.Discharged, "range over Partition.periods, one unconditional append of "+spec.field)
		} else {
			c.Ob(rule, key, fn.Pos(), fname, core.Violated, bad+": a report column or a closing date is missing or shifted")
		}
	}
	c.Floor(rule, 2)
}

// RuleKUTC — all dates live in one time zone. Journal dates come from
// time.Parse (UTC) and date.Date (UTC midnight); window bounds, period
// boundaries and the keys of the reports are compared with them by
// Before/After/Equal and used as map keys, so a date constructed in another
// zone is a different instant with the same calendar day: bookings on a
// window's last day fall out of it and days are attributed to the neighbouring
// period. Every time.Date call of the module passes time.UTC and no
// time.ParseInLocation call passes a location other than time.UTC.
func RuleKUTC(c *core.Ctx) {
	const rule = "K-utc"
	p := c.P
	isUTC := func(v ssa.Value) bool {
		ld, ok := v.(*ssa.UnOp)
		if !ok || ld.Op != token.MUL {
			return false
		}
		g, ok := ld.X.(*ssa.Global)
		return ok && g.Pkg != nil && g.Pkg.Pkg.Path() == "time" && g.Name() == "UTC"
	}
	n := 0
	for _, fn := range p.SrcFuncs() {
		if !p.InModule(fn) {
			continue
		}
		core.EachInstr(fn, func(ins ssa.Instruction) {
			call, ok := ins.(*ssa.Call)
			if !ok {
				return
			}
			callee := call.Call.StaticCallee()
			if callee == nil || callee.Pkg == nil || callee.Pkg.Pkg.Path() != "time" {
				return
			}
			var loc ssa.Value
			switch callee.Name() {
			case "Date":
				if callee.Signature.Recv() != nil {
					return // (Time).Date()
				}
				loc = call.Call.Args[len(call.Call.Args)-1]
			case "ParseInLocation":
				loc = call.Call.Args[len(call.Call.Args)-1]
			default:
				return
			}
			n++
			key := fmt.Sprintf("%s:time.%s in UTC", core.FuncName(fn), callee.Name())
			if isUTC(loc) {
				c.Ob(rule, key, call.Pos(), core.FuncName(fn), core.Discharged, "location is time.UTC")
			} else {
				c.Ob(rule, key, call.Pos(), core.FuncName(fn), core.Violated, "a date is constructed in the location "+describeValue(p, loc)+" while journal dates and period boundaries are UTC midnights: the same calendar day is a different instant, so comparisons with window bounds and period ends are off by the zone offset")
			}
		})
	}
	c.Floor(rule, 1)
}
