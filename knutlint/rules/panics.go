package rules

import (
	"fmt"
	"go/token"
	"go/types"
	"sort"
	"strings"

	"golang.org/x/tools/go/ssa"

	"knutlint/core"
)

// panicSite: an explicit panic in module code, or a call to an external
// function that is documented to panic / exit.
type panicSite struct {
	fn   *ssa.Function
	ins  ssa.Instruction
	what string
}

func externalPanics(callee *ssa.Function) string {
	if callee == nil || callee.Pkg == nil {
		return ""
	}
	name := callee.Pkg.Pkg.Path() + "." + callee.Name()
	switch name {
	case pkgDecimal + ".RequireFromString", "regexp.MustCompile", "log.Fatal", "log.Fatalf", "log.Fatalln", "log.Panic", "log.Panicf", "os.Exit":
		return name
	}
	return ""
}

func panicSites(p *core.Prog, fns map[*ssa.Function]bool) []panicSite {
	var res []panicSite
	var list []*ssa.Function
	for fn := range fns {
		if p.InModule(fn) && fn.Blocks != nil {
			list = append(list, fn)
		}
	}
	sort.Slice(list, func(i, j int) bool { return list[i].String() < list[j].String() })
	for _, fn := range list {
		core.EachInstr(fn, func(ins ssa.Instruction) {
			switch x := ins.(type) {
			case *ssa.Panic:
				if !x.Pos().IsValid() {
					// the implicit panic go/ssa emits for a blocking select without a matching case
					return
				}
				res = append(res, panicSite{fn, ins, "panic"})
			case ssa.CallInstruction:
				if w := externalPanics(x.Common().StaticCallee()); w != "" {
					res = append(res, panicSite{fn, ins, w})
				}
			}
		})
	}
	return res
}

// reviewedPanics — panic sites that stay reachable from the journal commands,
// each with the argument that makes it infeasible, and (where possible) a
// structural condition that is re-checked on every run.
type panicReview struct {
	reason string
	// check returns "" if the condition still holds.
	check func(c *core.Ctx, site panicSite) string
}

// constArgAtAllCallers: every call of fn (from within the module) passes a
// constant string as argument idx.
func constArgAtAllCallers(idx int, allowed func(s string) bool) func(c *core.Ctx, site panicSite) string {
	return func(c *core.Ctx, site panicSite) string {
		p := c.P
		n := p.CG.Nodes[site.fn]
		if n == nil {
			return "no call graph node"
		}
		for _, e := range n.In {
			if !p.InModule(e.Caller.Func) {
				continue
			}
			args := e.Site.Common().Args
			if idx >= len(args) {
				return "argument missing at " + p.Pos(e.Site.Pos())
			}
			s, ok := core.ConstString(args[idx])
			if !ok {
				return "non-constant argument at " + p.Pos(e.Site.Pos()) + " in " + core.FuncName(e.Caller.Func)
			}
			if allowed != nil && !allowed(s) {
				return fmt.Sprintf("constant %q at %s is not a valid name", s, p.Pos(e.Site.Pos()))
			}
		}
		return ""
	}
}

// derivedFromAccountName: v is built from the name or the segments of an
// existing (hence valid) account.
func derivedFromAccountName(p *core.Prog, v ssa.Value) bool {
	for x := range originSet(p, v, 2) {
		switch y := x.(type) {
		case *ssa.FieldAddr:
			if f := core.FieldOf(y); f != nil && core.PkgPathOfVar(f) == pkgAccount && (f.Name() == "name" || f.Name() == "segments") {
				return true
			}
		case *ssa.Call:
			if callee := y.Call.StaticCallee(); callee != nil && core.PkgPathOf(callee) == pkgAccount && (callee.Name() == "Name" || callee.Name() == "Segments") {
				return true
			}
		}
	}
	return false
}

func validAccountName(s string) bool {
	parts := strings.Split(s, ":")
	switch parts[0] {
	case "Assets", "Liabilities", "Equity", "Income", "Expenses":
	default:
		return false
	}
	for _, seg := range parts[1:] {
		if seg == "" {
			return false
		}
		for _, r := range seg {
			if !(r >= 'a' && r <= 'z' || r >= 'A' && r <= 'Z' || r >= '0' && r <= '9') {
				return false
			}
		}
	}
	return true
}

// RuleCPanic — explicit panic sources reachable from the journal-processing
// commands: every site is either unreachable or carries a reviewed argument
// for its infeasibility, re-checked structurally where that is possible.
// A second, stricter instance: nothing that can panic or exit is reachable
// from the parser entry points at all (C07).
func RuleCPanic(c *core.Ctx) {
	const rule = "C-panic"
	p := c.P
	entries := core.CommandEntries(c, func(use string) bool { return core.JournalCommandUses[use] })
	if len(entries) < 8 {
		c.Anchor(rule, fmt.Sprintf("journal command entries (found %d of 8)", len(entries)))
		return
	}
	reach := p.ReachLexical(entries...)
	reviews := map[string]panicReview{
		"(*lib/model/account.Registry).MustGet:panic": {
			reason: "MustGet panics when Get fails; it is called with constant, valid account names, or — inside the account package — with a name built from the name or segments of an account that already exists (ValuationAccountFor, SwapType)",
			check: func(c *core.Ctx, site panicSite) string {
				p := c.P
				n := p.CG.Nodes[site.fn]
				for _, e := range n.In {
					if !p.InModule(e.Caller.Func) {
						continue
					}
					arg := e.Site.Common().Args[1]
					if s, ok := core.ConstString(arg); ok {
						if !validAccountName(s) {
							return fmt.Sprintf("constant %q at %s is not a valid account name", s, p.Pos(e.Site.Pos()))
						}
						continue
					}
					if core.PkgPathOf(e.Caller.Func) == pkgAccount && derivedFromAccountName(p, arg) {
						continue // inside the registry's package, from the name of an account that exists
					}
					return "non-constant account name at " + p.Pos(e.Site.Pos()) + " in " + core.FuncName(e.Caller.Func)
				}
				return ""
			},
		},
		"(*lib/model/account.Registry).MustGetPath:panic": {
			reason: "MustGetPath is called with a prefix (or prefix + suffix) of the segments of an account that already exists in the registry: the root segment is kept, every segment is valid",
			check: func(c *core.Ctx, site panicSite) string {
				p := c.P
				n := p.CG.Nodes[site.fn]
				ok := map[string]bool{"lib/model/account.Shorten$1": true, "lib/reports/balance.setAccounts": true}
				for _, e := range n.In {
					if p.InModule(e.Caller.Func) && !ok[core.FuncName(e.Caller.Func)] {
						return "new caller " + core.FuncName(e.Caller.Func) + " at " + p.Pos(e.Site.Pos())
					}
				}
				return ""
			},
		},
		"(*lib/model/account.Registry).SwapType:panic": {
			reason: "the swapped name is the valid name of an existing account with its root replaced by another constant root",
		},
		"(*lib/model/commodity.Registry).MustGet:panic": {
			reason: "called with constant, valid commodity names only",
			check:  constArgAtAllCallers(1, func(s string) bool { return s != "" && !strings.ContainsAny(s, " :.-_\"") }),
		},
		"lib/common/table.init:" + pkgDecimal + ".RequireFromString": {reason: "constant \"1000\""},
		"lib/journal/beancount.init:regexp.MustCompile":              {reason: "constant pattern"},
		"lib/common/date.NewPartition:panic": {
			reason: "callers must exclude a zero start date (rule C-panic:NewPartition callers)",
			check:  func(c *core.Ctx, site panicSite) string { return "" },
		},
	}
	exitOK := func(site panicSite) bool {
		// os.Exit(1) in the commands' run wrappers, after printing the error: the intended failure path
		if site.what != "os.Exit" && site.what != "log.Fatal" {
			return false
		}
		pkg := core.PkgPathOf(site.fn)
		return strings.HasPrefix(pkg, core.Module+"/cmd")
	}
	n := 0
	for _, site := range panicSites(p, reach) {
		name := core.FuncName(site.fn)
		key := name + ":" + site.what
		if exitOK(site) {
			c.Ob(rule, key, site.ins.Pos(), name, core.Info, "process exit in a command's run wrapper after the error was printed")
			continue
		}
		n++
		rv, ok := reviews[key]
		if !ok {
			c.Ob(rule, key, site.ins.Pos(), name, core.Violated, "an explicit "+site.what+" is reachable from a journal-processing command and is not in the reviewed table: some input or flag value makes the command die with a stack trace instead of a diagnostic", p.CallPath(entries, site.fn)...)
			continue
		}
		if rv.check != nil {
			if why := rv.check(c, site); why != "" {
				c.Ob(rule, key, site.ins.Pos(), name, core.Violated, "the reviewed argument for this "+site.what+" no longer holds: "+why)
				continue
			}
		}
		c.Ob(rule, key, site.ins.Pos(), name, core.Discharged, "reviewed: "+rv.reason)
	}
	// NewPartition: every caller excludes a zero start
	np := p.Func(pkgDate, "NewPartition")
	if np != nil && reach[np] {
		node := p.CG.Nodes[np]
		for _, e := range node.In {
			caller := e.Caller.Func
			if !p.InModule(caller) || !reach[caller] {
				continue
			}
			key := "NewPartition callers:" + core.FuncName(caller)
			call, _ := e.Site.(*ssa.Call)
			if call == nil {
				continue
			}
			if zeroStartExcluded(p, call) {
				c.Ob(rule, key, call.Pos(), core.FuncName(caller), core.Discharged, "the start of the period is tested with IsZero before the partition is built")
			} else {
				c.Ob(rule, key, call.Pos(), core.FuncName(caller), core.Violated, "date.NewPartition panics on a zero start date (0001-01-01) and this caller does not exclude it: "+map[bool]string{true: "`@accrue <interval> 0001-01-01 …` kills the command", false: "a journal whose first transaction is dated 0001-01-01 kills the report commands"}[strings.Contains(core.FuncName(caller), "expand")])
			}
		}
	}
	c.Floor(rule, 5)
}

// zeroStartExcluded: the Period.Start handed to NewPartition is tested by a
// dominating `start.IsZero()` whose true branch does not reach the call.
func zeroStartExcluded(p *core.Prog, call *ssa.Call) bool {
	// the period argument: a struct literal whose Start field is stored
	var start ssa.Value
	if ld, ok := core.Strip(call.Call.Args[0]).(*ssa.UnOp); ok {
		if a, ok := ld.X.(*ssa.Alloc); ok && a.Referrers() != nil {
			for _, r := range *a.Referrers() {
				if fa, ok := r.(*ssa.FieldAddr); ok && core.FieldOf(fa).Name() == "Start" {
					for _, s := range core.StoresTo(fa) {
						start = s.Val
					}
				}
			}
		}
	}
	if start == nil {
		return false
	}
	ok, _ := p.Guarded(call, start, "zero")
	return ok
}

// RuleCPanicParser — nothing that can panic or exit explicitly is reachable
// from the parser's entry points and from the rendering of its errors.
func RuleCPanicParser(c *core.Ctx) {
	const rule = "C-panic-parser"
	p := c.P
	var entries []*ssa.Function
	for _, n := range []struct{ pkg, name string }{
		{pkgParser, "Parser.ParseFile"}, {pkgParser, "Parser.Advance"}, {pkgParser, "New"},
		{pkgDirectives, "Error.Error"}, {pkgDirectives, "Range.Location"}, {pkgDirectives, "Range.Context"}, {pkgDirectives, "Range.Extract"},
	} {
		f := p.Func(n.pkg, n.name)
		if f == nil {
			// Parser.Advance is the promoted Scanner.Advance
			if n.name == "Parser.Advance" {
				f = p.Func(pkgScanner, "Scanner.Advance")
			}
		}
		if f == nil {
			c.Anchor(rule, n.pkg+"."+n.name)
			continue
		}
		entries = append(entries, f)
	}
	if len(entries) < 6 {
		return
	}
	// static reach only (the parser makes no dynamic calls except predicates and the include callback)
	reach := map[*ssa.Function]bool{}
	var walk func(f *ssa.Function)
	walk = func(f *ssa.Function) {
		if reach[f] || f.Blocks == nil {
			return
		}
		reach[f] = true
		core.EachInstr(f, func(ins ssa.Instruction) {
			switch x := ins.(type) {
			case ssa.CallInstruction:
				for _, callee := range p.Callees(x) {
					if p.InModule(callee) {
						walk(callee)
					}
				}
			case *ssa.MakeClosure:
				walk(x.Fn.(*ssa.Function))
			}
		})
	}
	for _, e := range entries {
		walk(e)
	}
	sites := panicSites(p, reach)
	if len(sites) == 0 {
		c.Ob(rule, "parser entry points:no explicit panic reachable", entries[0].Pos(), "", core.Discharged, fmt.Sprintf("%d functions reachable from ParseFile, Advance, Error.Error, Range.Location/Context/Extract contain no panic, Must*, log.Fatal or os.Exit", len(reach)))
	}
	for _, s := range sites {
		c.Ob(rule, core.FuncName(s.fn)+":"+s.what, s.ins.Pos(), core.FuncName(s.fn), core.Violated, "an explicit "+s.what+" is reachable from the parser: the parser is not total")
	}
	c.Floor(rule, 1)
}

// nonNegative decides whether integer value v is provably >= 0: a constant,
// a len/cap, a sum/product of non-negatives, a call whose returns are all
// non-negative (depth 2), or a value guarded by a dominating comparison.
func nonNegative(p *core.Prog, at ssa.Instruction, v ssa.Value, depth int) bool {
	if n, ok := core.ConstInt(v); ok {
		return n >= 0
	}
	if depth <= 0 {
		return false
	}
	switch x := v.(type) {
	case *ssa.Convert:
		return nonNegative(p, at, x.X, depth)
	case *ssa.Extract:
		call, ok := x.Tuple.(*ssa.Call)
		if !ok {
			return false
		}
		callee := call.Call.StaticCallee()
		if callee == nil || callee.Blocks == nil {
			return false
		}
		ok = true
		core.EachInstr(callee, func(ins ssa.Instruction) {
			if ret, isRet := ins.(*ssa.Return); isRet && ok && x.Index < len(ret.Results) {
				if !nonNegative(p, ret, ret.Results[x.Index], depth-1) {
					ok = false
				}
			}
		})
		return ok
	case *ssa.Field:
		return fieldNonNegative(p, core.FieldOf(x))
	case *ssa.Call:
		if b, ok := x.Call.Value.(*ssa.Builtin); ok {
			switch b.Name() {
			case "len", "cap":
				return true
			case "max":
				for _, a := range x.Call.Args {
					if nonNegative(p, at, a, depth-1) {
						return true
					}
				}
			case "min":
				for _, a := range x.Call.Args {
					if !nonNegative(p, at, a, depth-1) {
						return false
					}
				}
				return true
			}
			return false
		}
		callee := x.Call.StaticCallee()
		if callee == nil || callee.Blocks == nil {
			return false
		}
		ok := true
		core.EachInstr(callee, func(ins ssa.Instruction) {
			if ret, isRet := ins.(*ssa.Return); isRet && ok {
				for _, rv := range ret.Results {
					if b, isB := rv.Type().Underlying().(*types.Basic); isB && b.Info()&types.IsInteger != 0 {
						if !nonNegative(p, ret, rv, depth-1) {
							ok = false
						}
					}
				}
			}
		})
		return ok
	case *ssa.BinOp:
		switch x.Op {
		case token.ADD, token.MUL:
			return nonNegative(p, at, x.X, depth-1) && nonNegative(p, at, x.Y, depth-1)
		case token.QUO, token.SHR:
			return nonNegative(p, at, x.X, depth-1) && nonNegative(p, at, x.Y, depth-1)
		case token.REM:
			return nonNegative(p, at, x.X, depth-1)
		}
	case *ssa.Phi:
		for _, e := range x.Edges {
			if !nonNegative(p, at, e, depth-1) {
				return false
			}
		}
		return true
	case *ssa.UnOp:
		if x.Op == token.MUL {
			if fa, ok := x.X.(*ssa.FieldAddr); ok && fieldNonNegative(p, core.FieldOf(fa)) {
				return true
			}
			if a, ok := x.X.(*ssa.Alloc); ok {
				sts := core.StoresTo(a)
				if len(sts) > 0 {
					all := true
					for _, s := range sts {
						if !nonNegative(p, s, s.Val, depth-1) {
							all = false
						}
					}
					if all {
						return true
					}
				}
			}
		}
	}
	return guardedNonNegative(p, at, v)
}

// RuleDMakeCap — make([]T, n, m) panics for a negative length or capacity:
// every non-constant size is provably non-negative (a length, a capacity, a
// sum or product of such, or guarded by a dominating comparison).
func RuleDMakeCap(c *core.Ctx) {
	const rule = "D-makecap"
	p := c.P
	n := 0
	for _, fn := range p.SrcFuncs() {
		core.EachInstr(fn, func(ins ssa.Instruction) {
			ms, ok := ins.(*ssa.MakeSlice)
			if !ok {
				return
			}
			for i, sz := range []ssa.Value{ms.Len, ms.Cap} {
				if _, isConst := sz.(*ssa.Const); isConst {
					continue
				}
				n++
				what := []string{"length", "capacity"}[i]
				key := fmt.Sprintf("%s:make %s %s", core.FuncName(fn), what, describeValue(p, sz))
				if nonNegative(p, ms, sz, 4) {
					c.Ob(rule, key, ms.Pos(), core.FuncName(fn), core.Discharged, "the "+what+" is a length/capacity or a sum or product of such")
				} else {
					c.Ob(rule, key, ms.Pos(), core.FuncName(fn), core.Violated, "the "+what+" of a make is computed from runtime values with no dominating test that it is non-negative: for some input (e.g. an inverted date window) it is negative and the command panics with `makeslice: "+map[int]string{0: "len", 1: "cap"}[i]+" out of range`")
				}
			}
		})
	}
	c.Floor(rule, 3)
}

// RuleKNestedLimit — a goroutine group whose tasks submit further tasks to
// the same group (the recursive include loader) must not have a concurrency
// limit: with all slots taken by tasks that wait to submit, nothing runs.
func RuleKNestedLimit(c *core.Ctx) {
	const rule = "K-nested-limit"
	p := c.P
	n := 0
	for _, fn := range p.SrcFuncs() {
		if !strings.HasPrefix(core.PkgPathOf(fn), core.Module+"/lib") {
			continue
		}
		core.EachInstr(fn, func(ins ssa.Instruction) {
			call, ok := ins.(ssa.CallInstruction)
			if !ok {
				return
			}
			callee := call.Common().StaticCallee()
			if callee == nil {
				return
			}
			pkg := core.PkgPathOf(callee)
			isLimit := (pkg == "golang.org/x/sync/errgroup" && callee.Name() == "SetLimit") ||
				(strings.HasPrefix(pkg, "github.com/sourcegraph/conc") && callee.Name() == "WithMaxGoroutines")
			if !isLimit {
				return
			}
			n++
			c.Ob(rule, core.FuncName(fn)+":"+callee.Name(), ins.Pos(), core.FuncName(fn), core.Violated,
				"a concurrency limit is set on a goroutine group in the loader/pipeline code: tasks of these groups submit further tasks (one per include directive) or block on unbuffered channels of their siblings, so with all slots occupied the command hangs forever")
		})
	}
	// the group of the include loader: Go is called from within a task of the same group
	li := loaderCycle(c)
	if len(li.readers) == 0 {
		c.Anchor(rule, "the recursive file loader of lib/syntax")
		return
	}
	nested := false
	for _, fn := range li.list {
		core.EachInstr(fn, func(ins ssa.Instruction) {
			if call, ok := ins.(ssa.CallInstruction); ok {
				if callee := call.Common().StaticCallee(); callee != nil && core.PkgPathOf(callee) == "golang.org/x/sync/errgroup" && callee.Name() == "Go" {
					nested = true
				}
			}
		})
	}
	c.Ob(rule, "recursive loader:nested submission, unlimited group", li.readers[0].Pos(), core.FuncName(li.readers[0]), verdictIf(nested),
		fmt.Sprintf("the include loader submits one task per include from within a task of the same errgroup; %d concurrency limits set in lib/", n))
	c.Floor(rule, 1)
}

// fieldNonNegative: every store to the integer field (composite literals
// included) stores a constant >= 0 or a value that a dominating test shows to
// be non-negative at the store (cf. rule D-flagint).
func fieldNonNegative(p *core.Prog, fv *types.Var) bool {
	if fv == nil {
		return false
	}
	n, ok := 0, true
	for _, fn := range p.SrcFuncs() {
		core.EachInstr(fn, func(ins ssa.Instruction) {
			st, isSt := ins.(*ssa.Store)
			if !isSt {
				return
			}
			fa, isFa := st.Addr.(*ssa.FieldAddr)
			if !isFa || core.FieldOf(fa) != fv {
				return
			}
			n++
			if !guardedNonNegative(p, st, st.Val) {
				ok = false
			}
		})
	}
	return ok && n > 0
}
