package rules

import (
	"sort"
	"fmt"
	"go/token"
	"go/types"
	"strings"

	"golang.org/x/tools/go/ssa"

	"knutlint/core"
)

// RuleKReportAmounts — between insertion and totalling, nothing but
// Report.Insert writes the amounts of a balance report node: the only stores
// to balance.Value.Amounts, and the only whole-Value stores into a node, are
// the lazy initialisation in Report.Insert (P5 of the conservation argument:
// what was inserted is what is totalled).
func RuleKReportAmounts(c *core.Ctx) {
	const rule = "K-report-amounts"
	p := c.P
	valueT := p.NamedType(pkgBalance, "Value")
	amountsF := p.Field(pkgBalance, "Value", "Amounts")
	insert := p.Func(pkgBalance, "Report.Insert")
	if valueT == nil || amountsF == nil || insert == nil {
		c.Anchor(rule, "balance.Value.Amounts / balance.Report.Insert")
		return
	}
	n := 0
	for _, fn := range p.SrcFuncs() {
		core.EachInstr(fn, func(ins ssa.Instruction) {
			st, ok := ins.(*ssa.Store)
			if !ok {
				return
			}
			what := ""
			if fa, ok := st.Addr.(*ssa.FieldAddr); ok && core.FieldOf(fa) == amountsF {
				what = "Value.Amounts"
			} else if pt, ok := st.Addr.Type().Underlying().(*types.Pointer); ok && isNamed(pt.Elem(), valueT) {
				if _, isAlloc := st.Addr.(*ssa.Alloc); !isAlloc {
					what = "a whole balance.Value"
				}
			}
			if what == "" {
				return
			}
			n++
			key := fmt.Sprintf("%s:store to %s", core.FuncName(fn), what)
			if fn == insert && what == "Value.Amounts" {
				if _, isMake := st.Val.(*ssa.MakeMap); isMake {
					c.Ob(rule, key, st.Pos(), core.FuncName(fn), core.Discharged, "lazy initialisation with an empty map in Report.Insert")
					return
				}
			}
			c.Ob(rule, key, st.Pos(), core.FuncName(fn), core.Violated,
				"the amounts of a balance report node are overwritten outside Report.Insert's initialisation: postings already inserted into that node are lost before the totals are computed, so Delta is no longer zero")
		})
	}
	c.Floor(rule, 1)
}

// RuleDReject — the checker rejects a directive only for the reasons the
// property lists: the account is not open / already open (accounts.Has), a
// position is not zero on close (IsZero), an assertion does not match
// (Equal). Every error return of the four callbacks is control-dependent only
// on such conditions.
func RuleDReject(c *core.Ctx) {
	const rule = "D-reject"
	p := c.P
	checkFn := p.Func(pkgCheck, "Checker.Check")
	accounts := p.Field(pkgCheck, "Checker", "accounts")
	quantities := p.Field(pkgCheck, "Checker", "quantities")
	noCheck := p.Field(pkgCheck, "Checker", "NoCheck")
	if checkFn == nil || accounts == nil || quantities == nil {
		c.Anchor(rule, "check.Checker.Check / Checker.accounts / Checker.quantities")
		return
	}
	var lit ssa.Value
	core.EachInstr(checkFn, func(ins ssa.Instruction) {
		if ret, ok := ins.(*ssa.Return); ok && len(ret.Results) == 1 {
			lit = ret.Results[0]
		}
	})
	if lit == nil {
		c.Anchor(rule, "the Processor literal returned by Checker.Check")
		return
	}
	hasField := func(v ssa.Value, f *types.Var) bool {
		if f == nil {
			return false
		}
		for x := range originSet(p, v, 0) {
			if fa, ok := x.(*ssa.FieldAddr); ok && core.FieldOf(fa) == f {
				return true
			}
		}
		return false
	}
	reviewed := func(cond ssa.Value) (string, bool) {
		if u, ok := cond.(*ssa.UnOp); ok && u.Op == token.NOT {
			cond = u.X
		}
		switch x := cond.(type) {
		case *ssa.Call:
			callee := x.Call.StaticCallee()
			if callee == nil {
				return "dynamic call", false
			}
			switch {
			case core.PkgPathOf(callee) == pkgSet && core.BaseName(callee) == "Has":
				if hasField(x.Call.Args[0], accounts) {
					return "account open?", true
				}
				return "membership in a set other than the open accounts (" + describeValue(p, x.Call.Args[0]) + ")", false
			case core.PkgPathOf(callee) == pkgDecimal && (callee.Name() == "IsZero" || callee.Name() == "Equal"):
				return "quantity test", true
			}
			return "call to " + core.FuncName(callee), false
		case *ssa.BinOp:
			if x.Op == token.EQL || x.Op == token.NEQ {
				if isPtrToNamed(x.X.Type(), "Account") && isPtrToNamed(x.Y.Type(), "Account") {
					return "same account?", true
				}
			}
			return "comparison " + describeValue(p, x), false
		case *ssa.UnOp:
			if x.Op == token.MUL {
				if fa, ok := x.X.(*ssa.FieldAddr); ok && core.FieldOf(fa) == noCheck {
					return "NoCheck flag", true
				}
			}
		case *ssa.Extract:
			if _, ok := x.Tuple.(*ssa.Next); ok {
				return "loop", true
			}
			if lk, ok := x.Tuple.(*ssa.Lookup); ok && hasField(lk.X, quantities) {
				return "position present?", true
			}
		}
		return describeValue(p, cond), false
	}
	cbs := processorLiteral(p, lit)
	n := 0
	// the callbacks and the helpers of the checker they call: a helper's error
	// returns are judged in the helper, its callers only pass them on
	judged := map[*ssa.Function]bool{}
	var order []*ssa.Function
	var addFn func(fn *ssa.Function, depth int)
	addFn = func(fn *ssa.Function, depth int) {
		if fn == nil || judged[fn] || fn.Blocks == nil || core.PkgPathOf(fn) != pkgCheck || depth > 3 {
			return
		}
		judged[fn] = true
		order = append(order, fn)
		core.EachInstr(fn, func(ins ssa.Instruction) {
			if call, ok := ins.(*ssa.Call); ok {
				addFn(call.Call.StaticCallee(), depth+1)
			}
		})
	}
	var cbNames []string
	for name := range cbs {
		cbNames = append(cbNames, name)
	}
	sort.Strings(cbNames)
	for _, name := range cbNames {
		if name == "DayEnd" || name == "DayStart" {
			continue
		}
		addFn(cbs[name], 0)
	}
	isDelegated := func(v ssa.Value) bool {
		// the error of a helper of the checker
		switch x := v.(type) {
		case *ssa.Call:
			return judged[x.Call.StaticCallee()]
		case *ssa.Extract:
			if call, ok := x.Tuple.(*ssa.Call); ok {
				return judged[call.Call.StaticCallee()]
			}
		}
		return false
	}
	for _, fn := range order {
		core.EachInstr(fn, func(ins ssa.Instruction) {
			ret, ok := ins.(*ssa.Return)
			if !ok {
				return
			}
			isErr := false
			for _, rv := range ret.Results {
				if core.IsErrorType(rv.Type()) && !core.IsNilConst(rv) {
					isErr = true
				}
			}
			if !isErr {
				return
			}
			// an error of a helper passed on unchanged: judged in the helper
			passed := true
			for _, rv := range ret.Results {
				if core.IsErrorType(rv.Type()) && !core.IsNilConst(rv) && !isDelegated(rv) {
					passed = false
				}
			}
			if passed {
				return
			}
			n++
			// controlling conditions
			var bad []string
			var good []string
			for _, b := range fn.Blocks {
				iff, ok := b.Instrs[len(b.Instrs)-1].(*ssa.If)
				if !ok {
					continue
				}
				if ctl, _ := core.Controls(b, ret.Block()); !ctl {
					continue
				}
				if desc, ok := reviewed(iff.Cond); ok {
					good = append(good, desc)
					continue
				}
				// the error test of a helper of the checker: what it rejects is judged there
				if bo, ok := iff.Cond.(*ssa.BinOp); ok && (bo.Op == token.NEQ || bo.Op == token.EQL) {
					if (core.IsNilConst(bo.Y) && isDelegated(bo.X)) || (core.IsNilConst(bo.X) && isDelegated(bo.Y)) {
						good = append(good, "a helper of the checker succeeded")
						continue
					}
				}
				// not one of the plain forms: decide on the atoms (sign tests written with
				// Sign()/Cmp(), helpers such as isOpen(x), conditions of a tagless switch)
				ci := newCondInterp(p)
				ci.extra = func(v ssa.Value) (string, string, bool) {
					if bo, ok := v.(*ssa.BinOp); ok && (bo.Op == token.EQL || bo.Op == token.NEQ) {
						if isPtrToNamed(bo.X.Type(), "Account") && isPtrToNamed(bo.Y.Type(), "Account") {
							return "acct:" + valueID(bo.X) + "=" + valueID(bo.Y), "same account?", true
						}
						return "", "", false
					}
					if desc, ok := reviewed(v); ok {
						return "atom:" + valueID(v), desc, true
					}
					return "", "", false
				}
				if tbl, ok := ci.table(iff.Cond, b); ok {
					if why := ci.signSymmetric(tbl); why != "" {
						bad = append(bad, why)
					} else {
						for _, a := range ci.order {
							good = append(good, ci.desc[a])
						}
					}
				} else {
					bad = append(bad, ci.unknown)
				}
			}
			key := fmt.Sprintf("%s:error return %d", core.FuncName(fn), n)
			// key by the message constant if there is one
			msg := ""
			for v := range originSet(p, ret.Results[len(ret.Results)-1], 0) {
				if s, ok := core.ConstString(v); ok && len(s) > len(msg) {
					msg = s
				}
			}
			if msg != "" {
				key = fmt.Sprintf("%s:rejection %q", core.FuncName(fn), msg)
			}
			if len(bad) == 0 {
				c.Ob(rule, key, ret.Pos(), core.FuncName(fn), core.Discharged, "rejected only under: "+strings.Join(uniq(good), ", "))
			} else {
				c.Ob(rule, key, ret.Pos(), core.FuncName(fn), core.Violated,
					"the checker rejects a directive under a condition outside the property's list (account not open / already open, non-zero position on close, assertion mismatch): "+strings.Join(uniq(bad), "; ")+" — a well-formed journal can be refused")
			}
		})
	}
	c.Floor(rule, 5)
}
