package rules

import (
	"go/token"
	"go/types"
	"sort"

	"golang.org/x/tools/go/ssa"

	"knutlint/core"
)

// stage is one processor handed to Journal.Process.
type stage struct {
	ctor      *ssa.Function            // constructor function (nil for a literal built in place)
	call      *ssa.Call                // the constructor call (nil for a literal)
	callbacks map[string]*ssa.Function // Processor field name -> bound function
	mayBeNil  bool                     // the constructor can return nil (stage disabled)
	pos       token.Pos
}

func (s *stage) name() string {
	if s.ctor != nil {
		return originName(s.ctor)
	}
	return "processor literal"
}

// funcs returns the callback functions with everything nested in them.
func (s *stage) funcs() []*ssa.Function {
	var res []*ssa.Function
	var names []string
	for n := range s.callbacks {
		names = append(names, n)
	}
	sort.Strings(names)
	for _, n := range names {
		res = append(res, core.WithAnon(s.callbacks[n])...)
	}
	return res
}

// pipeline is one Journal.Process call with its stages in order.
type pipeline struct {
	fn       *ssa.Function
	call     *ssa.Call
	journal  ssa.Value
	stages   []*stage
	resolved bool
	why      string
}

// processorLiteral reads the callbacks stored into a Processor composite
// literal.
func processorLiteral(p *core.Prog, lit ssa.Value) map[string]*ssa.Function {
	res := map[string]*ssa.Function{}
	if lit.Referrers() == nil {
		return res
	}
	for _, r := range *lit.Referrers() {
		fa, ok := r.(*ssa.FieldAddr)
		if !ok {
			continue
		}
		for _, st := range core.StoresTo(fa) {
			v := st.Val
			// conditional binding: `var dayEnd func; if w { dayEnd = ch.dayEnd }`
			if phi, ok := v.(*ssa.Phi); ok {
				for _, e := range phi.Edges {
					if f := core.FuncValue(e); f != nil {
						v = e
					}
				}
			}
			if f := core.FuncValue(v); f != nil {
				res[core.FieldOf(fa).Name()] = f
			}
		}
	}
	return res
}

// resolveStage resolves one element of the processor list.
func resolveStage(p *core.Prog, v ssa.Value, depth int) *stage {
	procT := p.NamedType(pkgJournal, "Processor")
	switch x := v.(type) {
	case *ssa.Alloc:
		if pt, ok := x.Type().Underlying().(*types.Pointer); ok && isNamed(pt.Elem(), procT) {
			return &stage{callbacks: processorLiteral(p, x), pos: x.Pos()}
		}
	case *ssa.Call:
		callee := x.Call.StaticCallee()
		if callee == nil || callee.Blocks == nil || depth <= 0 {
			return nil
		}
		st := &stage{ctor: callee, call: x, callbacks: map[string]*ssa.Function{}, pos: x.Pos()}
		found := false
		core.EachInstr(callee, func(ins ssa.Instruction) {
			ret, ok := ins.(*ssa.Return)
			if !ok || len(ret.Results) != 1 {
				return
			}
			rv := ret.Results[0]
			if core.IsNilConst(rv) {
				st.mayBeNil = true
				return
			}
			sub := resolveStage(p, rv, depth-1)
			if sub == nil {
				return
			}
			found = true
			for k, f := range sub.callbacks {
				st.callbacks[k] = f
			}
			if sub.mayBeNil {
				st.mayBeNil = true
			}
		})
		if !found {
			return nil
		}
		return st
	}
	return nil
}

// pipelines finds every Journal.Process call in the module and resolves its
// stages.
func pipelines(c *core.Ctx) []*pipeline {
	return core.Memo(c, "pipelines", func() []*pipeline {
		p := c.P
		processFn := p.Func(pkgJournal, "Journal.Process")
		var res []*pipeline
		if processFn == nil {
			return nil
		}
		for _, fn := range p.SrcFuncs() {
			core.EachInstr(fn, func(ins ssa.Instruction) {
				call, ok := ins.(*ssa.Call)
				if !ok || call.Call.StaticCallee() != processFn {
					return
				}
				pl := &pipeline{fn: fn, call: call, journal: call.Call.Args[0], resolved: true}
				res = append(res, pl)
				if core.IsNilConst(call.Call.Args[1]) {
					return // no processors
				}
				els, why := processorList(call.Call.Args[1], 0)
				if why != "" {
					pl.resolved, pl.why = false, why
					return
				}
				for _, ev := range els {
					st := resolveStage(p, ev, 3)
					if st == nil {
						pl.resolved, pl.why = false, "a processor is not a constructor call or a literal: "+describeValue(p, ev)
						continue
					}
					pl.stages = append(pl.stages, st)
				}
			})
		}
		sort.Slice(res, func(i, j int) bool { return res[i].call.Pos() < res[j].call.Pos() })
		return res
	})
}


// processorList resolves the processors handed to Journal.Process, in order:
// a slice literal, a slice literal returned by a helper function, or such a
// list extended by append. why != "" if the list has another shape.
func processorList(v ssa.Value, depth int) (els []ssa.Value, why string) {
	if depth > 3 {
		return nil, "processor list built through too many helpers"
	}
	switch x := core.Strip(v).(type) {
	case *ssa.Slice:
		arr, ok := x.X.(*ssa.Alloc)
		if !ok || arr.Referrers() == nil {
			return processorList(x.X, depth+1)
		}
		type el struct {
			idx int64
			v   ssa.Value
		}
		var tmp []el
		for _, r := range *arr.Referrers() {
			if ia, ok := r.(*ssa.IndexAddr); ok {
				i, _ := core.ConstInt(ia.Index)
				for _, st := range core.StoresTo(ia) {
					tmp = append(tmp, el{i, st.Val})
				}
			}
		}
		sort.Slice(tmp, func(a, b int) bool { return tmp[a].idx < tmp[b].idx })
		for _, e := range tmp {
			els = append(els, e.v)
		}
		return els, ""
	case *ssa.Call:
		if b, ok := x.Call.Value.(*ssa.Builtin); ok && b.Name() == "append" {
			base, w := processorList(x.Call.Args[0], depth)
			if w != "" {
				if !core.IsNilConst(x.Call.Args[0]) {
					return nil, w
				}
				base = nil
			}
			more, w := processorList(x.Call.Args[1], depth)
			if w != "" {
				return nil, w
			}
			return append(base, more...), ""
		}
		callee := x.Call.StaticCallee()
		if callee == nil || callee.Blocks == nil {
			return nil, "processor list is the result of a dynamic call"
		}
		var rets []ssa.Value
		core.EachInstr(callee, func(ins ssa.Instruction) {
			if ret, ok := ins.(*ssa.Return); ok && len(ret.Results) >= 1 {
				rets = append(rets, ret.Results[0])
			}
		})
		if len(rets) != 1 {
			return nil, "processor list comes from a helper with several return statements"
		}
		return processorList(rets[0], depth+1)
	case *ssa.Phi:
		// a stage appended under a condition (`if valuation != nil { procs = append(procs, …) }`):
		// the list with the optional stages in place; the shorter alternatives must be
		// what remains when optional stages are left out
		var lists [][]ssa.Value
		for _, e := range x.Edges {
			l, w := processorList(e, depth+1)
			if w != "" {
				return nil, w
			}
			lists = append(lists, l)
		}
		longest := 0
		for i, l := range lists {
			if len(l) > len(lists[longest]) {
				longest = i
			}
		}
		for _, l := range lists {
			k := 0
			for _, v := range lists[longest] {
				if k < len(l) && l[k] == v {
					k++
				}
			}
			if k != len(l) {
				return nil, "processor list is assembled along alternative paths that do not agree on the order of the stages"
			}
		}
		return lists[longest], ""
	case *ssa.MakeSlice:
		if n, ok := core.ConstInt(x.Len); ok && n == 0 {
			return nil, "" // make([]*Processor, 0, n): an empty list to append to
		}
		return nil, "processor list starts from a non-empty make"
	case *ssa.Const:
		if x.Value == nil {
			return nil, ""
		}
	case *ssa.UnOp:
		// a local variable assigned once
		if al, ok := x.X.(*ssa.Alloc); ok {
			sts := core.AllStoresToCell(al)
			if len(sts) == 1 {
				return processorList(sts[0].Val, depth+1)
			}
		}
	}
	return nil, "processor list is not a slice literal"
}
