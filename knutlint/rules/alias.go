package rules

import (
	"fmt"
	"go/token"
	"go/types"
	"strings"

	"golang.org/x/tools/go/ssa"

	"knutlint/core"
)

// freshFuncs are stdlib functions trusted to return a newly allocated slice
// with no other owner.
var freshFuncs = map[string]bool{
	"strings.Split": true, "strings.SplitN": true, "strings.Fields": true, "strings.SplitAfter": true,
	"strings.FieldsFunc": true, "bytes.Split": true, "os.ReadFile": true,
}

// capEqLenFuncs are functions trusted to return slices with cap == len, so
// that an append to the whole slice always reallocates.
var capEqLenFuncs = map[string]bool{"strings.Split": true, "strings.SplitN": true}

type freshness struct {
	p    *core.Prog
	memo map[*ssa.Function]int // 0 unknown, 1 in progress, 2 fresh, 3 not fresh
}

// isFresh reports whether slice value v is storage owned by the current
// function: made here, or returned by a function all of whose returns are
// fresh. why receives the first non-fresh origin found.
func (f *freshness) isFresh(v ssa.Value, depth int, seen map[ssa.Value]bool, why *string) bool {
	if seen[v] {
		return true
	}
	seen[v] = true
	switch x := v.(type) {
	case *ssa.Const:
		return true // nil
	case *ssa.MakeSlice:
		return true
	case *ssa.Phi:
		for _, e := range x.Edges {
			if !f.isFresh(e, depth, seen, why) {
				return false
			}
		}
		return true
	case *ssa.ChangeType:
		return f.isFresh(x.X, depth, seen, why)
	case *ssa.Convert:
		// []byte(string) etc. allocate
		return true
	case *ssa.Slice:
		// slice of a fresh array (composite literal) or of a fresh slice
		if a, ok := x.X.(*ssa.Alloc); ok {
			_ = a
			return true
		}
		return f.isFresh(x.X, depth, seen, why)
	case *ssa.UnOp:
		if x.Op == token.MUL {
			if a, ok := x.X.(*ssa.Alloc); ok {
				// local cell: every stored value must be fresh
				for _, s := range core.AllStoresToCell(a) {
					if !f.isFresh(s.Val, depth, seen, why) {
						return false
					}
				}
				return true
			}
			if fv, ok := x.X.(*ssa.FreeVar); ok {
				*why = "captured variable " + fv.Name()
				return false
			}
			if fa, ok := x.X.(*ssa.FieldAddr); ok {
				*why = "field " + f.p.FieldRef(core.FieldOf(fa))
				return false
			}
			*why = "load from " + x.X.String()
			return false
		}
	case *ssa.Extract:
		return f.isFresh(x.Tuple, depth, seen, why)
	case *ssa.Call:
		if b, ok := x.Call.Value.(*ssa.Builtin); ok && b.Name() == "append" {
			return f.isFresh(x.Call.Args[0], depth, seen, why)
		}
		if obj := core.CalleeObj(x); obj != nil && obj.Pkg() != nil {
			if freshFuncs[obj.Pkg().Name()+"."+core.ObjName(obj)] {
				return true
			}
		}
		callees := f.p.Callees(x)
		if len(callees) == 0 || depth <= 0 {
			*why = "result of " + calleeText(x)
			return false
		}
		for _, c := range callees {
			if !f.returnsFresh(c, depth-1, why) {
				if *why == "" {
					*why = "result of " + calleeText(x)
				}
				return false
			}
		}
		return true
	case *ssa.Parameter:
		*why = "parameter " + x.Name()
		return false
	case *ssa.Lookup:
		*why = "map element"
		return false
	case *ssa.Field:
		*why = "field " + f.p.FieldRef(core.FieldOf(x))
		return false
	}
	*why = fmt.Sprintf("%T %s", v, v.String())
	return false
}

func calleeText(call ssa.CallInstruction) string {
	if obj := core.CalleeObj(call); obj != nil {
		return core.QualifiedName(obj)
	}
	return call.Common().Value.String()
}

func (f *freshness) returnsFresh(fn *ssa.Function, depth int, why *string) bool {
	switch f.memo[fn] {
	case 1, 2:
		return true
	case 3:
		return false
	}
	if fn.Blocks == nil {
		f.memo[fn] = 3
		return false
	}
	f.memo[fn] = 1
	ok := true
	core.EachInstr(fn, func(ins ssa.Instruction) {
		r, isRet := ins.(*ssa.Return)
		if !isRet || !ok {
			return
		}
		for _, res := range r.Results {
			if _, isSlice := res.Type().Underlying().(*types.Slice); !isSlice {
				continue
			}
			if !f.isFresh(res, depth, map[ssa.Value]bool{}, why) {
				*why = core.FuncName(fn) + " returns " + *why
				ok = false
			}
		}
	})
	if ok {
		f.memo[fn] = 2
	} else {
		f.memo[fn] = 3
	}
	return ok
}

// sharedField follows a non-fresh slice value back to the struct field it is
// loaded from, through phis, reslices, local cells and the return values of
// getters (depth-limited). Call arguments are not followed.
func sharedField(p *core.Prog, v ssa.Value, depth int) *types.Var {
	var found *types.Var
	seen := map[ssa.Value]bool{}
	var walk func(v ssa.Value, depth int)
	walk = func(v ssa.Value, depth int) {
		if found != nil || seen[v] {
			return
		}
		seen[v] = true
		switch x := v.(type) {
		case *ssa.Phi:
			for _, e := range x.Edges {
				walk(e, depth)
			}
		case *ssa.ChangeType:
			walk(x.X, depth)
		case *ssa.Slice:
			walk(x.X, depth)
		case *ssa.Extract:
			walk(x.Tuple, depth)
		case *ssa.Field:
			if _, ok := x.Type().Underlying().(*types.Slice); ok {
				found = core.FieldOf(x)
			}
		case *ssa.UnOp:
			if x.Op != token.MUL {
				return
			}
			switch a := x.X.(type) {
			case *ssa.FieldAddr:
				found = core.FieldOf(a)
			case *ssa.Alloc:
				for _, s := range core.AllStoresToCell(a) {
					walk(s.Val, depth)
				}
			}
		case *ssa.Call:
			if depth <= 0 {
				return
			}
			for _, callee := range p.Callees(x) {
				if !p.InModule(callee) {
					continue
				}
				core.EachInstr(callee, func(ins ssa.Instruction) {
					if r, ok := ins.(*ssa.Return); ok {
						for _, res := range r.Results {
							if _, ok := res.Type().Underlying().(*types.Slice); ok {
								walk(res, depth-1)
							}
						}
					}
				})
			}
		}
	}
	walk(v, depth)
	return found
}

// RuleB1 — no in-place append through (a reslice of) storage the function
// does not own. See DESIGN.md section 2.B.
func RuleB1(c *core.Ctx) {
	const rule = "B1"
	p := c.P
	fr := &freshness{p: p, memo: map[*ssa.Function]int{}}
	n := 0
	for _, fn := range p.SrcFuncs() {
		if fn.Origin() != nil && fn.Origin() != fn {
			// analysed once on the generic origin
		}
		core.EachInstr(fn, func(ins ssa.Instruction) {
			call, ok := ins.(*ssa.Call)
			if !ok {
				return
			}
			b, ok := call.Call.Value.(*ssa.Builtin)
			if !ok || b.Name() != "append" || len(call.Call.Args) == 0 {
				return
			}
			arg0 := call.Call.Args[0]
			// (a) reslice-append: arg0 (through phis) is y[i:j] without a cap limit
			reslices := resliceOrigins(arg0)
			for _, sl := range reslices {
				n++
				why := ""
				key := fmt.Sprintf("%s:append(reslice of %s)", core.FuncName(fn), describeBase(p, sl.X))
				if fr.isFresh(sl.X, 2, map[ssa.Value]bool{}, &why) {
					c.Ob(rule, key, call.Pos(), core.FuncName(fn), core.Discharged, "reslice of storage allocated by this function")
					continue
				}
				c.Ob(rule, key, call.Pos(), core.FuncName(fn), core.Violated,
					"append to a reslice y[:k] writes into y's backing array when k < cap(y); y is not owned by this function ("+why+"), so the write is visible to every other holder of y")
			}
			if len(reslices) > 0 {
				return
			}
			// (b) whole-slice append of a slice obtained from a getter / field
			// of another object, result not stored back into the same field.
			why := ""
			if fr.isFresh(arg0, 2, map[ssa.Value]bool{}, &why) {
				return
			}
			fv := sharedField(p, arg0, 2)
			if fv == nil {
				return // parameters and map elements appended as a whole: accumulate idiom, out of scope of B1
			}
			if storedBackTo(call, fv) {
				return // x.f = append(x.f, ...): the owner's own accumulate idiom
			}
			n++
			key := fmt.Sprintf("%s:append(whole %s)", core.FuncName(fn), p.FieldRef(fv))
			if bad := writersNotCapEqLen(p, fv); len(bad) == 0 {
				c.Ob(rule, key, call.Pos(), core.FuncName(fn), core.Discharged,
					"append to a whole shared slice: every store to "+p.FieldRef(fv)+" assigns the result of strings.Split (cap == len), so append always reallocates")
			} else {
				c.Ob(rule, key, call.Pos(), core.FuncName(fn), core.Violated,
					"append to shared slice "+p.FieldRef(fv)+" may write into spare capacity: writer(s) "+strings.Join(bad, ", ")+" do not guarantee cap == len")
			}
		})
	}
	c.Note("B1: %d append sites carried an obligation", n)
}

func describeBase(p *core.Prog, v ssa.Value) string {
	why := ""
	fr := &freshness{p: p, memo: map[*ssa.Function]int{}}
	if fr.isFresh(v, 2, map[ssa.Value]bool{}, &why) {
		return "local storage"
	}
	if fv := sharedField(p, v, 2); fv != nil {
		return p.FieldRef(fv)
	}
	// strip positions from the text
	return why
}

// resliceOrigins returns the Slice instructions (without a max bound) that
// arg reaches through phis and local cells.
func resliceOrigins(v ssa.Value) []*ssa.Slice {
	var res []*ssa.Slice
	seen := map[ssa.Value]bool{}
	var walk func(v ssa.Value)
	walk = func(v ssa.Value) {
		if seen[v] {
			return
		}
		seen[v] = true
		switch x := v.(type) {
		case *ssa.Phi:
			for _, e := range x.Edges {
				walk(e)
			}
		case *ssa.ChangeType:
			walk(x.X)
		case *ssa.Slice:
			if _, isSlice := x.X.Type().Underlying().(*types.Slice); !isSlice {
				return // slicing an array pointer (composite literal) or string
			}
			if x.Max != nil {
				return
			}
			res = append(res, x)
		}
	}
	walk(v)
	return res
}

func storedBackTo(call *ssa.Call, fv *types.Var) bool {
	if call.Referrers() == nil {
		return false
	}
	for _, r := range *call.Referrers() {
		if st, ok := r.(*ssa.Store); ok {
			if fa, ok := st.Addr.(*ssa.FieldAddr); ok && core.FieldOf(fa) == fv {
				return true
			}
		}
	}
	return false
}

// writersNotCapEqLen lists the stores to field fv (anywhere in the program,
// composite literals included) whose value is not a cap==len slice.
func writersNotCapEqLen(p *core.Prog, fv *types.Var) []string {
	var bad []string
	writers := 0
	for _, fn := range p.SrcFuncs() {
		core.EachInstr(fn, func(ins ssa.Instruction) {
			st, ok := ins.(*ssa.Store)
			if !ok {
				return
			}
			fa, ok := st.Addr.(*ssa.FieldAddr)
			if !ok || core.FieldOf(fa) != fv {
				return
			}
			writers++
			if call, ok := st.Val.(*ssa.Call); ok {
				if obj := core.CalleeObj(call); obj != nil && obj.Pkg() != nil && capEqLenFuncs[obj.Pkg().Name()+"."+core.ObjName(obj)] {
					return
				}
			}
			if c, ok := st.Val.(*ssa.Const); ok && c.Value == nil {
				return
			}
			bad = append(bad, core.FuncName(fn)+" at "+p.Pos(st.Pos()))
		})
	}
	if writers == 0 {
		bad = append(bad, "no writer found")
	}
	return bad
}

// RuleKNameAnchored — an account name is hierarchical: code that derives one
// account's name from another's edits it at a segment boundary (TrimPrefix /
// HasPrefix on the type root, slicing and joining the segments). An
// unanchored substring replacement (strings.Replace, ReplaceAll, a Replacer,
// regexp replacement) applied to Account.name or to its segments also rewrites
// a later segment that happens to contain the same word, so the derived
// account is not the mirror of the original (remap then moves amounts to a
// row nobody asked for, or merges two accounts).
func RuleKNameAnchored(c *core.Ctx) {
	const rule = "K-name-anchored"
	p := c.P
	nameF := p.Field(pkgAccount, "Account", "name")
	segF := p.Field(pkgAccount, "Account", "segments")
	if nameF == nil || segF == nil {
		c.Anchor(rule, "account.Account.name / segments")
		return
	}
	unanchored := map[string]bool{"strings.Replace": true, "strings.ReplaceAll": true, "strings.NewReplacer": true, "(*strings.Replacer).Replace": true,
		"(*regexp.Regexp).ReplaceAllString": true, "(*regexp.Regexp).ReplaceAllLiteralString": true, "(*regexp.Regexp).ReplaceAllStringFunc": true, "strings.Map": true}
	n, derived := 0, 0
	for _, fn := range p.SrcFuncs() {
		if !p.InModule(fn) {
			continue
		}
		core.EachInstr(fn, func(ins ssa.Instruction) {
			call, ok := ins.(*ssa.Call)
			if !ok {
				return
			}
			callee := call.Call.StaticCallee()
			if callee == nil || callee.Pkg == nil {
				return
			}
			pkg := callee.Pkg.Pkg.Path()
			if pkg != "strings" && pkg != "regexp" {
				return
			}
			fromName := false
			for _, a := range call.Call.Args {
				for v := range originSet(p, a, 1) {
					switch x := v.(type) {
					case *ssa.FieldAddr:
						if f := core.FieldOf(x); f == nameF || f == segF {
							fromName = true
						}
					case *ssa.Call:
						if cl := x.Call.StaticCallee(); cl != nil && core.PkgPathOf(cl) == pkgAccount && (cl.Name() == "Name" || cl.Name() == "Segments") {
							fromName = true
						}
					}
				}
			}
			if !fromName {
				return
			}
			derived++
			full := core.FuncName(callee)
			if !unanchored[full] {
				return
			}
			// strings.Replace(s, old, new, 1) rewrites the first occurrence only: on a
			// name that starts with the pattern that is the prefix (anchored)
			if full == "strings.Replace" && len(call.Call.Args) == 4 {
				if k, ok := call.Call.Args[3].(*ssa.Const); ok && k.Int64() == 1 {
					return
				}
			}
			n++
			c.Ob(rule, core.FuncName(fn)+":"+full+" on an account name", call.Pos(), core.FuncName(fn), core.Violated, full+" rewrites every occurrence of the pattern in the account's name, not only the segment it is meant for: a later segment containing the same text is changed too")
		})
	}
	if derived == 0 {
		c.Anchor(rule, "string operations on account names (none found)")
		return
	}
	c.Ob(rule, "module:no unanchored replacement on account names", 0, "", core.Discharged, fmt.Sprintf("%d strings/regexp calls take an account name or its segments; none is an unanchored replacement", derived))
	c.Floor(rule, 1)
}
