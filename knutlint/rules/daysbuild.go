package rules

import (
	"fmt"
	"go/token"

	"golang.org/x/tools/go/ssa"

	"knutlint/core"
)

// accessPath: a value reachable from a parameter through struct fields.
type accessPath struct {
	param  int
	fields []int
}

// pathOf resolves v inside its function to a parameter access path.
func pathOf(v ssa.Value) (accessPath, bool) {
	switch x := v.(type) {
	case *ssa.Parameter:
		for i, p := range x.Parent().Params {
			if p == x {
				return accessPath{param: i}, true
			}
		}
	case *ssa.Field:
		if ap, ok := pathOf(x.X); ok {
			ap.fields = append(append([]int(nil), ap.fields...), x.Field)
			return ap, true
		}
	case *ssa.UnOp:
		if x.Op != token.MUL {
			return accessPath{}, false
		}
		switch a := x.X.(type) {
		case *ssa.FieldAddr:
			if ap, ok := pathOfAddr(a.X); ok {
				ap.fields = append(append([]int(nil), ap.fields...), a.Field)
				return ap, true
			}
		case *ssa.Alloc:
			return pathOfAddr(a)
		}
	}
	return accessPath{}, false
}

// pathOfAddr: the address of a spilled parameter (Alloc with a single store
// of the parameter) or a pointer parameter.
func pathOfAddr(v ssa.Value) (accessPath, bool) {
	switch a := v.(type) {
	case *ssa.Alloc:
		st := core.StoresTo(a)
		if len(st) == 1 {
			return pathOf(st[0].Val)
		}
	case *ssa.Parameter:
		return pathOf(a)
	case *ssa.FieldAddr:
		if ap, ok := pathOfAddr(a.X); ok {
			ap.fields = append(append([]int(nil), ap.fields...), a.Field)
			return ap, true
		}
	}
	return accessPath{}, false
}

// resolveAt resolves an access path against the actual arguments of a call.
func resolveAt(call ssa.CallInstruction, ap accessPath) (ssa.Value, bool) {
	args := call.Common().Args
	if ap.param >= len(args) {
		return nil, false
	}
	v := args[ap.param]
	for _, f := range ap.fields {
		nv, ok := fieldOfValue(v, f)
		if !ok {
			return nil, false
		}
		v = nv
	}
	return v, true
}

// fieldOfValue: the value of field f of struct value v, when v is a load of a
// local composite literal (or a pointer to one).
func fieldOfValue(v ssa.Value, f int) (ssa.Value, bool) {
	var alloc *ssa.Alloc
	switch x := v.(type) {
	case *ssa.UnOp:
		if x.Op == token.MUL {
			alloc, _ = x.X.(*ssa.Alloc)
		}
	case *ssa.Alloc:
		alloc = x
	}
	if alloc == nil || alloc.Referrers() == nil {
		return nil, false
	}
	var val ssa.Value
	n := 0
	for _, r := range *alloc.Referrers() {
		fa, ok := r.(*ssa.FieldAddr)
		if !ok || fa.Field != f {
			continue
		}
		for _, st := range core.StoresTo(fa) {
			val = st.Val
			n++
		}
	}
	if n == 1 {
		return val, true
	}
	return nil, false
}

type daysReq struct {
	builder  accessPath
	accessor *ssa.Function // e.g. date.Partition.EndDates; nil if the dates are not accessor(partition)
	part     accessPath
	partOK   bool
	pos      token.Pos
	in       *ssa.Function
}

// daysSummary: the calls to (*journal.Builder).Days / Day that fn performs in
// its own body (not in the closures it returns) on a builder reachable from
// a parameter.
func daysSummary(p *core.Prog, fn *ssa.Function, daysFn, dayFn *ssa.Function) []daysReq {
	var res []daysReq
	core.EachInstr(fn, func(ins ssa.Instruction) {
		call, ok := ins.(ssa.CallInstruction)
		if !ok {
			return
		}
		callee := call.Common().StaticCallee()
		if callee != daysFn && callee != dayFn {
			return
		}
		bp, ok := pathOf(call.Common().Args[0])
		if !ok {
			return
		}
		req := daysReq{builder: bp, pos: call.Pos(), in: fn}
		if callee == daysFn {
			if acc, ok := call.Common().Args[1].(*ssa.Call); ok {
				if ac := acc.Call.StaticCallee(); ac != nil && len(acc.Call.Args) >= 1 {
					req.accessor = ac
					req.part, req.partOK = pathOf(acc.Call.Args[0])
				}
			}
		}
		res = append(res, req)
	})
	return res
}

// RuleDDaysBeforeBuild — typestate of journal.Builder: Build() snapshots the
// set of days. A function called after b.Build() that asks the builder for
// days (b.Days(dates)) gets Day objects that are not part of the journal
// being processed unless the same dates were registered before Build().
func RuleDDaysBeforeBuild(c *core.Ctx) {
	const rule = "D-days-before-build"
	p := c.P
	buildFn := p.Func(pkgJournal, "Builder.Build")
	daysFn := p.Func(pkgJournal, "Builder.Days")
	dayFn := p.Func(pkgJournal, "Builder.Day")
	if buildFn == nil || daysFn == nil || dayFn == nil {
		c.Anchor(rule, "journal.Builder.Build/Days/Day")
		return
	}
	summaries := 0
	sumMemo := map[*ssa.Function][]daysReq{}
	summary := func(fn *ssa.Function) []daysReq {
		if s, ok := sumMemo[fn]; ok {
			return s
		}
		s := daysSummary(p, fn, daysFn, dayFn)
		sumMemo[fn] = s
		return s
	}
	for _, fn := range p.SrcFuncs() {
		if core.PkgPathOf(fn) == pkgJournal && (fn == daysFn || fn == dayFn) {
			continue
		}
		var builds []*ssa.Call
		core.EachInstr(fn, func(ins ssa.Instruction) {
			if call, ok := ins.(*ssa.Call); ok && call.Call.StaticCallee() == buildFn {
				builds = append(builds, call)
			}
		})
		if len(builds) == 0 {
			continue
		}
		// registrations before Build: b.Days(accessor(part))
		type reg struct {
			call     *ssa.Call
			accessor *ssa.Function
			part     ssa.Value
		}
		var regs []reg
		core.EachInstr(fn, func(ins ssa.Instruction) {
			call, ok := ins.(*ssa.Call)
			if !ok || call.Call.StaticCallee() != daysFn {
				return
			}
			if acc, ok := call.Call.Args[1].(*ssa.Call); ok {
				if ac := acc.Call.StaticCallee(); ac != nil && len(acc.Call.Args) >= 1 {
					regs = append(regs, reg{call, ac, acc.Call.Args[0]})
				}
			}
		})
		for _, build := range builds {
			b := build.Call.Args[0]
			core.EachInstr(fn, func(ins ssa.Instruction) {
				call, ok := ins.(ssa.CallInstruction)
				if !ok || ins == build {
					return
				}
				callee := call.Common().StaticCallee()
				if callee == nil || !p.InModule(callee) || callee == buildFn {
					return
				}
				// evaluated after Build on some path?
				after := false
				if ins.Block() == build.Block() {
					after = core.InstrIndex(ins) > core.InstrIndex(build)
				} else {
					after = core.BlockReaches(build.Block(), ins.Block(), nil)
				}
				if !after {
					return
				}
				var reqs []daysReq
				if callee == daysFn || callee == dayFn {
					if p.SameExpr(call.Common().Args[0], b) {
						reqs = append(reqs, daysReq{builder: accessPath{param: 0}, pos: ins.Pos(), in: fn})
					}
				} else {
					reqs = summary(callee)
				}
				for _, rq := range reqs {
					bv, ok := resolveAt(call, rq.builder)
					if !ok || !p.SameExpr(bv, b) {
						continue
					}
					summaries++
					key := fmt.Sprintf("%s:%s after Build", core.FuncName(fn), core.FuncName(callee))
					if rq.accessor == nil || !rq.partOK {
						c.Ob(rule, key, ins.Pos(), core.FuncName(fn), core.Violated,
							"days are requested from the builder after Build() and the requested dates are not of the form accessor(partition), so no earlier registration can be matched")
						continue
					}
					pv, ok := resolveAt(call, rq.part)
					if !ok {
						c.Ob(rule, key, ins.Pos(), core.FuncName(fn), core.Undecided, "cannot resolve the partition argument the callee derives its dates from")
						continue
					}
					found := false
					for _, r := range regs {
						if r.accessor == rq.accessor && p.SameExpr(r.part, pv) && core.Dominates(r.call, build) {
							found = true
						}
					}
					if !found && registeredByHelper(p, b, pv, rq.accessor, daysFn, build) {
						found = true
					}
					if found {
						c.Ob(rule, key, ins.Pos(), core.FuncName(fn), core.Discharged,
							fmt.Sprintf("%s asks the builder for %s(partition) after Build(); the same dates were registered with b.Days before Build()", core.FuncName(callee), rq.accessor.Name()))
					} else {
						c.Ob(rule, key, ins.Pos(), core.FuncName(fn), core.Violated,
							fmt.Sprintf("%s calls b.Days(%s(partition)) (at %s) after %s evaluated b.Build(): the period-end days it creates are not in the journal that is processed, so periods ending on a day without directives are never reported. No b.Days(%s(partition)) call dominates Build().",
								core.FuncName(callee), rq.accessor.Name(), p.Pos(rq.pos), core.FuncName(fn), rq.accessor.Name()))
					}
				}
			})
		}
	}
	// every function with a days summary, for the evidence
	n := 0
	for _, fn := range p.SrcFuncs() {
		if fn.Parent() == nil && len(summary(fn)) > 0 && fn != daysFn {
			n++
			c.Ob(rule, "summary:"+core.FuncName(fn), fn.Pos(), core.FuncName(fn), core.Info, "requests days from a builder parameter")
		}
	}
	c.Note("%s: %d functions request days from a builder parameter; %d post-Build requests examined", rule, n, summaries)
	c.Floor(rule, 1)
}


// registeredByHelper: the builder b and the partition pv are two fields of one
// struct returned by a module helper H (called before build), and inside H the
// call  jField.Days(accessor(pField))  on the very values stored into those
// fields dominates the return: the dates are registered by the time H returns.
func registeredByHelper(p *core.Prog, b, pv ssa.Value, accessor *ssa.Function, daysFn *ssa.Function, build *ssa.Call) bool {
	fieldOf := func(v ssa.Value) (ssa.Value, int, bool) {
		switch x := v.(type) {
		case *ssa.UnOp:
			if fa, ok := x.X.(*ssa.FieldAddr); ok && x.Op == token.MUL {
				return fa.X, fa.Field, true
			}
		case *ssa.Field:
			return x.X, x.Field, true
		}
		return nil, 0, false
	}
	// tuple form: builder and partition are two results of one helper call
	// (j, partition, err := loadJournal(…)): inside the helper, Days(accessor(p0)) on
	// the returned builder dominates each success return
	if be, ok := core.Strip(b).(*ssa.Extract); ok {
		pe, ok2 := core.Strip(pv).(*ssa.Extract)
		if !ok2 {
			// the partition may have been spilled to a local for a method call
			if ld, isLd := pv.(*ssa.UnOp); isLd {
				if al, isAl := ld.X.(*ssa.Alloc); isAl {
					if sts := core.AllStoresToCell(al); len(sts) == 1 {
						pe, ok2 = core.Strip(sts[0].Val).(*ssa.Extract)
					}
				}
			}
		}
		if ok2 && be.Tuple == pe.Tuple {
			if hc, isCall := be.Tuple.(*ssa.Call); isCall && core.Dominates(hc, build) {
				h := hc.Call.StaticCallee()
				if h != nil && h.Blocks != nil && p.InModule(h) {
					all, any := true, false
					core.EachInstr(h, func(ins ssa.Instruction) {
						ret, isRet := ins.(*ssa.Return)
						if !isRet || be.Index >= len(ret.Results) || pe.Index >= len(ret.Results) {
							return
						}
						j0, p0 := ret.Results[be.Index], ret.Results[pe.Index]
						if core.IsNilConst(j0) {
							return // an error return
						}
						any = true
						found := false
						core.EachInstr(h, func(i2 ssa.Instruction) {
							call, isCall := i2.(*ssa.Call)
							if !isCall || call.Call.StaticCallee() != daysFn || !p.SameExpr(call.Call.Args[0], j0) {
								return
							}
							acc, isAcc := call.Call.Args[1].(*ssa.Call)
							if !isAcc || acc.Call.StaticCallee() != accessor || len(acc.Call.Args) < 1 {
								return
							}
							if (p.SameExpr(acc.Call.Args[0], p0) || sameLoadedValue(p, acc.Call.Args[0], p0)) && core.Dominates(call, ret) {
								found = true
							}
						})
						if !found {
							all = false
						}
					})
					if any && all {
						return true
					}
				}
			}
		}
	}
	bx, bf, ok1 := fieldOf(b)
	px, pf, ok2 := fieldOf(pv)
	if !ok1 || !ok2 || !p.SameExpr(bx, px) {
		return false
	}
	// the struct: (extracted) result of a call
	var hc *ssa.Call
	switch x := core.Strip(bx).(type) {
	case *ssa.Extract:
		hc, _ = x.Tuple.(*ssa.Call)
	case *ssa.Call:
		hc = x
	}
	if hc == nil || !core.Dominates(hc, build) {
		return false
	}
	h := hc.Call.StaticCallee()
	if h == nil || h.Blocks == nil || !p.InModule(h) {
		return false
	}
	ok := false
	core.EachInstr(h, func(ins ssa.Instruction) {
		ret, isRet := ins.(*ssa.Return)
		if !isRet || len(ret.Results) == 0 {
			return
		}
		// success return: the struct is a non-nil allocation
		al, isAlloc := core.Strip(ret.Results[0]).(*ssa.Alloc)
		if !isAlloc || al.Referrers() == nil {
			return
		}
		var j0, p0 ssa.Value
		for _, r := range *al.Referrers() {
			fa, isFA := r.(*ssa.FieldAddr)
			if !isFA {
				continue
			}
			for _, st := range core.StoresTo(fa) {
				if fa.Field == bf {
					j0 = st.Val
				}
				if fa.Field == pf {
					p0 = st.Val
				}
			}
		}
		if j0 == nil || p0 == nil {
			return
		}
		core.EachInstr(h, func(i2 ssa.Instruction) {
			call, isCall := i2.(*ssa.Call)
			if !isCall || call.Call.StaticCallee() != daysFn || !p.SameExpr(call.Call.Args[0], j0) {
				return
			}
			acc, isAcc := call.Call.Args[1].(*ssa.Call)
			if !isAcc || acc.Call.StaticCallee() != accessor || len(acc.Call.Args) < 1 {
				return
			}
			if (p.SameExpr(acc.Call.Args[0], p0) || sameLoadedValue(p, acc.Call.Args[0], p0)) && core.Dominates(call, ret) {
				ok = true
			}
		})
	})
	return ok
}

// sameLoadedValue: a and b are loads of the same local variable (a struct
// value spilled for a method call and the value stored into a field).
func sameLoadedValue(p *core.Prog, a, b ssa.Value) bool {
	la, ok1 := a.(*ssa.UnOp)
	lb, ok2 := b.(*ssa.UnOp)
	if ok1 && ok2 && la.Op == token.MUL && lb.Op == token.MUL {
		return p.SameExpr(la.X, lb.X)
	}
	// one is the value, the other a load of a cell that was assigned that value once
	check := func(ld ssa.Value, v ssa.Value) bool {
		u, ok := ld.(*ssa.UnOp)
		if !ok || u.Op != token.MUL {
			return false
		}
		al, ok := u.X.(*ssa.Alloc)
		if !ok {
			return false
		}
		sts := core.AllStoresToCell(al)
		return len(sts) == 1 && (sts[0].Val == v || p.SameExpr(sts[0].Val, v))
	}
	return check(a, b) || check(b, a)
}
