package rules

// Family E — loop progress in the scanner and parser (termination on every
// input). DESIGN.md section 2.E.
//
// A small path-sensitive abstract interpreter over SSA. Abstract state:
//   class   None | Adv            (has this path consumed at least one rune?)
//   notEOF  the scanner is known not to be at EOF
//   atEOF   the scanner is known to be at EOF
//   facts   dynamic predicates known to hold of the current rune
//   nilErrs error values known to be nil on this path
// A callee contributes its summary on the nil edge of its error test:
//   Adv       success implies a rune was consumed (fails at EOF)
//   AdvOrEOF  success implies a rune was consumed or the scanner is at EOF
//             (forked into the two cases)
//   None      nothing known
// Function summaries are the least fixed point over the three packages.

import (
	"fmt"
	"go/token"
	"go/types"
	"sort"
	"strings"

	"golang.org/x/tools/go/ssa"

	"knutlint/core"
)

const (
	pNone = iota
	pAdvOrEOF
	pAdv
)

func pName(c int) string { return [...]string{"None", "AdvOrEOF", "Adv"}[c] }

type pstate struct {
	adv     bool
	notEOF  bool
	atEOF   bool
	facts   map[string]bool
	nilErrs map[ssa.Value]bool
	nonNil  map[ssa.Value]bool
	pred    *ssa.BasicBlock
}

func (s *pstate) clone() *pstate {
	n := &pstate{adv: s.adv, notEOF: s.notEOF, atEOF: s.atEOF, facts: map[string]bool{}, nilErrs: map[ssa.Value]bool{}, nonNil: map[ssa.Value]bool{}, pred: s.pred}
	for k, v := range s.facts {
		n.facts[k] = v
	}
	for k := range s.nilErrs {
		n.nilErrs[k] = true
	}
	for k := range s.nonNil {
		n.nonNil[k] = true
	}
	return n
}

func (s *pstate) key() string {
	var fs []string
	for k, v := range s.facts {
		fs = append(fs, fmt.Sprintf("%s=%v", k, v))
	}
	sort.Strings(fs)
	var ns []string
	for k := range s.nilErrs {
		ns = append(ns, k.Name())
	}
	sort.Strings(ns)
	var nn []string
	for k := range s.nonNil {
		nn = append(nn, k.Name())
	}
	sort.Strings(nn)
	pred := -1
	if s.pred != nil {
		pred = s.pred.Index
	}
	return fmt.Sprintf("%v|%v|%v|%s|%s|%s|%d", s.adv, s.notEOF, s.atEOF, strings.Join(fs, ","), strings.Join(ns, ","), strings.Join(nn, ","), pred)
}

// consumed: something may have been consumed; position facts are void.
func (s *pstate) kill() {
	s.notEOF = false
	s.atEOF = false
	s.facts = map[string]bool{}
}

type progress struct {
	c       *core.Ctx
	p       *core.Prog
	summary map[*ssa.Function]int
	// assumeNonEmpty: functions analysed under the assumption that their
	// string (or []string) parameter is non-empty
	assume   map[*ssa.Function]bool
	advance  *ssa.Function
	current  *ssa.Function
	backtr   *ssa.Function
	curField *types.Var
	scope    map[*ssa.Function]bool
	notes    []string
	ctxMemo  map[string]int
	ctxDepth int
}

func newProgress(c *core.Ctx) *progress {
	p := c.P
	pr := &progress{c: c, p: p, summary: map[*ssa.Function]int{}, assume: map[*ssa.Function]bool{}, scope: map[*ssa.Function]bool{}}
	pr.advance = p.Func(pkgScanner, "Scanner.Advance")
	pr.current = p.Func(pkgScanner, "Scanner.Current")
	pr.backtr = p.Func(pkgScanner, "Scanner.Backtrack")
	pr.curField = p.Field(pkgScanner, "Scanner", "current")
	for _, fn := range p.SrcFuncs() {
		switch core.PkgPathOf(fn) {
		case pkgScanner, pkgParser, pkgDirectives:
			pr.scope[fn] = true
		}
	}
	return pr
}

// isCurrent: v is the scanner's current rune (Current() call or field load).
func (pr *progress) isCurrent(v ssa.Value) bool {
	v = core.Strip(v)
	switch x := v.(type) {
	case *ssa.Call:
		return x.Call.StaticCallee() == pr.current
	case *ssa.UnOp:
		if fa, ok := x.X.(*ssa.FieldAddr); ok && x.Op == token.MUL {
			return core.FieldOf(fa) == pr.curField
		}
	}
	return false
}

// eofTest decodes `current == EOF` / `current != EOF`; returns (isTest, trueMeansEOF).
func (pr *progress) eofTest(cond ssa.Value) (bool, bool) {
	bo, ok := cond.(*ssa.BinOp)
	if !ok || (bo.Op != token.EQL && bo.Op != token.NEQ) {
		return false, false
	}
	isEOF := func(v ssa.Value) bool {
		n, ok := core.ConstInt(v)
		return ok && n == -1
	}
	if (pr.isCurrent(bo.X) && isEOF(bo.Y)) || (pr.isCurrent(bo.Y) && isEOF(bo.X)) {
		return true, bo.Op == token.EQL
	}
	return false, false
}

// predFact: cond is a dynamic predicate applied to the current rune; returns
// a key for it.
func (pr *progress) predFact(cond ssa.Value) (string, bool) {
	call, ok := cond.(*ssa.Call)
	if !ok || len(call.Call.Args) != 1 || !pr.isCurrent(call.Call.Args[0]) {
		return "", false
	}
	switch f := call.Call.Value.(type) {
	case *ssa.Parameter:
		return "pred:" + f.Name(), true
	case *ssa.FreeVar:
		return "pred:" + f.Name(), true
	case *ssa.Function:
		if pr.p.Pure(f, 3) {
			return "fn:" + f.String(), true
		}
	case *ssa.MakeClosure:
		return "closure:" + f.Fn.String(), true
	}
	return "", false
}

// runeNeCurrent: `ch != Current()` where ch is the rune of a range over a
// string: on the equal edge the scanner is not at EOF.
func (pr *progress) runeEqCurrent(cond ssa.Value) (bool, bool) {
	bo, ok := cond.(*ssa.BinOp)
	if !ok || (bo.Op != token.EQL && bo.Op != token.NEQ) {
		return false, false
	}
	fromStringRange := func(v ssa.Value) bool {
		ex, ok := core.Strip(v).(*ssa.Extract)
		if !ok {
			return false
		}
		nx, ok := ex.Tuple.(*ssa.Next)
		return ok && nx.IsString
	}
	if (fromStringRange(bo.X) && pr.isCurrent(bo.Y)) || (fromStringRange(bo.Y) && pr.isCurrent(bo.X)) {
		return true, bo.Op == token.EQL
	}
	// comparison of the current rune with a rune constant other than EOF
	constRune := func(v ssa.Value) bool {
		n, ok := core.ConstInt(v)
		return ok && n >= 0
	}
	if (constRune(bo.X) && pr.isCurrent(bo.Y)) || (constRune(bo.Y) && pr.isCurrent(bo.X)) {
		return true, bo.Op == token.EQL
	}
	return false, false
}

// errOf returns the error value a call yields (the call itself or its error
// component).
func errValues(call *ssa.Call) []ssa.Value {
	var res []ssa.Value
	sig := call.Call.Signature()
	n := sig.Results().Len()
	if n == 1 && core.IsErrorType(sig.Results().At(0).Type()) {
		return []ssa.Value{call}
	}
	if call.Referrers() == nil {
		return nil
	}
	for _, r := range *call.Referrers() {
		if ex, ok := r.(*ssa.Extract); ok && core.IsErrorType(ex.Type()) {
			res = append(res, ex)
		}
	}
	return res
}

type pendingCall struct {
	call  *ssa.Call
	class int
}

// interpret explores fn from block `start` with the initial states; it calls
// onReturn for every return reached and onEdge for every CFG edge taken.
// restrict (if non-nil) confines the exploration to those blocks.
func (pr *progress) interpret(fn *ssa.Function, start *ssa.BasicBlock, init []*pstate, restrict map[*ssa.BasicBlock]bool,
	onReturn func(ret *ssa.Return, s *pstate), onEdge func(from, to *ssa.BasicBlock, s *pstate) bool) {
	type item struct {
		b *ssa.BasicBlock
		s *pstate
	}
	seen := map[string]bool{}
	var work []item
	push := func(b *ssa.BasicBlock, s *pstate) {
		k := fmt.Sprintf("%d#%s", b.Index, s.key())
		if seen[k] {
			return
		}
		seen[k] = true
		if len(seen) > 20000 {
			return
		}
		work = append(work, item{b, s})
	}
	for _, s := range init {
		push(start, s)
	}
	pending := map[ssa.Value]pendingCall{} // error value -> call awaiting its test
	for len(work) > 0 {
		it := work[len(work)-1]
		work = work[:len(work)-1]
		b, s := it.b, it.s.clone()
		states := []*pstate{s}
		for _, ins := range b.Instrs {
			var next []*pstate
			for _, st := range states {
				switch x := ins.(type) {
				case *ssa.Call:
					callee := x.Call.StaticCallee()
					class := pNone
					switch {
					case callee == nil:
						// dynamic call (predicate, callback): no effect on the position
						next = append(next, st)
						continue
					case callee == pr.current:
						next = append(next, st)
						continue
					case callee == pr.backtr:
						st.adv = false
						st.kill()
						next = append(next, st)
						continue
					case callee == pr.advance:
						if st.notEOF {
							class = pAdv
						} else if st.atEOF {
							class = pNone
							// Advance at EOF: no progress, still at EOF
							next = append(next, st)
							continue
						} else {
							class = pAdvOrEOF
						}
					case pr.scope[callee] || pr.scope[core.OriginOf(callee)]:
						class = pr.summary[core.OriginOf(callee)]
						if pr.p.Pure(callee, 2) {
							next = append(next, st)
							continue
						}
						if class != pAdv {
							if cc := pr.ctxClass(core.OriginOf(callee), x, st); cc > class {
								class = cc
							}
						}
					default:
						next = append(next, st)
						continue
					}
					errs := errValues(x)
					if len(errs) == 0 {
						// no error to test: the contribution applies at once
						next = append(next, pr.apply(st, class, x)...)
						continue
					}
					for _, e := range errs {
						pending[e] = pendingCall{x, class}
					}
					// the position facts are revised at the error test of this call
					next = append(next, st)
				default:
					next = append(next, st)
				}
			}
			states = next
		}
		last := b.Instrs[len(b.Instrs)-1]
		for _, st := range states {
			switch t := last.(type) {
			case *ssa.Return:
				if onReturn != nil {
					onReturn(t, st)
				}
			case *ssa.Jump:
				to := b.Succs[0]
				if onEdge != nil && !onEdge(b, to, st) {
					continue
				}
				if restrict != nil && !restrict[to] {
					continue
				}
				n := st.clone()
				n.pred = b
				push(to, n)
			case *ssa.If:
				for i, to := range b.Succs {
					for _, n := range pr.branch(st, t.Cond, i == 0, pending) {
						if onEdge != nil && !onEdge(b, to, n) {
							continue
						}
						if restrict != nil && !restrict[to] {
							continue
						}
						n.pred = b
						push(to, n)
					}
				}
			}
		}
	}
}

// apply adds a callee's contribution on its success path.
func (pr *progress) apply(st *pstate, class int, call *ssa.Call) []*pstate {
	switch class {
	case pAdv:
		if st.atEOF {
			return nil // a consuming callee cannot succeed at EOF
		}
		n := st.clone()
		n.adv = true
		n.kill()
		return []*pstate{n}
	case pAdvOrEOF:
		if st.atEOF {
			return []*pstate{st} // nothing consumed, still at EOF
		}
		a := st.clone()
		a.adv = true
		a.kill()
		res := []*pstate{a}
		if !st.notEOF {
			e := st.clone()
			e.kill()
			e.atEOF = true
			res = append(res, e)
		}
		return res
	}
	n := st.clone()
	keep := st.atEOF
	n.kill()
	n.atEOF = keep
	return []*pstate{n}
}

// branch refines a state along one edge of an If; nil if infeasible.
func (pr *progress) branch(st *pstate, cond ssa.Value, taken bool, pending map[ssa.Value]pendingCall) []*pstate {
	neg := false
	for {
		if u, ok := cond.(*ssa.UnOp); ok && u.Op == token.NOT {
			cond = u.X
			neg = !neg
			continue
		}
		break
	}
	val := taken != neg // truth value of the un-negated condition on this edge
	n := st.clone()
	if isTest, trueMeansEOF := pr.eofTest(cond); isTest {
		eof := val == trueMeansEOF
		if eof {
			if n.notEOF {
				return nil
			}
			n.atEOF = true
		} else {
			if n.atEOF {
				return nil
			}
			n.notEOF = true
		}
		return []*pstate{n}
	}
	if isEq, trueMeansEq := pr.runeEqCurrent(cond); isEq {
		if val == trueMeansEq {
			if n.atEOF {
				return nil
			}
			n.notEOF = true
		}
		return []*pstate{n}
	}
	if k, ok := pr.predFact(cond); ok {
		if known, has := n.facts[k]; has {
			if known != val {
				return nil
			}
			return []*pstate{n}
		}
		n.facts[k] = val
		return []*pstate{n}
	}
	// error tests
	if bo, ok := cond.(*ssa.BinOp); ok && (bo.Op == token.NEQ || bo.Op == token.EQL) && (core.IsNilConst(bo.X) || core.IsNilConst(bo.Y)) {
		e := bo.X
		if core.IsNilConst(e) {
			e = bo.Y
		}
		e = pr.resolvePhi(e, st)
		isNil := val == (bo.Op == token.EQL)
		if n.nilErrs[e] && !isNil {
			return nil
		}
		if n.nonNil[e] && isNil {
			return nil
		}
		if pc, ok := pending[e]; ok {
			if isNil {
				n.nilErrs[e] = true
				return pr.apply(n, pc.class, pc.call)
			}
			n.nonNil[e] = true
			keep := n.atEOF
			n.kill()
			n.atEOF = keep
			return []*pstate{n}
		}
		if isNil {
			n.nilErrs[e] = true
		} else {
			n.nonNil[e] = true
		}
		return []*pstate{n}
	}
	// range over a string assumed non-empty: first `ok` is true
	if ex, ok := cond.(*ssa.Extract); ok && ex.Index == 0 {
		if nx, ok := ex.Tuple.(*ssa.Next); ok && nx.IsString {
			k := "iter:" + nx.Iter.Name()
			if _, has := n.facts[k]; !has && n.facts["nonempty:"+rangeOperandName(nx)] {
				if !val {
					return nil
				}
			}
			n.facts[k] = true
		}
	}
	return []*pstate{n}
}

func rangeOperandName(nx *ssa.Next) string {
	if rg, ok := nx.Iter.(*ssa.Range); ok {
		if prm, ok := core.Strip(rg.X).(*ssa.Parameter); ok {
			return prm.Name()
		}
	}
	return "?"
}

func (pr *progress) resolvePhi(v ssa.Value, st *pstate) ssa.Value {
	for i := 0; i < 4; i++ {
		phi, ok := v.(*ssa.Phi)
		if !ok || st.pred == nil {
			return v
		}
		found := false
		for j, p := range phi.Block().Preds {
			if p == st.pred {
				v = phi.Edges[j]
				found = true
			}
		}
		if !found {
			return v
		}
	}
	return v
}

// summarise computes the least fixed point of the function summaries.
func (pr *progress) summarise() {
	var fns []*ssa.Function
	for fn := range pr.scope {
		if fn.Blocks != nil {
			fns = append(fns, fn)
		}
	}
	sort.Slice(fns, func(i, j int) bool { return fns[i].String() < fns[j].String() })
	for round := 0; round < 12; round++ {
		changed := false
		for _, fn := range fns {
			c := pr.classOf(fn)
			if c != pr.summary[fn] {
				pr.summary[fn] = c
				changed = true
			}
		}
		if !changed {
			break
		}
	}
}

// classOf runs the interpreter over fn and folds the success returns.
func (pr *progress) classOf(fn *ssa.Function) int {
	if fn == pr.advance {
		return pAdvOrEOF // axiom, tied to rule C-offset: offset += currentLen, and currentLen >= 1 unless at EOF
	}
	init := &pstate{facts: map[string]bool{}, nilErrs: map[ssa.Value]bool{}, nonNil: map[ssa.Value]bool{}}
	return pr.classOfInit(fn, init)
}

// classOfInit: the class of fn when entered in state init (facts about the
// scanner position and about predicates passed as parameters).
func (pr *progress) classOfInit(fn *ssa.Function, init *pstate) int {
	// string / []string parameters are assumed non-empty (checked at the call sites by rule E-nonempty)
	for _, prm := range fn.Params {
		if b, ok := prm.Type().Underlying().(*types.Basic); ok && b.Kind() == types.String {
			if pr.assume[fn] {
				init.facts["nonempty:"+prm.Name()] = true
			}
		}
	}
	worst := pAdv
	any := false
	pr.interpret(fn, fn.Blocks[0], []*pstate{init}, nil, func(ret *ssa.Return, s *pstate) {
		// success return?
		for _, rv := range ret.Results {
			if !core.IsErrorType(rv.Type()) {
				continue
			}
			v := pr.resolvePhi(rv, s)
			if core.IsNilConst(v) || s.nilErrs[v] {
				break
			}
			if s.nonNil[v] {
				return
			}
			if _, isMI := v.(*ssa.MakeInterface); isMI {
				return // a freshly built error value
			}
			if call, ok := v.(*ssa.Call); ok && call.Call.StaticCallee() != nil && call.Call.StaticCallee().Name() == "Annotate" {
				return
			}
			if call, ok := v.(*ssa.Call); ok && alwaysNonNilError(call.Call.StaticCallee(), 0) {
				return // a helper that builds an error value
			}
		}
		any = true
		// `return err` / `_, err := callee(); return err`: this return is a success
		// exactly when the callee succeeded, so the callee's contribution applies
		states := []*pstate{s}
		for _, rv := range ret.Results {
			if !core.IsErrorType(rv.Type()) {
				continue
			}
			v := pr.resolvePhi(rv, s)
			var call *ssa.Call
			switch x := v.(type) {
			case *ssa.Extract:
				call, _ = x.Tuple.(*ssa.Call)
			case *ssa.Call:
				call = x
			}
			if call == nil || s.nilErrs[v] {
				continue
			}
			callee := call.Call.StaticCallee()
			if callee == nil || !(pr.scope[callee] || pr.scope[core.OriginOf(callee)]) {
				continue
			}
			class := pr.summary[core.OriginOf(callee)]
			if callee == pr.advance {
				class = pAdvOrEOF
			}
			if class != pAdv {
				if cc := pr.ctxClass(core.OriginOf(callee), call, s); cc > class {
					class = cc
				}
			}
			states = pr.apply(s, class, call)
		}
		for _, st := range states {
			c := pNone
			switch {
			case st.adv:
				c = pAdv
			case st.atEOF:
				c = pAdvOrEOF
			}
			if c < worst {
				worst = c
			}
		}
	}, nil)
	if !any {
		return pAdv // no success return: vacuous
	}
	return worst
}

// alwaysNonNilError: every return of fn yields a freshly built (non-nil) error
// value, directly or through another such helper.
func alwaysNonNilError(fn *ssa.Function, depth int) bool {
	if fn == nil || fn.Blocks == nil || depth > 2 || fn.Signature.Results().Len() != 1 || !core.IsErrorType(fn.Signature.Results().At(0).Type()) {
		return false
	}
	ok, any := true, false
	core.EachInstr(fn, func(ins ssa.Instruction) {
		ret, isRet := ins.(*ssa.Return)
		if !isRet {
			return
		}
		any = true
		switch v := ret.Results[0].(type) {
		case *ssa.MakeInterface:
		case *ssa.Call:
			if !alwaysNonNilError(v.Call.StaticCallee(), depth+1) {
				ok = false
			}
		default:
			ok = false
		}
	})
	return ok && any
}

// ctxClass: the class of callee when it is entered in the caller's state st —
// the facts the caller has established about the position (not at EOF) and
// about a predicate it passes on (pred(current) holds) are carried into the
// callee. Used when the context-free summary is too weak, e.g. a function that
// tests pred(current) itself and then delegates to ReadWhile(pred).
func (pr *progress) ctxClass(callee *ssa.Function, call *ssa.Call, st *pstate) int {
	if callee == nil || callee.Blocks == nil || pr.ctxDepth > 2 {
		return pNone
	}
	init := &pstate{notEOF: st.notEOF, atEOF: st.atEOF, facts: map[string]bool{}, nilErrs: map[ssa.Value]bool{}, nonNil: map[ssa.Value]bool{}}
	for i, a := range call.Call.Args {
		if i >= len(callee.Params) {
			break
		}
		key := ""
		switch f := a.(type) {
		case *ssa.Parameter:
			key = "pred:" + f.Name()
		case *ssa.FreeVar:
			key = "pred:" + f.Name()
		case *ssa.Function:
			key = "fn:" + f.String()
		case *ssa.MakeClosure:
			key = "closure:" + f.Fn.String()
		}
		if v, has := st.facts[key]; has && key != "" {
			init.facts["pred:"+callee.Params[i].Name()] = v
		}
	}
	if !init.notEOF && !init.atEOF && len(init.facts) == 0 {
		return pNone
	}
	k := callee.String() + "|" + init.key()
	if pr.ctxMemo == nil {
		pr.ctxMemo = map[string]int{}
	}
	if c, ok := pr.ctxMemo[k]; ok {
		return c
	}
	pr.ctxMemo[k] = pNone // recursion guard
	pr.ctxDepth++
	c := pr.classOfInit(callee, init)
	pr.ctxDepth--
	pr.ctxMemo[k] = c
	return c
}

// loopsOf finds natural loops: header -> set of blocks.
func loopsOf(fn *ssa.Function) map[*ssa.BasicBlock]map[*ssa.BasicBlock]bool {
	res := map[*ssa.BasicBlock]map[*ssa.BasicBlock]bool{}
	for _, b := range fn.Blocks {
		for _, s := range b.Succs {
			if s.Dominates(b) {
				// back edge b -> s
				body := res[s]
				if body == nil {
					body = map[*ssa.BasicBlock]bool{s: true}
					res[s] = body
				}
				var stack []*ssa.BasicBlock
				if !body[b] {
					body[b] = true
					stack = append(stack, b)
				}
				for len(stack) > 0 {
					x := stack[len(stack)-1]
					stack = stack[:len(stack)-1]
					for _, p := range x.Preds {
						if !body[p] {
							body[p] = true
							stack = append(stack, p)
						}
					}
				}
			}
		}
	}
	return res
}

// boundedLoop: a range over a string/slice/map, or a counted loop whose
// induction variable moves by a constant step towards a loop-invariant bound.
func boundedLoop(header *ssa.BasicBlock, body map[*ssa.BasicBlock]bool) (bool, string) {
	for _, ins := range header.Instrs {
		switch x := ins.(type) {
		case *ssa.Next:
			return true, "range loop"
		case *ssa.Phi:
			if strings.HasPrefix(x.Comment, "rangeindex") {
				return true, "range loop over a slice"
			}
		}
	}
	// counted: header ends in If on a comparison of an induction phi
	iff, ok := header.Instrs[len(header.Instrs)-1].(*ssa.If)
	if !ok {
		return false, ""
	}
	var find func(cond ssa.Value) bool
	find = func(cond ssa.Value) bool {
		bo, ok := cond.(*ssa.BinOp)
		if !ok {
			return false
		}
		switch bo.Op {
		case token.LSS, token.GTR, token.LEQ, token.GEQ:
		default:
			return false
		}
		for _, side := range []ssa.Value{bo.X, bo.Y} {
			phi, ok := side.(*ssa.Phi)
			if !ok || phi.Block() != header {
				continue
			}
			// every in-loop edge is phi +/- positive constant, same direction
			dir := 0
			okPhi := true
			for i, e := range phi.Edges {
				if !body[header.Preds[i]] {
					continue
				}
				step, isStep := e.(*ssa.BinOp)
				if !isStep || step.X != ssa.Value(phi) {
					okPhi = false
					break
				}
				k, isConst := core.ConstInt(step.Y)
				if !isConst || k <= 0 {
					okPhi = false
					break
				}
				d := 1
				if step.Op == token.SUB {
					d = -1
				} else if step.Op != token.ADD {
					okPhi = false
					break
				}
				if dir != 0 && dir != d {
					okPhi = false
				}
				dir = d
			}
			if !okPhi || dir == 0 {
				continue
			}
			// the other side must be loop-invariant
			other := bo.Y
			if side == bo.Y {
				other = bo.X
			}
			if ins, ok := other.(ssa.Instruction); ok && body[ins.Block()] {
				if call, ok := other.(*ssa.Call); ok {
					if b, ok := call.Call.Value.(*ssa.Builtin); ok && b.Name() == "len" {
						return true // len of something not reassigned in the loop (strings are immutable)
					}
				}
				continue
			}
			return true
		}
		return false
	}
	if find(iff.Cond) {
		return true, "counted loop"
	}
	return false, ""
}

// RuleELoops — every loop in scanner, parser and directives is bounded or
// consumes input on every cyclic path (or leaves at EOF).
// progressOf returns the (memoised) progress summaries of scanner, parser and
// directives.
func progressOf(c *core.Ctx) *progress {
	return core.Memo(c, "progress", func() *progress {
		pr := newProgress(c)
		if pr.advance == nil || pr.current == nil || pr.backtr == nil || pr.curField == nil {
			return pr
		}
		for _, n := range []string{"Scanner.ReadString"} {
			if f := pr.p.Func(pkgScanner, n); f != nil {
				pr.assume[f] = true
			}
		}
		pr.summarise()
		return pr
	})
}

func RuleELoops(c *core.Ctx) {
	const rule = "E-loops"
	pr := core.Memo(c, "progress", func() *progress {
		pr := newProgress(c)
		if pr.advance == nil || pr.current == nil || pr.backtr == nil || pr.curField == nil {
			return pr
		}
		// ReadString / ReadAlternative: analysed assuming non-empty literals (E-nonempty checks the call sites)
		for _, n := range []string{"Scanner.ReadString"} {
			if f := pr.p.Func(pkgScanner, n); f != nil {
				pr.assume[f] = true
			}
		}
		pr.summarise()
		return pr
	})
	p := c.P
	if pr.advance == nil || pr.current == nil || pr.backtr == nil || pr.curField == nil {
		c.Anchor(rule, "scanner.Scanner.Advance/Current/Backtrack/current")
		return
	}
	var fns []*ssa.Function
	for fn := range pr.scope {
		if fn.Blocks != nil {
			fns = append(fns, fn)
		}
	}
	sort.Slice(fns, func(i, j int) bool { return fns[i].String() < fns[j].String() })
	nLoops := 0
	for _, fn := range fns {
		loops := loopsOf(fn)
		var headers []*ssa.BasicBlock
		for h := range loops {
			headers = append(headers, h)
		}
		sort.Slice(headers, func(i, j int) bool { return headers[i].Index < headers[j].Index })
		for li, h := range headers {
			body := loops[h]
			nLoops++
			key := fmt.Sprintf("%s:loop %d", core.FuncName(fn), li+1)
			pos := core.NearPos(h.Instrs[len(h.Instrs)-1])
			if ok, why := boundedLoop(h, body); ok {
				c.Ob(rule, key, pos, core.FuncName(fn), core.Discharged, "bounded: "+why)
				continue
			}
			// scanner-driven: explore one iteration from the header, twice: position unknown, and at EOF
			bad := ""
			for _, startEOF := range []bool{false, true} {
				init := &pstate{facts: map[string]bool{}, nilErrs: map[ssa.Value]bool{}, nonNil: map[ssa.Value]bool{}, atEOF: startEOF}
				first := true
				pr.interpret(fn, h, []*pstate{init}, body, nil, func(from, to *ssa.BasicBlock, s *pstate) bool {
					if to == h {
						if !s.adv && bad == "" {
							where := "position unknown"
							if s.atEOF {
								where = "scanner at end of input"
							}
							bad = fmt.Sprintf("a cyclic path through the block at %s returns to the loop header without having consumed input (%s)", p.Pos(core.NearPos(from.Instrs[len(from.Instrs)-1])), where)
						}
						return false // one iteration only
					}
					_ = first
					return true
				})
			}
			if bad == "" {
				c.Ob(rule, key, pos, core.FuncName(fn), core.Discharged, "scanner-driven: every cyclic path consumes at least one rune, and at end of input the loop is left")
			} else {
				c.Ob(rule, key, pos, core.FuncName(fn), core.Violated, bad+": on some input the parser does not terminate")
			}
		}
	}
	// summaries, for the evidence
	var names []string
	for fn, cl := range pr.summary {
		if core.PkgPathOf(fn) == pkgDirectives {
			continue
		}
		names = append(names, fmt.Sprintf("%s=%s", strings.TrimPrefix(core.FuncName(fn), "lib/syntax/"), pName(cl)))
	}
	sort.Strings(names)
	c.Note("E-loops: %d loops; progress summaries: %s", nLoops, strings.Join(names, " "))
	for _, s := range names {
		c.Ob(rule, "summary "+s, token.NoPos, "", core.Info, "progress summary on success paths")
	}
	// no recursion in the parser package
	for _, fn := range fns {
		if core.PkgPathOf(fn) != pkgParser && core.PkgPathOf(fn) != pkgScanner {
			continue
		}
		if fn.Parent() != nil {
			continue
		}
		reach := map[*ssa.Function]bool{}
		var walk func(f *ssa.Function)
		walk = func(f *ssa.Function) {
			core.EachInstr(f, func(ins ssa.Instruction) {
				if call, ok := ins.(ssa.CallInstruction); ok {
					if callee := call.Common().StaticCallee(); callee != nil && pr.scope[core.OriginOf(callee)] && !reach[callee] {
						reach[callee] = true
						walk(callee)
					}
				}
			})
		}
		walk(fn)
		if reach[fn] {
			c.Ob(rule, core.FuncName(fn)+":recursion", fn.Pos(), core.FuncName(fn), core.Violated, "the parser function can reach itself: recursion depth is not bounded by the progress argument")
		}
	}
	// E-nonempty: the literals handed to ReadString / ReadAlternative are non-empty
	readString := p.Func(pkgScanner, "Scanner.ReadString")
	readAlt := p.Func(pkgScanner, "Scanner.ReadAlternative")
	for _, fn := range fns {
		core.EachInstr(fn, func(ins ssa.Instruction) {
			call, ok := ins.(*ssa.Call)
			if !ok {
				return
			}
			callee := call.Call.StaticCallee()
			if callee == nil || (callee != readString && callee != readAlt) {
				return
			}
			key := fmt.Sprintf("%s:%s literals non-empty", core.FuncName(fn), callee.Name())
			arg := call.Call.Args[1]
			okAll, seenAny := true, false
			if callee == readString {
				if s, ok := core.ConstString(arg); ok {
					seenAny = true
					okAll = s != ""
				} else if fn == readAlt {
					seenAny = true // element of ReadAlternative's own list, checked at its call sites
				} else {
					okAll = false
				}
			} else {
				for v := range originSet(p, arg, 0) {
					if s, ok := core.ConstString(v); ok {
						seenAny = true
						if s == "" {
							okAll = false
						}
					}
					// a package-level list, initialised once with constants
					if g, ok := v.(*ssa.Global); ok {
						strs, ok := globalStringList(p, g)
						if !ok {
							okAll = false
						}
						for _, s := range strs {
							seenAny = true
							if s == "" {
								okAll = false
							}
						}
					}
				}
			}
			if okAll && seenAny {
				c.Ob("E-nonempty", key, call.Pos(), core.FuncName(fn), core.Discharged, "every literal is a non-empty constant")
			} else {
				c.Ob("E-nonempty", key, call.Pos(), core.FuncName(fn), core.Violated, "a literal handed to "+callee.Name()+" may be empty: the call can succeed without consuming input, which the loop-progress argument relies on")
			}
		})
	}
	c.Floor(rule, 15)
	c.Floor("E-nonempty", 5)
}


// globalStringList: the package-level variable g is assigned exactly once, in
// its package's initialiser, a slice literal of string constants; returns
// them. ok=false if g is written anywhere else or the literal has other
// elements.
func globalStringList(p *core.Prog, g *ssa.Global) ([]string, bool) {
	var res []string
	stores := 0
	good := true
	for _, fn := range p.SrcFuncs() {
		if fn.Pkg != g.Pkg {
			continue
		}
		core.EachInstr(fn, func(ins ssa.Instruction) {
			st, ok := ins.(*ssa.Store)
			if !ok || st.Addr != ssa.Value(g) {
				return
			}
			stores++
			if fn.Name() != "init" {
				good = false
				return
			}
			sl, ok := st.Val.(*ssa.Slice)
			if !ok {
				good = false
				return
			}
			arr, ok := sl.X.(*ssa.Alloc)
			if !ok || arr.Referrers() == nil {
				good = false
				return
			}
			for _, r := range *arr.Referrers() {
				ia, ok := r.(*ssa.IndexAddr)
				if !ok {
					continue
				}
				for _, es := range core.StoresTo(ia) {
					s, ok := core.ConstString(es.Val)
					if !ok {
						good = false
					}
					res = append(res, s)
				}
			}
		})
	}
	// element stores through the global elsewhere (g[i] = x)
	if g.Referrers() != nil {
		for _, r := range *g.Referrers() {
			if ld, ok := r.(*ssa.UnOp); ok && ld.Referrers() != nil {
				for _, rr := range *ld.Referrers() {
					if ia, ok := rr.(*ssa.IndexAddr); ok && ia.Referrers() != nil {
						for _, r3 := range *ia.Referrers() {
							if st, ok := r3.(*ssa.Store); ok && st.Addr == ssa.Value(ia) {
								good = false
							}
						}
					}
				}
			}
		}
	}
	return res, good && stores == 1 && len(res) > 0
}
