package rules

// Family A — order-taint (determinism). DESIGN.md section 2.A.
//
// Sources of unspecified order: `range` over a map (U1); slices filled in such
// a loop and not totally sorted (U2); struct fields that receive such slices
// or are appended to inside such a loop (U3, e.g. Day.Transactions during
// processing). For every unordered iteration the body is classified: it may
// only have effects whose result does not depend on the iteration order.

import (
	"fmt"
	"go/token"
	"go/types"
	"os"
	"sort"
	"strings"

	"golang.org/x/tools/go/ssa"

	"knutlint/core"
)

type vclass int

const (
	clsOuter vclass = iota // state that outlives one iteration
	clsElem                // owned by / reachable from the iteration element
	clsLocal               // allocated inside the region
	clsValue               // not a reference at all
)

func (c vclass) String() string { return [...]string{"outer", "elem", "local", "value"}[c] }

// effect is one order-sensitive (or noteworthy) effect found in a region.
type effect struct {
	kind   string // "overwrite", "float-sum", "io", "first-wins", "read-own-write", "unknown-call", "early-exit", ...
	pos    token.Pos
	fn     *ssa.Function
	detail string
	// symbol for the exception table: what is affected, without positions
	symbol string
}

// taintTarget is an outer slice location that receives appends in an
// unordered iteration.
type taintTarget struct {
	field *types.Var // struct field, or nil
	cell  ssa.Value  // Alloc / FreeVar / Global, or nil
	phi   *ssa.Phi   // loop-carried register, or nil
	val   ssa.Value  // a slice value filled cell by cell, or nil
	pos   token.Pos
	fn    *ssa.Function
}

type regionResult struct {
	effects []effect
	taints  []taintTarget
	notes   []string
}

type orderAnalysis struct {
	c *core.Ctx
	p *core.Prog

	freshDepth  int
	cmpVisiting map[ssa.Value]bool
	callMemo    map[string]*regionResult
	inProgress  map[string]bool
	depth       int

	unorderedFields map[*types.Var]string
	retUnordered    map[*ssa.Function]int // 0 unknown 1 in progress 2 yes 3 no
}

// ---------------------------------------------------------------------------
// tables (reviewed; one reason per row)

// idempotentCallees: calls whose effect on shared state is the same whatever
// the order or multiplicity.
var idempotentCallees = map[string]string{
	"(*" + pkgAccount + ".Registry).Get":                 "interning: creates the account on first use, returns the same object afterwards",
	"(*" + pkgAccount + ".Registry).GetPath":             "interning",
	"(*" + pkgAccount + ".Registry).MustGet":             "interning",
	"(*" + pkgAccount + ".Registry).MustGetPath":         "interning",
	"(*" + pkgAccount + ".Registry).Create":              "interning",
	"(*" + pkgAccount + ".Registry).SwapType":            "interning plus a write-once cache keyed by the argument",
	"(*" + pkgAccount + ".Registry).TBDAccount":          "interning",
	"(*" + pkgAccount + ".Registry).ValuationAccountFor": "interning",
	"(*" + pkgCommodity + ".Registry).Get":               "interning",
	"(*" + pkgCommodity + ".Registry).MustGet":           "interning",
	"(*" + pkgCommodity + ".Registry).Create":            "interning",
	"(" + pkgRegistry + ".Registry).Accounts":            "getter",
	"(" + pkgRegistry + ".Registry).Commodities":         "getter",
}

// externalPure: external functions without effects on their arguments.
func externalPure(fn *ssa.Function) bool {
	if fn.Pkg == nil {
		// instances of generic library functions that only read their arguments
		if o := fn.Origin(); o != nil && o.Pkg != nil && o.Pkg.Pkg.Path() == "slices" {
			switch o.Name() {
			case "BinarySearch", "BinarySearchFunc", "Contains", "ContainsFunc", "Index", "IndexFunc", "Equal", "Max", "Min":
				return true
			}
		}
		return false
	}
	switch fn.Pkg.Pkg.Path() {
	case "sync", "sync/atomic", "context":
		return true // synchronisation primitives carry no data
	case "strings", "unicode", "unicode/utf8", "math", "strconv", "time", "path", "path/filepath", "regexp", "cmp", "errors", "sort":
		if fn.Pkg.Pkg.Path() == "sort" {
			return fn.Name() == "Search"
		}
		if fn.Pkg.Pkg.Path() == "strings" && fn.Signature.Recv() != nil {
			return false // strings.Builder
		}
		return true
	case "fmt":
		switch fn.Name() {
		case "Sprintf", "Sprint", "Sprintln", "Errorf":
			return true
		}
	case pkgDecimal:
		return true // value-type arithmetic
	}
	return false
}

// externalSpawner: pool / errgroup methods that run or wait for the closures
// handed to them and have no other effect.
func externalSpawner(fn *ssa.Function) bool {
	pkg := core.PkgPathOf(fn)
	if strings.HasPrefix(pkg, "github.com/sourcegraph/conc") || pkg == "golang.org/x/sync/errgroup" {
		switch core.BaseName(fn) {
		case "Go", "Wait", "WithContext", "WithErrors", "WithFirstError", "WithCancelOnError", "New", "Map", "ForEach":
			return true
		}
	}
	return false
}

// externalIO: external functions that emit output or otherwise have an
// order-sensitive effect on their target.
func externalIO(fn *ssa.Function) bool {
	if fn.Pkg == nil {
		return false
	}
	switch fn.Pkg.Pkg.Path() {
	case "fmt":
		return strings.HasPrefix(fn.Name(), "Fprint") || strings.HasPrefix(fn.Name(), "Print")
	case "io", "bufio", "os", "encoding/csv", "log":
		return true
	case "strings":
		return fn.Signature.Recv() != nil // Builder.Write*
	case "github.com/fatih/color":
		return true
	}
	return false
}

// sortFuncs: in-place sorts; argument index of the slice and of the
// comparator.
type sortSpec struct{ slice, cmp int }

func sortSpecOf(fn *ssa.Function) (sortSpec, bool) {
	if o := fn.Origin(); o != nil {
		fn = o
	}
	if fn.Pkg == nil {
		return sortSpec{}, false
	}
	switch fn.Pkg.Pkg.Path() + "." + fn.Name() {
	case pkgCompare + ".Sort":
		return sortSpec{0, 1}, true
	case "sort.Slice", "sort.SliceStable":
		return sortSpec{0, 1}, true
	case "golang.org/x/exp/slices.SortFunc", "golang.org/x/exp/slices.SortStableFunc", "slices.SortFunc", "slices.SortStableFunc":
		return sortSpec{0, 1}, true
	case "sort.Strings", "sort.Ints", "golang.org/x/exp/slices.Sort", "slices.Sort":
		return sortSpec{0, -1}, true
	}
	return sortSpec{}, false
}

// ---------------------------------------------------------------------------
// regions

type region struct {
	fn     *ssa.Function
	blocks map[*ssa.BasicBlock]bool // nil = whole function
	header *ssa.BasicBlock          // loop header (nil for function regions)
	source ssa.Value                // the map / slice being ranged (nil for function regions)
	// class of the roots: iteration element values / parameters
	roots map[ssa.Value]vclass
	desc  string
}

func (r *region) has(b *ssa.BasicBlock) bool { return r.blocks == nil || r.blocks[b] }

// classify returns the class of value v inside region r.
func (oa *orderAnalysis) classify(r *region, v ssa.Value, seen map[ssa.Value]bool) vclass {
	if v == nil {
		return clsValue
	}
	if c, ok := r.roots[v]; ok {
		return c
	}
	if seen[v] {
		return clsLocal // cycles contribute nothing
	}
	seen[v] = true
	if !isRefType(v.Type()) {
		// still follow addresses
		switch v.(type) {
		case *ssa.FieldAddr, *ssa.IndexAddr, *ssa.Alloc, *ssa.Range, *ssa.Next:
		default:
			return clsValue
		}
	}
	inRegion := func(ins ssa.Instruction) bool { return ins.Parent() == r.fn && r.has(ins.Block()) }
	switch x := v.(type) {
	case *ssa.Const:
		return clsValue
	case *ssa.Alloc:
		if inRegion(x) {
			return clsLocal
		}
		if oa.isIterationVar(r, x) {
			return clsElem
		}
		return clsOuter
	case *ssa.MakeMap, *ssa.MakeSlice, *ssa.MakeChan, *ssa.MakeClosure:
		if inRegion(x.(ssa.Instruction)) {
			return clsLocal
		}
		return clsOuter
	case *ssa.Parameter, *ssa.FreeVar, *ssa.Global:
		return clsOuter
	case *ssa.FieldAddr:
		return oa.classify(r, x.X, seen)
	case *ssa.Field:
		return oa.classify(r, x.X, seen)
	case *ssa.IndexAddr:
		return oa.classify(r, x.X, seen)
	case *ssa.Index:
		return oa.classify(r, x.X, seen)
	case *ssa.Slice:
		return oa.classify(r, x.X, seen)
	case *ssa.ChangeType:
		return oa.classify(r, x.X, seen)
	case *ssa.Convert:
		return oa.classify(r, x.X, seen)
	case *ssa.MakeInterface:
		return oa.classify(r, x.X, seen)
	case *ssa.ChangeInterface:
		return oa.classify(r, x.X, seen)
	case *ssa.TypeAssert:
		return oa.classify(r, x.X, seen)
	case *ssa.Extract:
		return oa.classify(r, x.Tuple, seen)
	case *ssa.Lookup:
		// element of a map: owned by the map
		return oa.classify(r, x.X, seen)
	case *ssa.Next:
		return oa.classify(r, x.Iter, seen)
	case *ssa.Range:
		return oa.classify(r, x.X, seen)
	case *ssa.UnOp:
		if x.Op == token.MUL {
			// loaded reference: reachable from whatever holds it
			if a, ok := x.X.(*ssa.Alloc); ok {
				ac := oa.classify(r, a, seen)
				if ac != clsLocal {
					return ac
				}
				// local cell: class of what is stored there
				worst := clsLocal
				for _, s := range core.StoresTo(a) {
					if k := oa.classify(r, s.Val, seen); k < worst {
						worst = k
					}
				}
				return worst
			}
			return oa.classify(r, x.X, seen)
		}
		return clsValue
	case *ssa.Phi:
		worst := clsLocal
		for _, e := range x.Edges {
			if k := oa.classify(r, e, seen); k < worst {
				worst = k
			}
		}
		if worst == clsValue {
			return clsValue
		}
		return worst
	case *ssa.Call:
		if b, ok := x.Call.Value.(*ssa.Builtin); ok {
			if b.Name() == "append" {
				return oa.classify(r, x.Call.Args[0], seen)
			}
			return clsValue
		}
		if !inRegion(x) {
			return clsOuter
		}
		// constructor-like callee: all returns are fresh allocations
		if oa.returnsFreshObject(x) {
			return clsLocal
		}
		// a getter applied to an element returns element-owned state;
		// anything else is treated as shared.
		worst := clsLocal
		any := false
		args := x.Call.Args
		if x.Call.IsInvoke() {
			args = append([]ssa.Value{x.Call.Value}, args...)
		}
		for _, a := range args {
			if !isRefType(a.Type()) {
				continue
			}
			any = true
			if k := oa.classify(r, a, seen); k < worst {
				worst = k
			}
		}
		if !any {
			return clsOuter
		}
		return worst
	}
	return clsOuter
}

// isIterationVar: an Alloc outside the region that only ever receives the
// iteration element (the spilled `k, v := range` variable of a loop whose
// variable is captured or address-taken).
func (oa *orderAnalysis) isIterationVar(r *region, a *ssa.Alloc) bool {
	if r.header == nil {
		return false
	}
	sts := core.AllStoresToCell(a)
	if len(sts) == 0 {
		return false
	}
	for _, s := range sts {
		if s.Parent() != r.fn || !(r.has(s.Block()) || s.Block() == r.header) {
			return false
		}
		v := s.Val
		for {
			if ex, ok := v.(*ssa.Extract); ok {
				if _, isNext := ex.Tuple.(*ssa.Next); isNext {
					break
				}
			}
			if c, ok := r.roots[v]; ok && c == clsElem {
				break
			}
			return false
		}
	}
	return true
}

func isRefType(t types.Type) bool {
	switch u := t.Underlying().(type) {
	case *types.Pointer, *types.Map, *types.Slice, *types.Chan, *types.Interface, *types.Signature:
		return true
	case *types.Struct:
		for i := 0; i < u.NumFields(); i++ {
			if isRefType(u.Field(i).Type()) {
				return true
			}
		}
	case *types.Tuple:
		for i := 0; i < u.Len(); i++ {
			if isRefType(u.At(i).Type()) {
				return true
			}
		}
	case *types.Array:
		return isRefType(u.Elem())
	}
	return false
}

func (oa *orderAnalysis) returnsFreshObject(call *ssa.Call) bool {
	callees := oa.p.Callees(call)
	if len(callees) == 0 {
		return false
	}
	for _, callee := range callees {
		if callee.Blocks == nil {
			if callee.Pkg != nil {
				switch callee.Pkg.Pkg.Path() + "." + callee.Name() {
				case "strings.Split", "strings.Fields", "strings.SplitN", "fmt.Sprintf", "strings.NewReplacer", "bufio.NewWriter":
					continue
				}
			}
			return false
		}
		fresh := true
		core.EachInstr(callee, func(ins ssa.Instruction) {
			ret, ok := ins.(*ssa.Return)
			if !ok {
				return
			}
			for _, res := range ret.Results {
				if !isRefType(res.Type()) {
					continue
				}
				res = core.Strip(res)
				switch y := res.(type) {
				case *ssa.Alloc, *ssa.MakeMap, *ssa.MakeSlice:
				case *ssa.Const:
				case *ssa.Call:
					if b, ok := y.Call.Value.(*ssa.Builtin); ok && b.Name() == "append" {
						continue
					}
					if oa.freshDepth < 4 {
						oa.freshDepth++
						ok := oa.returnsFreshObject(y)
						oa.freshDepth--
						if ok {
							continue
						}
					}
					fresh = false
				case *ssa.ChangeType:
					if inner, ok := y.X.(*ssa.Call); ok && oa.freshDepth < 4 {
						oa.freshDepth++
						ok := oa.returnsFreshObject(inner)
						oa.freshDepth--
						if ok {
							continue
						}
					}
					fresh = false
				default:
					fresh = false
				}
			}
		})
		if !fresh {
			return false
		}
	}
	return true
}

// ---------------------------------------------------------------------------
// update forms

// updateForm classifies the new value nv of an accumulator whose old value is
// `old` (a header phi, or any load of the same cell / map element).
// Returns "same", "append", "exact", "float", "const", or "" (other).
func (oa *orderAnalysis) updateForm(nv ssa.Value, isOld func(ssa.Value) bool, seen map[ssa.Value]bool) string {
	if isOld(nv) {
		return "same"
	}
	if seen[nv] {
		return "same"
	}
	seen[nv] = true
	switch x := nv.(type) {
	case *ssa.Const:
		return "const"
	case *ssa.Phi:
		// merge inside the body: every incoming value must be an allowed form
		res := "same"
		for _, e := range x.Edges {
			f := oa.updateForm(e, isOld, seen)
			if f == "" {
				return ""
			}
			res = combineForms(res, f)
			if res == "" {
				return ""
			}
		}
		return res
	case *ssa.ChangeType:
		return oa.updateForm(x.X, isOld, seen)
	case *ssa.Call:
		if b, ok := x.Call.Value.(*ssa.Builtin); ok && b.Name() == "append" {
			f := oa.updateForm(x.Call.Args[0], isOld, seen)
			if f == "same" || f == "append" {
				return "append"
			}
			return ""
		}
		if callee := x.Call.StaticCallee(); callee != nil && core.PkgPathOf(callee) == pkgDecimal && callee.Signature.Recv() != nil {
			switch callee.Name() {
			case "Add", "Sub":
				f := oa.updateForm(x.Call.Args[0], isOld, seen)
				if f == "same" || f == "exact" {
					return "exact"
				}
			}
		}
		return ""
	case *ssa.BinOp:
		switch x.Op {
		case token.ADD, token.SUB, token.MUL, token.OR, token.AND, token.XOR:
			var f string
			if x.Op == token.SUB {
				f = oa.updateForm(x.X, isOld, seen)
			} else {
				f = oa.updateForm(x.X, isOld, seen)
				if f != "same" && f != "exact" && f != "float" {
					f = oa.updateForm(x.Y, isOld, seen)
				}
			}
			if f != "same" && f != "exact" && f != "float" {
				return ""
			}
			if isFloat(x.Type()) {
				return "float"
			}
			if b, ok := x.Type().Underlying().(*types.Basic); ok && b.Info()&types.IsString != 0 {
				return "" // string concatenation is order-sensitive
			}
			return "exact"
		}
	}
	return ""
}

func combineForms(a, b string) string {
	if a == "same" {
		return b
	}
	if b == "same" {
		return a
	}
	if a == b {
		return a
	}
	return ""
}

// ---------------------------------------------------------------------------
// region analysis

func (oa *orderAnalysis) analyseRegion(r *region) *regionResult {
	res := &regionResult{}
	p := oa.p
	fn := r.fn
	cls := func(v ssa.Value) vclass { return oa.classify(r, v, map[ssa.Value]bool{}) }
	add := func(kind string, pos token.Pos, symbol, detail string) {
		res.effects = append(res.effects, effect{kind: kind, pos: pos, fn: fn, detail: detail, symbol: symbol})
	}

	// outer containers updated by a recognised accumulate, and other reads of them
	accumulated := map[string]bool{} // description of container
	type readRec struct {
		desc string
		ins  ssa.Instruction
	}
	var otherReads []readRec
	accumLookups := map[ssa.Value]bool{}
	hasNonIdempotent := false

	// 1. loop-carried registers
	if r.header != nil {
		for _, ins := range r.header.Instrs {
			phi, ok := ins.(*ssa.Phi)
			if !ok {
				continue
			}
			for i, e := range phi.Edges {
				pred := r.header.Preds[i]
				if !r.has(pred) {
					continue // initial value
				}
				if isIterationMachinery(phi) {
					continue
				}
				form := oa.updateForm(e, func(v ssa.Value) bool { return v == phi }, map[ssa.Value]bool{})
				name := phi.Comment
				if name == "" {
					name = "loop variable"
				}
				switch form {
				case "same", "const":
				case "exact":
					hasNonIdempotent = true
				case "append":
					hasNonIdempotent = true
					res.taints = append(res.taints, taintTarget{phi: phi, pos: phi.Pos(), fn: fn})
				case "float":
					hasNonIdempotent = true
					add("float-sum", core.NearPos(phi), "variable "+name, "floating point sum accumulated in loop variable "+name+" in iteration order (float addition is not associative)")
				default:
					hasNonIdempotent = true
					add("first-wins", core.NearPos(phi), "variable "+name, "loop variable "+name+" is overwritten with an element-derived value: which element wins depends on the iteration order")
				}
			}
		}
	}

	// 2. instructions
	for _, b := range fn.Blocks {
		if !r.has(b) {
			continue
		}
		for _, ins := range b.Instrs {
			switch x := ins.(type) {
			case *ssa.MapUpdate:
				mc := cls(x.Map)
				if mc == clsLocal || mc == clsElem {
					continue
				}
				desc := describeValue(p, x.Map)
				// value forms
				isOld := func(v ssa.Value) bool {
					lk, ok := v.(*ssa.Lookup)
					if ok && !lk.CommaOk && p.SameExpr(lk.X, x.Map) && p.SameExpr(lk.Index, x.Key) {
						accumLookups[lk] = true
						return true
					}
					return false
				}
				form := oa.updateForm(x.Value, isOld, map[ssa.Value]bool{})
				if form == "" {
					if why := oa.insertIfAbsent(r, x, cls); why != "" {
						res.notes = append(res.notes, why)
						continue
					}
				}
				switch {
				case isEmptyStruct(x.Value.Type()) || form == "const":
					// set insert / constant flag: idempotent
				case form == "exact":
					hasNonIdempotent = true
					accumulated[desc] = true
				case form == "float":
					hasNonIdempotent = true
					accumulated[desc] = true
					if !oa.keyIsIterationKey(r, x.Key) && !oa.keyIsInjectiveProjection(r, x.Key) {
						add("float-sum", x.Pos(), "map "+desc, "floating point sum into "+desc+"[k] in iteration order, with several elements mapping to one key")
					}
				case form == "same":
				default:
					hasNonIdempotent = true
					if oa.keyIsIterationKey(r, x.Key) {
						continue // one write per cell
					}
					add("overwrite", x.Pos(), "map "+desc, "plain overwrite "+desc+"[k] = v with a key that is not the iteration key: the last element written wins")
				}
			case *ssa.Store:
				ac := cls(x.Addr)
				if ac == clsLocal || ac == clsElem {
					continue
				}
				// s[i] = v with a counter i that grows by one per iteration: the cells
				// are distinct, the slice is filled like a bag (append in another form)
				if ia, ok := x.Addr.(*ssa.IndexAddr); ok && r.header != nil {
					if ph, ok := ia.Index.(*ssa.Phi); ok && ph.Block() == r.header {
						counter := true
						for i, e := range ph.Edges {
							if !r.has(r.header.Preds[i]) {
								continue
							}
							bo, ok := e.(*ssa.BinOp)
							if !ok || bo.Op != token.ADD || bo.X != ssa.Value(ph) || !constInt(bo.Y, 1) {
								counter = false
							}
						}
						if _, isSlice := ia.X.Type().Underlying().(*types.Slice); counter && isSlice {
							hasNonIdempotent = true
							res.taints = append(res.taints, taintTarget{val: ia.X, pos: x.Pos(), fn: fn})
							continue
						}
					}
				}
				desc := describeValue(p, x.Addr)
				isOld := func(v ssa.Value) bool {
					ld, ok := v.(*ssa.UnOp)
					if ok && ld.Op == token.MUL && p.SameExpr(ld.X, x.Addr) {
						accumLookups[ld] = true
						return true
					}
					return false
				}
				form := oa.updateForm(x.Val, isOld, map[ssa.Value]bool{})
				if form == "" && oa.isMinMaxStore(x) {
					form = "minmax"
				}
				if form == "" && oa.isLazyInit(r, x, cls) {
					form = "lazy-init"
				}
				switch form {
				case "same", "const", "lazy-init":
				case "minmax":
					hasNonIdempotent = true
				case "exact":
					hasNonIdempotent = true
					accumulated[desc] = true
				case "append":
					hasNonIdempotent = true
					accumulated[desc] = true
					t := taintTarget{pos: x.Pos(), fn: fn}
					if fa, ok := x.Addr.(*ssa.FieldAddr); ok {
						t.field = core.FieldOf(fa)
					} else {
						t.cell = x.Addr
					}
					res.taints = append(res.taints, t)
				case "float":
					hasNonIdempotent = true
					accumulated[desc] = true
					add("float-sum", x.Pos(), "variable "+desc, "floating point sum accumulated in "+desc+" in iteration order (float addition is not associative)")
				default:
					hasNonIdempotent = true
					add("overwrite", x.Pos(), "variable "+desc, "shared variable "+desc+" is overwritten with an element-derived value: the result depends on which element comes last (or first)")
				}
			case *ssa.Send:
				add("io", x.Pos(), "channel send", "channel send in an unordered iteration")
			case *ssa.Go:
				add("io", x.Pos(), "go statement", "goroutine started per element of an unordered iteration")
			case *ssa.Return:
				if r.header == nil {
					continue // function region: returning is not an early exit
				}
				for _, rv := range x.Results {
					if core.IsErrorType(rv.Type()) {
						continue
					}
					if _, isConst := rv.(*ssa.Const); isConst {
						continue
					}
					if oa.dependsOnRegion(r, rv) {
						add("first-wins", x.Pos(), "return value", "early return of an element-derived value from an unordered iteration: the first matching element wins")
					}
				}
			case ssa.CallInstruction:
				oa.callEffect(r, x, res, cls, &hasNonIdempotent)
			}
		}
	}

	// 3. reads of containers that the region accumulates into
	for _, b := range fn.Blocks {
		if !r.has(b) {
			continue
		}
		for _, ins := range b.Instrs {
			switch x := ins.(type) {
			case *ssa.Lookup:
				if accumLookups[x] {
					continue
				}
				if d := describeValue(p, x.X); accumulated[d] && cls(x.X) == clsOuter {
					otherReads = append(otherReads, readRec{d, x})
				}
			case *ssa.UnOp:
				if x.Op != token.MUL || accumLookups[x] {
					continue
				}
				if d := describeValue(p, x.X); accumulated[d] && cls(x.X) == clsOuter {
					switch x.Type().Underlying().(type) {
					case *types.Slice, *types.Map, *types.Pointer:
						continue // container headers: the append / m[k] op= v idioms read the container they update
					}
					otherReads = append(otherReads, readRec{d, x})
				}
			}
		}
	}
	for _, rr := range otherReads {
		add("read-own-write", core.NearPos(rr.ins), "partial value of "+rr.desc,
			"the region reads "+rr.desc+", which it also accumulates into: the partial value seen depends on the iteration order")
	}

	// 4. early exits with non-idempotent effects
	if r.header != nil && hasNonIdempotent {
		for _, b := range fn.Blocks {
			if !r.has(b) {
				continue
			}
			for _, s := range b.Succs {
				if !r.has(s) && s != r.header {
					add("early-exit", core.NearPos(b.Instrs[len(b.Instrs)-1]), "break", "the loop is left early after accumulating effects: which elements were processed depends on the iteration order")
				}
			}
			if ret, ok := b.Instrs[len(b.Instrs)-1].(*ssa.Return); ok {
				onlyErr := false
				for _, rv := range ret.Results {
					if core.IsErrorType(rv.Type()) && !core.IsNilConst(rv) {
						onlyErr = true
					}
				}
				if onlyErr {
					res.notes = append(res.notes, "early error return at "+p.Pos(ret.Pos())+": which error is reported may vary, exit status does not")
				} else {
					add("early-exit", ret.Pos(), "return", "the loop returns early after accumulating effects: which elements were processed depends on the iteration order")
				}
			}
		}
	}
	return res
}

// isMinMaxStore: `if x.Before(v) { x = v }` / `if x < v { x = v }` — a running
// maximum or minimum, which is commutative and idempotent.
func (oa *orderAnalysis) isMinMaxStore(st *ssa.Store) bool {
	p := oa.p
	b := st.Block()
	if len(b.Preds) != 1 {
		return false
	}
	pred := b.Preds[0]
	iff, ok := pred.Instrs[len(pred.Instrs)-1].(*ssa.If)
	if !ok {
		return false
	}
	isOld := func(v ssa.Value) bool {
		ld, ok := v.(*ssa.UnOp)
		return ok && ld.Op == token.MUL && p.SameExpr(ld.X, st.Addr)
	}
	isNew := func(v ssa.Value) bool { return p.SameExpr(v, st.Val) }
	// the update must not hang on another test of the same accumulator object
	// (`if min.After(d) {…} else if max.Before(d) {…}`: whether the maximum is
	// raised then depends on what the minimum was when the element arrived)
	base := baseOf(st.Addr)
	for _, cb := range st.Parent().Blocks {
		ci, ok := cb.Instrs[len(cb.Instrs)-1].(*ssa.If)
		if !ok || cb == pred {
			continue
		}
		if ctl, _ := core.Controls(cb, b); !ctl {
			continue
		}
		for v := range originSet(p, ci.Cond, 0) {
			if ld, ok := v.(*ssa.UnOp); ok && ld.Op == token.MUL {
				if fa, ok := ld.X.(*ssa.FieldAddr); ok && baseOf(fa) == base && !p.SameExpr(fa, st.Addr) {
					return false
				}
			}
		}
	}
	switch c := iff.Cond.(type) {
	case *ssa.BinOp:
		switch c.Op {
		case token.LSS, token.GTR, token.LEQ, token.GEQ:
			return (isOld(c.X) && isNew(c.Y)) || (isOld(c.Y) && isNew(c.X))
		}
	case *ssa.Call:
		callee := c.Call.StaticCallee()
		if callee == nil || len(c.Call.Args) != 2 {
			return false
		}
		switch callee.Name() {
		case "Before", "After", "LessThan", "GreaterThan":
			return (isOld(c.Call.Args[0]) && isNew(c.Call.Args[1])) || (isOld(c.Call.Args[1]) && isNew(c.Call.Args[0]))
		}
	}
	return false
}

// isLazyInit: `if x == nil { x = make(...) }` — the stored value is a fresh
// empty container and the store is taken only when the location is nil.
func (oa *orderAnalysis) isLazyInit(r *region, st *ssa.Store, cls func(ssa.Value) vclass) bool {
	fresh := false
	switch st.Val.(type) {
	case *ssa.MakeMap, *ssa.MakeSlice:
		fresh = true
	}
	// keyed initialisation: the object whose field is set was obtained by a
	// get-or-create keyed by a projection of the stored value itself, so every
	// element that reaches this object carries the same value
	keyed := oa.keyedInit(st)
	if !fresh && !keyed {
		return false
	}
	// the guard: a nil test of the location itself, or of a sibling field of
	// the same object that is set in the same guarded block
	sameObject := func(addr ssa.Value) bool {
		if oa.p.SameExpr(addr, st.Addr) {
			return true
		}
		fa, ok1 := addr.(*ssa.FieldAddr)
		fb, ok2 := st.Addr.(*ssa.FieldAddr)
		if !ok1 || !ok2 || !oa.p.SameExpr(fa.X, fb.X) {
			return false
		}
		// the sibling is set together with this location
		for _, ins := range st.Block().Instrs {
			if s2, ok := ins.(*ssa.Store); ok && oa.p.SameExpr(s2.Addr, addr) {
				return true
			}
		}
		return false
	}
	ld := func(v ssa.Value) bool {
		u, ok := v.(*ssa.UnOp)
		return ok && u.Op == token.MUL && sameObject(u.X)
	}
	for _, b := range st.Parent().Blocks {
		iff, ok := b.Instrs[len(b.Instrs)-1].(*ssa.If)
		if !ok {
			continue
		}
		for _, f := range core.DecodeCond(iff) {
			if f.Kind != "nil" || !ld(f.X) {
				continue
			}
			succ := b.Succs[1]
			if f.ZeroOnTrue {
				succ = b.Succs[0]
			}
			if core.EdgeDominates(b, succ, st.Block()) {
				return true
			}
		}
	}
	return false
}

// keyedInit: st stores v into a field of an object n (through any number of
// field selections) where n is the result of a get-or-create call one of whose
// arguments is derived from v (its segments, its name): the key determines v.
func (oa *orderAnalysis) keyedInit(st *ssa.Store) bool {
	p := oa.p
	base := st.Addr
	for i := 0; i < 4; i++ {
		fa, ok := base.(*ssa.FieldAddr)
		if !ok {
			break
		}
		base = fa.X
	}
	var call *ssa.Call
	switch x := base.(type) {
	case *ssa.Call:
		call = x
	case *ssa.Phi:
		// the same get-or-create on two branches (one per tree)
		for _, e := range x.Edges {
			c, ok := e.(*ssa.Call)
			if !ok {
				return false
			}
			if call == nil {
				call = c
			} else if core.BaseName(call.Call.StaticCallee()) != core.BaseName(c.Call.StaticCallee()) {
				return false
			}
		}
	}
	if call == nil || call.Call.StaticCallee() == nil {
		return false
	}
	name := core.BaseName(call.Call.StaticCallee())
	if name != "GetOrCreate" && name != "GetDefault" {
		return false
	}
	want := core.Strip(st.Val)
	for _, a := range call.Call.Args[1:] {
		for v := range originSet(p, a, 0) {
			if v == want || p.SameExpr(v, want) {
				return true
			}
		}
	}
	return false
}

// insertIfAbsent: m[k] = v dominated by the "absent" edge of a comma-ok
// lookup of the same m[k]. Order-free if the present edge returns an error
// (duplicates are rejected), or if v is a freshly constructed object (a
// default keyed by k: whoever comes first constructs the same default).
func (oa *orderAnalysis) insertIfAbsent(r *region, mu *ssa.MapUpdate, cls func(ssa.Value) vclass) string {
	p := oa.p
	fn := mu.Parent()
	for _, b := range fn.Blocks {
		iff, ok := b.Instrs[len(b.Instrs)-1].(*ssa.If)
		if !ok {
			continue
		}
		cond := iff.Cond
		neg := false
		if u, ok := cond.(*ssa.UnOp); ok && u.Op == token.NOT {
			cond, neg = u.X, true
		}
		ex, ok := cond.(*ssa.Extract)
		if !ok || ex.Index != 1 {
			continue
		}
		lk, ok := ex.Tuple.(*ssa.Lookup)
		if !ok || !lk.CommaOk || !p.SameExpr(lk.X, mu.Map) || !p.SameExpr(lk.Index, mu.Key) {
			continue
		}
		absent, present := b.Succs[1], b.Succs[0]
		if neg {
			absent, present = present, absent
		}
		if !core.EdgeDominates(b, absent, mu.Block()) {
			continue
		}
		// present edge returns a non-nil error?
		if ret, ok := present.Instrs[len(present.Instrs)-1].(*ssa.Return); ok {
			for _, rv := range ret.Results {
				if core.IsErrorType(rv.Type()) && !core.IsNilConst(rv) {
					return "write-once insert into " + describeValue(p, mu.Map) + ": a second element for the same key is an error"
				}
			}
		}
		if isRefType(mu.Value.Type()) && oa.freshValue(mu.Value) {
			return "insert-if-absent of a freshly constructed default into " + describeValue(p, mu.Map)
		}
	}
	return ""
}

// freshValue: v is a newly constructed object (allocation, or the result of a
// call whose results are all allocations), possibly through a phi with the
// looked-up value.
func (oa *orderAnalysis) freshValue(v ssa.Value) bool {
	switch x := v.(type) {
	case *ssa.Alloc, *ssa.MakeMap, *ssa.MakeSlice:
		return true
	case *ssa.Call:
		if oa.returnsFreshObject(x) {
			return true
		}
		// constructor passed as a parameter (dict.GetDefault's c): accepted when
		// every function it may denote returns fresh objects
		callees := oa.p.Callees(x)
		if len(callees) == 0 {
			return false
		}
		return oa.returnsFreshObject(x)
	}
	return false
}

func isEmptyStruct(t types.Type) bool {
	st, ok := t.Underlying().(*types.Struct)
	return ok && st.NumFields() == 0
}

func isIterationMachinery(phi *ssa.Phi) bool {
	// index variable of a rotated range-over-slice loop
	return strings.HasPrefix(phi.Comment, "rangeindex")
}

// keyIsIterationKey: the map key written is the iteration element itself (the
// range key, or the element of the slice being ranged), possibly converted.
func (oa *orderAnalysis) keyIsIterationKey(r *region, k ssa.Value) bool {
	for {
		if c, ok := r.roots[k]; ok && c == clsElem {
			return true
		}
		switch x := k.(type) {
		case *ssa.ChangeType:
			k = x.X
			continue
		case *ssa.Convert:
			k = x.X
			continue
		case *ssa.UnOp:
			if x.Op == token.MUL {
				// load of the spilled iteration variable
				if a, ok := x.X.(*ssa.Alloc); ok {
					sts := core.StoresTo(a)
					if len(sts) == 1 {
						k = sts[0].Val
						continue
					}
				}
			}
		}
		return false
	}
}

// dependsOnRegion: v is computed inside the region (so it can depend on the
// element).
func (oa *orderAnalysis) dependsOnRegion(r *region, v ssa.Value) bool {
	if _, ok := r.roots[v]; ok {
		return true
	}
	if ins, ok := v.(ssa.Instruction); ok {
		return ins.Parent() == r.fn && r.has(ins.Block())
	}
	return false
}

// callEffect classifies one call inside a region.
func (oa *orderAnalysis) callEffect(r *region, call ssa.CallInstruction, res *regionResult, cls func(ssa.Value) vclass, nonIdem *bool) {
	p := oa.p
	cc := call.Common()
	if b, ok := cc.Value.(*ssa.Builtin); ok {
		switch b.Name() {
		case "delete":
			// commutative; but leaving the loop early after deleting makes the
			// set of deleted entries depend on the iteration order
			if len(cc.Args) > 0 && cls(cc.Args[0]) != clsLocal {
				*nonIdem = true
			}
		case "panic", "print", "println":
		case "append", "len", "cap", "copy", "min", "max", "clear", "close", "new", "make":
		}
		return
	}
	if _, isDefer := call.(*ssa.Defer); isDefer {
		return
	}
	args := cc.Args
	if cc.IsInvoke() {
		args = append([]ssa.Value{cc.Value}, args...)
	}
	callees := p.Callees(call)
	if len(callees) == 0 {
		anyOuter := false
		for _, a := range args {
			if isRefType(a.Type()) && cls(a) == clsOuter {
				anyOuter = true
			}
		}
		if anyOuter {
			res.effects = append(res.effects, effect{kind: "unknown-call", pos: call.Pos(), fn: r.fn, symbol: "unresolved call", detail: "call with no resolved callee receives shared state"})
		}
		return
	}
	for _, callee := range callees {
		name := callee.String()
		if o := callee.Origin(); o != nil {
			name = o.String()
		}
		if _, ok := idempotentCallees[name]; ok {
			continue
		}
		if spec, ok := sortSpecOf(callee); ok {
			if spec.slice < len(args) && cls(args[spec.slice]) == clsOuter {
				// sorting shared data from inside an unordered iteration is idempotent
			}
			continue
		}
		classes := make([]vclass, len(args))
		anyOuter := false
		for i, a := range args {
			if !isRefType(a.Type()) {
				classes[i] = clsValue
				continue
			}
			classes[i] = cls(a)
			if classes[i] == clsOuter {
				anyOuter = true
			}
		}
		if callee.Blocks == nil || !p.InModule(callee) {
			// closures created here and handed to an external function (pool.Go,
			// errgroup.Go, iter.Map ...) run as part of this iteration
			for _, a := range args {
				if mc, ok := core.Strip(a).(*ssa.MakeClosure); ok {
					cfn := mc.Fn.(*ssa.Function)
					cl := make([]vclass, len(cfn.Params))
					for i := range cl {
						cl[i] = clsOuter
					}
					sub := oa.analyseCallee(cfn, cl)
					for _, e := range sub.effects {
						e2 := e
						e2.detail = e.detail + " (in a closure handed to " + shortFn(callee) + ")"
						res.effects = append(res.effects, e2)
					}
					res.taints = append(res.taints, sub.taints...)
					res.notes = append(res.notes, sub.notes...)
					if len(sub.taints) > 0 {
						*nonIdem = true
					}
				}
			}
			if externalPure(callee) {
				continue
			}
			if externalIO(callee) {
				if anyOuter || len(args) == 0 || isPrintToStdout(callee) {
					res.effects = append(res.effects, effect{kind: "io", pos: call.Pos(), fn: r.fn, symbol: "call " + shortFn(callee),
						detail: "output or stream write " + shortFn(callee) + " inside an unordered iteration: the order of the emitted text follows the iteration order"})
				}
				continue
			}
			if !anyOuter {
				continue
			}
			if externalSpawner(callee) {
				continue // the closures it runs were analysed above
			}
			res.effects = append(res.effects, effect{kind: "unknown-call", pos: call.Pos(), fn: r.fn, symbol: "call " + shortFn(callee),
				detail: "external function " + shortFn(callee) + " receives shared state; its effect is not known to be order-free"})
			continue
		}
		sub := oa.analyseCallee(callee, classes)
		if os.Getenv("KNUTLINT_TRACE") != "" && strings.Contains(r.fn.String(), os.Getenv("KNUTLINT_TRACE")) {
			fmt.Printf("TRACE %s -> %s classes=%v effects=%d\n", r.fn, callee, classes, len(sub.effects))
		}
		for _, e := range sub.effects {
			e2 := e
			e2.detail = e.detail + " (via " + shortFn(callee) + ")"
			res.effects = append(res.effects, e2)
		}
		if len(sub.taints) > 0 || subHasNonIdem(sub) {
			*nonIdem = true
		}
		res.taints = append(res.taints, sub.taints...)
		res.notes = append(res.notes, sub.notes...)
	}
}

func subHasNonIdem(r *regionResult) bool { return len(r.taints) > 0 }

func isPrintToStdout(fn *ssa.Function) bool {
	return fn.Pkg != nil && fn.Pkg.Pkg.Path() == "fmt" && strings.HasPrefix(fn.Name(), "Print")
}

func shortFn(fn *ssa.Function) string { return core.FuncName(fn) }

// analyseCallee analyses a whole function body as a region executed once per
// element, with the given classes for its parameters (free variables of
// closures are shared state).
func (oa *orderAnalysis) analyseCallee(callee *ssa.Function, classes []vclass) *regionResult {
	key := callee.String()
	for _, c := range classes {
		key += fmt.Sprintf(",%d", c)
	}
	if r, ok := oa.callMemo[key]; ok {
		return r
	}
	if oa.inProgress[key] {
		return &regionResult{} // recursion: effects are collected at the outer activation
	}
	if oa.depth > 12 {
		return &regionResult{effects: []effect{{kind: "unknown-call", pos: callee.Pos(), fn: callee, symbol: "call " + shortFn(callee), detail: "call depth limit reached"}}}
	}
	oa.inProgress[key] = true
	oa.depth++
	reg := &region{fn: callee, roots: map[ssa.Value]vclass{}, desc: "callee " + shortFn(callee)}
	for i, prm := range callee.Params {
		if i < len(classes) {
			reg.roots[prm] = classes[i]
		}
	}
	res := oa.analyseRegion(reg)
	// nested unordered iterations inside the callee are handled where they
	// occur (every map range in the program is visited once).
	oa.depth--
	delete(oa.inProgress, key)
	oa.callMemo[key] = res
	return res
}

// ---------------------------------------------------------------------------
// unordered iterations

type iteration struct {
	fn     *ssa.Function
	header *ssa.BasicBlock
	body   *ssa.BasicBlock
	elems  []ssa.Value
	pos    token.Pos
	what   string // "range over map X" / "range over unordered slice X"
	why    string // for slices: how the slice became unordered
	source ssa.Value
}

// mapRanges finds every `range` over a map in fn.
func mapRanges(p *core.Prog, fn *ssa.Function) []*iteration {
	var res []*iteration
	core.EachInstr(fn, func(ins ssa.Instruction) {
		nx, ok := ins.(*ssa.Next)
		if !ok || nx.IsString {
			return
		}
		rg, ok := nx.Iter.(*ssa.Range)
		if !ok {
			return
		}
		if _, isMap := rg.X.Type().Underlying().(*types.Map); !isMap {
			return
		}
		header := nx.Block()
		iff, ok := header.Instrs[len(header.Instrs)-1].(*ssa.If)
		if !ok {
			return
		}
		it := &iteration{fn: fn, header: header, body: header.Succs[0], pos: core.NearPos(rg), source: rg.X,
			what: "range over map " + describeValue(p, rg.X)}
		_ = iff
		if nx.Referrers() != nil {
			for _, r := range *nx.Referrers() {
				if ex, ok := r.(*ssa.Extract); ok && ex.Index > 0 {
					it.elems = append(it.elems, ex)
				}
			}
		}
		res = append(res, it)
	})
	return res
}

func (it *iteration) region() *region {
	blocks := map[*ssa.BasicBlock]bool{}
	for _, b := range it.fn.Blocks {
		if it.body == b || it.body.Dominates(b) {
			blocks[b] = true
		}
	}
	roots := map[ssa.Value]vclass{}
	for _, e := range it.elems {
		roots[e] = clsElem
	}
	return &region{fn: it.fn, blocks: blocks, header: it.header, roots: roots, desc: it.what, source: it.source}
}

// sliceRanges finds loops over slice value s in fn: `for i := range s` is
// compiled to an index loop bounded by len(s).
func sliceRangesOver(p *core.Prog, fn *ssa.Function, isUnordered func(ssa.Value) (bool, string)) []*iteration {
	var res []*iteration
	seen := map[*ssa.BasicBlock]bool{}
	core.EachInstr(fn, func(ins ssa.Instruction) {
		call, ok := ins.(*ssa.Call)
		if !ok {
			return
		}
		b, ok := call.Call.Value.(*ssa.Builtin)
		if !ok || b.Name() != "len" {
			return
		}
		s := call.Call.Args[0]
		un, why := isUnordered(s)
		if !un || call.Referrers() == nil {
			return
		}
		for _, r := range *call.Referrers() {
			bo, ok := r.(*ssa.BinOp)
			if !ok || bo.Op != token.LSS || bo.Y != call {
				continue
			}
			if bo.Referrers() == nil {
				continue
			}
			for _, rr := range *bo.Referrers() {
				iff, ok := rr.(*ssa.If)
				if !ok || seen[iff.Block()] {
					continue
				}
				// the index must be a rangeindex phi (+1)
				idx := bo.X
				if add, ok := idx.(*ssa.BinOp); ok {
					idx = add.X
				}
				phi, ok := idx.(*ssa.Phi)
				if !ok || !strings.HasPrefix(phi.Comment, "rangeindex") {
					continue
				}
				seen[iff.Block()] = true
				it := &iteration{fn: fn, header: iff.Block(), body: iff.Block().Succs[0], pos: core.NearPos(iff), source: s,
					what: "range over unordered slice " + describeValue(p, s), why: why}
				// elements: loads of s[i] in the body
				core.EachInstr(fn, func(e ssa.Instruction) {
					switch y := e.(type) {
					case *ssa.IndexAddr:
						if y.X == s {
							it.elems = append(it.elems, y)
							if y.Referrers() != nil {
								for _, u := range *y.Referrers() {
									if ld, ok := u.(*ssa.UnOp); ok && ld.Op == token.MUL {
										it.elems = append(it.elems, ld)
									}
								}
							}
						}
					case *ssa.Index:
						if y.X == s {
							it.elems = append(it.elems, y)
						}
					}
				})
				res = append(res, it)
			}
		}
	})
	return res
}

// ---------------------------------------------------------------------------
// comparator totality

// identityFields: comparing this field identifies the element among the
// elements it can be sorted with.
var identityFields = map[string]string{
	"Account.name":   "accounts are interned by name: one object per name",
	"Commodity.name": "commodities are interned by name",
	"Day.Date":       "the builder keeps one Day per date",
	"Node.Segment":   "siblings in a multimap node are keyed by segment",
	"batch.path":     "one batch per parsed file; a file included twice yields two identical batches",
	"Balance.Account+Balance.Commodity+Balance.Quantity": "a balance line is its (account, commodity, quantity)",
}

// comparedFields collects the struct fields read (transitively) by a
// comparator function, following static calls and closures' free variables.
func (oa *orderAnalysis) fieldsRead(fn *ssa.Function, seen map[*ssa.Function]bool, out map[string]bool) {
	if fn == nil || seen[fn] || fn.Blocks == nil {
		return
	}
	seen[fn] = true
	core.EachInstr(fn, func(ins ssa.Instruction) {
		switch x := ins.(type) {
		case *ssa.FieldAddr:
			out[oa.p.FieldRef(core.FieldOf(x))] = true
		case *ssa.Field:
			out[oa.p.FieldRef(core.FieldOf(x))] = true
		case ssa.CallInstruction:
			for _, callee := range oa.p.Callees(x) {
				if oa.p.InModule(callee) || core.PkgPathOf(callee) == pkgDecimal {
					oa.fieldsRead(callee, seen, out)
				}
			}
			// comparators passed as arguments (Combine, Desc, Asc)
			for _, a := range x.Common().Args {
				if f := core.FuncValue(a); f != nil {
					oa.fieldsRead(f, seen, out)
				}
			}
		case *ssa.MakeClosure:
			oa.fieldsRead(x.Fn.(*ssa.Function), seen, out)
		}
	})
}

// cmpAlt is one comparator a sort may receive: funcs[0] is the function
// value itself, the rest are comparators it wraps (Combine, Desc, Asc, or
// closures calling other comparators are followed by fieldsRead anyway).
type cmpAlt struct {
	funcs  []*ssa.Function
	site   string // function in which the comparator value is named
	pos    token.Pos
	via    ssa.CallInstruction // the call that hands the comparator over (nil if named at the sort itself)
	siteFn *ssa.Function
}

// comparatorAlts resolves a comparator value to the function values it may
// denote, following parameters to the callers (depth-limited).
func (oa *orderAnalysis) comparatorAlts(v ssa.Value, depth int, site string) []cmpAlt {
	if oa.cmpVisiting == nil {
		oa.cmpVisiting = map[ssa.Value]bool{}
	}
	v = core.Strip(v)
	if f := core.FuncValue(v); f != nil {
		pos := token.NoPos
		if ins, ok := v.(ssa.Instruction); ok {
			pos = core.NearPos(ins)
		} else if f.Pos().IsValid() {
			pos = f.Pos()
		}
		return []cmpAlt{{funcs: []*ssa.Function{f}, site: site, pos: pos}}
	}
	if depth <= 0 {
		return nil
	}
	switch x := v.(type) {
	case *ssa.ChangeType:
		return oa.comparatorAlts(x.X, depth, site)
	case *ssa.FreeVar:
		// a comparator captured by a closure: the variable it is bound to
		if cell := cellOf(x); cell != nil {
			if al, ok := cell.(*ssa.Alloc); ok {
				sts := core.AllStoresToCell(al)
				if len(sts) == 1 {
					return oa.comparatorAlts(sts[0].Val, depth, site)
				}
				return nil
			}
			return oa.comparatorAlts(cell, depth, site)
		}
		return nil
	case *ssa.UnOp:
		if x.Op == token.MUL {
			if fv, ok := x.X.(*ssa.FreeVar); ok {
				return oa.comparatorAlts(fv, depth, site)
			}
			if al, ok := x.X.(*ssa.Alloc); ok {
				sts := core.AllStoresToCell(al)
				if len(sts) == 1 {
					return oa.comparatorAlts(sts[0].Val, depth, site)
				}
			}
		}
		return nil
	case *ssa.Parameter:
		var res []cmpAlt
		fn := x.Parent()
		oa.cmpVisiting[x] = true
		defer delete(oa.cmpVisiting, x)
		idx := -1
		for i, prm := range fn.Params {
			if prm == x {
				idx = i
			}
		}
		if n := oa.p.CG.Nodes[fn]; n != nil && idx >= 0 {
			for _, e := range n.In {
				if !oa.p.InModule(e.Caller.Func) {
					continue
				}
				args := e.Site.Common().Args
				if e.Site.Common().IsInvoke() {
					args = append([]ssa.Value{e.Site.Common().Value}, args...)
				}
				if idx < len(args) {
					if prm, ok := core.Strip(args[idx]).(*ssa.Parameter); ok && oa.cmpVisiting[prm] {
						continue // the comparator is handed down a recursion unchanged
					}
					sub := oa.comparatorAlts(args[idx], depth-1, originName(e.Caller.Func))
					if len(sub) == 0 {
						return nil // one caller unresolved: fail closed
					}
					for i := range sub {
						if sub[i].via == nil {
							sub[i].via = e.Site
						}
						if sub[i].siteFn == nil {
							sub[i].siteFn = e.Caller.Func
						}
					}
					res = append(res, sub...)
				}
			}
		}
		return res
	case *ssa.Call:
		// Combine(...), Desc(...), Asc(...): the returned closure together with
		// the comparators handed to it
		var funcs []*ssa.Function
		for _, callee := range oa.p.Callees(x) {
			funcs = append(funcs, callee)
		}
		for _, a := range x.Call.Args {
			for _, alt := range oa.comparatorAlts(a, depth-1, site) {
				funcs = append(funcs, alt.funcs...)
			}
			// variadic list
			w := &core.Walker{P: oa.p, Visit: func(y ssa.Value) bool {
				if f := core.FuncValue(y); f != nil {
					funcs = append(funcs, f)
					return false
				}
				return true
			}}
			w.Origin(a)
		}
		if len(funcs) == 0 {
			return nil
		}
		return []cmpAlt{{funcs: funcs, site: site, pos: x.Pos()}}
	case *ssa.Phi:
		var res []cmpAlt
		for _, e := range x.Edges {
			sub := oa.comparatorAlts(e, depth-1, site)
			if len(sub) == 0 {
				return nil
			}
			res = append(res, sub...)
		}
		return res
	}
	return nil
}

// ---------------------------------------------------------------------------

func newOrderAnalysis(c *core.Ctx) *orderAnalysis {
	return core.Memo(c, "orderAnalysis", func() *orderAnalysis {
		return &orderAnalysis{c: c, p: c.P, callMemo: map[string]*regionResult{}, inProgress: map[string]bool{},
			unorderedFields: map[*types.Var]string{}, retUnordered: map[*ssa.Function]int{}}
	})
}

func sortedKeys[V any](m map[string]V) []string {
	var ks []string
	for k := range m {
		ks = append(ks, k)
	}
	sort.Strings(ks)
	return ks
}

// containerRoot resolves a map/slice value to what identifies the container:
// the struct field it is loaded from, or the value that created it (through
// captured variables and single-assignment cells).
func containerRoot(v ssa.Value) (field *types.Var, root ssa.Value) {
	for i := 0; i < 10; i++ {
		switch x := core.Strip(v).(type) {
		case *ssa.UnOp:
			if x.Op != token.MUL {
				return nil, x
			}
			switch a := x.X.(type) {
			case *ssa.FieldAddr:
				return core.FieldOf(a), nil
			case *ssa.Alloc:
				sts := core.AllStoresToCell(a)
				if len(sts) == 1 {
					v = sts[0].Val
					continue
				}
				return nil, a
			case *ssa.FreeVar:
				v = a
				continue
			}
			return nil, x
		case *ssa.FreeVar:
			fn := x.Parent()
			var bound ssa.Value
			for idx, f := range fn.FreeVars {
				if f != x || fn.Parent() == nil {
					continue
				}
				core.EachInstr(fn.Parent(), func(ins ssa.Instruction) {
					if mc, ok := ins.(*ssa.MakeClosure); ok && mc.Fn == fn && idx < len(mc.Bindings) {
						bound = mc.Bindings[idx]
					}
				})
			}
			if bound == nil {
				return nil, x
			}
			if a, ok := bound.(*ssa.Alloc); ok {
				sts := core.AllStoresToCell(a)
				if len(sts) == 1 {
					v = sts[0].Val
					continue
				}
				return nil, a
			}
			v = bound
			continue
		default:
			return nil, x
		}
	}
	return nil, v
}

// keyConstructorsOf: the amounts key constructors used for every insertion
// into the Amounts map identified by (field, root); ok=false if some
// insertion uses a key that is not a direct constructor call.
func (oa *orderAnalysis) keyConstructorsOf(field *types.Var, root ssa.Value) (ctors []*ssa.Function, sites int, ok bool) {
	p := oa.p
	addFn := p.Func(pkgAmounts, "Amounts.Add")
	ok = true
	same := func(v ssa.Value) bool {
		f, r := containerRoot(v)
		if field != nil {
			return f == field
		}
		return f == nil && r == root
	}
	check := func(k ssa.Value) {
		sites++
		call, isCall := core.Strip(k).(*ssa.Call)
		if !isCall {
			ok = false
			return
		}
		ctor := call.Call.StaticCallee()
		if ctor == nil || core.PkgPathOf(ctor) != pkgAmounts {
			ok = false
			return
		}
		ctors = append(ctors, ctor)
	}
	for _, fn := range p.SrcFuncs() {
		core.EachInstr(fn, func(ins ssa.Instruction) {
			switch x := ins.(type) {
			case *ssa.MapUpdate:
				if same(x.Map) {
					check(x.Key)
				}
			case *ssa.Call:
				if x.Call.StaticCallee() == addFn && same(x.Call.Args[0]) {
					check(x.Call.Args[1])
				}
			}
		})
	}
	return
}

// keyIsInjectiveProjection: the written key is one field of the iteration key
// of an Amounts map, and every key ever inserted into that map is built by a
// constructor that sets only that field — so distinct iteration keys project
// to distinct written keys (one addend per cell).
func (oa *orderAnalysis) keyIsInjectiveProjection(r *region, k ssa.Value) bool {
	if r.source == nil {
		return false
	}
	var fv *types.Var
	var base ssa.Value
	switch x := core.Strip(k).(type) {
	case *ssa.Field:
		fv, base = core.FieldOf(x), x.X
	case *ssa.UnOp:
		if fa, ok := x.X.(*ssa.FieldAddr); ok && x.Op == token.MUL {
			fv, base = core.FieldOf(fa), fa.X
		}
	}
	if fv == nil {
		return false
	}
	// base must be the iteration key (or its spilled variable)
	isKey := false
	if c, ok := r.roots[base]; ok && c == clsElem {
		isKey = true
	}
	if a, ok := base.(*ssa.Alloc); ok && oa.isIterationVar(r, a) {
		isKey = true
	}
	if !isKey {
		return false
	}
	field, root := containerRoot(r.source)
	ctors, sites, ok := oa.keyConstructorsOf(field, root)
	if !ok || sites == 0 {
		return false
	}
	for _, c := range ctors {
		sets := 0
		good := true
		core.EachInstr(c, func(ins ssa.Instruction) {
			if st, isSt := ins.(*ssa.Store); isSt {
				if fa, isFa := st.Addr.(*ssa.FieldAddr); isFa {
					sets++
					if core.FieldOf(fa) != fv {
						good = false
					}
				}
			}
		})
		if !good || sets == 0 {
			return false
		}
	}
	return true
}
