package rules

import (
	"fmt"
	"go/token"
	"go/types"
	"sort"

	"golang.org/x/tools/go/ssa"

	"knutlint/core"
)

// RuleKComparePrims — the primitive comparators of lib/common/compare, which
// the ordering rules (A-sort, K-sorted-days) trust by identity, are what they
// are trusted to be: total orders that agree with the values.
//
//   - a comparator of two time.Time values decides through Before / After /
//     Equal / Compare or == on the values themselves; any other method of
//     time.Time on the way (UnixNano overflows outside 1678–2262, Format and
//     String depend on the location) is reported;
//   - the generic comparator over ordered types delegates to cmp.Compare, or,
//     if it uses < and >, is never instantiated with a floating point type
//     (< and > are not a total order on NaN: every comparison is false, so NaN
//     "equals" everything and sorted output depends on the input order).
func RuleKComparePrims(c *core.Ctx) {
	const rule = "K-compare-prims"
	p := c.P
	if p.Lookup(pkgCompare, "Order") == nil {
		c.Anchor(rule, "compare.Order")
		return
	}
	isOrder := func(t types.Type) bool {
		b, ok := t.Underlying().(*types.Basic)
		return ok && b.Info()&types.IsInteger != 0
	}
	n := 0
	var fns []*ssa.Function
	for _, fn := range p.SrcFuncs() {
		if core.PkgPathOf(fn) == pkgCompare && fn.Parent() == nil && len(fn.TypeArgs()) == 0 && len(fn.Params) == 2 && fn.Signature.Results().Len() == 1 && isOrder(fn.Signature.Results().At(0).Type()) {
			fns = append(fns, fn)
		}
	}
	sort.Slice(fns, func(i, j int) bool { return fns[i].String() < fns[j].String() })
	for _, fn := range fns {
		switch {
		case isTimeType(fn.Params[0].Type()) && isTimeType(fn.Params[1].Type()):
			n++
			key := core.FuncName(fn) + ":compares the instants themselves"
			bad := ""
			core.EachInstr(fn, func(ins ssa.Instruction) {
				call, ok := ins.(*ssa.Call)
				if !ok || bad != "" {
					return
				}
				callee := call.Call.StaticCallee()
				if callee == nil || callee.Pkg == nil || callee.Pkg.Pkg.Path() != "time" || callee.Signature.Recv() == nil {
					return
				}
				switch callee.Name() {
				case "Before", "After", "Equal", "Compare":
				default:
					bad = "time.Time." + callee.Name() + " at " + p.Pos(call.Pos())
				}
			})
			if bad == "" {
				c.Ob(rule, key, fn.Pos(), core.FuncName(fn), core.Discharged, "decides by Before/After/Equal/Compare or == only")
			} else {
				c.Ob(rule, key, fn.Pos(), core.FuncName(fn), core.Violated, "the comparator of dates goes through "+bad+": the order of days is then the order of a derived number or string, which is not the order of the dates for every date (UnixNano overflows outside 1678–2262)")
			}
		case fn.TypeParams().Len() > 0:
			// the generic comparator: < / > on the parameters?
			usesOps := false
			core.EachInstr(fn, func(ins ssa.Instruction) {
				if bo, ok := ins.(*ssa.BinOp); ok && (bo.Op == token.LSS || bo.Op == token.GTR || bo.Op == token.LEQ || bo.Op == token.GEQ) {
					usesOps = true
				}
			})
			n++
			key := core.FuncName(fn) + ":total on every type it is instantiated with"
			if !usesOps {
				c.Ob(rule, key, fn.Pos(), core.FuncName(fn), core.Discharged, "delegates the comparison (cmp.Compare orders NaN before every number)")
				continue
			}
			// instantiations with floating point types anywhere in the module
			floatAt := ""
			for _, caller := range p.SrcFuncs() {
				if !p.InModule(caller) || floatAt != "" {
					continue
				}
				core.EachInstr(caller, func(ins ssa.Instruction) {
					for _, op := range ins.Operands(nil) {
						if op == nil || *op == nil {
							continue
						}
						f, ok := (*op).(*ssa.Function)
						if !ok || core.OriginOf(f) != fn {
							continue
						}
						for _, ta := range f.TypeArgs() {
							if b, ok := ta.Underlying().(*types.Basic); ok && b.Info()&types.IsFloat != 0 {
								floatAt = fmt.Sprintf("%s in %s", ta.String(), core.FuncName(caller))
							}
						}
					}
				})
			}
			if floatAt == "" {
				c.Ob(rule, key, fn.Pos(), core.FuncName(fn), core.Discharged, "uses < and >, and is not instantiated with a floating point type")
			} else {
				c.Ob(rule, key, fn.Pos(), core.FuncName(fn), core.Violated, "the generic comparator uses < and > and is instantiated with "+floatAt+": NaN compares equal to everything, the comparator is not a total order and sorted output depends on the input (map) order")
			}
		}
	}
	c.Floor(rule, 2)
}
