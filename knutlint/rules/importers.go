package rules

import (
	"fmt"
	"go/token"
	"go/types"
	"sort"
	"strings"

	"golang.org/x/tools/go/ssa"

	"knutlint/core"
)

// RuleHQuotes — the free text printed between double quotes by the journal
// printer cannot contain a double quote (the grammar has no escape): the
// value handed to the quoting format is the result of
// strings.ReplaceAll(description, "\"", <constant without a quote>), and is
// otherwise the Description field unchanged.
func RuleHQuotes(c *core.Ctx) {
	const rule = "H-quotes"
	p := c.P
	d := p.Func(pkgJPrinter, "Printer.PrintDirective")
	descF := p.Field(pkgTransaction, "Transaction", "Description")
	if d == nil || descF == nil {
		c.Anchor(rule, "journal printer dispatch / Transaction.Description")
		return
	}
	n := 0
	for _, fn := range printerFor(p, d) {
		type sink struct {
			at     ssa.Instruction
			quoted ssa.Value
		}
		var sinks []sink
		core.EachInstr(fn, func(ins ssa.Instruction) {
			switch x := ins.(type) {
			case *ssa.Call:
				// form 1: fmt.Fprintf(w, `… "%s" …`, args…)
				if x.Call.StaticCallee() == nil || x.Call.StaticCallee().String() != "fmt.Fprintf" {
					return
				}
				format, ok := core.ConstString(x.Call.Args[1])
				if !ok || !strings.Contains(format, `"%s"`) {
					return
				}
				idx := strings.Count(format[:strings.Index(format, `"%s"`)], "%")
				var quoted ssa.Value
				if sl, ok := x.Call.Args[2].(*ssa.Slice); ok {
					if arr, ok := sl.X.(*ssa.Alloc); ok && arr.Referrers() != nil {
						for _, r := range *arr.Referrers() {
							if ia, ok := r.(*ssa.IndexAddr); ok {
								if k, ok := core.ConstInt(ia.Index); ok && int(k) == idx {
									for _, st := range core.StoresTo(ia) {
										quoted = core.Strip(st.Val)
									}
								}
							}
						}
					}
				}
				sinks = append(sinks, sink{x, quoted})
			case *ssa.BinOp:
				// form 2: … + `"` + v + `"` …  (string concatenation)
				if x.Op != token.ADD {
					return
				}
				left, ok := x.X.(*ssa.BinOp)
				if !ok || left.Op != token.ADD {
					return
				}
				lc, ok := core.ConstString(left.Y)
				if !ok || !strings.HasSuffix(lc, `"`) {
					return
				}
				if _, isConst := x.Y.(*ssa.Const); isConst {
					return
				}
				closed := false
				if x.Referrers() != nil {
					for _, r := range *x.Referrers() {
						if nx, ok := r.(*ssa.BinOp); ok && nx.Op == token.ADD && nx.X == ssa.Value(x) {
							if rc, ok := core.ConstString(nx.Y); ok && strings.HasPrefix(rc, `"`) {
								closed = true
							}
						}
					}
				}
				if closed {
					sinks = append(sinks, sink{x, core.Strip(x.Y)})
				}
			}
		})
		for _, sk := range sinks {
			call, quoted := sk.at, sk.quoted
			n++
			key := core.FuncName(fn) + ":text printed between quotes"
			if quoted == nil {
				c.Ob(rule, key, call.Pos(), core.FuncName(fn), core.Undecided, "could not identify the argument printed between quotes")
				continue
			}
			rep, ok := quoted.(*ssa.Call)
			if !ok || rep.Call.StaticCallee() == nil || rep.Call.StaticCallee().String() != "strings.ReplaceAll" {
				c.Ob(rule, key, call.Pos(), core.FuncName(fn), core.Violated, "the text printed between double quotes is not passed through strings.ReplaceAll(…, \"\\\"\", …): a description containing a double quote (importers copy free text from bank statements) yields a journal that does not parse")
				continue
			}
			old, ok1 := core.ConstString(rep.Call.Args[1])
			nw, ok2 := core.ConstString(rep.Call.Args[2])
			fromDesc := false
			if ld, ok := core.Strip(rep.Call.Args[0]).(*ssa.UnOp); ok {
				if fa, ok := ld.X.(*ssa.FieldAddr); ok && core.FieldOf(fa) == descF {
					fromDesc = true
				}
			}
			switch {
			case !ok1 || old != `"`:
				c.Ob(rule, key, call.Pos(), core.FuncName(fn), core.Violated, "the replacement on the quoted text does not remove the double quote")
			case !ok2 || strings.Contains(nw, `"`) || strings.ContainsAny(nw, "\n\r"):
				c.Ob(rule, key, call.Pos(), core.FuncName(fn), core.Violated, "the replacement for a double quote itself contains a double quote or a line break")
			case !fromDesc:
				c.Ob(rule, key, call.Pos(), core.FuncName(fn), core.Violated, "the quoted text is not the transaction's Description field itself (it has been transformed before): the printed description differs from the booked one, so the printed journal is not a fixed point of print")
			default:
				c.Ob(rule, key, call.Pos(), core.FuncName(fn), core.Discharged, fmt.Sprintf("Description with %q replaced by %q; otherwise verbatim", old, nw))
			}
		}
	}
	if n == 0 {
		c.Ob(rule, "journal printer:text printed between quotes", d.Pos(), core.FuncName(d), core.Undecided, "no quoted %s found in the journal printer")
	}
	c.Floor(rule, 1)
}

// RuleFModelOnly — the journal printer is a function of the model content:
// it reads no Src field (the syntax the directive was parsed from) and not
// Posting.Value.
func RuleFModelOnly(c *core.Ctx) {
	const rule = "F-model-only"
	p := c.P
	d := p.Func(pkgJPrinter, "Printer.PrintDirective")
	if d == nil {
		c.Anchor(rule, "journal printer dispatch")
		return
	}
	oa := newOrderAnalysis(c)
	pf := printerFor(p, d)
	var names []string
	for n := range pf {
		names = append(names, n)
	}
	sort.Strings(names)
	for _, tn := range names {
		fn := pf[tn]
		read := map[string]bool{}
		oa.fieldsRead(fn, map[*ssa.Function]bool{}, read)
		var bad []string
		for f := range read {
			if strings.HasSuffix(f, ".Src") || f == "Posting.Value" {
				bad = append(bad, f)
			}
		}
		sort.Strings(bad)
		short := tn[strings.LastIndex(tn, ".")+1:]
		key := "journal printer:" + short + " reads model content only"
		if len(bad) == 0 {
			c.Ob(rule, key, fn.Pos(), core.FuncName(fn), core.Discharged, "no Src or Value field is read")
		} else {
			c.Ob(rule, key, fn.Pos(), core.FuncName(fn), core.Violated, "the journal printer reads "+strings.Join(bad, ", ")+": the printed text depends on how the directive was written in its source file (or on a valuation), not only on the booked content — a re-print of the printed journal can differ, and normalised postings (swapped accounts, negated quantity) no longer match the source text")
		}
	}
	c.Floor(rule, 5)
}

// RuleKRegistryOrigin — the accounts and commodities an importer puts into
// its postings, prices and assertions come from the registries (whose
// accessors validate names) or from flags resolved through a registry.
func RuleKRegistryOrigin(c *core.Ctx) {
	const rule = "K-registry-origin"
	p := c.P
	acctT := p.NamedType(pkgAccount, "Account")
	comT := p.NamedType(pkgCommodity, "Commodity")
	if acctT == nil || comT == nil {
		c.Anchor(rule, "account.Account / commodity.Commodity")
		return
	}
	isModelPtr := func(t types.Type) bool {
		pt, ok := t.Underlying().(*types.Pointer)
		return ok && (isNamed(pt.Elem(), acctT) || isNamed(pt.Elem(), comT))
	}
	okCallee := func(fn *ssa.Function) bool {
		pkg := core.PkgPathOf(fn)
		return pkg == pkgAccount || pkg == pkgCommodity || pkg == pkgFlags || pkg == pkgRegistry
	}
	keyT := p.NamedType(pkgAmounts, "Key")
	curPkg := ""
	var fromRegistry func(v ssa.Value, seen map[ssa.Value]bool) string
	// keyField: a field of an amounts.Key used by an importer: the matching
	// arguments of the key constructor calls in that importer package
	keyField := func(ft types.Type, seen map[ssa.Value]bool) string {
		bad, n := "", 0
		for _, fn := range p.SrcFuncs() {
			if core.PkgPathOf(fn) != curPkg {
				continue
			}
			core.EachInstr(fn, func(ins ssa.Instruction) {
				call, ok := ins.(*ssa.Call)
				if !ok || call.Call.StaticCallee() == nil || core.PkgPathOf(call.Call.StaticCallee()) != pkgAmounts {
					return
				}
				if !isNamed(call.Type(), keyT) {
					return
				}
				for _, a := range call.Call.Args {
					if types.Identical(a.Type(), ft) {
						n++
						if w := fromRegistry(a, seen); w != "" {
							bad = w
						}
					}
				}
			})
		}
		if n == 0 {
			return "a key field that no key constructor call in this importer sets"
		}
		return bad
	}
	fromRegistry = func(v ssa.Value, seen map[ssa.Value]bool) string {
		v = core.Strip(v)
		if seen[v] {
			return ""
		}
		seen[v] = true
		switch x := v.(type) {
		case *ssa.Const:
			return "" // nil
		case *ssa.Call:
			callee := x.Call.StaticCallee()
			if callee != nil && okCallee(callee) {
				return ""
			}
			if callee != nil && p.InModule(callee) {
				// helper inside the importer: its returns
				bad := ""
				core.EachInstr(callee, func(ins ssa.Instruction) {
					if ret, ok := ins.(*ssa.Return); ok {
						for _, rv := range ret.Results {
							if isModelPtr(rv.Type()) {
								if w := fromRegistry(rv, seen); w != "" {
									bad = w
								}
							}
						}
					}
				})
				return bad
			}
			return "result of " + calleeText(x)
		case *ssa.Extract:
			return fromRegistry(x.Tuple, seen)
		case *ssa.Phi:
			for _, e := range x.Edges {
				if w := fromRegistry(e, seen); w != "" {
					return w
				}
			}
			return ""
		case *ssa.UnOp:
			if x.Op != token.MUL {
				return describeValue(p, v)
			}
			switch a := x.X.(type) {
			case *ssa.Alloc:
				for _, s := range core.AllStoresToCell(a) {
					if w := fromRegistry(s.Val, seen); w != "" {
						return w
					}
				}
				return ""
			case *ssa.FreeVar:
				if cell := cellOf(a); cell != nil {
					if al, ok := cell.(*ssa.Alloc); ok {
						for _, s := range core.AllStoresToCell(al) {
							if w := fromRegistry(s.Val, seen); w != "" {
								return w
							}
						}
						return ""
					}
					return fromRegistry(cell, seen)
				}
			case *ssa.FieldAddr:
				// a field of the importer's own parser struct: every store to it
				fv := core.FieldOf(a)
				if core.FieldIs(fv, keyT, fv.Name()) {
					return keyField(fv.Type(), seen)
				}
				bad := ""
				nst := 0
				for _, fn := range p.SrcFuncs() {
					core.EachInstr(fn, func(ins ssa.Instruction) {
						st, ok := ins.(*ssa.Store)
						if !ok {
							return
						}
						if fa, ok := st.Addr.(*ssa.FieldAddr); ok && core.FieldOf(fa) == fv {
							nst++
							if w := fromRegistry(st.Val, seen); w != "" {
								bad = w
							}
						}
					})
				}
				// the field's address handed out (a table of {flag, &p.field} pairs): the
				// stores through pointers of that type in the same function assign it
				for _, fn := range p.SrcFuncs() {
					taken := false
					core.EachInstr(fn, func(ins ssa.Instruction) {
						if st, ok := ins.(*ssa.Store); ok {
							if fa, ok := st.Val.(*ssa.FieldAddr); ok && core.FieldOf(fa) == fv {
								taken = true
							}
						}
					})
					if !taken {
						continue
					}
					core.EachInstr(fn, func(ins ssa.Instruction) {
						st, ok := ins.(*ssa.Store)
						if !ok {
							return
						}
						switch st.Addr.(type) {
						case *ssa.FieldAddr, *ssa.Alloc, *ssa.IndexAddr:
							return
						}
						if pt, ok := st.Addr.Type().Underlying().(*types.Pointer); ok && types.Identical(pt.Elem(), fv.Type()) {
							nst++
							if w := fromRegistry(st.Val, seen); w != "" {
								bad = w
							}
						}
					})
				}
				if nst == 0 {
					return "field " + p.FieldRef(fv) + " that is never assigned"
				}
				return bad
			case *ssa.IndexAddr:
				return fromRegistry(a.X, seen)
			}
		case *ssa.Lookup:
			// map of accounts/commodities filled from the registry
			return fromRegistry(x.X, seen)
		case *ssa.Field:
			if fv := core.FieldOf(x); core.FieldIs(fv, keyT, fv.Name()) {
				return keyField(fv.Type(), seen)
			}
			return fromRegistry(x.X, seen)
		case *ssa.Parameter:
			// resolved at the callers
			fn := x.Parent()
			idx := -1
			for i, prm := range fn.Params {
				if prm == x {
					idx = i
				}
			}
			if n := p.CG.Nodes[fn]; n != nil {
				for _, e := range n.In {
					args := e.Site.Common().Args
					if idx >= 0 && idx < len(args) {
						if w := fromRegistry(args[idx], seen); w != "" {
							return w
						}
					}
				}
			}
			return ""
		case *ssa.MakeMap:
			return ""
		case *ssa.Alloc:
			if pt, ok := x.Type().Underlying().(*types.Pointer); ok && (isNamed(pt.Elem(), acctT) || isNamed(pt.Elem(), comT)) {
				return "an object allocated by hand"
			}
			return ""
		}
		return describeValue(p, v)
	}
	n := 0
	for _, fn := range p.SrcFuncs() {
		pkg := core.PkgPathOf(fn)
		if !strings.HasPrefix(pkg, pkgImporter+"/") {
			continue
		}
		short := strings.TrimPrefix(pkg, pkgImporter+"/")
		curPkg = pkg
		core.EachInstr(fn, func(ins ssa.Instruction) {
			st, ok := ins.(*ssa.Store)
			if !ok || !isModelPtr(st.Val.Type()) {
				return
			}
			fa, ok := st.Addr.(*ssa.FieldAddr)
			if !ok {
				return
			}
			fv := core.FieldOf(fa)
			if fv.Pkg() == nil || !strings.HasPrefix(fv.Pkg().Path(), core.Module+"/lib/model") {
				return // only fields of model builders / directives
			}
			n++
			key := fmt.Sprintf("%s:%s.%s = %s", core.FuncName(fn), short, p.FieldRef(fv), describeValue(p, st.Val))
			if w := fromRegistry(st.Val, map[ssa.Value]bool{}); w == "" {
				c.Ob(rule, key, st.Pos(), core.FuncName(fn), core.Discharged, "obtained from a registry accessor (which validates the name) or from a flag resolved through the registry")
			} else {
				c.Ob(rule, key, st.Pos(), core.FuncName(fn), core.Violated, "an account or commodity used in the emitted journal does not come from the registry but from "+w+": its name is not validated and may not be valid knut syntax")
			}
		})
	}
	c.Floor(rule, 30)
}

// RuleKPrintPairs — the journal printer prints exactly one booking line per
// posting pair: in the loop over Transaction.Postings the only condition that
// skips a posting is the parity of the loop index.
func RuleKPrintPairs(c *core.Ctx) {
	const rule = "K-print-pairs"
	p := c.P
	d := p.Func(pkgJPrinter, "Printer.PrintDirective")
	postings := p.Field(pkgTransaction, "Transaction", "Postings")
	printPosting := p.Func(pkgJPrinter, "Printer.printPosting")
	if d == nil || postings == nil || printPosting == nil {
		c.Anchor(rule, "journal printer dispatch / Transaction.Postings / printPosting")
		return
	}
	n := 0
	for _, fn := range printerFor(p, d) {
		core.EachInstr(fn, func(ins ssa.Instruction) {
			call, ok := ins.(*ssa.Call)
			if !ok || call.Call.StaticCallee() != printPosting {
				return
			}
			n++
			key := core.FuncName(fn) + ":one booking line per posting pair"
			// innermost loop containing the call
			var loop map[*ssa.BasicBlock]bool
			for _, body := range loopsOf(fn) {
				if body[call.Block()] && (loop == nil || len(body) < len(loop)) {
					loop = body
				}
			}
			if loop == nil {
				c.Ob(rule, key, call.Pos(), core.FuncName(fn), core.Violated, "postings are not printed in a loop over the transaction's postings")
				return
			}
			parity := false
			// form 2: the loop index itself moves in steps of two (for i := 1; i < n; i += 2)
			if len(call.Call.Args) >= 2 {
				if ld, ok := core.Strip(call.Call.Args[1]).(*ssa.UnOp); ok {
					if ia, ok := ld.X.(*ssa.IndexAddr); ok {
						if ph, ok := ia.Index.(*ssa.Phi); ok {
							steps := true
							any := false
							for i, e := range ph.Edges {
								if !loop[ph.Block().Preds[i]] {
									if _, isConst := e.(*ssa.Const); !isConst {
										steps = false
									}
									continue
								}
								any = true
								bo, ok := e.(*ssa.BinOp)
								if !ok || bo.Op != token.ADD || bo.X != ssa.Value(ph) {
									steps = false
									continue
								}
								if k, ok := core.ConstInt(bo.Y); !ok || k != 2 {
									steps = false
								}
							}
							if f, _ := containerRoot(ia.X); f == postings && steps && any {
								parity = true
							}
						}
					}
				}
			}
			var bad []string
			for b := range loop {
				iff, isIf := b.Instrs[len(b.Instrs)-1].(*ssa.If)
				if !isIf {
					continue
				}
				if ctl, _ := core.Controls(b, call.Block()); !ctl {
					continue
				}
				bo, isBo := iff.Cond.(*ssa.BinOp)
				if isBo && bo.Op == token.LSS {
					continue // loop bound
				}
				if isBo && (bo.Op == token.EQL || bo.Op == token.NEQ) {
					if rem, ok := bo.X.(*ssa.BinOp); ok && rem.Op == token.REM && isRangeIndex(rem.X) {
						if k, ok := core.ConstInt(rem.Y); ok && k == 2 {
							parity = true
							continue
						}
					}
					if core.IsNilConst(bo.X) || core.IsNilConst(bo.Y) {
						continue
					}
				}
				bad = append(bad, describeValue(p, iff.Cond))
			}
			switch {
			case len(bad) > 0:
				c.Ob(rule, key, call.Pos(), core.FuncName(fn), core.Violated, "whether a posting is printed depends on "+strings.Join(bad, "; ")+", not only on its position in the pair: for some amounts (zero, negative) a transaction is printed with no booking line, or with two")
			case !parity:
				c.Ob(rule, key, call.Pos(), core.FuncName(fn), core.Violated, "every posting is printed: each booking appears twice")
			default:
				c.Ob(rule, key, call.Pos(), core.FuncName(fn), core.Discharged, "exactly the postings at one parity of the index are printed (one per builder-made pair)")
			}
		})
	}
	if n == 0 {
		c.Ob(rule, "journal printer:one booking line per posting pair", d.Pos(), core.FuncName(d), core.Undecided, "printPosting is never called")
	}
	c.Floor(rule, 1)
}
