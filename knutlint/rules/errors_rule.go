package rules

import (
	"fmt"
	"strings"

	"golang.org/x/tools/go/ssa"

	"knutlint/core"
)

// reviewedDroppedErrors: caller -> callee -> reason.
var reviewedDroppedErrors = map[string]string{
	"lib/model/account.NewRegistry -> (*lib/model/account.Registry).Get":                 "the five root account names are constants that pass the validator",
	"(lib/reports/weights.Query).Execute$1 -> (*lib/reports/weights.Report).Add":         "Report.Add always returns nil",
	"lib/model.FromStream$1 -> lib/common/cpr.ForEach":                                   "ForEach fails only when the context is cancelled, i.e. when a sibling stage has failed; that stage's error is what wg.Wait() returns next",
	"package lib/common/table -> (*lib/common/table.TextRenderer).renderCell":            "inside the text renderer: renderCell fails only for an unknown cell type (excluded by F-cells) or when the writer fails, which the WriteString that follows every cell reports",
	"(lib/journal/check.Error).Error -> (*lib/journal/printer.Printer).PrintDirectiveLn": "writes into a strings.Builder, which cannot fail",
}

// RuleKErrors — errors are values that reach the exit status: no call to a
// module function (or to os, encoding/csv, decimal.NewFromString, time.Parse)
// reachable from a journal-processing command drops its error result.
func RuleKErrors(c *core.Ctx) {
	const rule = "K-errors"
	p := c.P
	entries := core.CommandEntries(c, func(use string) bool { return core.JournalCommandUses[use] })
	if len(entries) < 8 {
		c.Anchor(rule, fmt.Sprintf("journal command entries (found %d of 8)", len(entries)))
		return
	}
	reach := p.ReachLexical(entries...)
	checked, dropped := 0, 0
	for fn := range reach {
		if !p.InModule(fn) || fn.Blocks == nil {
			continue
		}
		core.EachInstr(fn, func(ins ssa.Instruction) {
			call, ok := ins.(*ssa.Call)
			if !ok {
				return
			}
			sig := call.Call.Signature()
			n := sig.Results().Len()
			if n == 0 || !core.IsErrorType(sig.Results().At(n-1).Type()) {
				return
			}
			callee := call.Call.StaticCallee()
			interesting := false
			name := ""
			if callee != nil {
				name = core.FuncName(callee)
				pkg := core.PkgPathOf(callee)
				switch {
				case p.InModule(callee):
					interesting = true
				case pkg == "os" || pkg == "encoding/csv" || pkg == "time" && callee.Name() == "Parse" || pkg == pkgDecimal && callee.Name() == "NewFromString" || pkg == pkgAtomic || pkg == "io" && callee.Name() == "Copy":
					interesting = true
				}
			} else if call.Call.IsInvoke() {
				name = "interface." + call.Call.Method.Name()
				if m := call.Call.Method; m.Pkg() != nil && strings.HasPrefix(m.Pkg().Path(), core.Module) {
					interesting = true
				}
			} else {
				// dynamic call of a function value declared in the module (processor callbacks, stage functions)
				name = "func value " + describeValue(p, call.Call.Value)
				interesting = true
			}
			if !interesting {
				return
			}
			used := false
			if n == 1 {
				used = call.Referrers() != nil && len(*call.Referrers()) > 0
			} else if call.Referrers() != nil {
				for _, r := range *call.Referrers() {
					if ex, ok := r.(*ssa.Extract); ok && ex.Index == n-1 && ex.Referrers() != nil && len(*ex.Referrers()) > 0 {
						used = true
					}
				}
			}
			if used {
				checked++
				return
			}
			dropped++
			key := fmt.Sprintf("%s -> %s", originName(fn), strings.TrimPrefix(name, core.Module+"/"))
			if callee != nil {
				key = fmt.Sprintf("%s -> %s", originName(fn), originName(callee))
			}
			if why, ok := reviewedDroppedErrors[key]; ok {
				c.Ob(rule, key, call.Pos(), originName(fn), core.Discharged, "reviewed: "+why)
				return
			}
			// Builder.Add fails only in the default case of its type switch: a call
			// whose argument has one of the switched types statically cannot fail
			if callee != nil && originName(callee) == "(*lib/journal.Builder).Add" && len(call.Call.Args) == 2 {
				if mi, ok := call.Call.Args[1].(*ssa.MakeInterface); ok {
					if _, known := typeSwitchTypes(callee)[typeShort(mi.X.Type())]; known {
						c.Ob(rule, key, call.Pos(), originName(fn), core.Discharged, "Builder.Add fails only for a directive type outside its type switch; the argument is statically a "+typeShort(mi.X.Type())+", which the switch handles")
						return
					}
				}
			}
			if callee != nil {
				pkgKey := fmt.Sprintf("package %s -> %s", strings.TrimPrefix(core.PkgPathOf(fn), core.Module+"/"), originName(callee))
				if why, ok := reviewedDroppedErrors[pkgKey]; ok {
					c.Ob(rule, key, call.Pos(), originName(fn), core.Discharged, "reviewed: "+why)
					return
				}
			}
			c.Ob(rule, key, call.Pos(), originName(fn), core.Violated, "the error result of this call is discarded: a failure in an included file, a conversion or a stage does not reach the command's exit status, and the command reports success (or prints a partial report)")
		})
	}
	c.Ob(rule, "checked error results", 0, "", verdictIf(checked > 50), fmt.Sprintf("%d calls returning an error in reach of the journal commands use the error; %d drop it", checked, dropped))
	c.Floor(rule, 3)
}
